"""Engine `action` (C12): the real csr.action components vs Model/Actions.v."""
from ..common import mkrnd
from .. import sim as S

ENGINE_ID = 12
RAW_COMPARE = True          # from_model is the identity: model sx == canon(obs)

STORAGE = ["RW", "RW1C", "RW1S"]
RESERVED = ["ResRAW0", "ResRAWL", "ResR0WA", "ResR0W0"]
KCODE = {"R": 0, "W": 1, "RW": 2, "RW1C": 3, "RW1S": 4, **{k: 5 for k in RESERVED}}
WIDTHS = [0, 1, 2, 3, 4, 5, 6, 7, 8, 16, 33, 64]
# documented hardware-side members of each action (besides `port`)
MEMBERS = {"R": {"r_data", "r_stb"}, "W": {"w_data", "w_stb"}, "RW": {"data"},
           "RW1C": {"data", "set"}, "RW1S": {"data", "clear"}, **{k: set() for k in RESERVED}}

# (kind, width) strata walked by the long streams
COMBOS = ([(k, w) for k in STORAGE for w in WIDTHS] +
          [(k, w) for k in ("R", "W") for w in (0, 1, 4, 8, 33)] +
          list(zip(RESERVED, (0, 1, 5, 64))))
N_EXH, N_SHORT = 12, 24
N = {"quick": N_EXH + N_SHORT + 2 * len(COMBOS), "thorough": N_EXH + N_SHORT + 20 * len(COMBOS)}
RULE = ("kinds: exh = every (storage state x w_stb x w_data x set/clear) pair of RW/RW1C/RW1S for widths 0-3, "
        "each forced by a preparation cycle, 8x (thorough 24x) in shuffled orders; rand = every input bit uniformly random each "
        "cycle (3000 cycles for widths <= 8, 600 for 16/33/64; 300 for the stateless R/W/reserved); biased = same "
        "with a per-case strobe probability and bit density; short = 40 random cycles (also replayed inside Coq). "
        "Shapes: unsigned, signed, lib.enum Enum/Flag (unsigned or signed underlying shape); init in range, out of "
        "range, negative or omitted.  Non-trivial: width >= 1 and the storage changed value >= 2 times (RW1C/RW1S: "
        "also >= 1 cycle where one bit is set and cleared at once); R/W: both strobe values and >= 2 distinct data "
        "values passed; reserved: strobes asserted.  Mid-run synchronous resets: about 30 % of the RW/RW1C/RW1S cases "
        "of width >= 1 assert the sync reset in 1-3 cycles (ResetInserter around the real action); three quarters of "
        "them are prepared: the cycle before forces the storage to a value other than init, and in the reset cycle the "
        "same write / set / clear is held (reset must win, and the held write lands one cycle later) or the field is "
        "left alone (the stored value must still go back to init).  R/W/reserved and width-0 fields have no register: "
        "no resets there.")


def mask(w):
    return (1 << w) - 1


# ---------------------------------------------------------------------------------------- generators

def gen_range(rnd, w):
    """a range(lo, hi) whose cast shape is w bits wide and which (usually) does not fill those bits"""
    from amaranth.hdl import Shape
    if w == 0:
        return 0, 1
    for _ in range(200):
        if rnd.random() < 0.5:
            hi = rnd.randint((1 << (w - 1)) + 1, 1 << w); lo = rnd.randint(0, hi - 1)
        else:
            half = 1 << (w - 1)
            lo = -rnd.randint(1, half); hi = rnd.randint(1, half)
        if Shape.cast(range(lo, hi)).width == w:
            return lo, hi
    return 0, 1 << w


def gen_shape(rnd, w, kind):
    t = rnd.choice(["u", "u", "s", "enum", "flag", "range"])
    if t == "range" and w > 16:          # len(range) must fit a C ssize_t inside Shape.cast
        t = "u"
    if t == "range":
        lo, hi = gen_range(rnd, w)
        return {"t": "range", "w": w, "lo": lo, "hi": hi}
    if t in ("s", "flag") and w == 0:    # signed(0) and a Flag without members do not exist
        t = "u"
    sh = {"t": t, "w": w}
    if t == "enum":
        sg = w >= 1 and rnd.random() < 0.4
        lo, hi = (-(1 << (w - 1)), (1 << (w - 1))) if sg else (0, 1 << w)
        vals = {0}
        for _ in range(rnd.randint(0, 5)):
            vals.add(rnd.randrange(lo, hi))
        sh["signed"] = sg
        sh["members"] = sorted(vals)
    elif t == "flag":
        sh["members"] = [1 << b for b in range(w) if rnd.random() < 0.7] or [1 << rnd.randrange(w)]
    return sh


def gen_init(rnd, sh):
    """None = constructor default.  Enum/Flag inits must be constant initialisers of the enum
    (Signal() itself refuses anything else), so they are drawn from the members."""
    w = sh["w"]
    if rnd.random() < 0.12 and not (sh["t"] == "range" and not (sh["lo"] <= 0 < sh["hi"])):
        return None
    if sh["t"] == "range":           # must lie inside the range (anything else is refused with ValueError)
        return rnd.randrange(sh["lo"], sh["hi"])
    if sh["t"] == "enum":
        return rnd.choice(sh["members"])
    if sh["t"] == "flag":
        v = 0
        for m in sh["members"]:
            if rnd.random() < 0.5:
                v |= m
        return v
    if rnd.random() < 0.2:   # out of range / negative: Signal() keeps the low w bits
        return rnd.randrange(-(1 << (w + 1)), (1 << (w + 2)) + 1)
    if sh["t"] == "s":
        return rnd.randrange(-(1 << (w - 1)), 1 << (w - 1))
    return rnd.randrange(1 << w)


def gen_cfg(rnd, kind, w):
    sh = gen_shape(rnd, w, kind)
    cfg = {"kind": kind, "shape": sh, "init": None}
    if kind in STORAGE:
        cfg["init"] = gen_init(rnd, sh)
    return cfg


def rand_word(rnd, w, dens):
    if w == 0:
        return 0
    if dens is None:
        return rnd.getrandbits(w)
    v = 0
    for b in range(w):
        if rnd.random() < dens:
            v |= 1 << b
    return v


def rand_row(rnd, w, ps=None, dens=None):
    """[port.r_stb, port.w_stb, port.w_data, r_data, set, clear] — every input every cycle."""
    return [rnd.randrange(2), (rnd.randrange(2) if ps is None else int(rnd.random() < ps)),
            rand_word(rnd, w, dens), rand_word(rnd, w, None), rand_word(rnd, w, dens), rand_word(rnd, w, dens)]


def gen_exh(rnd, kind, w, reps):
    """Every (state, w_stb, w_data[, set | clear]) combination, each reached through a preparation
    cycle that forces the storage to `state`; the whole set `reps` times, each in a fresh random order."""
    cfg = gen_cfg(rnd, kind, w)
    full = mask(w)
    pairs = []
    for s in range(1 << w):
        for ws in (0, 1):
            for wd in range(1 << w):
                for aux in (range(1 << w) if kind != "RW" else [None]):
                    pairs.append((s, ws, wd, aux))
    stim = []
    for rep in range(reps):
        rnd.shuffle(pairs)
        for (s, ws, wd, aux) in pairs:
            r = rand_row(rnd, w)
            if kind == "RW":          # write s
                r[1], r[2] = 1, s
            elif kind == "RW1C":      # clear everything, set s (set wins)
                r[1], r[2], r[4] = 1, full, s
            else:                     # RW1S: clear everything, write-one s (set wins)
                r[1], r[2], r[5] = 1, s, full
            stim.append(r)
            r = rand_row(rnd, w)
            r[1], r[2] = ws, wd
            if kind == "RW1C":
                r[4] = aux
            elif kind == "RW1S":
                r[5] = aux
            stim.append(r)
    stim.append(rand_row(rnd, w))
    return {"engine": "action", "kind": "exh", "cfg": cfg, "stim": stim}


def force_row(rnd, kind, w, v):
    """A cycle after which the storage holds v whatever it held before."""
    r = rand_row(rnd, w)
    if kind == "RW":
        r[1], r[2] = 1, v
    elif kind == "RW1C":
        r[1], r[2], r[4] = 1, mask(w), v
    else:
        r[1], r[2], r[5] = 1, v, mask(w)
    return r


def add_resets(rnd, case):
    """Mid-run synchronous resets for ~30 % of the cases that have a register at all (storage kinds, width >= 1).
    Called last, so the stimulus of every case is what it was without this feature, except around the resets."""
    cfg = case["cfg"]; kind = cfg["kind"]; w = cfg["shape"]["w"]; stim = case["stim"]
    if kind not in STORAGE or w < 1 or len(stim) <= 20 or rnd.random() >= 0.3:
        return case
    rs = sorted(rnd.sample(range(3, len(stim) - 3), rnd.choice([1, 1, 2, 3])))
    case["resets"] = rs
    if case["kind"] == "exh":
        return case          # keep the (preparation, pair) structure: the reset just lands somewhere in it
    init = init_pattern(cfg)
    for r in rs:
        u = rnd.random()
        if u >= 0.75:
            continue         # wherever the random traffic happens to be
        v = init ^ (rnd.randrange(1, 1 << w))          # a pattern that is not the init pattern
        if (r - 1) not in rs:
            stim[r - 1] = force_row(rnd, kind, w, v)   # storage = v when the reset arrives
        if u < 0.45:
            # the write (set / write-one) is held through the reset: the reset wins in cycle r ...
            stim[r] = list(stim[r - 1]) if (r - 1) not in rs else force_row(rnd, kind, w, v)
            if rnd.random() < 0.6 and (r + 1) not in rs:
                stim[r + 1] = list(stim[r])            # ... and the held write lands right after it
        else:
            # nothing touches the field in the reset cycle: only the reset can bring it back to init
            q = rand_row(rnd, w)
            q[1] = 0; q[4] = 0; q[5] = 0
            stim[r] = q
    return case


def gen_case(seed, tier, idx):
    rnd = mkrnd(seed, "action", idx)
    return add_resets(rnd, gen_case0(rnd, tier, idx))


def gen_case0(rnd, tier, idx):
    if idx < N_EXH:
        return gen_exh(rnd, STORAGE[idx % 3], idx // 3, 8 if tier == "quick" else 24)
    if idx < N_EXH + N_SHORT:
        kind, w = rnd.choice(COMBOS)
        if rnd.random() < 0.5:
            kind = rnd.choice(STORAGE)
        cfg = gen_cfg(rnd, kind, w)
        return {"engine": "action", "kind": "short", "cfg": cfg, "stim": [rand_row(rnd, w) for _ in range(40)]}
    j = idx - N_EXH - N_SHORT
    kind, w = COMBOS[j % len(COMBOS)]
    biased = (j // len(COMBOS)) % 2 == 1
    cfg = gen_cfg(rnd, kind, w)
    T = (3000 if w <= 8 else 600) if kind in STORAGE else 300
    ps = rnd.choice([0.05, 0.2, 0.8, 0.95]) if biased else None
    dens = rnd.choice([0.1, 0.3, 0.7, 0.9]) if biased else None
    return {"engine": "action", "kind": "biased" if biased else "rand", "cfg": cfg,
            "stim": [rand_row(rnd, w, ps, dens) for _ in range(T)]}


# ---------------------------------------------------------------------------------------- model side

def to_model(case):
    cfg = case["cfg"]
    init = cfg["init"] if cfg["init"] is not None else 0
    return [[KCODE[cfg["kind"]], cfg["shape"]["w"], init], case["stim"]]


def _segments(case):
    """[(first, last)] cycle ranges; a segment ends with the cycle in which the reset is asserted"""
    rs = sorted(set(r for r in case.get("resets", []) if 0 <= r < len(case["stim"]) - 1))
    out, a = [], 0
    for r in rs:
        out.append((a, r)); a = r + 1
    out.append((a, len(case["stim"]) - 1))
    return out


def reset_cycles(case):
    """Cycles in which the reset is asserted and that have a successor in the trace."""
    return [b for (a, b) in _segments(case)[:-1]] if case["stim"] else []


def model_cases(case):
    """A mid-run synchronous reset starts the model again from its initial state (storage = init): one model run
    per segment, same configuration."""
    head = to_model(case)[0]
    if not case["stim"]:
        return [to_model(case)]
    return [[head, case["stim"][a:b + 1]] for (a, b) in _segments(case)]


def model_join(case, results):
    """The observation is the list of rows: segments are concatenated.  A segment the model refused to decode
    (not a list of rows) is passed on as it is, so that it shows as a mismatch."""
    rows = []
    for r in results:
        if not isinstance(r, list) or any(not isinstance(x, list) for x in r):
            return r
        rows += r
    return rows


def from_model(res):
    return res


# ---------------------------------------------------------------------------------------- implementation side

def mk_shape(sh):
    from amaranth import unsigned, signed
    from amaranth.lib import enum as aenum
    import types
    w = sh["w"]
    if sh["t"] == "u":
        return unsigned(w)
    if sh["t"] == "s":
        return signed(w)
    if sh["t"] == "range":
        return range(sh["lo"], sh["hi"])
    if sh["t"] == "enum":
        base, under = aenum.Enum, (signed(w) if sh.get("signed") else unsigned(w))
        members = {("M%d" % k): v for k, v in enumerate(sh["members"])}
    else:
        base, under = aenum.Flag, unsigned(w)
        members = {("B%d" % (v.bit_length() - 1)): v for v in sh["members"]}

    def body(ns):
        for k, v in members.items():
            ns[k] = v
    return types.new_class("Shape_" + sh["t"], (base,), {"shape": under}, body)


def build(cfg):
    from amaranth_soc.csr import action
    cls = getattr(action, cfg["kind"])
    shape = mk_shape(cfg["shape"])
    if cfg["kind"] in STORAGE and cfg["init"] is not None:
        return cls(shape, init=cfg["init"])
    return cls(shape)


def run_impl(case):
    """[rows, [member-set-as-documented, #statements-and-submodules-if-reserved-else-0]];
    row = [port.r_data, data, r_stb, w_stb, w_data], a member the action does not have reads 0."""
    from amaranth.hdl import Fragment
    cfg = case["cfg"]
    dut = build(cfg)
    members = set(dict(dut.signature.members).keys())
    ok_members = int(members == MEMBERS[cfg["kind"]] | {"port"})
    # stimulus columns: 0 r_stb 1 w_stb 2 w_data 3 r_data 4 set 5 clear
    ins = [(dut.port.r_stb, 0), (dut.port.w_stb, 1), (dut.port.w_data, 2)]
    for nm, col in (("r_data", 3), ("set", 4), ("clear", 5)):
        if nm in members:
            ins.append((getattr(dut, nm), col))
    outs = [(dut.port.r_data, 0)]
    for nm, col in (("data", 1), ("r_stb", 2), ("w_stb", 3), ("w_data", 4)):
        if nm in members:
            outs.append((getattr(dut, nm), col))
    rst = reset_cycles(case)
    # elaborated once: with resets it is sim.simulate that elaborates (the ResetInserter-wrapped design)
    if len(case["stim"]) % 3 == 0 and cfg["kind"] not in RESERVED:
        # every elaboration yields the same hardware: in a third of the runs what is simulated is the second
        # elaboration of the same action (the first result is thrown away)
        try:
            Fragment.get(dut, None)
        except Exception:
            pass
    frag = Fragment.get(dut, None) if (cfg["kind"] in RESERVED or not rst) else None
    nstmt = 0
    if cfg["kind"] in RESERVED:
        nstmt = sum(len(v) for v in frag.statements.values()) + len(frag.subfragments)
    stim = [[row[c] for (_, c) in ins] for row in case["stim"]]
    raw = S.simulate(dut, [s for s, _ in ins], [s for s, _ in outs], stim, frag=frag, reset_at=rst)
    rows = []
    for r in raw:
        o = [0] * 5
        for (_, col), v in zip(outs, r):
            o[col] = v
        rows.append(o)
    w = cfg["shape"]["w"]
    widths_ok = int(all(len(S.V(s)) == (1 if col in (2, 3) else w) for s, col in outs) and
                    all(len(S.V(s)) == (1 if col in (0, 1) else w) for s, col in ins))
    return [rows, [ok_members, nstmt, widths_ok]]


def canon(obs):
    return obs[0]


# ---------------------------------------------------------------------------------------- oracle

def init_pattern(cfg):
    w = cfg["shape"]["w"]
    return (cfg["init"] or 0) & mask(w)


def expected_next(kind, w, s, row):
    """The property's own rules, bit by bit."""
    _, ws, wd, _, st, cl = row
    if kind == "RW":
        return wd & mask(w) if ws else s
    n = 0
    for b in range(w):
        cur = (s >> b) & 1
        one = ws and (wd >> b) & 1
        if kind == "RW1C":
            nb = 1 if (st >> b) & 1 else (0 if one else cur)       # set wins, write-one clears
        else:
            nb = 1 if one else (0 if (cl >> b) & 1 else cur)       # write-one sets and wins, clear clears
        n |= nb << b
    return n


def oracle(case, obs):
    """C12 restated over implementation observations only."""
    cfg = case["cfg"]; kind = cfg["kind"]; w = cfg["shape"]["w"]; m = mask(w)
    rows, (ok_members, nstmt, widths_ok) = obs
    out = []
    if not ok_members:
        out.append(("C12", 0, f"{kind} does not have exactly the documented members {sorted(MEMBERS[kind])} + port"))
    if not widths_ok:
        out.append(("C12", 0, f"{kind}: a member does not have the field's width {w} (or a strobe is not 1 bit)"))
    if kind in RESERVED and nstmt:
        out.append(("C12", 0, f"reserved action {kind} elaborates to a non-empty module ({nstmt} statements/submodules)"))
    if len(rows) != len(case["stim"]):
        out.append(("C12", 0, "observation length differs from stimulus length"))
        return out
    exp = init_pattern(cfg)
    resets = set(reset_cycles(case))
    for t, (row, o) in enumerate(zip(case["stim"], rows)):
        rs, ws, wd, rd, st, cl = row
        prd, data, orstb, owstb, owd = o
        if kind == "R":
            if prd != rd & m or orstb != rs:
                out.append(("C12", t, f"R: port.r_data={prd:#x} r_stb={orstb}, expected r_data input {rd & m:#x} and port.r_stb {rs} in the same cycle"))
            if data or owstb or owd:
                out.append(("C12", t, "R: activity on a member it does not have"))
        elif kind == "W":
            if owd != wd & m or owstb != ws:
                out.append(("C12", t, f"W: w_data={owd:#x} w_stb={owstb}, expected port.w_data {wd & m:#x} and port.w_stb {ws} in the same cycle"))
            if prd or data or orstb:
                out.append(("C12", t, "W: port.r_data / other members not at reset value"))
        elif kind in RESERVED:
            if any(o):
                out.append(("C12", t, f"reserved {kind}: outputs {o} are not all at their reset value 0"))
        else:
            if data != prd:
                out.append(("C12", t, f"{kind}: data output {data:#x} differs from what a bus read returns {prd:#x}"))
            if prd != exp:
                why = "initial value" if t == 0 else "initial value again: the sync reset was asserted in the previous cycle" if (t - 1) in resets else f"previous value {prev:#x} under inputs w_stb={case['stim'][t-1][1]} w_data={case['stim'][t-1][2]:#x} set={case['stim'][t-1][4]:#x} clear={case['stim'][t-1][5]:#x}"
                out.append(("C12", t, f"{kind} width {w}: storage reads {prd:#x}, the documented rule gives {exp:#x} ({why})"))
            if orstb or owstb or owd:
                out.append(("C12", t, f"{kind}: activity on a member it does not have"))
            prev = prd
            # resynchronise on the observed value; a synchronous reset makes "holds its initial value until
            # written" apply afresh, whatever is written / set / cleared in the reset cycle itself
            exp = init_pattern(cfg) if t in resets else expected_next(kind, w, prd, row)
        if len(out) > 20:
            break
    return out


# ---------------------------------------------------------------------------------------- bookkeeping

def nontrivial(case, obs):
    """width >= 1 and: storage kinds — value changed >= 2 times (RW1C/RW1S: and >= 1 set/clear tie on a bit);
    R/W — both strobe values and >= 2 distinct data values; reserved — a strobe was asserted.
    Changes and ties in a cycle in which the reset is asserted do not count."""
    cfg = case["cfg"]; kind = cfg["kind"]; w = cfg["shape"]["w"]
    rows = obs[0]
    if w < 1 or not rows:
        return False
    if kind in RESERVED:
        return any(r[0] or r[1] for r in case["stim"])
    if kind == "R":
        return len({r[0] for r in case["stim"]}) == 2 and len({o[0] for o in rows}) >= 2
    if kind == "W":
        return len({r[1] for r in case["stim"]}) == 2 and len({o[4] for o in rows}) >= 2
    resets = set(reset_cycles(case))
    changes = sum(1 for t, (a, b) in enumerate(zip(rows, rows[1:])) if a[0] != b[0] and t not in resets)
    if changes < 2:
        return False
    if kind == "RW":
        return True
    aux = 4 if kind == "RW1C" else 5
    return any(r[1] and (r[2] & r[aux]) for t, r in enumerate(case["stim"]) if t not in resets)


def stats(case, obs):
    """Integer counters (summed over cases by the runner).  For RW/RW1C/RW1S of width <= 3,
    `cover.<kind>.w<w>.all_<P>_pairs_hit_at_least` is the minimum, over ALL P (state x w_stb x w_data
    [x set|clear]) pairs, of the number of cycles of this case in which the pair occurred; a sum of
    per-case minima is a lower bound for the minimum of the summed hit counts."""
    cfg = case["cfg"]; kind = cfg["kind"]; w = cfg["shape"]["w"]
    rows = obs[0]
    st = {f"cases.{kind}": 1, f"width.{w}": 1, f"shape.{cfg['shape']['t']}": 1,
          "cycles": len(rows), "cycles.w_stb": sum(r[1] for r in case["stim"])}
    if kind not in STORAGE:
        pass
    elif cfg["init"] is None:
        st["init.default"] = 1
    elif cfg["shape"]["t"] in "us" and not (0 <= cfg["init"] < (1 << w)):
        st["init.negative_or_out_of_range"] = 1
    if kind in STORAGE:
        aux = {"RW": None, "RW1C": 4, "RW1S": 5}[kind]
        if aux is not None:
            st["cycles.set_clear_tie"] = sum(1 for r in case["stim"] if r[1] and (r[2] & r[aux]))
        resets = set(reset_cycles(case))
        st["storage_changes"] = sum(1 for t, (a, b) in enumerate(zip(rows, rows[1:])) if a[0] != b[0] and t not in resets)
        if resets:
            ip = init_pattern(cfg)
            st["cases.with_resets"] = 1
            st["resets"] = len(resets)
            st["resets.storage_not_init"] = sum(1 for t in resets if rows[t][0] != ip)
            st["resets.rule_alone_would_not_give_init"] = sum(
                1 for t in resets if expected_next(kind, w, rows[t][0], case["stim"][t]) != ip)
            st["resets.write_or_set_in_reset_cycle"] = sum(
                1 for t in resets if case["stim"][t][1] or (aux == 4 and case["stim"][t][4] & mask(w)))
            st["resets.held_write_lands_next_cycle"] = sum(
                1 for t in resets if t + 2 < len(rows) and (t + 1) not in resets
                and case["stim"][t + 1] == case["stim"][t] and rows[t + 2][0] != ip)
        if w <= 3:
            hits = {}
            for t, (r, o) in enumerate(zip(case["stim"], rows)):
                if t in resets:
                    continue          # the rule does not govern the step out of a reset cycle
                k = (o[0], r[1], r[2], r[aux] if aux is not None else 0)
                hits[k] = hits.get(k, 0) + 1
            total = (1 << w) * 2 * (1 << w) * ((1 << w) if aux is not None else 1)
            lo = min(hits.values()) if len(hits) == total else 0
            st[f"cover.{kind}.w{w}.all_{total}_pairs_hit_at_least"] = lo
            st[f"cover.{kind}.w{w}.pair_observations"] = len(rows) - len(resets)
    return st


def summarize(cases, obs):
    """Same counters, summed (for a runner that calls a per-engine hook)."""
    agg = {}
    for c, o in zip(cases, obs):
        if not (isinstance(o, list) and len(o) == 2 and isinstance(o[0], list)):
            continue
        for k, v in stats(c, o).items():
            agg[k] = agg.get(k, 0) + v
    return dict(sorted(agg.items()))


def describe(case):
    cfg = case["cfg"]
    return {"engine": "action", "kind": case["kind"], "action": cfg["kind"], "shape": cfg["shape"],
            "init": cfg["init"], "cycles": len(case["stim"]), "resets": case.get("resets", []),
            "first_cycles": case["stim"][:3]}


def shrink(case, fails):
    """Shortest failing prefix (a breach at cycle t shows in every longer prefix), then try width-preserving
    simplification of the cycles before the last two."""
    T = len(case["stim"])
    lo, hi = 1, T
    if not fails(case):
        return case
    while lo < hi:
        mid = (lo + hi) // 2
        c = dict(case); c["stim"] = case["stim"][:mid]
        if fails(c):
            hi = mid
        else:
            lo = mid + 1
    best = dict(case); best["stim"] = case["stim"][:hi]
    # resets that the prefix no longer contains (or that fall on its last cycle) have no effect: drop them
    if "resets" in best:
        best["resets"] = [r for r in best["resets"] if r < hi - 1]
    # drop the history: keep only the last k cycles if that still fails (reset cycles move with them)
    for k in (2, 3, 4, 8):
        if k < len(best["stim"]):
            off = len(best["stim"]) - k
            c = dict(best); c["stim"] = best["stim"][-k:]
            if "resets" in best:
                c["resets"] = [r - off for r in best["resets"] if r >= off]
            if fails(c):
                return c
    return best
