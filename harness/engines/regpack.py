"""Engine `regpack` (C11): csr.Register field packing vs Model/RegPack.v.

A case builds one real `csr.Register` (fields given as dict / list / single Field, or as class
annotations, access given at class creation and/or instantiation) over real field actions
(`action.R`, `action.W`) and trivial port-only `FieldAction` subclasses for every access mode, then
drives the element side and every field's `r_data` and records `element.r_data` and every field
port.  Trees are JSON: ["F", width, access, shape_kind, impl] | ["J", junk_kind] |
["M", [[key, tree], ...]] | ["A", [tree, ...]]."""
import json, collections
from ..common import mkrnd
from .. import sim as S

ENGINE_ID = 11
N = {"quick": 400, "thorough": 6000}
RAW_COMPARE = True
RULE = ("random field trees (depth <= 3, <= 8 fields, widths 0-9, unsigned/int/range/signed/enum/flag shapes, "
        "stub and real R/W actions) defined by dict, list, single Field or class annotations with junk; "
        "register access r/w/rw given at class creation and/or instantiation, ~12% of cases the constructor "
        "must refuse; all input values when the inputs have <= 12 bits, else 300 random + walking-one/zero "
        "vectors.  Non-trivial: accepted, >= 2 fields of total width >= 2 under a nested collection or "
        "annotations, and a strobe and two different read or write values occurred.")

ACC = ["r", "w", "rw", "nc"]
RACC = ["r", "w", "rw"]
EXH_BITS = 12


def f_readable(a):
    return a in ("r", "rw")


def f_writable(a):
    return a in ("w", "rw")


# ----------------------------------------------------------------------------------------------
# generator
# ----------------------------------------------------------------------------------------------
def kname(k):
    """Dict key of a field collection.  Keys >= 1000 spell the '__'-join of a sibling's path, so that two distinct
    field paths join to the same string: 1000 + 100*i + j is "k<i>__k<j>" (j < 50, dict child) or "k<i>__<j-50>"
    (list child)."""
    if isinstance(k, int) and k >= 1000:
        i, j = divmod(k - 1000, 100)
        return f"k{i}__k{j}" if j < 50 else f"k{i}__{j - 50}"
    if isinstance(k, int) and k % 7 == 5:
        return f"_k{k}"              # a private-looking name is a name like any other
    return f"k{k}"


def gen_leaf(rnd, allowed, p_bad):
    w = rnd.choice([0, 1, 1, 1, 2, 2, 3, 4, 5, 6, 7, 8, 9, 0, 3])
    if rnd.random() < 0.96:
        acc = rnd.choice(allowed)
    else:
        acc = rnd.choice(ACC)
    kinds = ["u", "u", "i", "r"]
    if w >= 1:
        kinds += ["s", "s", "e", "se", "f"]
    kind = rnd.choice(kinds)
    if rnd.random() < p_bad:           # not a shape: Field.create() raises TypeError
        w = -rnd.randint(1, 3); kind = "i"
    impl = "real" if acc in ("r", "w") and rnd.random() < 0.35 else "stub"
    return ["F", w, acc, kind, impl]


def gen_tree(rnd, depth, maxl, P, force=None):
    """P = (allowed leaf accesses, p_junk, p_empty, p_badshape)"""
    allowed, p_junk, p_empty, p_bad = P
    if force is None:
        if depth == 0 or rnd.random() < (0.75 if maxl == 1 else 0.15):
            return gen_leaf(rnd, allowed, p_bad)
        force = rnd.choice("MMA")
    if force == "F":
        return gen_leaf(rnd, allowed, p_bad)
    n = rnd.randint(1, min(4, maxl))
    parts = [1] * n
    for _ in range(maxl - n):
        if rnd.random() < 0.7:
            parts[rnd.randrange(n)] += 1
    kids = [gen_tree(rnd, depth - 1, p, P) if depth > 0 else gen_leaf(rnd, allowed, p_bad) for p in parts]
    # junk values and empty collections
    extra = []
    while rnd.random() < p_junk:
        extra.append(["J", rnd.randrange(6)])
    while rnd.random() < p_empty:
        extra.append(rnd.choice([["M", []], ["A", []], ["M", [[0, ["J", 1]]]], ["A", [["A", []], ["J", 2]]]]))
    for x in extra:
        kids.insert(rnd.randint(0, len(kids)), x)
    if force == "M":
        ents = [[i + 1, k] for i, k in enumerate(kids)]
        if rnd.random() < 0.3:
            # a sibling field whose own name is the '__'-join of a nested field's path
            cands = []
            for i, k in ents:
                if k[0] == "M" and k[1]:
                    cands += [1000 + 100 * i + kk for kk, _ in k[1] if isinstance(kk, int) and 0 < kk < 50]
                elif k[0] == "A" and k[1]:
                    cands += [1000 + 100 * i + 50 + j for j in range(min(len(k[1]), 9))]
            if cands:
                ents.insert(rnd.randint(0, len(ents)), [rnd.choice(cands), gen_leaf(rnd, allowed, p_bad)])
        return ["M", ents]
    return ["A", kids]


def leaf_paths(t, path=()):
    """(declared path, field) in declaration order; list positions are ints."""
    if t[0] == "F":
        return [(path, t)]
    if t[0] == "J":
        return []
    if t[0] == "M":
        return [x for k, c in t[1] for x in leaf_paths(c, path + (kname(k),))]
    return [x for i, c in enumerate(t[1]) for x in leaf_paths(c, path + (i,))]


def leaves(t):
    """Fields in declaration order (depth first, dict insertion / list index order)."""
    if t[0] == "F":
        return [t]
    if t[0] == "J":
        return []
    if t[0] == "M":
        return [x for _, k in t[1] for x in leaves(k)]
    return [x for k in t[1] for x in leaves(k)]


def effective(cfg):
    """(tree the register is built from, defined by annotations?) or (None, False)."""
    if cfg["annot"] is not None and cfg["fields"] is None:
        return cfg["annot"], True
    return cfg["fields"], False


def in_bits(cfg):
    """Input ports of an accepted register: [(name, width)]"""
    t, _ = effective(cfg)
    ra = cfg["inst_access"] or cfg["cls_access"] or "rw"
    fl = leaves(t) if t is not None else []
    ws = [max(0, f[1]) for f in fl]
    bits = []
    if f_readable(ra):
        bits.append(("r_stb", 1))
    if f_writable(ra):
        bits += [("w_stb", 1), ("w_data", sum(ws))]
    bits += [(i, w) for i, w in enumerate(ws)]
    return bits, len(fl)


def row_from(vals, nf):
    r = [vals.get("r_stb", 0), vals.get("w_stb", 0), vals.get("w_data", 0), [vals.get(i, 0) for i in range(nf)]]
    return r


def gen_stim(rnd, cfg, tier):
    bits, nf = in_bits(cfg)
    total = sum(w for _, w in bits)
    stim = []
    if total <= EXH_BITS:
        for x in range(1 << total):
            vals = {}
            for nm, w in bits:
                vals[nm] = x & ((1 << w) - 1); x >>= w
            stim.append(row_from(vals, nf))
        return stim, True
    nrand = 300 if tier == "quick" else 600
    for _ in range(nrand):
        vals = {}
        mode = rnd.random()
        for nm, w in bits:
            if mode < 0.05:
                v = (1 << w) - 1
            elif mode < 0.08:
                v = 0
            else:
                v = rnd.getrandbits(w) if w else 0
            if mode > 0.9 and nm not in ("r_stb", "w_stb"):   # bits beyond the port width must not matter
                v |= rnd.getrandbits(3) << w
            vals[nm] = v
        if mode > 0.9:   # strobes of absent element members must not matter either
            vals.setdefault("r_stb", rnd.randrange(2)); vals.setdefault("w_stb", rnd.randrange(2))
            vals.setdefault("w_data", rnd.getrandbits(8))
        stim.append(row_from(vals, nf))
    for inv in (0, 1):   # walking one / walking zero over every input bit
        for nm, w in bits:
            for b in range(w):
                vals = {n2: (((1 << w2) - 1) if inv else 0) for n2, w2 in bits}
                vals[nm] ^= 1 << b
                stim.append(row_from(vals, nf))
    return stim, False


def gen_case(seed, tier, idx):
    rnd = mkrnd(seed, "regpack", idx)
    ra = rnd.choice(["rw", "rw", "rw", "r", "w"])
    allowed = {"rw": ACC, "r": ["r", "r", "nc"], "w": ["w", "w", "nc"]}[ra]
    mode = rnd.choice(["dict"] * 7 + ["list"] * 3 + ["single"] * 2 + ["annot"] * 7 + ["annot+fields"])
    if rnd.random() < 0.01:
        mode = "nofields"
    malformed = rnd.random() < 0.05
    maxl = rnd.choice([1, 2, 3, 4, 5, 6, 7, 8, 8])
    Pclean = (allowed, 0.0, 0.0, 0.0)
    Pbad = (allowed, 0.15, 0.1, 0.04)
    Pannot = (allowed, 0.3, 0.2, 0.01 if malformed else 0.0)
    annot = fields = None
    if mode == "dict":
        fields = gen_tree(rnd, 3, maxl, Pbad if malformed else Pclean, force="M")
    elif mode == "list":
        fields = gen_tree(rnd, 3, maxl, Pbad if malformed else Pclean, force="A")
    elif mode == "single":
        fields = gen_tree(rnd, 0, 1, Pbad if malformed else Pclean, force="F")
        if malformed and rnd.random() < 0.5:
            fields = ["J", rnd.randrange(6)]
    elif mode == "annot":
        annot = gen_tree(rnd, 3, maxl, Pannot, force="M")
        if rnd.random() < 0.04:     # annotations without a single Field
            annot = ["M", [[1, ["J", 0]], [2, ["M", []]], [3, ["A", [["J", 1], ["A", []]]]]][:rnd.randint(0, 3)]]
    elif mode == "annot+fields":
        annot = gen_tree(rnd, 2, 3, Pannot, force="M")
        if rnd.random() < 0.6:      # only junk annotations: the fields argument is used
            annot = ["M", [[1, ["J", 3]], [2, ["A", [["M", []]]]]][:rnd.randint(0, 2)]]
        fields = gen_tree(rnd, 2, maxl, Pclean, force=rnd.choice("MAF"))
    else:                           # no fields argument and no Field annotation -> TypeError
        if rnd.random() < 0.5:
            annot = ["M", [[1, ["J", 0]], [2, ["A", [["M", []]]]]][:rnd.randint(0, 2)]]
    # where the access comes from
    x = rnd.random()
    if x < 0.55:
        ca, ia = None, ra
    elif x < 0.85:
        ca, ia = ra, None
    elif x < 0.95:
        ca, ia = ra, ra
    elif x < 0.98:
        ca, ia = ra, rnd.choice([a for a in RACC if a != ra])      # conflict -> ValueError
    else:
        ca, ia = None, None                                         # missing  -> ValueError
    rs = mkrnd(seed, "regpack-share", idx)
    for tree in (annot, fields):
        # one container used in two places (`left: CHANNEL; right: CHANNEL`): a copy of a dict/list child under a
        # second key; build() hands the library the SAME Python object for structurally equal containers
        if tree is not None and tree[0] == "M" and rs.random() < 0.3:
            kids = [x for k, x in tree[1] if x[0] in "MA" and leaves(x)]
            free = [k for k in range(1, 40) if k not in [k0 for k0, _ in tree[1]]]
            if kids and free:
                tree[1].insert(rs.randint(0, len(tree[1])), [free[0], json.loads(json.dumps(rs.choice(kids)))])
    cfg = {"mode": mode, "annot": annot, "fields": fields, "cls_access": ca, "inst_access": ia}
    stim, exh = gen_stim(rnd, cfg, tier)
    return {"engine": "regpack", "kind": mode + ("/exh" if exh else ""), "cfg": cfg, "stim": stim, "exh": exh}


# ----------------------------------------------------------------------------------------------
# model side
# ----------------------------------------------------------------------------------------------
def tree_sx(t):
    if t[0] == "F":
        return [0, t[1], ACC.index(t[2])]
    if t[0] == "J":
        return [1]
    if t[0] == "M":
        return [2, [[k, tree_sx(x)] for k, x in t[1]]]
    return [3, [tree_sx(x) for x in t[1]]]


def to_model(case):
    cfg = case["cfg"]
    opt = lambda v, f: [] if v is None else [f(v)]
    return [opt(cfg["annot"], tree_sx), opt(cfg["fields"], tree_sx),
            opt(cfg["cls_access"], RACC.index), opt(cfg["inst_access"], RACC.index), case["stim"]]


def from_model(res):
    return res


def canon(obs):
    """Compared with the model: the constructor outcome, element width / members, and per cycle
    element.r_data and every field port.  obs[2] (iteration order check) is for the oracle only."""
    if obs and obs[0] in (-2, -3):
        return obs
    if obs and obs[0] == -4:
        return [-4]
    return obs[:2]


# ----------------------------------------------------------------------------------------------
# implementation side
# ----------------------------------------------------------------------------------------------
_LIB = {}


def lib():
    if not _LIB:
        from amaranth import Module, unsigned, signed
        from amaranth.lib import enum as aenum
        from amaranth_soc import csr
        from amaranth_soc.csr import action

        class Stub(csr.FieldAction):
            """Port-only field action: nothing inside, so port.r_data is a free input."""
            def __init__(self, shape, access):
                super().__init__(shape, access)

            def elaborate(self, platform):
                return Module()

        _LIB.update(Module=Module, unsigned=unsigned, signed=signed, aenum=aenum, csr=csr, action=action,
                    Stub=Stub)
    return _LIB


def mk_shape(w, kind):
    L = lib()
    if kind == "u":
        return L["unsigned"](w)
    if kind == "i":
        return w
    if kind == "r":
        return range(1 << w)
    if kind == "s":
        return L["signed"](w)
    if kind == "e":
        return mk_enum(L["aenum"].Enum, {"A": 0, "B": (1 << w) - 1}, L["unsigned"](w))
    if kind == "se":
        return mk_enum(L["aenum"].Enum, {"A": 0, "B": -1}, L["signed"](w))
    if kind == "f":
        return mk_enum(L["aenum"].Flag, {"A": 1, "B": 1 << (w - 1)} if w > 1 else {"A": 1}, L["unsigned"](w))
    raise AssertionError(kind)


def mk_enum(base, members, shape):
    import types

    def body(ns):
        for k, v in members.items():
            ns[k] = v
    return types.new_class("E", (base,), {"shape": shape}, body)


def mk_junk(k):
    L = lib()
    return [5, "foo", None, L["unsigned"](42), L["Stub"](1, "r"),
            (L["csr"].Field(L["Stub"], 1, "nc"),)][k]


class _ListSub(list):
    pass


def mk_py(t, memo=None):
    """The Python object handed to Register / written as an annotation.  Structurally equal containers are the
    same object (the top-level call starts a new memo)."""
    memo = {} if memo is None else memo
    if t[0] in "MA":
        key = json.dumps(t)
        if key not in memo:
            # every third container is an instance of a subclass of dict / list (OrderedDict, a list subclass)
            sub = len(key) % 3 == 0
            if t[0] == "M":
                d = {kname(k): mk_py(x, memo) for k, x in t[1]}
                memo[key] = collections.OrderedDict(d) if sub else d
            else:
                l = [mk_py(x, memo) for x in t[1]]
                memo[key] = _ListSub(l) if sub else l
        return memo[key]
    L = lib()
    if t[0] == "F":
        _, w, acc, kind, impl = t
        sh = mk_shape(w, kind)
        F = L["csr"].Field
        if isinstance(w, int) and w % 3 == 2:
            F = type("FieldSub", (L["csr"].Field,), {})      # a convenience subclass of csr.Field
        if impl == "real":
            return F(L["action"].R if acc == "r" else L["action"].W, sh)
        return F(L["Stub"], sh, acc)
    if t[0] == "J":
        return mk_junk(t[1])
    if t[0] == "M":
        return {kname(k): mk_py(x) for k, x in t[1]}
    return [mk_py(x) for x in t[1]]


def has_field(t):
    return bool(leaves(t))


def walk_declared(t, obj, annotated, out):
    """Reach every field by its *declared* path (indexing reg.f), not by iterating the register.
    With annotations, values without any Field in them are absent and list indices close up."""
    if t[0] == "F":
        out.append(obj)
    elif t[0] == "M":
        for k, x in t[1]:
            if x[0] == "J" or (annotated and not has_field(x)):
                continue
            walk_declared(x, obj[kname(k)], annotated, out)
    elif t[0] == "A":
        i = 0
        for x in t[1]:
            if x[0] == "J" or (annotated and not has_field(x)):
                if not annotated:
                    i += 1
                continue
            walk_declared(x, obj[i], annotated, out)
            i += 1


def build(cfg):
    import types
    L = lib()
    csr = L["csr"]
    kw = {}
    if cfg["cls_access"] is not None:
        kw["access"] = cfg["cls_access"]
    if cfg["annot"] is not None or kw:
        ns = {}
        if cfg["annot"] is not None:
            ns["__annotations__"] = mk_py(cfg["annot"])
        base = csr.Register
        if cfg["annot"] is not None and len(repr(cfg["annot"])) % 3 == 0:
            # an annotation-defined register class derived from another one that was instantiated first: the
            # derived class re-declares its annotations and must get its OWN fields
            bns = {"__annotations__": {"base_f": csr.Field(L["action"].RW, 3), "base_g": csr.Field(L["action"].R, 2)}}
            base = types.new_class("Base", (csr.Register,), {}, lambda d: d.update(bns))
            base(access="rw")
        cls = types.new_class("Reg", (base,), kw, lambda d: d.update(ns))
        if cfg["annot"] is not None and len(repr(cfg["annot"])) % 5 == 1:
            # a further subclass that declares nothing of its own: it has the layout it inherits
            cls = types.new_class("RegVariant", (cls,), {}, lambda d: None)
    else:
        cls = csr.Register
    args = {}
    if cfg["fields"] is not None:
        args["fields"] = mk_py(cfg["fields"])
    if cfg["inst_access"] is not None:
        args["access"] = cfg["inst_access"]
    return cls(**args)


def run_impl(case):
    cfg = case["cfg"]
    L = lib()
    try:
        reg = build(cfg)
    except ValueError:
        return [-2, 1]
    except TypeError:
        return [-2, 2]
    t, annotated = effective(cfg)
    fl = leaves(t)
    objs = []
    try:
        walk_declared(t, reg.f, annotated, objs)
    except (KeyError, IndexError, TypeError):
        return [-3, len(objs)]
    if len(objs) != len(fl) or not all(isinstance(o, L["csr"].FieldAction) for o in objs):
        return [-3, len(objs)]
    el = reg.element
    has_r = int(hasattr(el, "r_data")); has_w = int(hasattr(el, "w_data"))
    if has_r != int(hasattr(el, "r_stb")) or has_w != int(hasattr(el, "w_stb")):
        return [-3, -1]
    ins, cols = [], []
    if has_r:
        ins.append(el.r_stb); cols.append(lambda r: r[0])
    if has_w:
        ins += [el.w_stb, el.w_data]; cols += [lambda r: r[1], lambda r: r[2]]
    for i, (f, o) in enumerate(zip(fl, objs)):
        # a real action.R drives port.r_data from its own r_data input
        sig = o.r_data if (f[4] == "real" and f[2] == "r") else o.port.r_data
        ins.append(sig); cols.append(lambda r, i=i: r[3][i])
    outs = [el.r_data] if has_r else []
    for o in objs:
        outs += [o.port.r_stb, o.port.w_stb, o.port.w_data]
    stim = [[c(r) for c in cols] for r in case["stim"]]
    try:
        rows = S.simulate(reg, ins, outs, stim)
    except Exception as e:      # an accepted register that cannot be elaborated / simulated
        return [-4, [el.width, has_r, has_w], f"{type(e).__name__}: {str(e)[:200]}"]
    cyc = []
    for r in rows:
        rd = r[0] if has_r else 0
        ps = r[1:] if has_r else r
        cyc.append([rd, [ps[3 * i:3 * i + 3] for i in range(len(objs))]])
    # iteration order of the register, as positions in declaration order
    pos = {id(o): i for i, o in enumerate(objs)}
    order = [pos.get(id(f), -1) for _, f in reg]
    return [[el.width, has_r, has_w], cyc, order]


# ----------------------------------------------------------------------------------------------
# oracle: C11 restated over the declared tree and the implementation's observations only
# ----------------------------------------------------------------------------------------------
def malformed(t, annotated):
    if t[0] == "F":
        return t[1] < 0
    if t[0] == "J":
        return not annotated
    kids = [x for _, x in t[1]] if t[0] == "M" else t[1]
    if annotated:
        return any(malformed(x, True) for x in kids if has_field(x))
    return not kids or any(malformed(x, False) for x in kids)


def allowed_outcomes(cfg):
    """Exception classes the documented constructor contract allows for this call ('ok' = accepted)."""
    out = set()
    annot, fields, ca, ia = cfg["annot"], cfg["fields"], cfg["cls_access"], cfg["inst_access"]
    if annot is not None and fields is not None and has_field(annot):
        out.add(1)
    if (ca is None and ia is None) or (ca is not None and ia is not None and ca != ia):
        out.add(1)
    ra = ia or ca
    t, annotated = effective(cfg)
    if t is None:
        out.add(2)
    else:
        if malformed(t, annotated) or (annotated and not has_field(t)):
            out.add(2)
        if ra is not None:
            for f in leaves(t):
                if (f_readable(f[2]) and not f_readable(ra)) or (f_writable(f[2]) and not f_writable(ra)):
                    out.add(1)
    return out or {"ok"}


def oracle(case, obs):
    cfg = case["cfg"]
    allowed = allowed_outcomes(cfg)
    names = {1: "ValueError", 2: "TypeError", "ok": "accepted"}
    res = []
    if obs[0] == -2:
        if obs[1] not in allowed:
            key = None
            if obs[1] == 2 and allowed == {1}:
                # tag: the first offending field (declaration order) lives inside a list
                ra = cfg["inst_access"] or cfg["cls_access"]
                t, _ = effective(cfg)
                bad = [p for p, f in leaf_paths(t) if ra is not None and
                       ((f_readable(f[2]) and not f_readable(ra)) or (f_writable(f[2]) and not f_writable(ra)))]
                if bad and any(isinstance(k, int) for k in bad[0]):
                    key = "C11-ctor-typeerror-list-path"
            res.append(("C11", "ctor", f"constructor raised {names[obs[1]]}; by the field/access rules it must be "
                                       f"{' or '.join(names[a] for a in sorted(allowed, key=str))}", key))
        return res
    if "ok" not in allowed:
        res.append(("C11", "ctor", f"constructor accepted a register it must refuse with "
                                   f"{' or '.join(names[a] for a in sorted(allowed, key=str))}"))
        return res
    if obs[0] == -3:
        return [("C11", "fields", f"field number {obs[1]} (declaration order) is not reachable at its declared path")]
    if obs[0] == -4:
        return [("C11", "elaborate", f"the constructor accepted the register but it does not elaborate: {obs[2]}")]
    t, _ = effective(cfg)
    fl = leaves(t)
    ra = cfg["inst_access"] or cfg["cls_access"]
    (width, has_r, has_w), cyc, order = obs
    ws = [f[1] for f in fl]
    offs = [sum(ws[:i]) for i in range(len(ws))]
    if width != sum(ws):
        res.append(("C11", "width", f"element width {width} is not the sum {sum(ws)} of field widths {ws}"))
    if (has_r, has_w) != (int(f_readable(ra)), int(f_writable(ra))):
        res.append(("C11", "members", f"element members r={has_r} w={has_w} do not match access {ra}"))
    if order != list(range(len(fl))):
        res.append(("C11", "order", f"register iterates its fields in order {order}, not declaration order"))
    for tc, (row, (rd, ports)) in enumerate(zip(case["stim"], cyc)):
        r_stb = row[0] if has_r else 0
        w_stb = row[1] if has_w else 0
        w_data = (row[2] & ((1 << width) - 1)) if has_w else 0
        exp_rd = 0
        for f, off, v in zip(fl, offs, row[3]):
            if f_readable(f[2]):
                exp_rd |= (v & ((1 << f[1]) - 1)) << off
        if rd != exp_rd:
            res.append(("C11", tc, f"element.r_data = {rd:#x}, fields {[(f[1], f[2]) for f in fl]} (LSB first) "
                                   f"with r_data {row[3]} require {exp_rd:#x}"))
        for i, (f, off, p) in enumerate(zip(fl, offs, ports)):
            e = [r_stb if f_readable(f[2]) else 0,
                 w_stb if f_writable(f[2]) else 0,
                 ((w_data >> off) & ((1 << f[1]) - 1)) if f_writable(f[2]) else 0]
            if p != e:
                res.append(("C11", tc, f"field {i} (width {f[1]}, access {f[2]}, bits [{off}:{off + f[1]}]) sees "
                                       f"[r_stb, w_stb, w_data] = {p}, element r_stb={r_stb} w_stb={w_stb} "
                                       f"w_data={w_data:#x} require {e}"))
        if len(res) > 10:
            break
    return res


def nontrivial(case, obs):
    """Accepted, >= 2 fields of total width >= 2 under a nested collection or annotations, and a strobe
    and two different read or write values occurred."""
    if not obs or obs[0] in (-2, -3, -4):
        return False
    cfg = case["cfg"]
    t, annotated = effective(cfg)
    fl = leaves(t)
    if len(fl) < 2 or sum(f[1] for f in fl) < 2:
        return False
    nested = annotated or any(x[0] in "MA" for x in ([k for _, k in t[1]] if t[0] == "M" else t[1]))
    if not nested:
        return False
    strobe = any(p[0] or p[1] for _, ps in obs[1] for p in ps)
    vals = {(rd, tuple(p[2] for p in ps)) for rd, ps in obs[1]}
    return strobe and len(vals) >= 2


def depth(t):
    if t is None or t[0] in "FJ":
        return 0
    kids = [x for _, x in t[1]] if t[0] == "M" else t[1]
    return 1 + max([depth(x) for x in kids] or [0])


def stats(case, obs):
    cfg = case["cfg"]
    t, annotated = effective(cfg)
    fl = leaves(t) if t is not None else []
    d = {"cases": 1, "cycles": len(case["stim"]), "exhaustive_cases": int(bool(case.get("exh")))}
    d["outcome_" + ({1: "ValueError", 2: "TypeError"}[obs[1]] if obs[0] == -2 else
                    "unreachable_field" if obs[0] == -3 else "not_elaborable" if obs[0] == -4 else "accepted")] = 1
    d["mode_" + cfg["mode"]] = 1
    d["reg_access_" + str(cfg["inst_access"] or cfg["cls_access"])] = 1
    d["access_from_" + ("both" if cfg["cls_access"] and cfg["inst_access"] else "class" if cfg["cls_access"]
                        else "init" if cfg["inst_access"] else "nowhere")] = 1
    d[f"fields_{len(fl)}"] = 1
    d[f"depth_{depth(t)}"] = 1
    for f in fl:
        d["field_access_" + f[2]] = d.get("field_access_" + f[2], 0) + 1
        d["field_shape_" + f[3]] = d.get("field_shape_" + f[3], 0) + 1
        d["field_impl_" + f[4]] = d.get("field_impl_" + f[4], 0) + 1
        if f[1] == 0:
            d["field_zero_width"] = d.get("field_zero_width", 0) + 1
    if obs[0] not in (-2, -3, -4):
        d["cycles_r_stb"] = sum(1 for r in case["stim"] if obs[0][1] and r[0])
        d["cycles_w_stb"] = sum(1 for r in case["stim"] if obs[0][2] and r[1])
    return d


def describe(case):
    cfg = case["cfg"]
    return {"engine": "regpack", "kind": case["kind"], "annot": cfg["annot"], "fields": cfg["fields"],
            "cls_access": cfg["cls_access"], "inst_access": cfg["inst_access"], "cycles": len(case["stim"]),
            "first_cycle": case["stim"][0] if case["stim"] else None}


def shrink(case, fails):
    """Keep a single failing cycle if one suffices."""
    stim = case["stim"]
    cand = list(range(min(len(stim), 40))) + list(range(len(stim) - 1, max(len(stim) - 40, 0), -1))
    for tcyc in cand:
        c = dict(case); c["stim"] = [stim[tcyc]]
        if fails(c):
            return c
    return case
