"""Engine `bridgemux` (C10): a real csr.wishbone.WishboneCSRBridge in front of a real csr.Multiplexer over mock
registers, both submodules of one wrapper, driven at the Wishbone port, vs the COMPOSITE model
Model/BridgeMuxSpec.v (the bridge model and the multiplexer model wired port to port; Engine/BridgeMuxE.v,
proved to run BridgeMuxSpec.crun in Properties/C10Engine.v).

A stimulus row is [cyc, stb, we, adr, sel, dat_w, [element.r_data of every register]] (the register values
change every cycle); an observation row is
  [ack, dat_r, [csr addr, csr r_stb, csr w_stb, csr w_data, csr r_data], [elem r_stb], [elem w_stb], [elem w_data]].

Mid-run synchronous resets follow the mechanism documented in engines/event.py / bridge.py: `resets` lists the
cycles in which the reset of the whole wrapper (ResetInserter: bridge AND multiplexer) is asserted, the model is
started again from its initial state after each (`model_cases` / `model_join`)."""
import warnings
warnings.simplefilter("ignore")
from ..common import mkrnd
from .. import sim as S
from . import bridge as B
from . import mux as M

ENGINE_ID = 21
RAW_COMPARE = True
N = {"quick": 300, "thorough": 2000}
RULE = ("layouts: 40 % the mux engine's random layouts (natural / packed / unaligned / padded, shadow_overlaps in "
        "{None,0,1,2,3}), 60 % word-oriented hand-built maps (several one-chunk registers per Wishbone word sharing one "
        "shadow chunk, multi-chunk registers inside one word, non-power-of-two sized unaligned registers that wrap in "
        "their shadow, registers spanning words, padded, width 0 / non-multiples of the CSR width, r / w / rw), CSR width "
        "8/16/32/64, ratio 1/2/4/8.  Streams: proto = protocol-abiding initiator (request held ratio+1 cycles, "
        "acknowledge cycle held / dropped / anything, back-to-back and spaced, all select masks incl. register-shaped "
        "ones, ascending sweeps over the words of a spanning register, words with registers over-weighted), random / "
        "sticky = every input bit random (held for a while).  About 30 % of the accepted cases assert the synchronous "
        "reset of bridge and multiplexer in 1-3 cycles (bridge engine's placement: mostly inside a transfer).  A few "
        "cases hand the bridge a refused geometry.  Non-trivial: >= 2 registers, >= 3 acknowledged protocol-abiding "
        "transfers, >= 1 fully selected register written and >= 1 read through the bridge (w_stb / w_data / dat_r "
        "lanes checked by the oracle).")
LEGAL = B.LEGAL


# ------------------------------------------------------------------------------------------------
# configurations: {"cdw", "wdw", "caw", "regs": [[start, stop, width, readable, writable]], "ov"}
# ------------------------------------------------------------------------------------------------
def bcfg(cfg):
    """the same configuration in the bridge engine's spelling"""
    return {"caw": cfg["caw"], "cdw": cfg["cdw"], "dw": cfg["wdw"]}


def mcfg(cfg):
    """... and in the mux engine's"""
    return {"dw": cfg["cdw"], "aw": cfg["caw"], "regs": cfg["regs"], "ov": cfg["ov"], "late": cfg.get("late", 0)}


def geometry(cfg):
    return B.geometry(bcfg(cfg))


def layout_from_mux(rnd, tier):
    """the mux engine's generator (its CSR widths 8/16/32), a ratio that fits"""
    while True:
        c = M.gen_layout(rnd, tier)
        if c["dw"] in LEGAL:
            break
    rs = [r for r in (0, 1, 2, 2, 3, 3) if (c["dw"] << r) <= 64 and r <= c["aw"]]
    r = rnd.choice(rs)
    return {"cdw": c["dw"], "wdw": c["dw"] << r, "caw": c["aw"], "regs": c["regs"], "ov": c["ov"]}


def pick_width(rnd, size, cdw):
    k = rnd.random()
    full = size * cdw
    if k < 0.45:
        return full
    if k < 0.65:
        return max(1, full - rnd.randint(1, cdw - 1))          # last chunk partly used
    if k < 0.75:
        return (size - 1) * cdw + 1                               # one bit in the last chunk
    if k < 0.85 and size > 1:
        return max(1, (size - 1) * cdw - rnd.randint(0, cdw - 1))  # padded: last address carries no bits
    if k < 0.88:
        return 0
    return rnd.randint(1, full)


def pick_access(rnd, style):
    if style == "narrow" and rnd.random() < 0.6:
        return (1, 1)
    return rnd.choice([(1, 1), (1, 1), (1, 1), (1, 0), (0, 1)])


def layout_words(rnd, tier):
    """Hand-built maps laid out with the Wishbone word in mind."""
    r = rnd.choice([0, 1, 2, 2, 2, 3, 3, 3])
    cdw = rnd.choice([w for w in (8, 8, 8, 16, 32, 64) if (w << r) <= 64])
    ratio = 1 << r
    caw = max(1, r + rnd.choice([0, 1, 1, 2, 2, 3]))
    top = 1 << caw
    style = rnd.choice(["narrow", "narrow", "multi", "multi", "np2", "np2", "span", "mixed"])
    regs = []
    cur = 0
    limit = 14 if tier == "quick" else 20
    # only one-address registers (e.g. four 8-bit registers behind a 32-bit bridge): the shadows have ONE chunk,
    # which every register shares, and consecutive granules of a transfer hit different registers' Cases of it
    pure = style == "narrow" and rnd.random() < 0.7
    while cur < top and len(regs) < limit:
        room = top - cur
        inword = ratio - (cur % ratio)
        if style == "narrow":
            size = 1 if pure or rnd.random() < 0.85 else rnd.randint(1, min(2, room))
        elif style == "multi":
            size = rnd.randint(1, max(1, min(inword, room)))      # stays inside its word
        elif style == "np2":
            size = rnd.choice([3, 3, 3, 5, 6, 7, 1, 2])
            if rnd.random() < 0.7 and not regs:
                cur += rnd.choice([0, 1, 2, 3, 5])                 # unaligned start: the shadow offsets wrap
        elif style == "span":
            size = rnd.choice([ratio + 1, 2 * ratio, ratio + ratio // 2 + 1, inword + 1, 2, 1, 3])
        else:
            size = rnd.choice([1, 1, 2, 3, 4, rnd.randint(1, 2 * ratio)])
        if rnd.random() < (0.12 if style != "narrow" else 0.0 if pure else 0.04):
            cur += rnd.randint(1, 3)                               # hole
        if cur + size > top:
            size = top - cur
        if size < 1:
            break
        rd, wr = pick_access(rnd, style)
        regs.append([cur, cur + size, pick_width(rnd, size, cdw), rd, wr])
        cur += size
        if style in ("multi", "np2", "span", "mixed") and rnd.random() < 0.08:
            break
    if not regs:
        regs.append([0, 1, cdw, 1, 1])
    ov = rnd.choice([None, None, None, 0, 1, 2, 3])
    if pure and rnd.random() < 0.75:
        ov = None                                                  # any number of registers may share the chunk
    return {"cdw": cdw, "wdw": cdw << r, "caw": caw, "regs": regs, "ov": ov}


def refused_cfg(rnd):
    """a multiplexer that exists, and bridge arguments the constructor must refuse (or just about accept)"""
    cdw = rnd.choice([8, 16, 32])
    caw = rnd.randint(1, 3)
    wdw = rnd.choice([3 * cdw, cdw // 2, 128, 16 * cdw, cdw + 8, 8 * cdw, 4 * cdw])
    return {"cdw": cdw, "wdw": wdw, "caw": caw, "regs": [[0, 1, cdw, 1, 1], [1, 2, 3, 1, 1]], "ov": None}


# ------------------------------------------------------------------------------------------------
# stimulus
# ------------------------------------------------------------------------------------------------
def rvals(rnd, regs):
    return [rnd.randrange(1 << r[2]) if r[2] else 0 for r in regs]


def fix_rvals(rnd, cfg, stim):
    """the bridge engine's row builders leave a CSR r_data integer in column 6: here the column is the list of
    register values, fresh every cycle"""
    for x in stim:
        if not isinstance(x[6], list):
            x[6] = rvals(rnd, cfg["regs"])
    return stim


def reg_masks(cfg, g, adr):
    """select masks shaped after the registers of word adr: one per register touching the word"""
    r, ratio, wb_aw, wdw = g
    base = adr * ratio
    out = []
    for (s, e, w, rd, wr) in cfg["regs"]:
        m = 0
        for a in range(max(s, base), min(e, base + ratio)):
            m |= 1 << (a - base)
        if m:
            out.append(m)
    return out


def pick_sel(rnd, cfg, g, adr):
    r, ratio, wb_aw, wdw = g
    full = (1 << ratio) - 1
    k = rnd.random()
    ms = reg_masks(cfg, g, adr)
    if k < 0.4:
        return full
    if ms and k < 0.55:
        return rnd.choice(ms)                                      # exactly one register
    if ms and k < 0.65:
        return full & ~rnd.choice(ms)                              # every register but one
    if ms and k < 0.72:
        m = rnd.choice(ms)
        return m & ~(1 << rnd.randrange(ratio))                    # one register, one granule short
    return B.rand_sel(rnd, ratio)


def gen_proto(rnd, g, cfg, T):
    r, ratio, wb_aw, wdw = g
    bc = bcfg(cfg)
    regs = cfg["regs"]
    nwords = 1 << wb_aw
    busy = sorted({a // ratio for (s, e, *_r) in regs for a in range(s, e) if a // ratio < nwords})
    stim = []
    b2b = rnd.choice([0.1, 0.5, 0.9])

    def gap():
        nonlocal stim
        if stim and rnd.random() < b2b:
            return                                                 # back-to-back: right after the ack cycle
        stim += B.idle_rows(rnd, g, bc, rnd.choice([1, 1, 2, 3, rnd.randint(1, 8)]) if stim or rnd.random() < 0.7 else 0)

    def tail():
        return rnd.choice(["hold", "hold", "hold", "drop", "any"])
    while len(stim) < T:
        k = rnd.random()
        if k < 0.2:
            # ascending sweep over every word a register touches (spanning registers: whole-register access)
            s, e = rnd.choice(regs)[:2]
            we = rnd.randrange(2)
            full = rnd.random() < 0.8
            for adr in range(s // ratio, (e - 1) // ratio + 1):
                if adr >= nwords:
                    break
                gap()
                sel = (1 << ratio) - 1 if full else pick_sel(rnd, cfg, g, adr)
                stim += B.transfer_rows(rnd, g, bc, we, adr, sel, B.rand_data(rnd, wdw), tail())
            continue
        gap()
        if busy and k < 0.85:
            adr = rnd.choice(busy)
        else:
            adr = rnd.choice([0, nwords - 1, rnd.randrange(nwords)])
        stim += B.transfer_rows(rnd, g, bc, rnd.randrange(2), adr, pick_sel(rnd, cfg, g, adr),
                                B.rand_data(rnd, wdw), tail())
    return fix_rvals(rnd, cfg, stim[:T])


def gen_free(rnd, g, cfg, T, kind):
    bc = bcfg(cfg)
    if kind == "random":
        stim = [B.rand_row(rnd, g, bc) for _ in range(T)]
        p = rnd.choice([0.5, 0.8, 0.95])
        for x in stim:
            x[0] = int(rnd.random() < p); x[1] = int(rnd.random() < p)
    else:
        stim = []; cur = None
        sticky = rnd.choice([0.1, 0.3, 0.6])
        for t in range(T):
            if cur is None or rnd.random() < sticky:
                cur = B.rand_row(rnd, g, bc)
                if rnd.random() < 0.6:
                    cur[0] = cur[1] = 1
            stim.append(list(cur))
    for x in stim:
        x[6] = None
    return fix_rvals(rnd, cfg, stim)


def gen_case(seed, tier, idx):
    rnd = mkrnd(seed, "bridgemux", idx)
    kind = ["proto", "proto", "random", "proto", "proto", "sticky", "proto", "proto"][idx % 8]
    if idx % 25 == 24:
        cfg = refused_cfg(rnd)
        g = geometry(cfg)
        stim = [] if g is None else gen_proto(rnd, g, cfg, 40)
        return {"engine": "bridgemux", "kind": "ctor", "cfg": cfg, "stim": stim}
    cfg = layout_from_mux(rnd, tier) if rnd.random() < 0.4 else layout_words(rnd, tier)
    g = geometry(cfg)
    T = rnd.choice([200, 300]) if tier == "quick" else rnd.choice([300, 500])
    stim = gen_proto(rnd, g, cfg, T) if kind == "proto" else gen_free(rnd, g, cfg, T, kind)
    ru = mkrnd(seed, "bridgemux-use", idx)
    if ru.random() < 0.25:
        # the last k registers join the map after the multiplexer is constructed, before the bridge is
        cfg["late"] = ru.randint(1, len(cfg["regs"]))
    case = {"engine": "bridgemux", "kind": kind, "cfg": cfg, "stim": stim}
    # resets from a random stream of their own (bridge engine's placement rules)
    rr = mkrnd(seed, "bridgemux-reset", idx)
    if len(stim) > 20 and rr.random() < 0.3:
        if kind == "proto":
            rs = B.gen_resets_proto(rr, g, bcfg(cfg), stim, len(stim))
        else:
            rs = B.gen_resets_free(rr, g, bcfg(cfg), stim)
        fix_rvals(rr, cfg, stim)
        if rs:
            case["resets"] = rs
    return case


# ------------------------------------------------------------------------------------------------
# model / implementation
# ------------------------------------------------------------------------------------------------
def _head(case):
    c = case["cfg"]
    return [c["cdw"], c["wdw"], c["caw"], c["regs"], [] if c["ov"] is None else [c["ov"]]]


def to_model(case):
    return _head(case) + [case["stim"]]


_segments = B._segments
_reset_cycles = B._reset_cycles


def model_cases(case):
    """A mid-run synchronous reset starts the composite again from cinit: one model run per segment."""
    if not case["stim"]:
        return [to_model(case)]
    return [_head(case) + [case["stim"][a:b + 1]] for (a, b) in _segments(case)]


def model_join(case, results):
    first = results[0]
    if len(first) != 3:                          # [-2, code] / [-3]
        return first
    rows = list(first[2])
    for r in results[1:]:
        rows += r[2]
    return [first[0], first[1], rows]


def from_model(res):
    return res


def build(cfg):
    from amaranth import Module, Elaboratable
    from amaranth_soc.csr.wishbone import WishboneCSRBridge
    mux, regs = M.build(mcfg(cfg))
    try:
        bridge = WishboneCSRBridge(mux.bus, data_width=cfg["wdw"])
    except ValueError:
        return None, mux, regs, None, 1
    except TypeError:
        return None, mux, regs, None, 2

    class Top(Elaboratable):
        """the bridge and the multiplexer side by side; the bridge drives the multiplexer's own bus interface"""
        def elaborate(self, platform):
            m = Module()
            m.submodules.bridge = bridge
            m.submodules.mux = mux
            return m
    return Top(), mux, regs, bridge, 0


def run_impl(case):
    cfg = case["cfg"]
    top, mux, regs, bridge, code = build(cfg)
    if top is None:
        return [-2, code]
    wb = bridge.wb_bus
    bus = mux.bus
    mm = wb.memory_map
    wins = list(mm.windows())
    if len(wins) != 1 or wins[0][0] is not bus.memory_map or list(mm.resources()):
        raise RuntimeError(f"unexpected published memory map: {wins!r}")
    (ws, we_, wr) = wins[0][2]
    nsel = len(wb.sel)
    geom = [nsel.bit_length() - 1 if nsel and not (nsel & (nsel - 1)) else -1,
            wb.addr_width, wb.data_width, wb.granularity, mm.addr_width, mm.data_width, ws, we_, wr]
    if (len(wb.adr), len(wb.dat_w), len(wb.dat_r), nsel * wb.granularity, len(bus.addr), len(bus.w_data)) != \
       (wb.addr_width, wb.data_width, wb.data_width, wb.data_width, cfg["caw"], cfg["cdw"]):
        raise RuntimeError("port widths differ from the published geometry")
    rd_idx = [i for i, r in enumerate(cfg["regs"]) if r[3]]
    wr_idx = [i for i, r in enumerate(cfg["regs"]) if r[4]]
    ins = [wb.cyc, wb.stb, wb.we, wb.adr, wb.sel, wb.dat_w] + [regs[i].element.r_data for i in rd_idx]
    outs = [wb.ack, wb.dat_r, bus.addr, bus.r_stb, bus.w_stb, bus.w_data, bus.r_data] \
        + [regs[i].element.r_stb for i in rd_idx] \
        + [regs[i].element.w_stb for i in wr_idx] + [regs[i].element.w_data for i in wr_idx]
    stim = [row[:6] + [row[6][i] for i in rd_idx] for row in case["stim"]]
    rows = S.simulate(top, ins, outs, stim, reset_at=_reset_cycles(case))
    n = len(regs)
    obs = []
    for r in rows:
        rstb = [0] * n; wstb = [0] * n; wdata = [0] * n
        p = 7
        for i in rd_idx:
            rstb[i] = r[p]; p += 1
        for i in wr_idx:
            wstb[i] = r[p]; p += 1
        for i in wr_idx:
            wdata[i] = r[p]; p += 1
        obs.append([r[0], r[1], r[2:7], rstb, wstb, wdata])
    return [geom, [mux._r_shadow.size if rd_idx else 1, mux._w_shadow.size if wr_idx else 1], obs]


# ------------------------------------------------------------------------------------------------
# oracle: C10 restated over implementation observations only
# ------------------------------------------------------------------------------------------------
def as_bridge(case, obs):
    """The Wishbone side and the CSR bus of the real composite in the bridge engine's shapes; the CSR r_data
    column of the stimulus is what the real multiplexer returned in that cycle."""
    rows = obs[2]
    T = min(len(case["stim"]), len(rows))
    c = {"cfg": bcfg(case["cfg"]), "stim": [case["stim"][t][:6] + [rows[t][2][4]] for t in range(T)]}
    if case.get("resets"):
        c["resets"] = case["resets"]
    o = [obs[0], [[rows[t][0], rows[t][1]] + rows[t][2][:4] for t in range(T)]]
    return c, o


def reg_view(cfg, g, adr, sel):
    """Per register, for Wishbone word adr and select mask sel: (inside the word, every granule selected,
    some granule selected, its FIRST address is a selected granule of the word, its LAST address is)."""
    r, ratio, wb_aw, wdw = g
    base = adr * ratio
    out = []
    for (s, e, w, rd, wr) in cfg["regs"]:
        inside = base <= s and e <= base + ratio
        gs = [a - base for a in range(max(s, base), min(e, base + ratio))]
        bits = [(sel >> i) & 1 for i in gs]
        first = base <= s < base + ratio and bool((sel >> (s - base)) & 1)
        last = base <= e - 1 < base + ratio and bool((sel >> (e - 1 - base)) & 1)
        out.append((inside, inside and all(bits), any(bits), first, last))
    return out


def checked_transfers(case, g):
    """The protocol-abiding transfers (bridge idle at the start, request held for ratio+1 cycles) of every
    segment's protocol-abiding part, by the bridge engine's reading of the stimulus and the reset cycles:
    [(t0, last cycle of its segment)]; and the spans [(a, b, h)]."""
    xf, stop, spans = B.transfers(case, g)
    out = []
    for t0 in xf:
        for (a, b, h) in spans:
            if a <= t0 <= b:
                out.append((t0, b))
    return out, spans


def oracle(case, obs):
    """[(pid, cycle, text)].
    1. the bridge engine's whole oracle on the Wishbone side and on the CSR bus between bridge and multiplexer
       (exactly one acknowledge ratio+1 cycles after the start, one CSR access per selected granule, ascending,
       address / data exact, read lanes = the CSR read data the multiplexer returned, nothing outside transfers);
    2. every stimulus: an element strobe needs a Wishbone request (r_stb: cyc & stb & ~we in the same cycle;
       w_stb: cyc & stb & we in the cycle before), none in the first cycle after power-on / a reset, and a
       register's w_stb is one cycle long;
    3. protocol-abiding transfers: write - every writable register inside the addressed word with all granules
       selected gets w_stb exactly once, in [t0+1, t0+ratio] (the acknowledge is seen in t0+ratio+1), with
       w_data = its dat_w lanes concatenated and clipped to its width; no register fires twice; a register whose
       last address is not a selected granule of the word gets none; read - every readable register inside
       the word with all granules selected gets r_stb exactly once in [t0, t0+ratio-1], and in the acknowledge
       cycle the dat_r lanes of its granules are the chunks of the ONE value it presented in the cycle of that
       r_stb; a register whose first address is not a selected granule gets none; no element strobe of any
       register in any cycle outside these windows (idle cycles, acknowledge cycle, the cycles after it);
    4. a register spanning several words, accessed whole by consecutive transfers to its words in ascending order
       (each selecting all its granules): one w_stb, in the last transfer before its acknowledge, w_data = all
       its dat_w lanes; one r_stb, in the first transfer, all dat_r lanes from the value presented then."""
    cfg = case["cfg"]
    g = geometry(cfg)
    if obs and obs[0] == -2:
        return B.oracle({"cfg": bcfg(cfg), "stim": []}, obs)
    if g is None:
        return [("C10", "constructor", f"geometry {bcfg(cfg)} outside the bridge's domain was accepted: {obs[0]}")]
    cb, ob = as_bridge(case, obs)
    out = list(B.oracle(cb, ob))
    if out:
        return out
    r, ratio, wb_aw, wdw = g
    cdw = cfg["cdw"]; regs = cfg["regs"]; nreg = len(regs)
    gm = (1 << cdw) - 1
    stim = case["stim"]; rows = obs[2]
    T = min(len(stim), len(rows))
    segs = _segments(case) if stim else []
    # ---- 2: every stimulus ----
    for (a, b) in segs:
        since = "power-on" if a == 0 else f"the reset asserted in cycle {a - 1}"
        for t in range(a, min(b + 1, T)):
            x = stim[t]; o = rows[t]
            if any(o[3]) and not (x[0] and x[1] and not x[2]):
                out.append(("C10", t, f"element r_stb {o[3]} without a Wishbone read request (cyc={x[0]} stb={x[1]} we={x[2]})"))
            if any(o[4]):
                if t == a:
                    out.append(("C10", t, f"element w_stb {o[4]} in the first cycle after {since}"))
                else:
                    p = stim[t - 1]
                    if not (p[0] and p[1] and p[2]):
                        out.append(("C10", t, f"element w_stb {o[4]} not preceded by a Wishbone write request "
                                              f"(cycle {t - 1}: cyc={p[0]} stb={p[1]} we={p[2]})"))
                    for k in range(nreg):
                        if o[4][k] and rows[t - 1][4][k]:
                            out.append(("C10", t, f"register {k}: w_stb high for a second cycle in a row"))
            if len(out) > 12:
                return out
    # ---- 3: protocol-abiding transfers ----
    xfs, spans = checked_transfers(case, g)
    w_win = {}     # cycle -> t0 of the write transfer that may strobe there
    r_win = {}
    for (t0, b) in xfs:
        x = stim[t0]
        if x[2]:
            for t in range(t0 + 1, min(t0 + ratio, b) + 1):
                w_win[t] = t0
        else:
            for t in range(t0, min(t0 + ratio - 1, b) + 1):
                r_win[t] = t0
    for (a, b, h) in spans:
        for t in range(a, min(h, T)):
            o = rows[t]
            if any(o[4]) and t not in w_win:
                out.append(("C10", t, f"stray write strobe {o[4]}: no write transfer can have a side effect in this cycle "
                                      f"(latest transfer starts at {B.near([q for q, _ in xfs], t)}, ratio {ratio})"))
            if any(o[3]) and t not in r_win:
                out.append(("C10", t, f"stray read strobe {o[3]}: no read transfer presents a granule in this cycle"))
            if len(out) > 12:
                return out
    for (t0, b) in xfs:
        x = stim[t0]
        we, adr, sel, dat_w = x[2], x[3], x[4], x[5]
        base = adr * ratio
        view = reg_view(cfg, g, adr, sel)
        ta = t0 + ratio + 1
        whole = t0 + ratio <= b and t0 + ratio < T          # no reset inside [t0, t0+ratio]
        if we:
            win = range(t0 + 1, min(t0 + ratio, b, T - 1) + 1)
            for k, (s, e, w, rd, wr) in enumerate(regs):
                inside, allsel, anysel, first, last = view[k]
                hits = [t for t in win if rows[t][4][k]]
                what = f"write transfer at {t0} (word {adr:#x}, sel={sel:#x}, dat_w={dat_w:#x}), register {k} [{s},{e}) width {w}"
                if len(hits) > 1:
                    out.append(("C10", hits[1], f"{what}: w_stb fires {len(hits)} times (cycles {hits})"))
                if hits and not last:
                    out.append(("C10", hits[0], f"{what}: w_stb although its last address is not a selected granule of the word"))
                if wr and allsel:
                    if whole and len(hits) != 1:
                        out.append(("C10", t0 + ratio, f"{what}: every granule selected, w_stb fired {len(hits)} times in "
                                                       f"[{t0 + 1}, {t0 + ratio}] (acknowledge in cycle {ta})"))
                    exp = 0
                    for j in range(e - s):
                        cw = min(cdw, w - j * cdw)
                        if cw > 0:
                            lane = (dat_w >> ((s - base + j) * cdw)) & gm
                            exp |= (lane & ((1 << cw) - 1)) << (j * cdw)
                    for t in hits[:1]:
                        if rows[t][5][k] != exp:
                            out.append(("C10", t, f"{what}: w_data={rows[t][5][k]:#x} with w_stb, its dat_w lanes give {exp:#x}"))
        else:
            win = range(t0, min(t0 + ratio - 1, b, T - 1) + 1)
            for k, (s, e, w, rd, wr) in enumerate(regs):
                inside, allsel, anysel, first, last = view[k]
                hits = [t for t in win if rows[t][3][k]]
                what = f"read transfer at {t0} (word {adr:#x}, sel={sel:#x}), register {k} [{s},{e}) width {w}"
                if len(hits) > 1:
                    out.append(("C10", hits[1], f"{what}: r_stb fires {len(hits)} times (cycles {hits})"))
                if hits and not first:
                    out.append(("C10", hits[0], f"{what}: r_stb although its first address is not a selected granule of the word"))
                if rd and allsel:
                    if whole and len(hits) != 1:
                        out.append(("C10", t0 + ratio, f"{what}: every granule selected, r_stb fired {len(hits)} times in "
                                                       f"[{t0}, {t0 + ratio - 1}]"))
                    if len(hits) == 1 and ta <= b and ta < T:
                        v = stim[hits[0]][6][k] & ((1 << w) - 1)
                        dat_r = rows[ta][1]
                        for j in range(e - s):
                            got = (dat_r >> ((s - base + j) * cdw)) & gm
                            want = (v >> (j * cdw)) & gm
                            if got != want:
                                out.append(("C10", ta, f"{what}: lane {s - base + j} of dat_r is {got:#x}, chunk {j} of the value "
                                                       f"{v:#x} it presented with its r_stb (cycle {hits[0]}) is {want:#x}"))
        if len(out) > 12:
            return out
    # ---- 4: whole-register sweeps over registers spanning several words ----
    out += oracle_sweeps(case, obs, g, T)
    return out


def sweeps(case, g, T=None):
    """Whole-register accesses to registers SPANNING several Wishbone words: for register k over words wa..wb,
    wb-wa+1 consecutive acknowledged protocol-abiding transfers of one segment (nothing but idle cycles between
    them), all reads or all writes, to words wa, wa+1, .., wb in this order, each selecting every granule of
    the register in its word.  Yields (k, [t0 of each transfer])."""
    r, ratio, wb_aw, wdw = g
    stim = case["stim"]
    T = len(stim) if T is None else T
    xfs, spans = checked_transfers(case, g)
    regs = case["cfg"]["regs"]
    for k, (s, e, w, rd, wr) in enumerate(regs):
        wa, wb = s // ratio, (e - 1) // ratio
        if wa == wb or wb >= (1 << wb_aw):
            continue
        n = wb - wa + 1
        for i in range(len(xfs) - n + 1):
            seq = xfs[i:i + n]
            b = seq[0][1]
            if any(q[1] != b or q[0] + ratio + 1 > b or q[0] + ratio + 1 >= T for q in seq):
                continue
            x0 = stim[seq[0][0]]
            ok = True
            for j, (t0, _b) in enumerate(seq):
                x = stim[t0]
                if x[2] != x0[2] or x[3] != wa + j or not reg_view(case["cfg"], g, x[3], x[4])[k][2]:
                    ok = False
                    break
                base = x[3] * ratio
                if any(not (x[4] >> (a - base)) & 1 for a in range(max(s, base), min(e, base + ratio))):
                    ok = False
                    break
            if ok and (wr if x0[2] else rd):
                yield k, [q[0] for q in seq]


def oracle_sweeps(case, obs, g, T):
    """Registers spanning words, accessed whole by an ascending sweep: one w_stb, in the last transfer (before its
    acknowledge), with w_data = all its dat_w lanes of all the transfers; one r_stb, in the first transfer, and
    every transfer's dat_r lanes are chunks of the one value presented then."""
    r, ratio, wb_aw, wdw = g
    cfg = case["cfg"]; cdw = cfg["cdw"]; gm = (1 << cdw) - 1
    stim = case["stim"]; rows = obs[2]
    out = []
    for k, ts in sweeps(case, g, T):
        s, e, w, rd, wr = cfg["regs"][k]
        we = stim[ts[0]][2]
        what = (f"{'write' if we else 'read'} sweep over register {k} [{s},{e}) width {w}: transfers at {ts} to words "
                f"{[stim[t][3] for t in ts]}, sel {[hex(stim[t][4]) for t in ts]}")
        if we:
            hits = [t for t0 in ts for t in range(t0 + 1, t0 + ratio + 1) if rows[t][4][k]]
            if len(hits) != 1 or hits[0] <= ts[-1]:
                out.append(("C10", ts[-1] + ratio, f"{what}: w_stb in cycles {hits}, required exactly once, in the last transfer "
                                                   f"before its acknowledge (cycle {ts[-1] + ratio + 1})"))
                continue
            exp = 0
            for j in range(e - s):
                cw = min(cdw, w - j * cdw)
                if cw > 0:
                    a = s + j
                    lane = (stim[ts[a // ratio - s // ratio]][5] >> ((a % ratio) * cdw)) & gm
                    exp |= (lane & ((1 << cw) - 1)) << (j * cdw)
            if rows[hits[0]][5][k] != exp:
                out.append(("C10", hits[0], f"{what}: w_data={rows[hits[0]][5][k]:#x} with w_stb, the dat_w lanes addressed to it give {exp:#x}"))
        else:
            hits = [t for t0 in ts for t in range(t0, t0 + ratio) if rows[t][3][k]]
            if len(hits) != 1 or hits[0] >= ts[0] + ratio:
                out.append(("C10", ts[0] + ratio, f"{what}: r_stb in cycles {hits}, required exactly once, in the first transfer"))
                continue
            v = stim[hits[0]][6][k] & ((1 << w) - 1)
            for j in range(e - s):
                a = s + j
                t0 = ts[a // ratio - s // ratio]
                got = (rows[t0 + ratio + 1][1] >> ((a % ratio) * cdw)) & gm
                want = (v >> (j * cdw)) & gm
                if got != want:
                    out.append(("C10", t0 + ratio + 1, f"{what}: lane {a % ratio} of dat_r is {got:#x}, chunk {j} of the value {v:#x} "
                                                       f"it presented with its r_stb (cycle {hits[0]}) is {want:#x}"))
        if len(out) > 6:
            break
    return out


def acked(case, g):
    xfs, spans = checked_transfers(case, g)
    return [(t0, b) for (t0, b) in xfs if t0 + g[1] + 1 <= b]


def stats(case, obs):
    g = geometry(case["cfg"])
    if not obs or obs[0] == -2:
        return {"refused": 1}
    if g is None:
        return {"accepted_outside_domain": 1}
    cfg = case["cfg"]; regs = cfg["regs"]; ratio = g[1]
    d = {"ratio_%d" % ratio: 1, "csr_width_%d" % cfg["cdw"]: 1, "registers": len(regs)}
    xf, stop, spans = B.transfers(case, g)
    ok = acked(case, g)
    d["transfers_acknowledged"] = len(ok)
    d["protocol_abiding_whole_trace"] = int(stop is None)
    d["back_to_back"] = sum(1 for p, q in zip(xf, xf[1:]) if q == p + ratio + 2)
    d["reads"] = sum(1 for t, _ in ok if not case["stim"][t][2])
    d["writes"] = sum(1 for t, _ in ok if case["stim"][t][2])
    cw = cr = multi = several = partial = 0
    for (t0, b) in ok:
        x = case["stim"][t0]
        view = reg_view(cfg, g, x[3], x[4])
        n = 0
        for k, (s, e, w, rd, wr) in enumerate(regs):
            if view[k][1] and (wr if x[2] else rd):
                n += 1
                multi += int(e - s >= 2)
                if x[2]:
                    cw += 1
                else:
                    cr += 1
            partial += int(view[k][2] and not view[k][1])
        several += int(n >= 2)
    d["registers_written_atomically_checked"] = cw
    d["registers_read_atomically_checked"] = cr
    d["of_which_multi_chunk"] = multi
    d["transfers_with_several_registers_checked"] = several
    d["registers_partly_selected"] = partial
    words = {}
    for (s, e, w, rd, wr) in regs:
        if s // ratio == (e - 1) // ratio:
            words[s // ratio] = words.get(s // ratio, 0) + 1
    d["words_with_several_registers"] = sum(1 for v in words.values() if v >= 2)
    d["registers_spanning_words"] = sum(1 for (s, e, *_x) in regs if s // ratio != (e - 1) // ratio)
    d["registers_non_power_of_two_unaligned"] = sum(
        1 for (s, e, *_x) in regs if (e - s) & (e - s - 1) and s % (1 << M.ceil_log2(e - s)))
    d["one_chunk_registers"] = sum(1 for (s, e, *_x) in regs if e - s == 1)
    sw = list(sweeps(case, g, len(obs[2])))
    d["spanning_register_sweeps_checked_write"] = sum(1 for k, ts in sw if case["stim"][ts[0]][2])
    d["spanning_register_sweeps_checked_read"] = sum(1 for k, ts in sw if not case["stim"][ts[0]][2])
    rs = _reset_cycles(case)
    if rs:
        d["cases_with_resets"] = 1
        d["resets"] = len(rs)
        d["resets_inside_protocol_abiding_transfer"] = sum(
            1 for (a, b, h) in spans[:-1] for t in xf if a <= t <= b < t + ratio + 1)
    d["cycles"] = len(obs[2])
    d["cycles_with_element_w_stb"] = sum(1 for r in obs[2] if any(r[4]))
    d["cycles_with_element_r_stb"] = sum(1 for r in obs[2] if any(r[3]))
    return d


def nontrivial(case, obs):
    """Constructor accepted, >= 2 registers, >= 3 acknowledged protocol-abiding transfers, >= 1 writable register
    inside a word written with all its granules selected and >= 1 readable one read that way."""
    g = geometry(case["cfg"])
    if g is None or not obs or obs[0] == -2 or len(case["cfg"]["regs"]) < 2:
        return False
    st = stats(case, obs)
    return (st["transfers_acknowledged"] >= 3 and st["registers_written_atomically_checked"] >= 1
            and st["registers_read_atomically_checked"] >= 1)


def describe(case):
    c = case["cfg"]
    return {"engine": "bridgemux", "kind": case["kind"], "csr_data_width": c["cdw"], "wishbone_data_width": c["wdw"],
            "csr_addr_width": c["caw"], "regs [start,stop,width,r,w]": c["regs"], "shadow_overlaps": c["ov"],
            "cycles": len(case["stim"]), "resets": case.get("resets", []),
            "first_cycles [cyc,stb,we,adr,sel,dat_w,[r_data]]": case["stim"][:8]}


def shrink(case, fails):
    """the bridge engine's: shorten the trace, drop a prefix, drop the resets the failure does not need"""
    return B.shrink(case, fails)
