"""Engine `mux` (C04, C05): real csr.Multiplexer over mock registers vs Model/Mux.v, every port, every cycle."""
import warnings
warnings.simplefilter("ignore")
from ..common import mkrnd
from .. import sim as S

ENGINE_ID = 4
RAW_COMPARE = True
N = {"quick": 220, "thorough": 4000}
RULE = ("random register layouts (1-6 mock registers, widths 0..4*dw+3, r/w/rw, padded, naturally aligned and unaligned "
        "placements, shadow_overlaps in {None,0,1,2,3}); stimulus = transaction stream (whole-register ascending reads/writes, "
        "aborts, idle gaps, simultaneous read+write, unmapped addresses) or every input bit random, register values change "
        "every cycle; about 30 % of the cases assert the synchronous reset in 1-3 cycles (preferably while a write strobe "
        "or a read is pending or between the chunks of a multi-chunk access, often with the bus inputs held through it); "
        "non-trivial = >= 2 registers, >= 1 completed multi-chunk read and >= 1 completed multi-chunk write")


def ceil_log2(n):
    return 0 if n <= 1 else (n - 1).bit_length()


def gen_layout(rnd, tier):
    dw = rnd.choice([4, 8, 8, 16, 32])
    aw = rnd.randint(2, 6)
    style = rnd.choice(["natural", "natural", "packed", "unaligned", "padded", "natural", "packed", "many", "wide"])
    regs = []
    cur = 0
    if style in ("many", "wide"):
        aw = max(aw, 5)
    top = 1 << aw
    # many: 7-16 mostly one-word, mostly readable registers (wide fan-ins into one shadow chunk);
    # wide: registers of 5-15 bus words
    for i in range(rnd.randint(7, 16) if style == "many" else rnd.randint(1, 6)):
        w = rnd.choice([0, 1, dw - 1, dw, dw + 1, 2 * dw, 3 * dw + 2, rnd.randint(0, 4 * dw + 3)])
        acc = rnd.choice(["r", "w", "rw", "rw"])
        if style == "many":
            w = rnd.choice([dw, dw, dw, dw - 1, 1, 2 * dw])
            acc = rnd.choice(["r", "rw", "rw", "rw", "w"])
        elif style == "wide" and rnd.random() < 0.6:
            w = rnd.randint(4 * dw + 1, 15 * dw)
        need = max(1, (w + dw - 1) // dw)
        size = need
        if style == "padded" or rnd.random() < 0.15:
            size = need + rnd.choice([1, 2])
        if style == "natural":
            p = 1 << ceil_log2(size)
            size = p if rnd.random() < 0.7 else size
            start = -(-cur // p) * p
        elif style == "unaligned":
            start = cur + rnd.choice([0, 0, 1, 3])
        else:
            start = cur + rnd.choice([0, 0, 0, 1])
        if rnd.random() < 0.1:
            start += rnd.randint(1, 4)          # hole
        if start + size > top:
            break
        regs.append([start, start + size, w, int("r" in acc), int("w" in acc)])
        cur = start + size
    if not regs:
        regs.append([0, 1, dw, 1, 1])
    ov = rnd.choice([None, None, 0, 1, 2, 3])
    return {"dw": dw, "aw": aw, "regs": regs, "ov": ov}


def vary_use(ru, cfg):
    """Two ways of using the multiplexer that leave the layout's meaning alone (a random stream of their own):
    `late` = the last k registers are added to the memory map after the Multiplexer has been constructed and
    before it is elaborated (the map is not frozen by the constructor); a lifted layout = the whole register
    block moved to a base address of 257 or more in a wider address space (addresses that are not small
    integers)."""
    if ru.random() < 0.25:
        cfg["late"] = ru.randint(1, len(cfg["regs"]))
    if ru.random() < 0.2:
        aw = ru.randint(9, 11)
        span = max(r[1] for r in cfg["regs"])
        base = ru.choice([256, 257, 260, 512, 1 << (aw - 1), ru.randrange(257, (1 << aw) - span)])
        base = min(base, (1 << aw) - span)
        cfg["aw"] = aw
        for r in cfg["regs"]:
            r[0] += base; r[1] += base


def gen_stim(rnd, cfg, T, kind):
    dw, aw, regs = cfg["dw"], cfg["aw"], cfg["regs"]
    stim = []
    nreg = len(regs)

    lo, hi = min(r[0] for r in regs), max(r[1] for r in regs)

    def raddr():
        if aw > 6 and rnd.random() < 0.8:           # a lifted layout: stay near the register block
            return min((1 << aw) - 1, max(0, rnd.randint(lo - 2, hi + 1)))
        return rnd.randrange(1 << aw)

    def rvals():
        return [rnd.randrange(1 << r[2]) if r[2] else 0 for r in regs]
    if kind == "random":
        for _ in range(T):
            stim.append([raddr(), rnd.randrange(2), rnd.randrange(2), rnd.randrange(1 << dw), rvals()])
        return stim
    while len(stim) < T:
        k = rnd.random()
        if k < 0.6:
            s, e, w, rd, wr = rnd.choice(regs)
            tk = rnd.choice(["r", "w", "rw"])
            n = e - s
            upto = n if rnd.random() < 0.75 else rnd.randint(0, n)
            for a in range(s, s + upto):
                stim.append([a, int("r" in tk), int("w" in tk), rnd.randrange(1 << dw), rvals()])
                if rnd.random() < 0.25:
                    stim.append([raddr(), 0, 0, rnd.randrange(1 << dw), rvals()])
                if rnd.random() < 0.1:
                    s2, e2 = rnd.choice(regs)[:2]
                    a2 = rnd.randrange(s2, e2)
                    if tk == "r":
                        stim.append([a2, 0, 1, rnd.randrange(1 << dw), rvals()])
                    elif tk == "w":
                        stim.append([a2, 1, 0, 0, rvals()])
        elif k < 0.8:
            stim.append([raddr(), rnd.randrange(2), rnd.randrange(2), rnd.randrange(1 << dw), rvals()])
        else:
            stim.append([raddr(), 0, 0, rnd.randrange(1 << dw), rvals()])
    return stim[:T]


def gen_case(seed, tier, idx):
    rnd = mkrnd(seed, "mux", idx)
    cfg = gen_layout(rnd, tier)
    vary_use(mkrnd(seed, "mux-use", idx), cfg)
    # a third way (random stream of its own): the registers reach the memory map in another order than by
    # ascending address, and the half-built map is asked (decode_address) about registers it already has
    ro = mkrnd(seed, "mux-order", idx)
    if "late" not in cfg and len(cfg["regs"]) > 1 and ro.random() < 0.3:
        order = list(range(len(cfg["regs"])))
        if ro.random() < 0.5:
            order.reverse()
        else:
            ro.shuffle(order)
        cfg["order"] = order
    if ro.random() < 0.3:
        # register names that differ only in the type of a part or in where an underscore sits
        cfg["names"] = "alike"
    kind = ["txn", "txn", "txn", "random", "random"][idx % 5]
    T = rnd.choice([200, 300]) if tier == "quick" else rnd.choice([300, 600])
    case = {"engine": "mux", "kind": kind, "cfg": cfg, "stim": gen_stim(rnd, cfg, T, kind)}
    # mid-run synchronous resets come from a random stream of their own: the cases without one are exactly
    # those generated before resets existed
    rr = mkrnd(seed, "mux-reset", idx)
    if len(case["stim"]) > 20 and rr.random() < 0.3:
        case["resets"] = gen_resets(rr, cfg, case["stim"])
    return case


def gen_resets(rr, cfg, stim):
    """1-3 cycles in which the synchronous reset is asserted, preferably (a) in the cycle of a write to the last
    address of a writable register (its write strobe is pending), (b) in the cycle of a read of a readable
    register (the delayed chunk select is pending, and for a first chunk the capture is lost), (c) in the
    cycle of an access to a non-last chunk of a multi-chunk register (transaction in progress, the chunks
    already transferred are forgotten).  Half of the time the bus inputs and register values of the reset cycle
    are held for one more cycle (a row is inserted), otherwise the stream simply goes on."""
    regs = cfg["regs"]
    T = len(stim)
    span = range(3, T - 3)
    pend_w = [t for t in span if stim[t][2] and any(r[4] and stim[t][0] == r[1] - 1 for r in regs)]
    pend_r = [t for t in span if stim[t][1] and reg_at(regs, stim[t][0], 3) is not None]
    mid = [t for t in span if (stim[t][1] or stim[t][2])
           and any(r[1] - r[0] >= 2 and r[0] <= stim[t][0] < r[1] - 1 for r in regs)]
    picks = set()
    for _ in range(rr.choice([1, 1, 2, 3])):
        pool = rr.choice([pend_w, pend_w, pend_r, pend_r, mid, mid, mid, list(span)])
        picks.add(rr.choice(pool or list(span)))
    out, shift = [], 0
    for r in sorted(picks):
        r += shift
        out.append(r)
        if rr.random() < 0.5:
            stim.insert(r + 1, [stim[r][0], stim[r][1], stim[r][2], stim[r][3], list(stim[r][4])])
            shift += 1
    return out


def to_model(case):
    cfg = case["cfg"]
    return [cfg["dw"], cfg["regs"], [] if cfg["ov"] is None else [cfg["ov"]], case["stim"]]


def _segments(case):
    """[(first, last)] cycle ranges; a segment ends with the cycle in which the reset is asserted (a reset in the
    very last cycle has no observable consequence and is not applied)"""
    rs = sorted(set(r for r in case.get("resets", []) if 0 <= r < len(case["stim"]) - 1))
    out, a = [], 0
    for r in rs:
        out.append((a, r)); a = r + 1
    out.append((a, len(case["stim"]) - 1))
    return out


def _reset_cycles(case):
    return [b for (a, b) in _segments(case)[:-1]] if case["stim"] else []


def model_cases(case):
    """A mid-run synchronous reset starts the model again from its initial state: one model run per segment."""
    if not case["stim"]:
        return [to_model(case)]
    cfg = case["cfg"]
    return [[cfg["dw"], cfg["regs"], [] if cfg["ov"] is None else [cfg["ov"]], case["stim"][a:b + 1]]
            for (a, b) in _segments(case)]


def model_join(case, results):
    """shadow sizes are a function of the layout alone (first segment); the rows are concatenated"""
    rsize, wsize, rows = results[0]
    rows = list(rows)
    for r in results[1:]:
        rows += r[2]
    return [rsize, wsize, rows]


def from_model(res):
    return res


def build(cfg):
    from amaranth import Module
    from amaranth.lib import wiring
    from amaranth.lib.wiring import Out
    from amaranth_soc import csr
    from amaranth_soc.memory import MemoryMap

    class Reg(wiring.Component):
        def __init__(self, w, access):
            # the access mode is accepted as a string or as the enum member
            acc = access if w % 2 == 0 else csr.Element.Access(access)
            super().__init__({"element": Out(csr.Element.Signature(w, acc))})

        def elaborate(self, platform):
            return Module()
    mm = MemoryMap(addr_width=cfg["aw"], data_width=cfg["dw"])
    regs = []
    mux = None

    def nm(i):
        if cfg.get("names") != "alike":
            return (f"r{i}",)
        k = i // 4
        return [("b", k), ("b", str(k)), ("c", str(k)), (f"c_{k}",)][i % 4]
    early = len(cfg["regs"]) - cfg.get("late", 0)
    order = cfg.get("order")
    if order:
        regs = [None] * len(cfg["regs"])
        probe = None
        for i in order:
            s, e, w, rd, wr = cfg["regs"][i]
            r = Reg(w, ("r" if rd else "") + ("w" if wr else ""))
            got = mm.add_resource(r, name=nm(i), addr=s, size=e - s)
            assert got == (s, e), (got, s, e)
            regs[i] = r
            if probe is None:
                # the first register added is looked up once, before the others arrive around it
                probe = mm.decode_address(s)
        early = None
    for i, (s, e, w, rd, wr) in enumerate([] if order else cfg["regs"]):
        if i == early:
            mux = csr.Multiplexer(mm, shadow_overlaps=cfg["ov"])
        r = Reg(w, ("r" if rd else "") + ("w" if wr else ""))
        got = mm.add_resource(r, name=nm(i), addr=s, size=e - s)
        assert got == (s, e), (got, s, e)
        regs.append(r)
    if mux is None:
        # a search through the map that stops at its first hit comes before the multiplexer is built
        next(iter(mm.resources()), None); next(iter(mm.all_resources()), None)
        mux = csr.Multiplexer(mm, shadow_overlaps=cfg["ov"])
    else:
        next(iter(mm.resources()), None)
    return mux, regs


def run_impl(case):
    cfg = case["cfg"]
    mux, regs = build(cfg)
    ins = [mux.bus.addr, mux.bus.r_stb, mux.bus.w_stb, mux.bus.w_data]
    rd_idx = [i for i, r in enumerate(cfg["regs"]) if r[3]]
    wr_idx = [i for i, r in enumerate(cfg["regs"]) if r[4]]
    ins += [regs[i].element.r_data for i in rd_idx]
    outs = [mux.bus.r_data] + [regs[i].element.r_stb for i in rd_idx] \
        + [regs[i].element.w_stb for i in wr_idx] + [regs[i].element.w_data for i in wr_idx]
    stim = [row[:4] + [row[4][i] for i in rd_idx] for row in case["stim"]]
    # elaborated exactly once, inside simulate (Multiplexer.elaborate fills the shadows: not idempotent)
    rows = S.simulate(mux, ins, outs, stim, reset_at=_reset_cycles(case))
    n = len(regs)
    obs = []
    for r in rows:
        rstb = [0] * n; wstb = [0] * n; wdata = [0] * n
        p = 1
        for i in rd_idx:
            rstb[i] = r[p]; p += 1
        for i in wr_idx:
            wstb[i] = r[p]; p += 1
        for i in wr_idx:
            wdata[i] = r[p]; p += 1
        obs.append([r[0], rstb, wstb, wdata])
    return [mux._r_shadow.size if rd_idx else 1, mux._w_shadow.size if wr_idx else 1, obs]


def canon(obs):
    return obs


# ----------------------------------------------------------------------------- oracle

def reg_at(regs, a, col):
    for i, r in enumerate(regs):
        if r[col] and r[0] <= a < r[1]:
            return i
    return None


def oracle(case, obs):
    """C04 (read atomicity, read-strobe exactness, zero when idle) and C05 (write atomicity, write-strobe
    exactness) evaluated on the implementation's own trace, with the premises as the properties state them."""
    cfg = case["cfg"]; regs = cfg["regs"]; dw = cfg["dw"]
    stim = case["stim"]; tr = obs[2]
    out = []
    T = len(stim)
    hits = {"r": 0, "w": 0}
    last_first = {}        # readable reg -> latest time of a first-chunk read
    last_other_first = -1
    last_write = {}        # address -> latest time written
    resets = set(_reset_cycles(case))
    for t in range(T - 1):
        addr, rs, ws, wd, rvals = stim[t]
        o = tr[t]; nxt = tr[t + 1]
        rst = t in resets
        for i, r in enumerate(regs):
            # the read strobe is combinational: a reset cycle is a cycle like any other
            if r[3] and o[1][i] != int(bool(rs) and addr == r[0]):
                out.append(("C04", t, f"register {i} r_stb={o[1][i]} with r_stb={rs} addr={addr} start={r[0]}"))
            if rst:
                continue
            if r[4] and nxt[2][i] != int(bool(ws) and addr == r[1] - 1):
                out.append(("C05", t, f"register {i} w_stb={nxt[2][i]} one cycle after w_stb={ws} addr={addr} (last address {r[1]-1})"))
            if not r[4] and nxt[2][i] != 0:
                out.append(("C05", t, f"read-only register {i} received a write strobe"))
        if t == 0:
            if tr[0][0] != 0:
                out.append(("C04", 0, "bus r_data non-zero at time 0"))
            if any(tr[0][2]):
                out.append(("C05", 0, "write strobe at time 0"))
        if rst:
            # the cycle after a reset is a time 0 again: nothing has been read, nothing has been written,
            # whatever the bus did in the reset cycle itself; transactions in progress are forgotten
            if nxt[0] != 0:
                out.append(("C04", t + 1, f"bus r_data={nxt[0]:#x} in the first cycle after a reset "
                                          f"(reset cycle: r_stb={rs} addr={addr})"))
            if any(nxt[2]):
                out.append(("C05", t + 1, f"write strobe {nxt[2]} in the first cycle after a reset "
                                          f"(reset cycle: w_stb={ws} addr={addr})"))
            last_first.clear()
            last_write.clear()
            if len(out) > 12:
                break
            continue
        k = reg_at(regs, addr, 3) if rs else None
        if k is None and nxt[0] != 0:
            out.append(("C04", t, f"bus r_data={nxt[0]} after a cycle without a read of a readable register"))
        # bookkeeping of first-chunk reads (this cycle included)
        if rs:
            for q, r in enumerate(regs):
                if r[3] and addr == r[0]:
                    last_first[q] = t
        if k is not None and k in last_first:
            t0 = last_first[k]
            ok = all(not (q != k and u > t0) for q, u in last_first.items())
            if ok:
                hits["r"] += 1
                j = addr - regs[k][0]
                v = stim[t0][4][k]
                exp = (v >> (j * dw)) & ((1 << dw) - 1)
                if nxt[0] != exp:
                    out.append(("C04", t, f"read of chunk {j} of register {k}: r_data={nxt[0]:#x}, snapshot taken at {t0} gives {exp:#x}"))
        if ws:
            last_write[addr] = (t, wd)
        kw = reg_at(regs, addr, 4) if ws else None
        if kw is not None and addr == regs[kw][1] - 1:
            s, e, w = regs[kw][:3]
            tj = []
            ok = True
            for j in range(e - s):
                if j * dw >= w:
                    continue
                if (s + j) not in last_write:
                    ok = False
                    break
                tj.append((j,) + last_write[s + j])
            if ok:
                lo = min([u for _, u, _ in tj], default=t)
                for u in range(lo + 1, t + 1):
                    a_u, _, ws_u = stim[u][0], stim[u][1], stim[u][2]
                    q = reg_at(regs, a_u, 4) if ws_u else None
                    if q is not None and q != kw:
                        ok = False
                        break
            if ok:
                hits["w"] += 1
                exp = 0
                for j, u, d in tj:
                    cw = min(dw, w - j * dw)
                    exp |= (d & ((1 << cw) - 1)) << (j * dw)
                if nxt[3][kw] != exp:
                    out.append(("C05", t, f"write completing register {kw}: w_data={nxt[3][kw]:#x}, chunks written give {exp:#x}"))
        if len(out) > 12:
            break
    return out


def nontrivial(case, obs):
    """>= 2 registers, >= 1 completed multi-chunk read and >= 1 completed multi-chunk write transaction"""
    regs = case["cfg"]["regs"]
    if len(regs) < 2:
        return False
    st = stats(case, obs)
    return st["multi_chunk_reads_completed"] >= 1 and st["multi_chunk_writes_completed"] >= 1


def stats(case, obs):
    regs = case["cfg"]["regs"]; stim = case["stim"]
    d = {"cycles": len(stim), "read_strobes": 0, "write_strobes": 0, "unmapped_accesses": 0,
         "multi_chunk_reads_completed": 0, "multi_chunk_writes_completed": 0, "shared_chunks": 0,
         "unaligned_registers": 0}
    run_r = {}
    run_w = {}
    resets = set(_reset_cycles(case))
    if resets:
        d.update({"cases_with_resets": 1, "resets": len(resets), "resets_write_strobe_pending": 0,
                  "resets_read_pending": 0, "resets_inside_multi_chunk_access": 0, "resets_inputs_held": 0})
    for t, (addr, rs, ws, wd, rv) in enumerate(stim):
        d["read_strobes"] += rs; d["write_strobes"] += ws
        if t in resets:
            # the access of the reset cycle is lost and every transaction in progress is forgotten
            d["resets_write_strobe_pending"] += int(bool(ws) and any(r[4] and addr == r[1] - 1 for r in regs))
            d["resets_read_pending"] += int(bool(rs) and reg_at(regs, addr, 3) is not None)
            d["resets_inside_multi_chunk_access"] += int(bool(rs or ws) and any(
                r[1] - r[0] >= 2 and r[0] <= addr < r[1] - 1 for r in regs))
            d["resets_inputs_held"] += int(stim[t + 1][:4] == stim[t][:4])
            run_r.clear(); run_w.clear()
            continue
        if (rs or ws) and reg_at(regs, addr, 3) is None and reg_at(regs, addr, 4) is None:
            d["unmapped_accesses"] += 1
        for i, r in enumerate(regs):
            n = r[1] - r[0]
            if n < 2:
                continue
            if rs and r[3]:
                if addr == r[0]:
                    run_r[i] = 1
                elif run_r.get(i) and addr == r[0] + run_r[i]:
                    run_r[i] += 1
                    if run_r[i] == n:
                        d["multi_chunk_reads_completed"] += 1; run_r[i] = 0
            if ws and r[4]:
                if addr == r[0]:
                    run_w[i] = 1
                elif run_w.get(i) and addr == r[0] + run_w[i]:
                    run_w[i] += 1
                    if run_w[i] == n:
                        d["multi_chunk_writes_completed"] += 1; run_w[i] = 0
    for r in regs:
        p = 1 << ceil_log2(r[1] - r[0])
        if r[0] % p:
            d["unaligned_registers"] += 1
    return d


def describe(case):
    c = case["cfg"]
    return {"engine": "mux", "kind": case["kind"], "dw": c["dw"], "aw": c["aw"], "regs": c["regs"], "shadow_overlaps": c["ov"],
            "cycles": len(case["stim"]), "resets": case.get("resets", []), "first_cycles": case["stim"][:3]}


def shrink(case, fails):
    best = case
    T = len(best["stim"])
    for k in list(range(2, T, max(1, T // 40))):
        c = dict(best); c["stim"] = best["stim"][:k]
        if fails(c):
            best = c
            break
    if best.get("resets"):
        # only the resets that still fall inside the trace, then only those the failure needs
        rs = _reset_cycles(best)
        for r in list(rs):
            c = dict(best); c["resets"] = [x for x in rs if x != r]
            if fails(c):
                rs = c["resets"]
        best = dict(best); best["resets"] = rs
    return best
