"""Engine `sram` (C15): wishbone.WishboneSRAM vs Model/Sram.v."""
from ..common import mkrnd
from .. import sim as S

ENGINE_ID = 15
RAW_COMPARE = True      # from_model is the identity and there is no canon(): model sx == observation sx
N = {"quick": 160, "thorough": 2400}
RULE = ("geometry: every legal (data_width, granularity) pair in rotation, size 2..64 granules, writable 3/4, "
        "init image random/short/out-of-range; streams: txn (address pool <= 4, stb held 1..4 cycles through ack, "
        "cyc/stb alone in the gaps, back-to-back), pool (random bits over the pool), random (every input bit random), "
        "short (12 cycles, replayed inside Coq), ctor (legal and illegal constructor arguments incl. None/float/str, "
        "half of them integer triples at the legality boundaries), exh (1-2 row SRAM: every 3-cycle (thorough: 4-cycle) "
        "window over 8 bus symbols, concatenated). "
        "non-trivial = accepted constructor with >= 3 acknowledged reads of a word after an acknowledged write to it "
        "(read-only: >= 3 acknowledged reads and >= 1 acknowledged write attempt) and stb held through an ack")

WIDTHS = (8, 16, 32, 64)
PAIRS = [(d, g) for d in WIDTHS for g in WIDTHS if g <= d]
BAD_OBJECTS = ["8", 4.5, [8], (16,), b"\x08"]   # realisations of a non-int that equals no int


# ---------- arguments ----------

def py_arg(a):
    """case encoding -> the Python object handed to the constructor."""
    if a is None:
        return None
    k, v = a
    if k == "i":
        return v
    if k == "f":
        return float(v)
    return BAD_OBJECTS[v % len(BAD_OBJECTS)]


def sx_arg(a):
    if a is None:
        return []
    k, v = a
    if k == "i":
        return [v]
    if k == "f":
        return [v, 0]
    return [0, 0, 0]


def gen_geom(rnd, idx):
    dw, g = PAIRS[idx % len(PAIRS)] if rnd.random() < 0.8 else rnd.choice(PAIRS)
    sizes = [s for s in (2, 4, 8, 16, 32, 64) if s * g >= dw]
    size = rnd.choice(sizes + sizes[:2])
    depth = size * g // dw
    wr = int(rnd.random() < 0.75)
    k = rnd.random()
    if k < 0.1:
        init = []
    elif k < 0.25:
        init = [rnd.randrange(1 << dw) for _ in range(rnd.randint(0, depth))]
    elif k < 0.35:   # out-of-range / negative values are cast to unsigned(dw)
        init = [rnd.choice([-1, -rnd.randrange(1 << dw), (1 << dw) + rnd.randrange(1 << dw), rnd.randrange(1 << dw)])
                for _ in range(depth)]
    else:
        init = [rnd.randrange(1 << dw) for _ in range(depth)]
    granarg = None if (g == dw and rnd.random() < 0.5) else ["i", g]
    return {"size": ["i", size], "dw": ["i", dw], "gran": granarg, "wr": wr, "init": init}


def gen_ctor(rnd):
    def arg(pool):
        k = rnd.random()
        if k < 0.72:
            return ["i", rnd.choice(pool)]
        if k < 0.80:
            return ["f", rnd.choice(pool)]
        if k < 0.88:
            return None
        return ["b", rnd.randrange(len(BAD_OBJECTS))]
    if rnd.random() < 0.55:
        # integer triples around the legality boundaries: size 1, size*gran < dw, gran > dw, init too long
        dwv = rnd.choice(WIDTHS); gv = rnd.choice(WIDTHS)
        size = ["i", rnd.choice([1, 1, 2, 2, 4, 4, 8, 16, 3, 0])]
        dw = ["i", dwv]
        gran = None if rnd.random() < 0.2 else ["i", gv]
        geff = dwv if gran is None else gv
        depth = max(size[1] * geff // dwv, 0)
        n = rnd.choice([0, depth, depth, depth + 1, max(depth - 1, 0)])
    else:
        size = arg([-4, -1, 0, 1, 1, 2, 2, 3, 4, 4, 6, 8, 8, 12, 16, 32, 64, 128])
        dw = arg([8, 8, 16, 16, 32, 32, 64, 64, 0, 4, 24, 128, -8])
        gran = arg([8, 8, 16, 16, 32, 32, 64, 64, 0, 4, 24, 128, -8]) if rnd.random() < 0.8 else None
        n = rnd.choice([0, 0, 1, 2, 4, 8, 9, 17, 33, 65])
    init = [rnd.randrange(256) for _ in range(n)]
    return {"size": size, "dw": dw, "gran": gran, "wr": rnd.randrange(2), "init": init}


def legal(cfg):
    """(size, dw, gran, depth) if the documented constructor contract accepts the arguments, else None."""
    s, d, g = cfg["size"], cfg["dw"], cfg["gran"]
    if g is None:
        g = d
    if s is None or d is None or s[0] != "i" or d[0] != "i" or g[0] != "i":
        return None
    s, d, g = s[1], d[1], g[1]
    if s < 2 or s & (s - 1) or d not in WIDTHS or g not in WIDTHS or g > d or s * g < d:
        return None
    if len(cfg["init"]) > s * g // d:
        return None
    return s, d, g, s * g // d


def documented_error(cfg):
    """1 (TypeError) / 2 (ValueError) where the docstring and messages of WishboneSRAM fix the class for
    plain-int or non-numeric arguments: size not an int power of two, widths not in {8,16,32,64} -> TypeError;
    otherwise size * granularity < data_width -> ValueError.  None where they do not say."""
    s, d, g = cfg["size"], cfg["dw"], cfg["gran"]
    if g is None:
        g = d
    if any(x is not None and x[0] == "f" for x in (s, d, g)):
        return 1 if (s is not None and s[0] == "f") else None
    if s is None or s[0] != "i" or s[1] <= 0 or s[1] & (s[1] - 1):
        return 1
    if d is None or d[0] != "i" or d[1] not in WIDTHS or g is None or g[0] != "i" or g[1] not in WIDTHS:
        return 1
    if s[1] * g[1] < d[1]:
        return 2
    return None


# ---------- stimulus ----------

def rand_sel(rnd, ns):
    k = rnd.random()
    if k < 0.35:
        return (1 << ns) - 1
    if k < 0.55:
        return 1 << rnd.randrange(ns)
    if k < 0.62:
        return 0
    return rnd.randrange(1 << ns)


def gen_stim(rnd, kind, aw, dw, ns, T):
    A = 1 << aw
    pool = [rnd.randrange(A) for _ in range(rnd.randint(1, 4))]
    stim = []
    if kind == "random":
        for _ in range(T):
            stim.append([rnd.randrange(2), rnd.randrange(2), rnd.randrange(2), rnd.randrange(A),
                         rnd.randrange(1 << ns), rnd.randrange(1 << dw)])
        return stim
    if kind == "pool":
        p = rnd.choice([0.6, 0.8, 0.95])
        for _ in range(T):
            stim.append([int(rnd.random() < p), int(rnd.random() < p), rnd.randrange(2), rnd.choice(pool),
                         rand_sel(rnd, ns), rnd.randrange(1 << dw)])
        return stim
    # txn: transactions over the pool
    stable = rnd.random() < 0.7      # request fields stable while stb is held
    pw = rnd.choice([0.3, 0.5, 0.7])
    while len(stim) < T:
        we = int(rnd.random() < pw)
        a = rnd.choice(pool) if rnd.random() < 0.9 else rnd.randrange(A)
        se = rand_sel(rnd, ns)
        d = rnd.randrange(1 << dw)
        hold = rnd.choice([1, 2, 2, 2, 3, 3, 4, 5])   # 2 = dropped with ack; >= 3 = held through ack
        for _ in range(hold):
            if not stable:
                if rnd.random() < 0.3: we = rnd.randrange(2)
                if rnd.random() < 0.3: a = rnd.choice(pool)
                if rnd.random() < 0.3: se = rand_sel(rnd, ns)
                if rnd.random() < 0.3: d = rnd.randrange(1 << dw)
            stim.append([1, 1, we, a, se, d])
        gap = rnd.choice([0, 0, 0, 1, 1, 2, 3])
        for _ in range(gap):
            c, s = rnd.choice([(0, 0), (1, 0), (0, 1), (1, 0), (0, 1)])
            stim.append([c, s, rnd.randrange(2), rnd.choice(pool), rand_sel(rnd, ns), rnd.randrange(1 << dw)])
    return stim[:T]


KINDS = ["txn", "txn", "pool", "random", "txn", "ctor", "short", "pool",
         "txn", "ctor", "random", "txn", "pool", "ctor", "short", "exh"]
SMALL = [(2, 16, 8), (2, 8, 8), (4, 32, 16), (4, 16, 8)]     # depth 1 / 2 / 2 / 2, sel 2 / 1 / 2 / 2 bits


def gen_exh(rnd, tier, idx):
    """Small scope, exhaustive: every window of L consecutive cycles (quick L=3, thorough L=4) over the 8
    bus symbols {idle, cyc only, stb only, read, write with sel = 0, 1, 2, 3 (masked to sel's width)},
    concatenated into one trace on a 1- or 2-row SRAM; data and address bits random."""
    size, dw, g = SMALL[(idx // len(KINDS)) % len(SMALL)]
    depth = size * g // dw; ns = dw // g
    L = 3 if tier == "quick" else 4
    cfg = {"size": ["i", size], "dw": ["i", dw], "gran": ["i", g], "wr": int(rnd.random() < 0.8),
           "init": [rnd.randrange(1 << dw) for _ in range(depth)]}
    sym = [(0, 0, 0, 0), (1, 0, 1, 1), (0, 1, 1, 1), (1, 1, 0, 1), (1, 1, 1, 0), (1, 1, 1, 1), (1, 1, 1, 2), (1, 1, 1, 3)]
    stim = []
    for w in range(8 ** L):
        for j in range(L):
            c, st, we, se = sym[(w >> (3 * j)) & 7]
            stim.append([c, st, we, rnd.randrange(depth), se & ((1 << ns) - 1), rnd.randrange(1 << dw)])
    return {"engine": "sram", "kind": "exh", "cfg": cfg, "stim": stim}


def gen_case(seed, tier, idx):
    rnd = mkrnd(seed, "sram", idx)
    kind = KINDS[idx % len(KINDS)]
    if kind == "exh":
        return gen_exh(rnd, tier, idx)
    if kind == "ctor":
        cfg = gen_ctor(rnd)
        lg = legal(cfg)
        stim = []
        if lg:
            s, d, g, depth = lg
            stim = gen_stim(rnd, "txn", depth.bit_length() - 1, d, d // g, 12)
        return {"engine": "sram", "kind": "ctor", "cfg": cfg, "stim": stim}
    cfg = gen_geom(rnd, idx // len(KINDS) + (idx % len(KINDS)) * 3)
    s, d, g, depth = legal(cfg)
    if kind == "short":
        while depth > 2 and s * g // 2 >= d:
            s //= 2; depth //= 2
        cfg["size"] = ["i", s]; cfg["init"] = cfg["init"][:depth]
        T = 12
        sk = rnd.choice(["txn", "pool"])
    else:
        T = rnd.randint(300, 400)
        sk = kind
    stim = gen_stim(rnd, sk, depth.bit_length() - 1, d, d // g, T)
    case = {"engine": "sram", "kind": kind, "cfg": cfg, "stim": stim}
    # mid-run synchronous resets, from a random stream of their own (the cases without one are exactly those
    # generated before resets existed): 1-3 cycles, mostly those in which a request is being accepted (the
    # acknowledge that would follow is lost; a write of that very cycle still reaches the memory, which has no
    # reset) or acknowledged
    rr = mkrnd(seed, "sram-reset", idx)
    if len(stim) > 20 and rr.random() < 0.3:
        span = list(range(2, len(stim) - 3))
        req = [t for t in span if stim[t][0] and stim[t][1]]
        case["resets"] = sorted(set(rr.choice(rr.choice([req, req, req, span]) or span) for _ in range(rr.choice([1, 2, 3]))))
    return case


def _segments(case):
    """[(first, last)]: a segment ends with the cycle in which the reset is asserted"""
    T = len(case["stim"])
    rs = sorted(set(r for r in case.get("resets", []) if 0 <= r < T - 1))
    out, a = [], 0
    for r in rs:
        out.append((a, r)); a = r + 1
    out.append((a, T - 1))
    return out


def reset_cycles(case):
    return [b for (a, b) in _segments(case)[:-1]] if case["stim"] else []


def track(cfg, rows, stim, ack=0):
    """Memory rows after the given cycles: accepted writes (cyc & stb & ~ack, we, writable) replace the selected
    granules of the addressed row; ack follows cyc & stb & ~ack.  Used to hand each post-reset segment of the
    model the memory contents the reset leaves untouched."""
    s, d, g, depth = legal(cfg)
    gm = (1 << g) - 1
    rows = list(rows)
    for cyc, stb, we, adr, sel, dat in stim:
        acc = cyc and stb and not ack
        if acc and we and cfg["wr"]:
            a = adr & (depth - 1)
            v = rows[a]
            for k in range(d // g):
                if (sel >> k) & 1:
                    v = (v & ~(gm << (k * g))) | (dat & (gm << (k * g)))
            rows[a] = v
        ack = int(bool(acc))
    return rows


def model_cases(case):
    """A mid-run reset restarts the model from its initial state with the memory as the reset found it: one model
    run per segment, the init image of segment k being the tracked contents after segments 0..k-1."""
    full = to_model(case)
    if not case["stim"] or not reset_cycles(case) or not legal(case["cfg"]):
        return [full]
    c = case["cfg"]
    s, d, g, depth = legal(c)
    rows = [(c["init"][r] if r < len(c["init"]) else 0) & ((1 << d) - 1) for r in range(depth)]
    out = []
    for (a, b) in _segments(case):
        seg = case["stim"][a:b + 1]
        out.append([[sx_arg(c["size"]), sx_arg(c["dw"]), sx_arg(c["gran"]), c["wr"], list(rows)], seg])
        rows = track(c, rows, seg)
    return out


def masked_rows(case):
    """Rows whose dat_r shows the read port's data register as it was BEFORE a reset (the reset does not touch it,
    the restarted model does not know it): the first row after the reset, and the second one too when a write is
    accepted in the first (the register is not loaded at that edge).  ack is 0, or acknowledges a write, there."""
    out = []
    T = len(case["stim"])
    for r in reset_cycles(case):
        out.append(r + 1)
        cyc, stb, we = case["stim"][r + 1][:3]
        if cyc and stb and we and case["cfg"]["wr"] and r + 2 < T:
            out.append(r + 2)
    return out


def model_join(case, results):
    """rows concatenated; masked_rows are -1 on both sides"""
    first = results[0]
    if first[0] != 0:
        return first
    rows = [list(r) for r in first[2]]
    for r in results[1:]:
        rows += [list(x) for x in r[2]]
    for t in masked_rows(case):
        rows[t][1] = -1
    return [0, first[1], rows]


# ---------- model side ----------

def to_model(case):
    c = case["cfg"]
    return [[sx_arg(c["size"]), sx_arg(c["dw"]), sx_arg(c["gran"]), c["wr"], c["init"]], case["stim"]]


def from_model(res):
    return res


# ---------- implementation side ----------

def run_impl(case):
    """[-2, 1|2|3] if the constructor raises TypeError|ValueError|anything else, otherwise
    [0, [addr_width, len(dat_r), len(sel), map.addr_width, map.data_width, depth, size], rows] with
    rows[t] = [ack, dat_r, memory image] read after the inputs of cycle t are applied."""
    from amaranth_soc.wishbone.sram import WishboneSRAM
    c = case["cfg"]
    kw = dict(size=py_arg(c["size"]), data_width=py_arg(c["dw"]), granularity=py_arg(c["gran"]),
              writable=bool(c["wr"]), init=list(c["init"]))
    # the same initial image installed in six ways (by the shape of the case): list, tuple, one-shot generator
    # in the constructor; through the `init` setter after construction (on an empty memory, or replacing another
    # image); poked row by row into `init`
    image = kw.pop("init")
    mode = (len(image) * 5 + len(case["stim"])) % 6
    try:
        if mode == 1:
            dut = WishboneSRAM(init=tuple(image), **kw)
        elif mode == 2:
            dut = WishboneSRAM(init=(x for x in image), **kw)
        elif mode == 3:
            dut = WishboneSRAM(**kw)
            dut.init = image
        elif mode == 4:
            dut = WishboneSRAM(init=[1], **kw)
            dut.init = (x for x in image)
        elif mode == 5 and len(image) <= len(WishboneSRAM(**kw).init):
            dut = WishboneSRAM(**kw)
            for i, v in enumerate(image):
                dut.init[i] = v
        else:
            dut = WishboneSRAM(init=image, **kw)
    except TypeError:
        return [-2, 1]
    except ValueError:
        return [-2, 2]
    except Exception:
        return [-2, 3]
    bus = dut.wb_bus
    mm = bus.memory_map
    res = list(mm.resources())
    assert len(res) == 1 and list(mm.windows()) == []
    _, name, (r0, r1) = res[0]
    assert r0 == 0 and tuple(name) == ("mem",), (name, r0)
    md = dut._mem_data
    depth = len(md.init)
    geo = [len(bus.adr), len(bus.dat_r), len(bus.sel), mm.addr_width, mm.data_width, depth, r1 - r0]
    assert len(bus.dat_w) == len(bus.dat_r) and dut.size == r1 - r0 and dut.writable == bool(c["wr"])
    cells = [md[r] for r in range(depth)]

    def probe(ctx, t):
        return [int(ctx.get(x)) for x in cells]
    ins = [bus.cyc, bus.stb, bus.we, bus.adr, bus.sel, bus.dat_w]
    rs = reset_cycles(case)
    rows = S.simulate(dut, ins, [bus.ack, bus.dat_r], case["stim"], probe=probe, reset_at=rs)
    for t in masked_rows(case):
        rows[t][1] = -1              # see model_join
    return [0, geo, rows]


# ---------- property, restated over implementation observations ----------

def oracle(case, obs):
    """C15 over the recorded ports and memory images only.  Returns (pid, cycle, text)."""
    out = []
    cfg = case["cfg"]
    lg = legal(cfg)
    if obs[0] == -2:
        if lg:
            out.append(("C15", "ctor", f"constructor refused legal arguments {describe(case)['args']}"))
        elif obs[1] == 3:
            out.append(("C15", "ctor", "constructor raised something other than TypeError/ValueError"))
        else:
            want = documented_error(cfg)
            if want and want != obs[1]:
                out.append(("C15", "ctor", f"constructor raised {['', 'TypeError', 'ValueError'][obs[1]]} for "
                                           f"{describe(case)['args']}, documented: {['', 'TypeError', 'ValueError'][want]}"))
        return out
    if not lg:
        return [("C15", "ctor", f"constructor accepted illegal arguments {describe(case)['args']}")]
    size, dw, g, depth = lg
    ns = dw // g
    aw, ldat, lsel, maw, mdw, d2, msz = obs[1]
    if (1 << aw) != depth or d2 != depth or ldat != dw or lsel != ns or (1 << maw) != size or mdw != g or msz != size \
            or depth * dw != size * g:
        out.append(("C15", "ctor", f"geometry {obs[1]} does not describe {size} granules of {g} bits in rows of {dw}"))
        return out
    gm = (1 << g) - 1
    mem = [(cfg["init"][r] if r < len(cfg["init"]) else 0) & ((1 << dw) - 1) for r in range(depth)]   # abstract memory
    rows = obs[2]
    wr = cfg["wr"]
    resets = set(reset_cycles(case))
    for t, (i, o) in enumerate(zip(case["stim"], rows)):
        cyc, stb, we, adr, sel, dat = i
        ack, dat_r, image = o
        if t - 1 in resets and ack:
            out.append(("C15", t, "ack asserted in the first cycle after a reset"))
        if t == 0 and ack:
            out.append(("C15", 0, "ack asserted in the first cycle"))
        if image != mem:
            r = next(k for k in range(depth) if image[k] != mem[k])
            out.append(("C15", t, f"memory row {r} is {image[r]:#x}, accepted writes over init give {mem[r]:#x}"))
            mem = list(image)    # resynchronise: report each corruption once
        acc = cyc and stb and not ack
        if t + 1 < len(rows) and t not in resets:
            ack2, dat_r2, _ = rows[t + 1]
            if ack2 != int(bool(acc)):
                why = ("held request acknowledged twice" if ack else "spontaneous ack") if ack2 else "request not acknowledged"
                out.append(("C15", t + 1, f"ack={ack2} after cyc={cyc} stb={stb} ack={ack}: {why}"))
            if acc and not we and dat_r2 != mem[adr]:
                out.append(("C15", t + 1, f"read of word {adr} returned {dat_r2:#x}, latest written value is {mem[adr]:#x}"))
        if acc and we and wr:
            v = mem[adr]
            for k in range(ns):
                if (sel >> k) & 1:
                    v = (v & ~(gm << (k * g))) | (dat & (gm << (k * g)))
            mem[adr] = v
        if len(out) > 12:
            break
    return out


def _events(case, obs):
    rd_after_wr = 0; rd = 0; wr_acc = 0; held = 0
    written = set()
    rows = obs[2]
    for t, (i, o) in enumerate(zip(case["stim"], rows)):
        cyc, stb, we, adr, sel, dat = i
        acc = cyc and stb and not o[0]
        if o[0] and cyc and stb:
            held += 1
        if acc and we:
            wr_acc += 1
            if sel:
                written.add(adr)
        if acc and not we:
            rd += 1
            if adr in written:
                rd_after_wr += 1
    return rd_after_wr, rd, wr_acc, held


def nontrivial(case, obs):
    """see RULE"""
    if not obs or obs[0] != 0:
        return False
    raw, rd, wa, held = _events(case, obs)
    if case["cfg"]["wr"]:
        return raw >= 3 and held >= 1
    return rd >= 3 and wa >= 1 and held >= 1


def describe(case):
    c = case["cfg"]
    return {"engine": "sram", "kind": case["kind"],
            "args": {"size": repr(py_arg(c["size"])), "data_width": repr(py_arg(c["dw"])),
                     "granularity": repr(py_arg(c["gran"])), "writable": bool(c["wr"]),
                     "init": [hex(x) for x in c["init"][:8]] + (["..."] if len(c["init"]) > 8 else [])},
            "cycles": len(case["stim"]),
            "first_cycles [cyc,stb,we,adr,sel,dat_w]": case["stim"][:3]}


def stats(case, obs):
    """Per-case integer counters (input distribution), summed by the runner into the evidence."""
    if not obs or obs[0] == "harness-exception":
        return {}
    if obs[0] == -2:
        return {"ctor_TypeError": int(obs[1] == 1), "ctor_ValueError": int(obs[1] == 2), "ctor_other": int(obs[1] == 3)}
    geo = obs[1]
    raw, rd, wa, held = _events(case, obs)
    wr = bool(case["cfg"]["wr"])
    return {f"dw{geo[1]}_gran{geo[4]}": 1, f"depth{geo[5]}": 1, "writable": int(wr), "readonly": int(not wr),
            "cycles": len(case["stim"]), "accepted_reads": rd, "accepted_writes": wa,
            "reads_after_write": raw, "stb_held_through_ack": held}


def summarize(cases, obs):
    """Older runner API: the same counters, summed here."""
    d = {}
    for c, o in zip(cases, obs):
        for k, v in stats(c, o).items():
            d[k] = d.get(k, 0) + v
    return d


def shrink(case, fails):
    """Shortest failing prefix of the trace (the property is a safety property over prefixes)."""
    T = len(case["stim"])
    if T <= 2:
        return case
    lo, hi = 1, T
    while lo < hi:
        mid = (lo + hi) // 2
        c = dict(case); c["stim"] = case["stim"][:mid]
        if fails(c):
            hi = mid
        else:
            lo = mid + 1
    c = dict(case); c["stim"] = case["stim"][:lo]
    return c if fails(c) else case
