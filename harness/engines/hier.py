"""Engine `hier` (C01): real bus hierarchies, end to end, vs Model/Hierarchy.v and vs the real memory map.

A case is a recipe for a hierarchy built through the public constructors only:
  Wishbone root: wishbone.Decoder over 1-3 of {WishboneSRAM, WishboneCSRBridge over a CSR tree}
  CSR root:      a CSR tree
  CSR tree:      csr.Decoder over CSR trees | csr.Multiplexer over mock registers | csr.Bridge over real
                 csr.Registers (csr.Builder) | csr.EventMonitor | gpio.Peripheral
Every MemoryMap call the constructors make (add_resource / add_window / align_to) is traced by wrapping the
MemoryMap methods while the hierarchy is built; the calls that returned are what the model's map is built
from (a refused add() raises before it changes anything and is dropped, like a user's try/except).

Stimulus: for EVERY address of the root memory map one read transfer and one write transfer (Wishbone: one
select line, cyc/stb held until ack or ratio+4 cycles; CSR: one strobe cycle), then optionally a tail of
cycles with every root input random.  The stimulus is reactive (ack) and real registers produce their own
r_data, so the rows actually applied are recorded by run_impl and handed to the model by to_model (via a
per-run cache file; to_model re-runs the implementation if the file is missing).

Observation compared with the model, every cycle: root ack/dat_r (or r_data), r_stb/w_stb/w_data of every
register element, cyc of every SRAM, SRAM contents after every transfer; plus all_resources(),
decode_address(a) for every a, and the model's `reach a` against (decode_address(a), a - find_resource().start).

The ORACLE uses the implementation's rows and the real root.memory_map only."""
import os, sys, json, time, warnings, contextlib, multiprocessing
warnings.simplefilter("ignore")
from ..common import mkrnd, WORK, REPO, case_hash, ensure_dir
from .. import sim as S

ENGINE_ID = 1
N = {"quick": 144, "thorough": 2400}
RULE = ("random real hierarchies (Wishbone root dw 8-32, granularity 8..dw, random features, 1-3 of SRAM / CSR bridge over "
        "{multiplexer with mock registers, csr.Decoder tree depth<=2, csr.Bridge with real registers, EventMonitor, GPIO}; or a "
        "CSR root), named and anonymous windows, implicit / size-aligned explicit addresses / align_to, dense windows between "
        "equal granularities and sparse ones under a decoder with granularity = data width; every address of the root map "
        "read and written once with distinct data, optionally followed by fully random root inputs; non-trivial = at least "
        "two leaves reachable from the root, at least one assigned and one unassigned address, and a multi-chunk register "
        "or an SRAM")

PID = "C01"


def ceil_log2(n):
    return 0 if n <= 1 else (n - 1).bit_length()


# ------------------------------------------------------------------------------------------------
# generation
# ------------------------------------------------------------------------------------------------
def gen_mux(rnd, aw, dw, tag):
    al = rnd.choice([0, 0, 0, 1])
    ops = []
    n = rnd.choice([0, 1, 1, 2, 2, 3, 4])
    many = aw >= 4 and rnd.random() < 0.5       # 7-15 small readable registers: wide fan-ins into one shadow chunk
    if many:
        n = min(rnd.choice([7, 8, 9, 11, 12, 13, 14, 15]), 1 << aw)
    for i in range(n):
        w = rnd.choice([rnd.randint(1, 2 * dw + 3), dw, dw + 1, 1, 2 * dw, 0 if rnd.random() < 0.3 else 3,
                        rnd.randint(2 * dw + 1, 4 * dw)])
        acc = rnd.choice(["r", "w", "rw", "rw", "rw"])
        if many:
            w = rnd.choice([dw, dw, dw - 1, 1]); acc = rnd.choice(["r", "rw", "rw"])
        need = max(1, (w + dw - 1) // dw)
        size = need + rnd.choice([0, 0, 0, 1])
        addr = None
        if many:
            size = need                      # packed back to back: they all land, and share shadow chunks
        elif al == 0 and rnd.random() < 0.3:
            addr = rnd.randrange(1 << aw)
        elif rnd.random() < 0.15:
            addr = (rnd.randrange(1 << aw) >> al) << al
        alignment = rnd.choice([None, None, None, 0, 1, ceil_log2(size)])
        nm = f"{tag}r{i}" if rnd.random() < 0.7 else [f"{tag}r{i}", i]
        if many:
            alignment = None
        elif rnd.random() < 0.2:
            ops.append(["align", rnd.randint(0, aw)])
        ops.append(["add", w, acc, nm, size, addr, alignment])
    ov = rnd.choice([None, None, 0, 1, 2])
    return {"t": "mux", "aw": aw, "dw": dw, "al": al, "ov": None if many else ov, "ops": ops}


def gen_regs(rnd, aw, dw, tag):
    regs = []
    for i in range(rnd.randint(1, 3)):
        fields = []
        for j in range(rnd.randint(1, 3)):
            fields.append([rnd.choice(["rw", "rw", "r", "w", "rw1c"]), rnd.choice([1, 3, dw // 2, dw, dw + 2])])
        scope = rnd.choice([None, None, "c", "ci"])
        regs.append([f"{tag}g{i}", fields, scope])
    return {"t": "regs", "aw": aw, "dw": dw, "regs": regs}


def gen_leaf(rnd, aw, dw, tag):
    k = rnd.random()
    if k < 0.55:
        return gen_mux(rnd, aw, dw, tag)
    if k < 0.7:
        return gen_regs(rnd, aw, dw, tag)
    if k < 0.85:
        al = rnd.choice([0, 0, 1])
        n = rnd.choice([1, 2, dw, dw + 1, 2 * dw])
        need = 1 + max(ceil_log2((n + dw - 1) // dw), al)
        if need <= aw:
            return {"t": "event", "n": n, "trigger": rnd.choice(["level", "rise", "fall"]), "dw": dw, "al": al, "aw": need}
        return gen_mux(rnd, aw, dw, tag)
    pins = rnd.choice([1, 2, 3, 4, 8])
    need = 2 + ceil_log2((2 * pins + dw - 1) // dw)
    if need <= aw:
        return {"t": "gpio", "pins": pins, "aw": rnd.choice([need, need, aw]), "dw": dw, "stages": rnd.choice([0, 1, 2])}
    return gen_mux(rnd, aw, dw, tag)


def gen_csr(rnd, aw, dw, tag, depth=0):
    if depth >= 2 or aw <= 1 or rnd.random() < (0.3 if depth == 0 else 0.55):
        return gen_leaf(rnd, aw, dw, tag)
    al = rnd.choice([0, 0, 0, 1, 2])
    subs = []
    for i in range(rnd.randint(1, 3)):
        caw = rnd.randint(1, aw - 1) if rnd.random() < 0.9 else aw
        node = gen_csr(rnd, caw, dw, f"{tag}d{i}", depth + 1)
        caw = node["aw"]
        aligns = [rnd.randint(0, aw)] if rnd.random() < 0.3 else []
        addr = None
        if rnd.random() < 0.3:
            unit = max(al, caw)
            if unit <= aw:
                addr = rnd.randrange(1 << (aw - unit)) << unit
        subs.append({"aligns": aligns, "name": rnd.choice([None, f"{tag}w{i}", [f"{tag}w", i]]), "addr": addr, "node": node})
    return {"t": "dec", "aw": aw, "dw": dw, "al": al, "subs": subs}


def gen_wb(rnd, tier):
    g = rnd.choice([8, 8, 16, 32])
    dw = rnd.choice([x for x in (8, 16, 32) if x >= g])
    ratio = dw // g
    gb = ratio.bit_length() - 1
    top = 9 if tier == "thorough" else 7
    aw = rnd.choice([1, 2, 3, 3, 4, 4, 5, 5, 6, rnd.randint(1, top)])
    aw = max(1 if gb else 1, min(aw, top - gb))
    al = rnd.choice([0, 0, 0, 1, 2, 3])
    feats = [f for f in ("err", "rty", "stall", "lock", "cti", "bte") if rnd.random() < 0.3]
    subs = []
    for i in range(rnd.randint(1, 3)):
        sparse = 0
        if rnd.random() < 0.4:
            sdw, sg = dw, g
            if gb == 0 and g > 8 and rnd.random() < 0.35:
                sdw = sg = rnd.choice([x for x in (8, 16) if x < g])
                sparse = 1
            elif gb == 0 and rnd.random() < 0.1:
                sparse = 1
            r = sdw // sg
            size = max(2, r * rnd.choice([1, 2, 4, 4, 8]))
            node = {"t": "sram", "size": size, "dw": sdw, "gran": sg, "wr": int(rnd.random() < 0.85),
                    "init": [rnd.randrange(1 << sdw) for _ in range(rnd.randint(0, size * sg // sdw))]}
            maw = ceil_log2(size)
        else:
            cdw, bdw = g, dw
            if gb == 0 and g > 8 and rnd.random() < 0.3:
                cdw = bdw = rnd.choice([x for x in (8, 16) if x < g])
                sparse = 1
            caw = rnd.randint(max(1, gb), max(1, gb) + 3)
            node = {"t": "bridge", "dw": bdw, "name": rnd.choice([None, None, f"br{i}", [f"br", i]]),
                    "csr": gen_csr(rnd, caw, cdw, f"b{i}")}
            maw = node["csr"]["aw"]
        aligns = [rnd.randint(0, aw + gb)] if rnd.random() < 0.3 else []
        addr = None
        if rnd.random() < 0.3:
            unit = max(al, maw)
            if unit <= aw + gb:
                addr = rnd.randrange(1 << (aw + gb - unit)) << unit
        subs.append({"aligns": aligns, "name": rnd.choice([None, f"s{i}", [f"s", i]]) if node["t"] == "sram" else None,
                     "addr": addr, "sparse": sparse, "node": node})
    return {"t": "wb", "aw": aw, "dw": dw, "gran": g, "al": al, "features": feats, "subs": subs}


def gen_case(seed, tier, idx):
    rnd = mkrnd(seed, "hier", idx)
    if idx % 4 == 3:
        dw = rnd.choice([8, 8, 16, 32])
        aw = rnd.choice([2, 3, 4, 5, 6, 7 if tier == "quick" else 8])
        spec = gen_csr(rnd, aw, dw, "c")
        kind = "csr-root"
    else:
        spec = gen_wb(rnd, tier)
        kind = "wb-root"
    tail = rnd.choice([0, 0, 40, 80])
    seed2 = rnd.randrange(1 << 30)
    b2b = int(kind == "wb-root" and rnd.random() < 0.4)
    return {"engine": "hier", "kind": kind + ("+b2b" if b2b else "") + ("+random" if tail else ""), "cfg": spec,
            "tail": tail, "seed": seed2, "b2b": b2b}


# ------------------------------------------------------------------------------------------------
# building the real hierarchy, tracing the MemoryMap calls its constructors make
# ------------------------------------------------------------------------------------------------
@contextlib.contextmanager
def traced():
    from amaranth_soc.memory import MemoryMap
    log = {}
    o_init, o_res, o_win, o_al = MemoryMap.__init__, MemoryMap.add_resource, MemoryMap.add_window, MemoryMap.align_to

    def init(self, *a, **k):
        o_init(self, *a, **k)
        log[id(self)] = {"map": self, "ops": []}

    def add_resource(self, resource, *, name, size, addr=None, alignment=None):
        r = o_res(self, resource, name=name, size=size, addr=addr, alignment=alignment)
        log[id(self)]["ops"].append(("res", resource, name, size, addr, alignment))
        return r

    def add_window(self, window, *, name=None, addr=None, sparse=None):
        r = o_win(self, window, name=name, addr=addr, sparse=sparse)
        log[id(self)]["ops"].append(("win", window, name, addr, sparse))
        return r

    def align_to(self, alignment):
        r = o_al(self, alignment)
        log[id(self)]["ops"].append(("align", alignment))
        return r
    MemoryMap.__init__, MemoryMap.add_resource, MemoryMap.add_window, MemoryMap.align_to = init, add_resource, add_window, align_to
    try:
        yield log
    finally:
        MemoryMap.__init__, MemoryMap.add_resource, MemoryMap.add_window, MemoryMap.align_to = o_init, o_res, o_win, o_al


class H:
    """Everything the harness knows about one built hierarchy."""
    def __init__(self):
        self.mods = []        # components to elaborate
        self.kind = {}        # id(memory map) -> ("mux", ov) | ("dec",) | ("sram", sram, spec) | ("bridge", dw) | ("wb",)
        self.consts = []      # (signal, value) driven once
        self.mock = []        # mock register components (r_data driven by the testbench)


def name_arg(n):
    return tuple(n) if isinstance(n, list) else n


def _peek(mm, dec=None):
    """A half-built map is read (a layout printed between two add() calls, an early elaboration): every query a
    decoder or a user makes; what the finished hierarchy says and does must not depend on having been asked.
    Every other time the half-built decoder itself is elaborated as well (a lint pass, an RTLIL dump): its map stays
    open, more windows follow, and the elaboration that counts comes later."""
    try:
        list(mm.windows()); list(mm.window_patterns()); list(mm.all_resources())
        mm.decode_address(0); mm.decode_address((1 << mm.addr_width) - 1)
    except Exception:
        pass
    if dec is not None and len(list(mm.windows())) % 2 == 1:
        from amaranth.hdl import Fragment
        Fragment.get(dec, None)


def build_csr(h, node):
    """Returns the csr.Interface of the node (its .memory_map identifies it in the trace)."""
    from amaranth import Module
    from amaranth.lib import wiring
    from amaranth.lib.wiring import Out
    from amaranth_soc import csr
    from amaranth_soc.memory import MemoryMap
    t = node["t"]
    if t == "mux":
        class Reg(wiring.Component):
            def __init__(self, w, access):
                super().__init__({"element": Out(csr.Element.Signature(w, access))})

            def elaborate(self, platform):
                return Module()
        mm = MemoryMap(addr_width=node["aw"], data_width=node["dw"], alignment=node["al"])
        # in a third of the multiplexers the second half of the registers joins the map after the Multiplexer
        # object exists (its constructor does not freeze the map; the map is frozen when a decoder or bridge
        # takes it, later): what is elaborated is the map as it stands at elaboration
        nops = len(node["ops"])
        late = nops // 2 if (nops * 5 + node["aw"] + node["dw"]) % 3 == 0 else 0
        mux = None
        for k, op in enumerate(node["ops"]):
            if late and k == nops - late:
                mux = csr.Multiplexer(mm, shadow_overlaps=node["ov"])
            try:
                if op[0] == "align":
                    mm.align_to(op[1])
                else:
                    _, w, acc, nm, size, addr, alignment = op
                    r = Reg(w, acc)
                    mm.add_resource(r, name=name_arg(nm), size=size, addr=addr, alignment=alignment)
                    h.mock.append(r)
            except ValueError:
                pass
        if mux is None:
            mux = csr.Multiplexer(mm, shadow_overlaps=node["ov"])
        h.mods.append(mux)
        h.kind[id(mm)] = ("mux", node["ov"])
        return mux.bus
    if t == "regs":
        b = csr.Builder(addr_width=node["aw"], data_width=node["dw"])
        for i, (nm, fields, scope) in enumerate(node["regs"]):
            fd = {}
            for j, (kind, w) in enumerate(fields):
                act = {"rw": csr.action.RW, "r": csr.action.R, "w": csr.action.W, "rw1c": csr.action.RW1C}[kind]
                fd[f"f{j}"] = csr.Field(act, max(1, w))
            anyr = any(k in ("rw", "r", "rw1c") for k, _ in fields)
            anyw = any(k in ("rw", "w", "rw1c") for k, _ in fields)
            acc = "rw" if (anyr and anyw) or i % 2 else ("r" if anyr else "w")
            reg = csr.Register(fd, access=acc)
            try:
                if scope == "c":
                    with b.Cluster("cl"):
                        b.add(nm, reg)
                elif scope == "ci":
                    with b.Cluster("cl"):
                        with b.Index(i):
                            b.add(nm, reg)
                else:
                    b.add(nm, reg)
            except ValueError:
                continue
            for j, (kind, w) in enumerate(fields):
                if kind == "r":
                    h.consts.append((reg.f[f"f{j}"].r_data, (0x5A5A5A5A5A >> j) & ((1 << max(1, w)) - 1)))
                if kind == "rw1c":
                    h.consts.append((reg.f[f"f{j}"].set, 0))
        try:
            mm = b.as_memory_map()
        except ValueError:
            return build_csr(h, {"t": "mux", "aw": node["aw"], "dw": node["dw"], "al": 0, "ov": None, "ops": []})
        br = csr.Bridge(mm)
        h.mods.append(br)
        h.kind[id(mm)] = ("mux", None)
        return br.bus
    if t == "event":
        from amaranth_soc import event
        srcs = [event.Source(trigger=node["trigger"]) for _ in range(node["n"])]
        em = event.EventMap()
        for i, s in enumerate(srcs):
            em.add(s)
        mon = csr.event.EventMonitor(em, trigger=node["trigger"], data_width=node["dw"], alignment=node["al"])
        for i, s in enumerate(srcs):
            h.consts.append((s.i, (0x6 >> (i % 3)) & 1))
        h.mods.append(mon)
        h.kind[id(mon.bus.memory_map)] = ("mux", None)
        return mon.bus
    if t == "gpio":
        from amaranth_soc import gpio
        p = gpio.Peripheral(pin_count=node["pins"], addr_width=node["aw"], data_width=node["dw"], input_stages=node["stages"])
        for i, pin in enumerate(p.pins):
            h.consts.append((pin.i, i & 1))
        h.mods.append(p)
        h.kind[id(p.bus.memory_map)] = ("mux", None)
        return p.bus
    if t == "dec":
        d = csr.Decoder(addr_width=node["aw"], data_width=node["dw"], alignment=node["al"])
        for s in node["subs"]:
            sb = build_csr(h, s["node"])
            try:
                for a in s["aligns"]:
                    d.align_to(a)
                d.add(sb, name=name_arg(s["name"]), addr=s["addr"])
            except ValueError:
                pass
            _peek(d.bus.memory_map, d)
        h.mods.append(d)
        h.kind[id(d.bus.memory_map)] = ("dec",)
        return d.bus
    raise AssertionError(t)


def build(spec):
    from amaranth_soc import csr, wishbone
    from amaranth_soc.wishbone.sram import WishboneSRAM
    from amaranth_soc.csr.wishbone import WishboneCSRBridge
    h = H()
    if spec["t"] != "wb":
        h.root_bus = build_csr(h, spec)
        h.is_wb = False
        return h
    dec = wishbone.Decoder(addr_width=spec["aw"], data_width=spec["dw"], granularity=spec["gran"],
                           alignment=spec["al"], features=set(spec["features"]))
    h.srams = []
    for s in spec["subs"]:
        n = s["node"]
        try:
            if n["t"] == "sram":
                comp = WishboneSRAM(size=n["size"], data_width=n["dw"], granularity=n["gran"], writable=bool(n["wr"]),
                                    init=n["init"])
                sub = comp.wb_bus
                info = ("sram", comp, n)
            else:
                cb = build_csr(h, n["csr"])
                comp = WishboneCSRBridge(cb, data_width=n["dw"], name=name_arg(n["name"]))
                sub = comp.wb_bus
                info = ("bridge", n["dw"])
        except (ValueError, TypeError):
            continue
        try:
            for a in s["aligns"]:
                dec.align_to(a)
            dec.add(sub, name=name_arg(s["name"]), addr=s["addr"], sparse=bool(s["sparse"]))
        except ValueError:
            continue
        _peek(dec.bus.memory_map, dec)
        h.mods.append(comp)
        h.kind[id(sub.memory_map)] = info
        if info[0] == "sram":
            h.srams.append(comp)
    h.mods.append(dec)
    h.dec = dec
    h.root_bus = dec.bus
    h.is_wb = True
    return h


# ------------------------------------------------------------------------------------------------
# the model's configuration, from the traced calls
# ------------------------------------------------------------------------------------------------
class Names:
    def __init__(self):
        self.atoms = {"mem": 1}

    def atom(self, s):
        if s not in self.atoms:
            self.atoms[s] = len(self.atoms) + 1
        return self.atoms[s]

    def part(self, p):
        return [0, self.atom(p)] if isinstance(p, str) else [1, int(p)]

    def raw(self, n):
        """sx of a name ARGUMENT (str or tuple) for dec_rawname"""
        if isinstance(n, str):
            return [0, self.atom(n)]
        return [1, [self.part(p) for p in n]]

    def oraw(self, n):
        return [] if n is None else [self.raw(n)]

    def path(self, path):
        return [[self.part(p) for p in nm] for nm in path]


def pyint(v):
    return [] if v is None else [int(v)]


class Cfg:
    def __init__(self, h, log):
        self.h, self.log = h, log
        self.names = Names()
        self.regs = []        # register id -> resource object (has .element)
        self.sram_ids = {}    # id(sram._mem) -> (model id, sram component)
        self.res_id = {}      # id(resource) -> model id

    def csr(self, mm):
        ent = self.log[id(mm)]
        kind = self.h.kind[id(mm)]
        if kind[0] == "dec":
            subs = []
            aligns = []
            for op in ent["ops"]:
                if op[0] == "align":
                    aligns.append(op[1])
                elif op[0] == "win":
                    _, win, name, addr, sparse = op
                    assert sparse is None
                    subs.append([aligns, self.names.oraw(name), pyint(addr), self.csr(win)])
                    aligns = []
            return [1, mm.addr_width, mm.data_width, mm.alignment, subs]
        mops = []
        for op in ent["ops"]:
            if op[0] == "align":
                mops.append([1, op[1]])
            elif op[0] == "res":
                _, res, name, size, addr, alignment = op
                rid = len(self.regs)
                self.regs.append(res)
                self.res_id[id(res)] = rid
                el = res.element
                mops.append([0, rid, el.width, int(el.access.readable()), int(el.access.writable()),
                             self.names.raw(name), pyint(size), pyint(addr), pyint(alignment)])
        ov = kind[1]
        return [0, mm.addr_width, mm.data_width, mm.alignment, mops, [] if ov is None else [ov]]

    def root(self, spec):
        h = self.h
        if not h.is_wb:
            return [0, self.csr(h.root_bus.memory_map)]
        mm = h.root_bus.memory_map
        ent = self.log[id(mm)]
        subs = []
        aligns = []
        for op in ent["ops"]:
            if op[0] == "align":
                aligns.append(op[1])
            elif op[0] == "win":
                _, win, name, addr, sparse = op
                k = h.kind[id(win)]
                if k[0] == "sram":
                    comp, n = k[1], k[2]
                    sid = 1000 + len(self.sram_ids)
                    self.sram_ids[id(comp._mem)] = (sid, comp)
                    self.res_id[id(comp._mem)] = sid
                    node = [0, sid, n["size"], n["dw"], n["gran"], n["wr"], list(n["init"])]
                else:
                    went = self.log[id(win)]
                    (w_op,) = [o for o in went["ops"] if o[0] == "win"]
                    node = [1, k[1], self.names.oraw(w_op[2]), self.csr(w_op[1])]
                subs.append([aligns, self.names.oraw(name), pyint(addr), int(bool(sparse)), node])
                aligns = []
        return [1, spec["aw"], spec["dw"], spec["gran"], spec["al"], subs]


# ------------------------------------------------------------------------------------------------
# running the implementation
# ------------------------------------------------------------------------------------------------
_MEMO = {}


def _session():
    return os.getpid() if multiprocessing.current_process().name == "MainProcess" else os.getppid()


def _cache_path(case):
    d = ensure_dir(os.path.join(WORK, "hier_cache"))
    return os.path.join(d, f"{_session()}-{case_hash([case, REPO])}.json")


def _sweep_cache():
    d = os.path.join(WORK, "hier_cache")
    try:
        now = time.time()
        for f in os.listdir(d):
            p = os.path.join(d, f)
            if now - os.path.getmtime(p) > 3600:
                os.unlink(p)
    except OSError:
        pass


def run_impl(case):
    from amaranth import Module, Signal
    from amaranth.hdl import Fragment
    from amaranth.sim import Simulator
    spec = case["cfg"]
    rnd = mkrnd(case["seed"], "hier-stim")
    with traced() as log:
        h = build(spec)
    cf = Cfg(h, log)
    rootcfg = cf.root(spec)
    regs = cf.regs
    root = h.root_bus.memory_map
    top = Module()
    for i, c in enumerate(h.mods):
        top.submodules[f"m{i}"] = c
    tick = Signal()
    top.d.sync += tick.eq(~tick)

    # ---- memory-map observations (pure API) ----
    # queries that stop early (a search that found what it wanted, a generator dropped half-way) are queries
    # like any other: what the complete ones below return must not depend on them
    it = root.all_resources(); next(it, None); del it
    any(True for _ in root.resources()); any(True for _ in root.windows()); any(True for _ in root.window_patterns())
    infos = list(root.all_resources())
    mapobs_infos = [[cf.res_id[id(i.resource)], cf.names.path(i.path), i.start, i.end, i.width] for i in infos]
    naddr = 1 << root.addr_width
    decode = []
    reach = []
    for a in range(naddr):
        t = root.decode_address(a)
        if t is None:
            decode.append([]); reach.append([])
        else:
            decode.append([cf.res_id[id(t)]])
            reach.append([cf.res_id[id(t)], a - root.find_resource(t).start])

    mock_ids = {id(r) for r in h.mock}
    el = [r.element for r in regs]
    rd = [e.access.readable() for e in el]
    wr = [e.access.writable() for e in el]
    sram_list = sorted(cf.sram_ids.values(), key=lambda x: x[0])
    cells = [(sid, comp, [comp._mem_data[k] for k in range(len(comp._mem_data.init))]) for sid, comp in sram_list]
    rows_in, rows_out, transfers = [], [], []
    bus = h.root_bus
    feats = set(spec.get("features", [])) if h.is_wb else set()

    async def tb(ctx):
        for sig, v in h.consts:
            ctx.set(S.V(sig), v)

        def set_mock():
            for i, r in enumerate(regs):
                if rd[i] and id(r) in mock_ids and el[i].width:
                    ctx.set(el[i].r_data, rnd.randrange(1 << el[i].width))

        def sample(inp, probe):
            rv = [S.uget(ctx, el[i].r_data) if rd[i] else 0 for i in range(len(regs))]
            leaves = [[i, int(ctx.get(el[i].r_stb)) if rd[i] else 0, int(ctx.get(el[i].w_stb)) if wr[i] else 0,
                       S.uget(ctx, el[i].w_data) if wr[i] else 0] for i in range(len(regs))]
            if h.is_wb:
                extra = 0
                for f in ("err", "rty", "stall"):
                    if f in feats:
                        extra |= int(ctx.get(getattr(bus, f)))
                srams = [[sid, int(ctx.get(comp.wb_bus.cyc)), [int(ctx.get(c)) for c in cs] if probe else []]
                         for sid, comp, cs in cells]
                out = [int(ctx.get(bus.ack)), S.uget(ctx, bus.dat_r), leaves, srams, extra]
            else:
                out = [S.uget(ctx, bus.r_data), leaves]
            rows_in.append(list(inp) + [rv, int(probe)])
            rows_out.append(out)

        if h.is_wb:
            dw, g = spec["dw"], spec["gran"]
            ratio = dw // g
            gb = ratio.bit_length() - 1
            nadr = 1 << spec["aw"]
            b2b = bool(case.get("b2b"))

            def drive(cyc, stb, we, adr, sel, dat_w):
                ctx.set(bus.cyc, cyc); ctx.set(bus.stb, stb); ctx.set(bus.we, we)
                if len(bus.adr):
                    ctx.set(bus.adr, adr)
                ctx.set(bus.sel, sel); ctx.set(bus.dat_w, dat_w)
                if "lock" in feats:
                    ctx.set(bus.lock, rnd.randrange(2))
                if "cti" in feats:
                    ctx.set(S.V(bus.cti), rnd.choice([0, 1, 2, 7]))
                if "bte" in feats:
                    ctx.set(S.V(bus.bte), rnd.randrange(4))
            set_mock()
            drive(0, 0, 0, 0, 0, 0)
            sample([0, 0, 0, 0, 0, 0], True)
            await ctx.tick()
            for adr in range(nadr):
                for lane in range(ratio):
                    for we in (0, 1):
                        set_mock()
                        wd = rnd.randrange(1 << dw)
                        t0 = len(rows_in)
                        acked = False; rdat = None
                        for k in range(ratio + 4):
                            drive(1, 1, we, adr, 1 << lane, wd)
                            if ctx.get(bus.ack):
                                acked = True; rdat = S.uget(ctx, bus.dat_r)
                                if b2b:      # a registered master: request held through the acknowledge cycle
                                    sample([1, 1, we, adr, 1 << lane, wd], True)
                                else:
                                    drive(0, 0, we, adr, 1 << lane, wd)
                                    sample([0, 0, we, adr, 1 << lane, wd], False)
                            else:
                                sample([1, 1, we, adr, 1 << lane, wd], b2b and k == ratio + 3)
                            await ctx.tick()
                            if acked:
                                break
                        if not b2b:      # back-to-back: the next transfer is presented in the very next cycle
                            drive(0, 0, 0, adr, 0, 0)
                            sample([0, 0, 0, adr, 0, 0], True)
                            await ctx.tick()
                        transfers.append([(adr << gb) | lane, we, t0, len(rows_in), int(acked), rdat if rdat is not None else 0, wd])
            for _ in range(case.get("tail", 0)):
                set_mock()
                inp = [rnd.randrange(2), rnd.randrange(2), rnd.randrange(2), rnd.randrange(nadr),
                       rnd.randrange(1 << ratio), rnd.randrange(1 << dw)]
                drive(*inp)
                sample(inp, False)
                await ctx.tick()
        else:
            aw, dw = bus.addr_width, bus.data_width

            def drive(addr, rs, ws, wd):
                ctx.set(bus.addr, addr); ctx.set(bus.r_stb, rs); ctx.set(bus.w_stb, ws); ctx.set(bus.w_data, wd)
            for a in range(1 << aw):
                for we in (0, 1):
                    set_mock()
                    wd = rnd.randrange(1 << dw)
                    t0 = len(rows_in)
                    inp = [a, int(not we), int(we), wd]
                    drive(*inp); sample(inp, False)
                    await ctx.tick()
                    inp = [a, 0, 0, 0]
                    drive(*inp); sample(inp, True)
                    rdat = S.uget(ctx, bus.r_data)
                    await ctx.tick()
                    transfers.append([a, we, t0, len(rows_in), 1, rdat, wd])
            for _ in range(case.get("tail", 0)):
                set_mock()
                inp = [rnd.randrange(1 << aw), rnd.randrange(2), rnd.randrange(2), rnd.randrange(1 << dw)]
                drive(*inp); sample(inp, False)
                await ctx.tick()

    error = None
    try:
        sim = Simulator(Fragment.get(top, None))
        sim.add_clock(1e-6)
        sim.add_testbench(tb)
        sim.run()
    except Exception as e:      # a hierarchy the constructors accepted must elaborate and simulate
        error = f"{type(e).__name__}: {e}"[:300]
        del rows_in[:], rows_out[:], transfers[:]
        rows_out.append([-9])
    model_in = [rootcfg, rows_in]
    try:
        _MEMO.clear()
        _MEMO[case_hash(case)] = model_in
        with open(_cache_path(case), "w") as f:
            json.dump(model_in, f)
    except OSError:
        pass
    # register geometry as the REAL map reports it, for the oracle
    leafinfo = []
    for i, r in enumerate(regs):
        try:
            ri = root.find_resource(r)
            leafinfo.append([i, ri.start, ri.end, ri.width, el[i].width, int(rd[i]), int(wr[i])])
        except KeyError:
            leafinfo.append([i, -1, -1, 0, el[i].width, int(rd[i]), int(wr[i])])
    sraminfo = []
    for sid, comp in sram_list:
        ri = root.find_resource(comp._mem)
        sraminfo.append([sid, ri.start, ri.end, ri.width, len(comp.wb_bus.dat_r), len(comp.wb_bus.sel), int(comp.writable)])
    if h.is_wb:
        wins = [[s, s + (1 << w.addr_width)] for w, _, (s, e, _) in root.windows()]
    else:
        wins = []
    aux = {"transfers": transfers, "leaves": leafinfo, "srams": sraminfo, "wins": wins, "rows_in": rows_in,
           "is_wb": int(h.is_wb), "gran": spec["gran"] if h.is_wb else bus.data_width,
           "ratio": (spec["dw"] // spec["gran"]) if h.is_wb else 1, "error": error,
           "infos": [[x[0], x[2], x[3]] for x in mapobs_infos]}
    return {"map": [[0, mapobs_infos], decode], "reach": reach, "rows": rows_out, "aux": aux}


def canon(obs):
    return [obs["map"], obs["reach"], obs["rows"]]


def to_model(case):
    k = case_hash(case)
    if k in _MEMO:
        return _MEMO[k]
    p = _cache_path(case)
    if os.path.exists(p):
        with open(p) as f:
            return json.load(f)
    run_impl(case)
    return _MEMO[k]


def from_model(res):
    if len(res) == 3 and isinstance(res[2], list):
        rows = []
        for r in res[2]:
            if len(r) == 4:     # Wishbone root: the model lists leaves in Case order, the harness by id
                rows.append([r[0], r[1], sorted(r[2]), sorted(r[3], key=lambda x: x[0]), 0])
            else:
                rows.append([r[0], sorted(r[1])])
        return [res[0], res[1], rows]
    return res


# ------------------------------------------------------------------------------------------------
# the property, restated over the implementation's rows and the real memory map's answers
# ------------------------------------------------------------------------------------------------
def oracle(case, obs):
    """C01: for every root address, read and write: a register's element strobes iff the root map decodes the
    address to that register (r_stb at its first address, w_stb at its last), the data read / delivered sits at
    the chunk offset the map reports; an SRAM sees cyc and changes exactly the granule at the reported offset;
    nothing else strobes, cycles or changes; unassigned addresses read zero; an address outside every Wishbone
    window is never acknowledged, an address inside one is."""
    aux = obs["aux"]
    rows = obs["rows"]
    decode = obs["map"][1]
    reach = obs["reach"]
    is_wb = aux["is_wb"]
    leaves = {l[0]: l for l in aux["leaves"]}
    srams = {s[0]: s for s in aux["srams"]}
    out = []
    snap = {}         # register id -> element r_data at its latest first-address read
    written = {}      # address -> data delivered to that address (one granule / chunk)
    mem = None
    if is_wb and rows and len(rows[0]) > 3:
        mem = {s[0]: list(s[2]) for s in rows[0][3]}
    g = aux["gran"]

    def bad(where, text):
        out.append((PID, where, text))
    if aux.get("error"):
        bad("elaborate", f"the hierarchy was accepted by every constructor but cannot be elaborated/simulated: {aux['error']}")
    # the two halves of the map's own answer must fit together: decode_address() over a reported range
    for rid, s, e in aux["infos"]:
        for a in (s, e - 1):
            if 0 <= a < len(decode) and decode[a] != [rid]:
                bad(f"address {a}", f"all_resources() reports resource {rid} at [{s},{e}) but decode_address({a}) gives {decode[a]}")
                break
    listed = {}
    for rid, s_, e_ in aux["infos"]:
        listed.setdefault(rid, []).append((s_, e_))
    for a, d in enumerate(decode):
        if d and not any(s_ <= a < e_ for (s_, e_) in listed.get(d[0], [])):
            bad(f"address {a}", f"decode_address({a}) gives resource {d[0]}, which all_resources() "
                                f"{'lists at %s' % listed[d[0]] if d[0] in listed else 'does not list'}")
            break
    for (a, we, t0, t1, acked, rdat, wd) in aux["transfers"]:
        if len(out) > 10:
            break
        where = f"address {a} {'write' if we else 'read'}"
        tgt = decode[a][0] if decode[a] else None
        lane = a % aux["ratio"] if is_wb else 0
        # what the leaves saw
        seen_r, seen_w, wdata_at = {}, {}, {}
        cyc_seen = {}
        for t in range(t0, t1):
            row = rows[t]
            lv = row[2] if is_wb else row[1]
            for (i, rs, ws, wdv) in lv:
                if rs:
                    seen_r[i] = seen_r.get(i, 0) + 1
                    snap_now = aux["rows_in"][t][-2][i]
                    snap[i] = snap_now
                if ws:
                    seen_w[i] = seen_w.get(i, 0) + 1
                    wdata_at[i] = wdv
            if is_wb:
                for (sid, cyc, _) in row[3]:
                    if cyc:
                        cyc_seen[sid] = cyc_seen.get(sid, 0) + 1
        # data granule the initiator put on the addressed lane / read from it
        lane_w = lane * g
        for i, (_, s, e, cw, width, rdb, wrb) in leaves.items():
            if s < 0:
                if i in seen_r or i in seen_w:
                    bad(where, f"register {i}, which the root map does not report, was strobed")
                continue
            exp_r = int(tgt == i and not we and a == s and rdb)
            exp_w = int(tgt == i and we and a == e - 1 and wrb)
            if seen_r.get(i, 0) != exp_r:
                bad(where, f"register {i} at [{s},{e}): r_stb seen {seen_r.get(i, 0)} time(s), the map requires {exp_r}")
            if seen_w.get(i, 0) != exp_w:
                bad(where, f"register {i} at [{s},{e}): w_stb seen {seen_w.get(i, 0)} time(s), the map requires {exp_w}")
        if tgt is not None and tgt in leaves:
            i, s, e, cw, width, rdb, wrb = leaves[tgt]
            j = a - s
            if reach[a] != [tgt, j]:
                bad(where, "find_resource() and decode_address() disagree")
            if we:
                written[a] = (wd >> lane_w) & ((1 << cw) - 1)
                if wrb and a == e - 1 and tgt in wdata_at:
                    exp = 0
                    ok = True
                    for jj in range(e - s):
                        if jj * cw >= width:
                            continue
                        if s + jj not in written:
                            ok = False
                            break
                        nb = min(cw, width - jj * cw)
                        exp |= (written[s + jj] & ((1 << nb) - 1)) << (jj * cw)
                    if ok and wdata_at[tgt] != exp:
                        bad(where, f"register {tgt}: w_data {wdata_at[tgt]:#x} at its write strobe, the chunks written at "
                                   f"addresses {s}..{e-1} give {exp:#x}")
            elif acked:
                got = (rdat >> lane_w) & ((1 << g) - 1) if is_wb else rdat
                if rdb and tgt in snap:
                    exp = (snap[tgt] >> (j * cw)) & ((1 << cw) - 1) if j * cw < width else 0
                    if j * cw < width:
                        exp &= (1 << min(cw, width - j * cw)) - 1
                    if got != exp:
                        bad(where, f"register {tgt} chunk {j}: read {got:#x}, its value {snap[tgt]:#x} has {exp:#x} at that offset")
                elif not rdb and got != 0:
                    bad(where, f"write-only register {tgt} read as {got:#x}")
        # SRAMs
        if is_wb:
            after = {s_[0]: list(s_[2]) for s_ in rows[t1 - 1][3]}
            for sid, (_, s, e, cw, sdw, nsel, wrb) in srams.items():
                hit = tgt == sid
                if bool(cyc_seen.get(sid)) != hit:
                    bad(where, f"SRAM {sid} at [{s},{e}): cyc {'seen' if cyc_seen.get(sid) else 'not seen'}, "
                               f"the map says the address is {'inside' if hit else 'outside'}")
                exp = list(mem[sid])
                if hit:
                    off = a - s
                    row_, ln = off // nsel, off % nsel
                    m_ = ((1 << cw) - 1) << (ln * cw)
                    if we and wrb:
                        exp[row_] = (exp[row_] & ~m_) | (((wd >> (lane * g)) << (ln * cw)) & m_) if nsel > 1 else \
                            (exp[row_] & ~m_) | (wd & m_)
                    if not we and acked:
                        got = (rdat >> lane_w) & ((1 << min(g, cw)) - 1)
                        want = (mem[sid][row_] >> (ln * cw)) & ((1 << min(g, cw)) - 1)
                        if got != want:
                            bad(where, f"SRAM {sid}: read {got:#x}, granule {off} (row {row_}, lane {ln}) holds {want:#x}")
                if after[sid] != exp:
                    diff = [k for k in range(len(exp)) if after[sid][k] != exp[k]]
                    bad(where, f"SRAM {sid}: rows {diff} are {[hex(after[sid][k]) for k in diff]}, expected "
                               f"{[hex(exp[k]) for k in diff]} ({'granule ' + str(a - s) + ' written' if hit and we else 'no write to it'})")
            mem = after
            inwin = any(s <= a < e for s, e in aux["wins"])
            if bool(acked) != inwin:
                bad(where, f"{'acknowledged' if acked else 'never acknowledged'}, the address is "
                           f"{'inside' if inwin else 'outside every'} Wishbone window")
        if tgt is None and not we and acked:
            got = (rdat >> lane_w) & ((1 << g) - 1) if is_wb else rdat
            if got != 0:
                bad(where, f"unassigned address read as {got:#x}")
    return out


def nontrivial(case, obs):
    """at least two leaves reachable from the root, at least one assigned and one unassigned address, and a
    multi-chunk register or an SRAM"""
    aux = obs["aux"]
    nl = sum(1 for l in aux["leaves"] if l[1] >= 0) + len(aux["srams"])
    dec = obs["map"][1]
    multi = any(l[2] - l[1] > 1 for l in aux["leaves"]) or bool(aux["srams"])
    return nl >= 2 and any(dec) and not all(dec) and multi


def stats(case, obs):
    aux = obs["aux"]
    dec = obs["map"][1]
    return {"cycles": len(obs["rows"]), "addresses": len(dec), "assigned_addresses": sum(1 for d in dec if d),
            "registers": len(aux["leaves"]), "srams": len(aux["srams"]), "transfers": len(aux["transfers"]),
            "acked_transfers": sum(t[4] for t in aux["transfers"]),
            "multi_chunk_registers": sum(1 for l in aux["leaves"] if l[2] - l[1] > 1)}


def _shape(n):
    t = n["t"]
    if t == "wb":
        return {"wb": [n["aw"], n["dw"], n["gran"], n["al"]], "features": n["features"],
                "subs": [dict(name=s["name"], addr=s["addr"], sparse=s["sparse"], aligns=s["aligns"], node=_shape(s["node"]))
                         for s in n["subs"]]}
    if t == "sram":
        return {"sram": [n["size"], n["dw"], n["gran"], n["wr"]]}
    if t == "bridge":
        return {"bridge": n["dw"], "name": n["name"], "csr": _shape(n["csr"])}
    if t == "dec":
        return {"dec": [n["aw"], n["dw"], n["al"]],
                "subs": [dict(name=s["name"], addr=s["addr"], aligns=s["aligns"], node=_shape(s["node"])) for s in n["subs"]]}
    if t == "mux":
        return {"mux": [n["aw"], n["dw"], n["al"]], "ov": n["ov"], "ops": n["ops"]}
    return n


def describe(case):
    return {"engine": "hier", "kind": case["kind"], "tail": case["tail"], "seed": case["seed"], "hierarchy": _shape(case["cfg"])}


def _drop_session_cache():
    d = os.path.join(WORK, "hier_cache")
    try:
        pre = f"{os.getpid()}-"
        if os.environ.get("HIER_DEBUG"):
            print("drop cache", pre, len(os.listdir(d)), file=sys.stderr)
        for f in os.listdir(d):
            if f.startswith(pre):
                os.unlink(os.path.join(d, f))
    except OSError:
        pass


_sweep_cache()
if multiprocessing.current_process().name == "MainProcess":
    import atexit
    atexit.register(_drop_session_cache)
