"""Engine `memmap` (C02, C03, C18): real MemoryMap objects vs Model/MemoryMap.v, call by call.

A case is a history of API calls on a world of maps; after every call all maps are re-queried
(resources, windows, window_patterns, all_resources, decode_address on a set of addresses,
find_resource for every object incl. one never added, and a neutral cursor probe align_to(0))."""
import warnings
warnings.simplefilter("ignore")
from ..common import mkrnd

ENGINE_ID = 2
RAW_COMPARE = True
N = {"quick": 1200, "thorough": 30000}
RULE = ("random API histories (add_resource 45%, add_window 25%, align_to 15%, freeze 5%, new map 10%; ~10% invalid "
        "arguments) on worlds of 1-6 maps, names drawn from a collision-prone pool, plus three directed streams: dense "
        "(windows of ratio 2-8 with explicitly placed neighbours aimed at every address of the span and its borders), anon "
        "(anonymous windows, nested, each immediately followed by equal/prefix/extension/same-spelling names) and tree "
        "(2-4 levels with changing data widths); non-trivial = at least 3 successful additions, one failed call and one "
        "window; distinct by hash of the op list")
EXC = {"ValueError": 1, "TypeError": 2, "KeyError": 3, "AssertionError": 4}
PARTS = ["a", "b", "ab", "0", "1", 0, 1, 2, 300]      # 300: an integer beyond the interpreter's small-int cache
NEVER = 99          # id of an object that is never added


def isint(v):
    return isinstance(v, int) and not isinstance(v, bool)


# ----------------------------------------------------------------------------- generation

def rname(rnd):
    r = rnd.random()
    if r < 0.06:
        return rnd.choice([{"s": ""}, {"t": []}, {"t": ["a", ""]}, {"t": ["a", -1]}, {"o": 5}, {"o": None},
                           {"t": ["a", None]}])
    n = [rnd.choice(PARTS) for _ in range(rnd.choice([1, 1, 2, 2, 3]))]
    if len(n) == 1 and isinstance(n[0], str) and rnd.random() < 0.5:
        return {"s": n[0]}
    return {"t": n}


def gen_case(seed, tier, idx):
    rnd = mkrnd(seed, "memmap", idx)
    kind = ["mixed", "mixed", "names", "tree", "big", "dense", "anon"][idx % 7]
    ops = []
    maps = []       # (aw, dw, al) of successfully created maps (generator's view)
    if kind == "dense":
        return gen_dense(rnd, tier)
    if kind == "tree" and rnd.random() < 0.8:
        return gen_tree(rnd, tier)
    if kind == "anon":
        return gen_anon(rnd, tier)

    def newmap():
        if kind == "big":
            aw = rnd.choice([7, 9, 12, 16, 17, 24, 33, 40, 54, 60, 64])   # beyond 2**53: no float can be involved
        else:
            aw = rnd.choice([1, 2, 3, 3, 4, 4, 5, 6])
        dw = rnd.choice([8, 8, 8, 16, 32])
        al = rnd.choice([0, 0, 0, 1, 2])
        if rnd.random() < 0.04:
            bad = rnd.choice([("aw", 0), ("aw", -1), ("aw", "x"), ("dw", 0), ("dw", "x"), ("al", -1), ("al", "x"), ("aw", None)])
            a = {"aw": aw, "dw": dw, "al": al}; a[bad[0]] = bad[1]
            ops.append(["new", a["aw"], a["dw"], a["al"]])
            return
        ops.append(["new", aw, dw, al])
        maps.append((aw, dw, al))

    def observe():
        ops.append(["obs"])

    for _ in range(rnd.randint(1, 4)):
        newmap()
    if not maps:
        newmap()
    if not maps:
        maps.append((3, 8, 0)); ops.append(["new", 3, 8, 0])
    nres = 7
    steps = rnd.randint(5, 40) if tier == "quick" else rnd.randint(5, 120)
    for _ in range(steps):
        i = rnd.randrange(len(maps)); aw, dw, al = maps[i]
        k = rnd.random()
        top = 1 << aw
        if kind == "names":
            k = k * 0.7          # only additions
        if k < 0.45:
            comp = 1 if rnd.random() < 0.96 else 0
            rid = rnd.randrange(nres)
            name = rname(rnd)
            if rnd.random() < 0.9:
                size = rnd.choice([0, 1, 1, 2, 3, 4, 5, 8, -1, "x"]) if rnd.random() < 0.9 else rnd.randrange(top) + 2
            else:
                size = rnd.choice([top, top + 1, top // 2, 1, (top >> 2) + 1, (top >> 3) + 5])
            if aw <= 6:
                addr = rnd.choice([None, None, None] + list(range(0, top + 2)) + [-1, "x"])
            else:
                addr = rnd.choice([None, None, None, 0, 1, 2, 4, 8, 64, top - 1, top - 4, top, top + 1, rnd.randrange(top), -1, "x",
                                   (top >> 1) + 1, (top >> 2) + 3, top - (1 << (aw // 2)) - 1])
            alg = rnd.choice([None, None, 0, 1, 2, 3, -1, "x"])
            if kind == "names" and rnd.random() < 0.8:
                size, addr, alg = 1, None, None
            ops.append(["res", i, rid, comp, name, size, addr, alg])
        elif k < 0.7 and len(maps) > 1:
            j = rnd.randrange(len(maps))
            if j == i:
                continue
            name = rname(rnd) if rnd.random() < 0.6 else None
            if name == {"o": None}:
                name = None          # for a window, None means anonymous
            waw = maps[j][0]
            if aw <= 6:
                addr = rnd.choice([None, None, None] + list(range(0, top + 1)))
            else:
                addr = rnd.choice([None, None, None, 0, 1 << waw, 2 << waw, top - (1 << waw), rnd.randrange(top)])
            sparse = rnd.choice([None, None, True, False])
            w = j if rnd.random() < 0.98 else None
            ops.append(["win", i, w, name, addr, sparse])
        elif k < 0.85:
            ops.append(["align", i, rnd.choice([0, 1, 2, 3, 4, -1, "x", None])])
        elif k < 0.9:
            # frozen explicitly, by being handed to a peripheral's metadata, or by being handed to a csr.Bridge
            # (which accepts a map without windows; the resources of this engine are csr.Register objects)
            how = rnd.choice(["", "", "periph", "bridge"])
            if how == "bridge" and any(o[0] == "win" and o[1] == i for o in ops):
                how = "periph"
            ops.append(["freeze", i] + ([how] if how else []))
        else:
            newmap()
            continue
        observe()
    ops.append(["obs", "full"])
    return {"engine": "memmap", "kind": kind, "ops": ops}


def gen_dense(rnd, tier):
    """Directed stream: dense windows (ratio 2/4/8) with explicitly placed neighbours aimed at every address
    of the window's span and its borders, before and after the window is added."""
    ops = []
    pdw = rnd.choice([16, 32, 32, 64])
    ratio = pdw // 8
    lr = ratio.bit_length() - 1
    paw = rnd.choice([4, 5, 6, 7])
    pal = rnd.choice([0, 0, 1])
    ops.append(["new", paw, pdw, pal])                              # map 0: parent
    nchild = rnd.choice([1, 2, 2])
    childs = []
    for c in range(nchild):
        caw = rnd.choice([lr, lr + 1, lr + 1, lr + 2, lr + 3])
        cal = rnd.choice([lr, lr, lr + 1])
        ops.append(["new", caw, 8, cal])
        childs.append((1 + c, caw))
        for r in range(rnd.randint(0, 2)):
            ops.append(["res", 1 + c, 10 * c + r, 1, {"t": [rnd.choice(["r", "q"]), 10 * c + r]}, rnd.choice([1, ratio, ratio]),
                        None, None])
    ops.append(["obs"])
    rid = [40]

    def neighbour(lo, hi):
        a = rnd.randint(max(0, lo), max(0, hi))
        rid[0] += 1
        ops.append(["res", 0, rid[0], 1, {"t": ["n", rid[0]]}, rnd.choice([1, 1, 2, ratio]), a, None])
        ops.append(["obs"])
    cursor = 0
    for (ci, caw) in childs:
        span = max(1, (1 << caw) // ratio)
        sparse = rnd.choice([False, False, False, None, True])
        mode = rnd.random()
        if mode < 0.5:
            # neighbours first, aimed at where the window will go (implicitly) and at its last addresses
            start = -(-cursor // span) * span
            for _ in range(rnd.randint(1, 3)):
                pick = rnd.random()
                if pick < 0.6:
                    neighbour(start + span - ratio, start + span + 1)
                else:
                    neighbour(start - 1, start + span + 1)
            addr = None if rnd.random() < 0.6 else rnd.choice([start, start + span, start + 2 * span, 0])
            ops.append(["win", 0, ci, {"t": ["w", ci]} if rnd.random() < 0.7 else None, addr, sparse])
            ops.append(["obs"])
        else:
            addr = None if rnd.random() < 0.5 else rnd.choice([0, span, 2 * span, 3 * span])
            ops.append(["win", 0, ci, {"t": ["w", ci]} if rnd.random() < 0.7 else None, addr, sparse])
            ops.append(["obs"])
            start = addr if addr is not None else -(-cursor // span) * span
            for _ in range(rnd.randint(2, 5)):
                neighbour(start - 2, start + span + 2)
        cursor = start + span
        if rnd.random() < 0.3:
            ops.append(["align", 0, rnd.choice([0, 1, 2, 3])]); ops.append(["obs"])
    for _ in range(rnd.randint(0, 3)):
        rid[0] += 1
        ops.append(["res", 0, rid[0], 1, {"t": ["t", rid[0]]}, rnd.choice([1, 2, 3]), None, rnd.choice([None, 0, 1])])
        ops.append(["obs"])
    ops.append(["obs", "full"])
    return {"engine": "memmap", "kind": "dense", "ops": ops}


def gen_tree(rnd, tier):
    """Directed stream: trees of maps 2-4 levels deep whose data widths change along the way (sparse windows
    narrowing the width, dense windows of ratio 2/4, equal-width windows), named and anonymous, resources at every
    level; built bottom-up because a map is frozen once it is used as a window."""
    ops = []
    depth = rnd.choice([2, 3, 3, 4])
    # level 0 = root ... level depth-1 = leaves; widths never increase downwards
    dws = [rnd.choice([8, 16, 32])]
    for _ in range(depth - 1):
        dws.append(rnd.choice([w for w in (8, 16, 32) if w <= dws[-1]]))
    maps = []          # (level, aw, dw, al)
    per_level = [[] for _ in range(depth)]
    for lv in range(depth - 1, -1, -1):
        n = 1 if lv == 0 else rnd.choice([1, 1, 2])
        for _ in range(n):
            aw = min(10, 2 + (depth - 1 - lv) * 2 + rnd.choice([0, 1]))
            al = rnd.choice([0, 0, 1, 2])
            ops.append(["new", aw, dws[lv], al])
            per_level[lv].append(len(maps))
            maps.append((lv, aw, dws[lv], al))
    rid = [0]
    used = set()

    def name():
        while True:
            n = [rnd.choice(PARTS) for _ in range(rnd.choice([1, 1, 2]))]
            if rnd.random() < 0.8:
                n = n + [len(used)]
            if tuple(map(repr, n)) not in used:
                used.add(tuple(map(repr, n)))
                return {"t": n}
    for lv in range(depth - 1, -1, -1):
        for mi in per_level[lv]:
            _, aw, dw, al = maps[mi]
            for _ in range(rnd.randint(0 if lv < depth - 1 else 1, 2)):
                rid[0] += 1
                ops.append(["res", mi, rid[0], 1, name(), rnd.choice([1, 1, 2, 4]), None, rnd.choice([None, None, 1, 2])])
            if lv < depth - 1:
                for ci in per_level[lv + 1]:
                    if rnd.random() < 0.15:
                        continue
                    cdw = maps[ci][2]
                    if cdw == dw:
                        sparse = rnd.choice([None, None, True, False])
                    else:
                        sparse = rnd.choice([True, True, False])
                    ops.append(["win", mi, ci, name() if rnd.random() < 0.6 else None,
                                None if rnd.random() < 0.7 else rnd.choice([0, 1 << maps[ci][1], 2 << maps[ci][1]]), sparse])
                    ops.append(["obs"])
            if rnd.random() < 0.3:
                rid[0] += 1
                ops.append(["res", mi, rid[0], 1, name(), 1, None, None])
    ops.append(["obs", "full"])
    return {"engine": "memmap", "kind": "tree", "ops": ops}


def gen_anon(rnd, tier):
    """Directed stream: anonymous windows whose names are absorbed, each followed IMMEDIATELY by additions whose
    names equal / prefix / extend / are unrelated to an absorbed name; nested anonymous windows; a second anonymous
    window colliding with the first."""
    ops = []
    ops.append(["new", rnd.choice([5, 6, 7]), 8, 0])             # map 0: root
    nm = []                                                        # names per map (generator's view, may be refused)
    nm.append([])
    rid = [0]

    def pick_name():
        n = [rnd.choice(PARTS) for _ in range(rnd.choice([1, 2, 2, 3]))]
        return n

    def related(base):
        k = rnd.random()
        if k < 0.3:
            return list(base)                                      # equal
        if k < 0.5 and len(base) > 1:
            return list(base[:rnd.randint(1, len(base) - 1)])      # proper prefix
        if k < 0.7:
            return list(base) + [rnd.choice(PARTS)]                # extension
        if k < 0.85:
            # same spelling, other type at one position ("0" vs 0): legal, must not be refused
            j = rnd.randrange(len(base))
            p = base[j]
            q = int(p) if isinstance(p, str) and p.isdigit() else (str(p) if isinstance(p, int) else p + "x")
            return list(base[:j]) + [q] + list(base[j + 1:])
        return pick_name()

    def add_res(m, name):
        rid[0] += 1
        ops.append(["res", m, rid[0], 1, {"t": name}, 1, None, None])
        nm[m].append(name)
        ops.append(["obs"])
    nchild = rnd.randint(1, 3)
    for c in range(1, nchild + 1):
        ops.append(["new", rnd.choice([2, 3]), 8, 0]); nm.append([])
        for _ in range(rnd.randint(1, 3)):
            add_res(c, pick_name())
    # optionally nest: child 2 absorbs child 1... only when there are >= 2 children
    order = list(range(1, nchild + 1))
    if nchild >= 2 and rnd.random() < 0.6:
        ops.append(["win", 2, 1, None, None, None]); ops.append(["obs"])
        nm[2] += nm[1]
        order = [c for c in order if c != 1]
    if rnd.random() < 0.5:
        add_res(0, pick_name())
    for c in order:
        anon = rnd.random() < 0.8
        if nm[c] and rnd.random() < 0.5:
            # a name already visible in the root that is related to one the window would bring in (possibly from
            # two anonymous levels down): the window must then be refused, or accepted when merely similar
            add_res(0, related(rnd.choice(nm[c])))
        ops.append(["win", 0, c, None if anon else {"t": pick_name()}, None, None])
        # no observation in between: the very next call is the interesting one
        pool = nm[c] if (anon and nm[c]) else (nm[0] or [pick_name()])
        for _ in range(rnd.randint(1, 3)):
            base = rnd.choice(pool)
            if rnd.random() < 0.75:
                rid[0] += 1
                ops.append(["res", 0, rid[0], 1, {"t": related(base)}, 1, None, None])
            else:
                # a fresh map added as a named window with a related name
                ops.append(["new", 1, 8, 0]); nm.append([])
                ops.append(["win", 0, len(nm) - 1, {"t": related(base)}, None, None])
            if rnd.random() < 0.5:
                ops.append(["obs"])
        ops.append(["obs"])
        if anon:
            nm[0] += nm[c]
    if rnd.random() < 0.6:
        # the same (frozen) window maps under a SECOND parent: whatever the first parent did after absorbing them
        # must not have leaked into the shared children
        ops.append(["new", rnd.choice([5, 6, 7]), 8, 0]); nm.append([])
        p2 = len(nm) - 1
        first = rnd.random() < 0.5
        if not first:
            add_res(p2, related(rnd.choice(nm[0])) if nm[0] else pick_name())
        for c in order:
            ops.append(["win", p2, c, None, None, None])
            ops.append(["obs"])
            for _ in range(rnd.randint(0, 2)):
                if nm[0]:
                    rid[0] += 1
                    ops.append(["res", p2, rid[0], 1, {"t": related(rnd.choice(nm[0]))}, 1, None, None])
                    ops.append(["obs"])
    ops.append(["obs", "full"])
    return {"engine": "memmap", "kind": "anon", "ops": ops}


# ----------------------------------------------------------------------------- model encoding

def _pyint(v):
    if v is None:
        return []
    if isinstance(v, int) and not isinstance(v, bool):
        return [v]
    return 0


class Atoms:
    def __init__(self):
        self.d = {"": 0}

    def __call__(self, s):
        if s not in self.d:
            self.d[s] = len(self.d)
        return self.d[s]


def _rawpart(p, at):
    if isinstance(p, str):
        return [0, at(p)]
    if isinstance(p, int) and not isinstance(p, bool):
        return [1, p]
    return [2]


def _rawname(n, at):
    if "s" in n:
        return [0, at(n["s"])]
    if "t" in n:
        return [1, [_rawpart(p, at) for p in n["t"]]]
    return [2]


def expand(case):
    """Attach to every obs op the address list and id list it queries (deterministic from the ops)."""
    aws = []
    rids = set()
    marks = set([-1, 0, 1])
    for op in case["ops"]:
        if op[0] == "new":
            if all(isint(x) for x in op[1:]) and op[1] > 0 and op[2] > 0 and op[3] >= 0:
                aws.append(op[1])
        if op[0] == "res":
            rids.add(op[2])
            for v in (op[5], op[6]):
                if isint(v):
                    marks.update([v - 1, v, v + 1])
            if isint(op[5]) and isint(op[6]):
                marks.update([op[5] + op[6] - 1, op[5] + op[6], op[5] + op[6] + 1])
        if op[0] == "win" and isint(op[4]):
            marks.update([op[4] - 1, op[4], op[4] + 1])
    mx = max(aws) if aws else 1
    sparse_addrs = sorted(marks | {(1 << a) + d for a in aws for d in (-1, 0, 1)}
                          | {x for a in aws if a <= 6 for x in range(0, 1 << a, 3)}
                          | {1 << k for k in range(0, mx + 1)} | {(1 << k) - 1 for k in range(0, mx + 1)})
    full_addrs = list(range(-2, (1 << mx) + 3)) if mx <= 9 else sparse_addrs
    ids = sorted(rids | {NEVER})
    ops = []
    for op in case["ops"]:
        if op[0] == "obs":
            ops.append(["obs", full_addrs if len(op) > 1 else sparse_addrs, ids])
        else:
            ops.append(op)
    return ops


def to_model(case):
    at = Atoms()
    out = []
    for op in expand(case):
        if op[0] == "new":
            out.append([0, _pyint(op[1]), _pyint(op[2]), _pyint(op[3])])
        elif op[0] == "res":
            _, m, rid, comp, name, size, addr, alg = op
            out.append([1, m, rid, comp, _rawname(name, at), _pyint(size), _pyint(addr), _pyint(alg)])
        elif op[0] == "win":
            _, m, w, name, addr, sparse = op
            out.append([2, m, [] if w is None else [w], [] if name is None else [_rawname(name, at)],
                        _pyint(addr), [] if sparse is None else [int(sparse)]])
        elif op[0] == "align":
            out.append([3, op[1], _pyint(op[2])])
        elif op[0] == "freeze":
            out.append([4, op[1]])
        elif op[0] == "obs":
            out.append([5, op[1], op[2]])
    return out


def from_model(res):
    return res


# ----------------------------------------------------------------------------- implementation

def _pyname(n):
    if "s" in n:
        return n["s"]
    if "t" in n:
        # integer parts are fresh objects on every call (an index computed at run time is never the same object
        # as another equal one, beyond the interpreter's cache of small integers)
        t = tuple(1.5 if p is None else (int(str(p)) if isinstance(p, int) and not isinstance(p, bool) else p)
                  for p in n["t"])
        if len(t) % 2 == 0:
            # the same name as a ready-made MemoryMap.Name (when it is one): the spelling must not matter
            from amaranth_soc.memory import MemoryMap
            try:
                return MemoryMap.Name(t)
            except TypeError:
                return t
        return t
    return n["o"]


def _pyarg(v):
    return 1.5 if v == "x" else v


def run_impl(case):
    from amaranth.lib import wiring
    from amaranth_soc.memory import MemoryMap

    from amaranth_soc import csr
    from amaranth_soc.periph import PeripheralInfo

    class Res(csr.Register, access="rw"):
        def __init__(self):
            super().__init__({"f": csr.Field(csr.action.RW, 1)})

    class ResEq(Res):
        """resources that compare (and hash) equal to each other: distinct objects are distinct resources all
        the same (the map is keyed by identity)"""
        def __eq__(self, other):
            return isinstance(other, ResEq)

        def __hash__(self):
            return 7

    class ResFalsy(Res):
        """a resource whose truth value is False (a register bank with nothing in it yet): still a resource"""
        def __bool__(self):
            return False

        def __len__(self):
            return 0
    at = Atoms()
    maps = []
    objs = {}
    mapid = {}
    sticky = {}     # per map: the address whose decode_address() answered last
    out = []

    def enc_name(nm):
        return [[0, at(p)] if isinstance(p, str) else [1, p] for p in nm]

    def enc_info(i, ids):
        return [ids[id(i.resource)], [enc_name(p) for p in i.path], i.start, i.end, i.width]

    def call(f):
        try:
            return [0] + list(f())
        except Exception as e:
            return [EXC.get(type(e).__name__, 5)]
    # pre-intern atoms in the order to_model meets them
    for op in expand(case):
        if op[0] == "res":
            _rawname(op[4], at)
        elif op[0] == "win" and op[3] is not None:
            _rawname(op[3], at)
    ids = {}
    for op in expand(case):
        if op[0] == "new":
            try:
                m = MemoryMap(addr_width=_pyarg(op[1]), data_width=_pyarg(op[2]), alignment=_pyarg(op[3]))
                mapid[id(m)] = len(maps)
                maps.append(m)
                out.append([0, len(maps) - 1])
            except Exception as e:
                out.append([EXC.get(type(e).__name__, 5)])
        elif op[0] == "res":
            _, mi, rid, comp, name, size, addr, alg = op
            key = (rid, comp)
            if key not in objs:
                objs[key] = (ResEq() if rid % 2 else ResFalsy() if rid % 3 == 0 else Res()) if comp else object()
                ids[id(objs[key])] = rid
            o = objs[key]
            out.append(call(lambda: maps[mi].add_resource(o, name=_pyname(name), size=_pyarg(size),
                                                          addr=_pyarg(addr), alignment=_pyarg(alg))))
        elif op[0] == "win":
            _, mi, w, name, addr, sparse = op
            wobj = maps[w] if w is not None else object()
            out.append(call(lambda: maps[mi].add_window(wobj, name=None if name is None else _pyname(name),
                                                        addr=_pyarg(addr), sparse=sparse)))
        elif op[0] == "align":
            out.append(call(lambda: [maps[op[1]].align_to(_pyarg(op[2]))]))
        elif op[0] == "freeze":
            how = op[2] if len(op) > 2 else ""
            if how == "periph":
                PeripheralInfo(memory_map=maps[op[1]])
            elif how == "bridge":
                csr.Bridge(maps[op[1]])
            else:
                maps[op[1]].freeze()
            out.append([0])
        elif op[0] == "obs":
            addrs, rids = op[1], op[2]
            o_all = []
            for m in maps:
                # queries that stop early (a search that found its item, a dropped generator) come first: the
                # complete ones below must not depend on them
                for q in (m.resources, m.windows, m.window_patterns, m.all_resources):
                    try:
                        it = q(); next(it, None); del it
                    except Exception:
                        pass
                rs = [[ids[id(r)], enc_name(nm), s, e] for r, nm, (s, e) in m.resources()]
                ws = [[mapid[id(w)], [] if nm is None else [enc_name(nm)], s, e, r] for w, nm, (s, e, r) in m.windows()]
                ps = [[mapid[id(w)], [2 if c == "-" else int(c) for c in pat], r] for w, nm, (pat, r) in m.window_patterns()]
                try:
                    ar = [0, [enc_info(i, ids) for i in m.all_resources()]]
                except Exception as e:
                    ar = [EXC.get(type(e).__name__, 5)]
                # the address that answered last in the previous round is asked first in this one (whatever was
                # added in between), then the rest; the answers are stored in the order of `addrs`
                first = sticky.get(id(m))
                order = ([first] if first in addrs else []) + [a for a in addrs if a != first or first not in addrs]
                got = {}
                for a in order:
                    r = m.decode_address(a)
                    got.setdefault(a, r)
                    if r is not None:
                        sticky[id(m)] = a
                dc = [[] if got[a] is None else [ids[id(got[a])]] for a in addrs]
                fr = []
                for rid in rids:
                    o = objs.get((rid, 1))
                    if o is None:
                        o = objs.get((rid, 0))
                    if o is None:
                        o = objs.setdefault(("never", rid), object())
                    try:
                        fr.append([0, enc_info(m.find_resource(o), ids)])
                    except Exception as e:
                        fr.append([EXC.get(type(e).__name__, 5)])
                try:
                    cursor = m.align_to(0)
                except Exception:
                    cursor = -1          # the neutral probe itself is refused: reported by the oracle
                o_all.append([rs, ws, ps, ar, dc, fr, cursor])
            out.append(o_all)
    return out


# ----------------------------------------------------------------------------- oracle (spec level)

def align_up(v, a):
    return -(-v >> a) << a


def prefix(a, b):
    return len(a) <= len(b) and list(b[:len(a)]) == list(a)


def conflict(a, b):
    return prefix(a, b) or prefix(b, a)


def valid_name(n):
    if "s" in n:
        t = [n["s"]]
    elif "t" in n:
        t = n["t"]
    else:
        return None
    if not t:
        return None
    for p in t:
        if isinstance(p, str) and p:
            continue
        if isinstance(p, int) and not isinstance(p, bool) and p >= 0:
            continue
        return None
    return [("s", p) if isinstance(p, str) else ("i", p) for p in t]


class Spec:
    """What C02/C03/C18 say, written without reference to the implementation's data structures:
    a sorted set of allocated ranges, a prefix relation on names, closed-form placement."""
    def __init__(s, aw, dw, al):
        s.aw, s.dw, s.al = aw, dw, al
        s.ents = []      # (start, stop, step, kind, id, name, sub)
        s.names = []
        s.cursor = 0
        s.frozen = False
        s.order = []

    def free(s, a, b):
        return all(b <= e[0] or e[1] <= a for e in s.ents)

    def place(s, addr, size, A):
        if addr is not None:
            if not isint(addr) or addr < 0:
                return "addr"
            if addr % (1 << s.al):
                return "addr"
        else:
            addr = align_up(s.cursor, A)
        if not isint(size) or size < 0:
            return "size"
        size = align_up(max(size, 1), A)
        if addr + size > (1 << s.aw):
            return "bounds"
        if not s.free(addr, addr + size):
            return "overlap"
        return (addr, addr + size)

    def add_resource(s, rid, is_comp, name, size, addr, alignment):
        if s.frozen:
            return "frozen"
        if not is_comp:
            return "type"
        if any(e[4] == rid and e[3] == "r" for e in s.ents):
            return "dup"
        nm = valid_name(name)
        if nm is None:
            return "nametype"
        if any(conflict(nm, x) for x in s.names):
            return "nameconflict"
        if alignment is not None:
            if not isint(alignment) or alignment < 0:
                return "align"
            A = max(alignment, s.al)
        else:
            A = s.al
        r = s.place(addr, size, A)
        if isinstance(r, str):
            return r
        s.ents.append((r[0], r[1], 1, "r", rid, nm, None)); s.ents.sort(key=lambda e: e[0])
        s.names.append(nm); s.cursor = r[1]
        return r

    def add_window(s, wid, w, name, addr, sparse):
        if w is None:
            return "type"
        if s.frozen:
            return "frozen"
        if any(e[4] == wid and e[3] == "w" for e in s.ents):
            return "dup"
        if w.dw > s.dw:
            return "width"
        if w.dw != s.dw:
            if sparse is None:
                return "width"
            if not sparse and s.dw % w.dw:
                return "width"
        nm = None
        if name is not None:
            nm = valid_name(name)
            if nm is None:
                return "nametype"
        q = list(w.names) if nm is None else [nm]
        if any(conflict(a, x) for a in q for x in s.names):
            return "nameconflict"
        ratio = 1 if sparse else s.dw // w.dw
        if ratio & (ratio - 1):
            return "ratio"
        if ratio > (1 << w.al):
            return "ratio"
        size = (1 << w.aw) // ratio
        A = max(s.al, w.aw // ratio)
        r = s.place(addr, size, A)
        if isinstance(r, str):
            return r
        w.frozen = True
        s.ents.append((r[0], r[1], ratio, "w", wid, nm, w)); s.ents.sort(key=lambda e: e[0])
        s.names += q
        s.cursor = r[1]
        return (r[0], r[1], ratio)

    def align_to(s, a):
        if not isint(a) or a < 0:
            return "align"
        s.cursor = align_up(s.cursor, max(a, s.al))
        return (s.cursor,)

    def all_resources(s):
        """None when outside C03's domain (dense window over something it cannot divide)."""
        out = []
        for (a, b, st, k, oid, nm, sub) in s.ents:
            if k == "r":
                out.append((oid, [nm], a, b, s.dw))
            else:
                inner = sub.all_resources()
                if inner is None:
                    return None
                for (o, p, x, y, w) in inner:
                    if (y - x) % st or x % st or (st != 1 and w != sub.dw):
                        return None
                    out.append((o, p if nm is None else [nm] + p, a + x // st, a + x // st + (y - x) // st, w * st))
        return out


ERRCLS = {"frozen": 1, "type": 2, "dup": 1, "nametype": 2, "nameconflict": 1, "align": 1, "addr": 1, "size": 1,
          "bounds": 1, "overlap": 1, "width": 1, "ratio": 1}
PID_OF = {"nameconflict": "C18", "nametype": "C18"}


def oracle(case, obs):
    """C02 / C03 / C18 restated over the implementation's results and query answers."""
    out = []
    specs = []
    at = Atoms()
    ops = expand(case)
    for op in ops:
        if op[0] == "res":
            _rawname(op[4], at)
        elif op[0] == "win" and op[3] is not None:
            _rawname(op[3], at)
    inv = {v: k for k, v in at.d.items()}

    def dec_name(nm):
        return [("s", inv[p[1]]) if p[0] == 0 else ("i", p[1]) for p in nm]
    # C18, independently of everything below (which stops at the first call whose result is not the required one):
    # in every listing of every map, no two resources are reported under the same path, whatever history led there
    for k, (op, o) in enumerate(zip(ops, obs)):
        if op[0] != "obs":
            continue
        for mi, m in enumerate(o):
            ar = m[3]
            if ar[0] != 0:
                continue
            paths = [repr([dec_name(p) for p in i[1]]) for i in ar[1]]
            if len(set(paths)) != len(paths):
                dup = next(p_ for p_ in paths if paths.count(p_) > 1)
                out.append(("C18", k, f"map {mi}: two resources are reported under the same path {dup}", "dup-path"))
                break
        if out:
            break
    last_obs = None
    failed_since = False     # some call since the last observation raised ...
    ok_since = False         # ... and none succeeded (then every answer must be unchanged)
    for k, (op, o) in enumerate(zip(ops, obs)):
        if op[0] == "new":
            ok = all(isint(x) for x in op[1:]) and op[1] > 0 and op[2] > 0 and op[3] >= 0
            if ok != (o[0] == 0):
                out.append(("C02", k, f"MemoryMap{tuple(op[1:])} constructor: accepted={o[0]==0}"))
                return out
            if ok:
                specs.append(Spec(op[1], op[2], op[3]))
            continue
        if op[0] == "obs":
            # C02: a failed call left every answer unchanged
            cur = [[m[:4] + [m[6]], op[1], m[4], m[5]] for m in o]
            same = lambda x, y: x[0] == y[0] and (x[1] != y[1] or x[2:] == y[2:])
            if failed_since and not ok_since and last_obs is not None and not all(same(x, y) for x, y in zip(cur, last_obs)):
                out.append(("C02", k, "a call that raised changed a query result or the placement cursor"))
            failed_since = False
            ok_since = False
            last_obs = cur
            for mi, (m, sp) in enumerate(zip(o, specs)):
                rs, ws, ps, ar, dc, fr, cursor = m
                # C02: reports = successful additions, ascending, disjoint, in bounds
                exp_r = [[e[4], e[0], e[1]] for e in sp.ents if e[3] == "r"]
                exp_w = [[e[4], e[0], e[1], e[2]] for e in sp.ents if e[3] == "w"]
                if [[r[0], r[2], r[3]] for r in rs] != exp_r or [[w[0], w[2], w[3], w[4]] for w in ws] != exp_w:
                    out.append(("C02", k, f"map {mi}: resources()/windows() {rs} {ws} differ from the ranges handed out {exp_r} {exp_w}"))
                if cursor != align_up(sp.cursor, sp.al):
                    out.append(("C02", k, f"map {mi}: placement cursor {'probe align_to(0) raised' if cursor == -1 else cursor}, "
                                          f"expected {sp.cursor}"))
                allr = sorted([(r[2], r[3]) for r in rs] + [(w[2], w[3]) for w in ws])
                for (a, b), (c, d) in zip(allr, allr[1:]):
                    if b > c:
                        out.append(("C02", k, f"map {mi}: ranges {(a,b)} and {(c,d)} overlap"))
                if any(a < 0 or b > (1 << sp.aw) or a >= b for a, b in allr):
                    out.append(("C02", k, f"map {mi}: range outside [0, 2^{sp.aw})"))
                # C03: all_resources = arithmetic; decode/find coherent with it
                exp = sp.all_resources()
                if exp is None:
                    continue
                if ar[0] != 0:
                    out.append(("C03", k, f"map {mi}: all_resources() raised inside the property's domain"))
                    continue
                got = [(i[0], [dec_name(p) for p in i[1]], i[2], i[3], i[4]) for i in ar[1]]
                paths = [repr(g[1]) for g in got]
                if len(set(paths)) != len(paths):
                    dup = next(p_ for p_ in paths if paths.count(p_) > 1)
                    out.append(("C18", k, f"map {mi}: two resources are reported under the same path {dup}"))
                if got != exp:
                    out.append(("C03", k, f"map {mi}: all_resources() {got} differs from address arithmetic {exp}"))
                    continue
                for (u, v) in zip(got, got[1:]):
                    if u[3] > v[2]:
                        out.append(("C03", k, f"map {mi}: all_resources() not ascending/disjoint"))
                for a, d in zip(op[1], dc):
                    hit = [g[0] for g in got if g[2] <= a < g[3]]
                    if (d != hit[:1]) or len(hit) > 1:
                        out.append(("C03", k, f"map {mi}: decode_address({a}) = {d} but reported ranges give {hit}"))
                        break
                for rid, f in zip(op[2], fr):
                    hits = [g for g in got if g[0] == rid]
                    if f[0] == 0:
                        fi = (f[1][0], [dec_name(p) for p in f[1][1]], f[1][2], f[1][3], f[1][4])
                        if fi not in hits:
                            out.append(("C03", k, f"map {mi}: find_resource({rid}) = {fi} not among all_resources() {hits}"))
                    elif f[0] == 3:
                        if hits:
                            out.append(("C03", k, f"map {mi}: find_resource({rid}) raised KeyError but it is reported at {hits}"))
                    else:
                        out.append(("C03", k, f"map {mi}: find_resource({rid}) raised code {f[0]}"))
                    if len(hits) > 1 and rid != NEVER:
                        # the same object may legitimately sit in several child maps; only a single map
                        # listing one addition twice would be wrong, which `got != exp` already covers
                        pass
            if len(out) > 10:
                return out
            continue
        mi = op[1]
        sp = specs[mi]
        if op[0] == "res":
            r = sp.add_resource(op[2], bool(op[3]), op[4], _pyarg(op[5]), _pyarg(op[6]), _pyarg(op[7]))
        elif op[0] == "win":
            w = op[2]
            r = sp.add_window(w, specs[w] if w is not None else None, op[3], _pyarg(op[4]), op[5])
        elif op[0] == "align":
            r = sp.align_to(_pyarg(op[2]))
        elif op[0] == "freeze":
            sp.frozen = True
            r = ()
        exp = [ERRCLS[r]] if isinstance(r, str) else [0] + list(r)
        if o[0] != 0:
            failed_since = True
        else:
            ok_since = True
        if o != exp:
            pid = PID_OF.get(r, "C02") if isinstance(r, str) else "C02"
            text = f"{op} returned {o}, the property requires {exp} ({r if isinstance(r, str) else 'success'})"
            out.append((pid, k, text))
            if not isinstance(r, str) and o[0] != 0 and op[0] in ("res", "win"):
                # a request that is legal in every respect (name included) was refused: C18's "a legal name is
                # never refused" is breached as well as C02's placement rule, whichever check made the refusal
                out.append(("C18", k, "a legal request (legal name included) was refused: " + text))
            return out
    return out


def nontrivial(case, obs):
    """at least 3 successful additions, one failed call and one window"""
    ops = expand(case)
    okadd = sum(1 for op, o in zip(ops, obs) if op[0] in ("res", "win") and o[0] == 0)
    fail = sum(1 for op, o in zip(ops, obs) if op[0] in ("res", "win", "align") and o[0] != 0)
    win = sum(1 for op, o in zip(ops, obs) if op[0] == "win" and o[0] == 0)
    return okadd >= 3 and fail >= 1 and win >= 1


def describe(case):
    return {"engine": "memmap", "kind": case["kind"], "ops": case["ops"][:14], "n_ops": len(case["ops"])}


def stats(case, o):
    d = {"calls": 0, "ok": 0, "ValueError": 0, "TypeError": 0, "windows_ok": 0, "dense_windows_ok": 0,
         "allres_assert": 0, "max_depth_sum": 0}
    for op, r in zip(expand(case), o):
        if op[0] in ("res", "win", "align", "new"):
            d["calls"] += 1
            if r[0] == 0:
                d["ok"] += 1
                if op[0] == "win":
                    d["windows_ok"] += 1
                    if r[3] > 1:
                        d["dense_windows_ok"] += 1
            elif r[0] == 1:
                d["ValueError"] += 1
            elif r[0] == 2:
                d["TypeError"] += 1
        elif op[0] == "obs":
            d["allres_assert"] += sum(1 for m in r if m[3][0] == 4)
    return d


def shrink(case, fails):
    """Drop ops from the end, then single ops, keeping the failure."""
    best = case
    ops = best["ops"]
    lo = 1
    while lo < len(ops):
        c = dict(best); c["ops"] = ops[:lo] + [["obs", "full"]]
        if fails(c):
            best = c
            break
        lo += 1
    changed = True
    while changed:
        changed = False
        ops = best["ops"]
        for i in range(len(ops) - 1):
            if ops[i][0] in ("new",):
                continue
            c = dict(best); c["ops"] = ops[:i] + ops[i + 1:]
            try:
                if fails(c):
                    best = c; changed = True
                    break
            except Exception:
                pass
    return best
