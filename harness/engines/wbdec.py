"""Engine `wbdec` (C07): wishbone.Decoder vs Model/WbDecoder.v.

A case holds the decoder geometry, the sequence of add() attempts (with the range the REAL add()
returned, or why it did not return one) and one stimulus row per cycle.  The design is combinational,
so every cycle is an independent input vector; every word address is visited."""
from ..common import mkrnd
from .. import sim as S

ENGINE_ID = 7
RAW_COMPARE = True      # from_model is the identity: model sx == observation
N = {"quick": 320, "thorough": 2400}
RULE = ("main/random: 0-4 subordinates on a decoder with aw 0-8, dw 8-64, any granularity, independent feature "
        "subsets, dense (equal granularity) or sparse windows placed implicitly / after align_to / at explicit "
        "aligned addresses; every word address x several vectors (protocol-conforming: only the addressed "
        "subordinate responds; and unconstrained: every response bit random); exh: aw<=2, every address x all 32 "
        "(cyc,stb,we,lock,ack-of-selected) combinations; k1probe: dense windows onto finer-granularity subordinates. "
        "Non-trivial = at least two windows added, some cycle selects a subordinate and some cycle (cyc high) selects nobody")
FE = ["err", "rty", "stall", "lock", "cti", "bte"]
GR = (8, 16, 32, 64)
K1 = "K1-dense-finer-granularity"


def lg(x):
    return x.bit_length() - 1


def fan(sel, n, r):
    o = 0
    for i in range(n):
        if (sel >> i) & 1:
            o |= ((1 << r) - 1) << (i * r)
    return o


def feats(f):
    from ..common import spell_features
    return spell_features([FE[k] for k in range(6) if f[k]], sum((k + 3) * b for k, b in enumerate(f)))


# ------------------------------------------------------------------------------------------------
# building the real decoder from a case's configuration

class Built:
    pass


def validation_refuses(cfg, sc):
    """Does Decoder.add() refuse this interface by its OWN checks?  Asked of the real code through the
    public API only: the same interface is added to a fresh, empty, very large decoder of identical bus
    geometry, with a subordinate memory map whose alignment admits every ratio — there the memory map
    cannot fail to place the window, so a ValueError can only come from add()'s own rules."""
    from amaranth_soc import wishbone
    from amaranth_soc.memory import MemoryMap
    d = wishbone.Decoder(addr_width=40, data_width=cfg["dw"], granularity=cfg["g"], features=feats(cfg["feat"]))
    sb = wishbone.Interface(addr_width=sc["aw"], data_width=sc["dw"], granularity=sc["g"],
                            features=feats(sc["feat"]), path=("probe",))
    sb.memory_map = MemoryMap(addr_width=max(1, sc["aw"] + lg(sc["dw"] // sc["g"])), data_width=sc["g"], alignment=3)
    try:
        d.add(sb, sparse=bool(sc["sparse"]))
        return False
    except ValueError:
        return True


def _Mock():
    from amaranth.lib import wiring

    class Mock(wiring.Component):
        def __init__(self):
            super().__init__({})
    return Mock()


def _peek_more(mm, addr):
    """The other queries a user can make of a half-built map (flattened listing, address lookups at the window just
    placed and at both ends of the space); none may change what the finished decoder says or does."""
    try:
        list(mm.all_resources())
    except Exception:
        pass
    mm.decode_address(addr); mm.decode_address(0); mm.decode_address((1 << mm.addr_width) - 1)


def build(cfg):
    """Replays the add() sequence on a real wishbone.Decoder.  Returns the decoder, the interfaces that
    were added and, per attempt, ("ok", [start, stop, ratio], map_aw) | ("rejected",) | ("unplaced",)."""
    from amaranth_soc import wishbone
    from amaranth_soc.memory import MemoryMap
    dec = wishbone.Decoder(addr_width=cfg["aw"], data_width=cfg["dw"], granularity=cfg["g"],
                           features=feats(cfg["feat"]), alignment=cfg.get("align", 0))
    b = Built()
    b.dec = dec; b.subs = []; b.results = []; b.refused = []
    for i, sc in enumerate(cfg["subs"]):
        sb = wishbone.Interface(addr_width=sc["aw"], data_width=sc["dw"], granularity=sc["g"],
                                features=feats(sc["feat"]), path=(f"s{i}",))
        sb.memory_map = MemoryMap(addr_width=max(1, sc["aw"] + lg(sc["dw"] // sc["g"])), data_width=sc["g"],
                                  alignment=sc.get("map_align", 0))
        # what a subordinate's own map contains must not matter to the decoder: populate some of them
        for k in range(i % 3):
            try:
                sb.memory_map.add_resource(_Mock(), name=(f"m{i}", k), size=1)
            except ValueError:
                pass
        try:
            if sc.get("align_to") is not None:
                dec.align_to(sc["align_to"])
            kw = {}
            if sc.get("addr") is not None:
                kw["addr"] = sc["addr"]
            if sc["sparse"]:
                r = dec.add(sb, sparse=True, **kw)
            else:
                r = dec.add(sb, **kw)
        except ValueError:
            b.results.append(("rejected",) if validation_refuses(cfg, sc) else ("unplaced",))
            b.refused.append(sb)
            continue
        b.results.append(("ok", [int(r[0]), int(r[1]), int(r[2])], sb.memory_map.addr_width))
        b.subs.append((i, sb))
        if len(b.subs) % 2 == 1:
            # looking at a half-built decoder must not change what it becomes
            list(dec.bus.memory_map.windows()); list(dec.bus.memory_map.window_patterns())
            _peek_more(dec.bus.memory_map, int(r[0]))
    return b


def fill_results(cfg):
    b = build(cfg)
    for sc, r in zip(cfg["subs"], b.results):
        sc["res"] = list(r)
    return b


def added(cfg):
    """[(attempt index, sub cfg)] of the windows the real add() returned."""
    return [(i, sc) for i, sc in enumerate(cfg["subs"]) if sc["res"][0] == "ok"]


# ------------------------------------------------------------------------------------------------
# generators

def gen_sub(rnd, cfg, k1=False):
    aw, dw, g, fd = cfg["aw"], cfg["dw"], cfg["g"], cfg["feat"]
    gb = lg(dw // g)
    sparse = (not k1) and rnd.random() < 0.35
    if k1:
        sdw = dw; sg = rnd.choice([x for x in GR if x < g])
        saw = rnd.randint(0, max(0, aw - rnd.choice([0, 1, 1, 2])))
    elif sparse:
        sdw = rnd.choice([x for x in GR if x <= g]); sg = sdw
        top = max(0, aw + gb - 1)
        lo = min(gb, top) if rnd.random() < 0.85 else 0     # mostly windows covering whole words
        saw = min(top, lo + rnd.choice([0, 0, 1, 1, 2, 2, 3, max(0, top - lo - 1), top - lo]))
        if rnd.random() < 0.04:
            saw = top + 1                                    # fills the decoder (or does not fit)
    else:
        sdw = dw; sg = g
        top = max(0, aw - 1)
        saw = min(top, rnd.choice([0, 0, 1, 1, 2, 2, 3, max(0, top - 1), top]))
        if rnd.random() < 0.04:
            saw = aw                                         # fills the decoder (or does not fit)
    fs = [int(rnd.random() < 0.5) for _ in FE]
    for k in (0, 1, 2):        # optional outputs need the decoder's input (else add() refuses)
        if not fd[k] and rnd.random() < 0.97:
            fs[k] = 0
    sc = {"aw": saw, "dw": sdw, "g": sg, "feat": fs, "sparse": int(sparse)}
    if k1:
        sc["map_align"] = lg(g // sg) + rnd.choice([0, 0, 1])
    elif rnd.random() < 0.06:  # a geometry add() must refuse (or, by chance, a legal one)
        k = rnd.choice(["g", "dw", "sp", "sp2"])
        if k == "g":
            sc["dw"] = rnd.choice(GR); sc["g"] = rnd.choice([x for x in GR if x <= sc["dw"]])
        elif k == "dw":
            sc["dw"] = rnd.choice(GR); sc["g"] = min(sc["g"], sc["dw"])
        elif k == "sp":
            sc["sparse"] = 1
        else:
            sc["sparse"] = 1; sc["dw"] = rnd.choice([x for x in GR if x <= g])
            sc["g"] = rnd.choice([x for x in GR if x <= sc["dw"]])
    # placement: implicit / align_to then implicit / explicit address aligned to the window size
    maw = max(1, sc["aw"] + lg(sc["dw"] // sc["g"]))
    ratio = 1 if sc["sparse"] else max(1, g // sc["g"])
    size_bits = max(maw - lg(ratio), cfg.get("align", 0))
    total = 1 << max(1, aw + gb)
    slots = list(range(0, total, 1 << size_bits)) or [0]
    taken = [x["res"][1] for x in cfg["subs"] if x.get("res", ["?"])[0] == "ok"]
    free = [a for a in slots if all(a + (1 << size_bits) <= t[0] or t[1] <= a for t in taken)]
    cursor = taken[-1][1] if taken else 0          # the implicit next address after the last window
    room = (-(-cursor >> size_bits) << size_bits) + (1 << size_bits) <= total
    p = rnd.random()
    if p < 0.6 or (not room and free and p < 0.97):
        sc["addr"] = rnd.choice(free) if free and rnd.random() < 0.9 else rnd.choice(slots)
    elif p < 0.8:
        sc["align_to"] = rnd.choice([0, 1, size_bits, size_bits + 1, rnd.randint(0, aw + gb)])
    return sc


def gen_cfg(rnd, tier, kind, fd=None):
    dw = rnd.choice(GR)
    g = rnd.choice([x for x in GR if x <= dw])
    if kind == "k1probe":
        dw = rnd.choice([16, 32, 64]); g = rnd.choice([x for x in GR if 16 <= x <= dw])
    if kind == "exh":
        aw = rnd.choice([0, 1, 2, 2])
    else:
        aw = rnd.choice([0, 1, 2, 3, 3, 4, 4, 5, 5, 6, 7] if tier == "quick" else [0, 1, 2, 3, 4, 5, 6, 6, 7, 7, 8, 8])
        if tier == "quick" and rnd.random() < 0.08:
            aw = 8
    fd = fd or [int(rnd.random() < 0.5) for _ in FE]
    cfg = {"aw": aw, "dw": dw, "g": g, "feat": fd, "subs": [],
           "align": min(rnd.choice([0, 0, 0, 1, 2, 3]), max(0, aw + lg(dw // g) - rnd.choice([1, 2, 2])))}
    n = min(rnd.choice([0, 1, 2, 2, 3, 3, 4, 4]), (1 << aw) + 1)
    if kind == "k1probe":
        n = rnd.choice([1, 2, 3])
        cfg["align"] = min(cfg["align"], 1)
    k1pos = rnd.randrange(n) if n else 0
    for i in range(n):
        k1 = kind == "k1probe" and (i == k1pos or rnd.random() < 0.4)
        cfg["subs"].append(gen_sub(rnd, cfg, k1=k1))
        fill_results(cfg)      # the real add() decides; later explicit addresses avoid the ranges it returned
    return cfg


def spans(cfg):
    """Intended word span [lo, hi] of every added window, from the memory map's own report: the window
    occupies map addresses start .. start + 2**map_aw // ratio - 1, and a word covers 2**gb of them."""
    gb = lg(cfg["dw"] // cfg["g"])
    out = []
    for i, sc in added(cfg):
        (start, stop, ratio), maw = sc["res"][1], sc["res"][2]
        size = (1 << maw) // ratio
        out.append((start >> gb, (start + size - 1) >> gb))
    return out


def rand_req(rnd, cfg, a):
    return [int(rnd.random() < 0.75), rnd.randrange(2), rnd.randrange(2), a, rnd.randrange(1 << cfg["dw"]),
            rnd.randrange(1 << (cfg["dw"] // cfg["g"])), rnd.randrange(2), rnd.choice([0, 1, 2, 7, rnd.randrange(8)]),
            rnd.randrange(4)]


def rand_resp(rnd, sc, quiet=False):
    d = rnd.randrange(1 << sc["dw"])
    if quiet:
        return [0, 0, 0, 0, d]
    return [rnd.randrange(2), rnd.randrange(2), rnd.randrange(2), rnd.randrange(2), d]


def gen_case(seed, tier, idx):
    rnd = mkrnd(seed, "wbdec", idx)
    kind = ["main", "main", "random", "main", "exh", "main", "random", "k1probe"][idx % 8]
    # thorough: every one of the 64 decoder feature subsets occurs (idx // 8 runs through them)
    fd = [((idx // 8) >> k) & 1 for k in range(6)] if tier == "thorough" else None
    cfg = gen_cfg(rnd, tier, kind, fd=fd)
    fill_results(cfg)
    subs = added(cfg)
    sp = spans(cfg)
    stim = []
    reps = (3 if cfg["aw"] >= 7 else 4) if tier == "quick" else 6
    for a in range(1 << cfg["aw"]):
        hit = [j for j, (lo, hi) in enumerate(sp) if lo <= a <= hi]
        if kind == "exh":
            for combo in range(32):
                q = rand_req(rnd, cfg, a)
                q[0] = combo & 1; q[1] = (combo >> 1) & 1; q[2] = (combo >> 2) & 1; q[6] = (combo >> 3) & 1
                rs = [rand_resp(rnd, sc, quiet=(j not in hit)) for j, (_, sc) in enumerate(subs)]
                for j in hit:
                    rs[j][0] = (combo >> 4) & 1
                stim.append([q, rs])
            continue
        for r in range(reps):
            q = rand_req(rnd, cfg, a)
            conforming = kind in ("main", "k1probe") and r != reps - 1
            if conforming:
                # Wishbone-conforming: only the addressed subordinate may respond (sometimes nobody does,
                # sometimes a single other one does, which is the situation the premise excludes)
                who = set(hit) if rnd.random() < 0.9 else {rnd.randrange(len(subs))} if subs else set()
                rs = [rand_resp(rnd, sc, quiet=(j not in who)) for j, (_, sc) in enumerate(subs)]
            else:
                rs = [rand_resp(rnd, sc) for _, sc in subs]
            stim.append([q, rs])
    return {"engine": "wbdec", "kind": kind, "cfg": cfg, "stim": stim}


# ------------------------------------------------------------------------------------------------
# model side

def to_model(case):
    cfg = case["cfg"]
    atts = []
    for sc in cfg["subs"]:
        r = sc["res"]
        win = [r[1][0], r[1][1], r[1][2], r[2]] if r[0] == "ok" else []
        atts.append([sc["aw"], sc["dw"], sc["g"], sc["feat"], sc["sparse"], win])
    return [[cfg["aw"], cfg["dw"], cfg["g"], cfg["feat"]], atts, case["stim"]]


def from_model(res):
    return res


# ------------------------------------------------------------------------------------------------
# implementation side

REQ = ["cyc", "stb", "we", "adr", "dat_w", "sel", "lock", "cti", "bte"]
RSP = ["ack", "err", "rty", "stall", "dat_r"]
SOUT = ["adr", "dat_w", "sel", "we", "stb", "cyc", "lock", "cti", "bte"]


def run_impl(case):
    """[verdicts, [[sub rows (adr dat_w sel we stb cyc lock cti bte)], (ack err rty stall dat_r)] per cycle];
    a port the interface does not have reads 0.  verdict 1 = add() passed the decoder's own checks."""
    cfg = case["cfg"]
    b = build(cfg)
    for sc, r in zip(cfg["subs"], b.results):
        if list(r) != list(sc["res"]):
            raise RuntimeError(f"add() replay returned {r}, the case recorded {sc['res']}")
    verdicts = [0 if r[0] == "rejected" else 1 for r in b.results]
    dec = b.dec
    ins, in_idx, outs, out_idx = [], [], [], []
    for k, nm in enumerate(REQ):
        if hasattr(dec.bus, nm):
            ins.append(getattr(dec.bus, nm)); in_idx.append(("b", 0, k))
    for j, (_, sb) in enumerate(b.subs):
        for k, nm in enumerate(RSP):
            if hasattr(sb, nm):
                ins.append(getattr(sb, nm)); in_idx.append(("s", j, k))
        for k, nm in enumerate(SOUT):
            if hasattr(sb, nm):
                outs.append(getattr(sb, nm)); out_idx.append(("s", j, k))
    for k, nm in enumerate(RSP):
        if hasattr(dec.bus, nm):
            outs.append(getattr(dec.bus, nm)); out_idx.append(("b", 0, k))
    stim = [[q[k] if w == "b" else rs[j][k] for (w, j, k) in in_idx] for (q, rs) in case["stim"]]
    # interfaces whose add() was refused are not part of the decoder: they keep answering (all response lines
    # high, read data all ones) and must have no influence on it
    nref = 0
    for sb in b.refused:
        for nm in RSP:
            if hasattr(sb, nm):
                ins.append(getattr(sb, nm)); nref += 1
    stim = [row + [-1] * nref for row in stim]
    rows = S.simulate(dec, ins, outs, stim) if stim else []
    n = len(b.subs)
    obs = []
    for r in rows:
        so = [[0] * 9 for _ in range(n)]
        bo = [0] * 5
        for (w, j, k), v in zip(out_idx, r):
            if w == "s":
                so[j][k] = v
            else:
                bo[k] = v
        obs.append([so, bo])
    return [verdicts, obs]


# ------------------------------------------------------------------------------------------------
# the property, restated over implementation observations only

def rule_refuses(cfg, sc):
    """The four documented reasons for Decoder.add() to refuse an interface."""
    if sc["g"] > cfg["g"]:
        return True
    if not sc["sparse"] and sc["dw"] != cfg["dw"]:
        return True
    if sc["sparse"] and sc["g"] != sc["dw"]:
        return True
    return any(sc["feat"][k] and not cfg["feat"][k] for k in (0, 1, 2))


def oracle(case, obs):
    """C07 over the ports of the real design.  Returns (pid, where, text[, key])."""
    cfg = case["cfg"]; fd = cfg["feat"]; dw, g = cfg["dw"], cfg["g"]
    gb = lg(dw // g); nsel = dw // g
    out = []
    verdicts, rows = obs
    for i, (sc, v) in enumerate(zip(cfg["subs"], verdicts)):
        if bool(v) == rule_refuses(cfg, sc):
            out.append(("C07", f"add#{i}", f"add() {'accepted' if v else 'refused'} interface {sc['aw']}/{sc['dw']}/{sc['g']} "
                        f"feat {sc['feat']} sparse={sc['sparse']} on decoder {dw}/{g} feat {fd}"))
    subs = added(cfg)
    sp = spans(cfg)
    isk1 = [(not sc["sparse"]) and sc["res"][1][2] > 1 for _, sc in subs]
    anyk1 = any(isk1)
    for t, ((q, rs), (so, bo)) in enumerate(zip(case["stim"], rows)):
        cyc, stb, we, a, dat_w, sel, lock, cti, bte = q
        hit = [j for j, (lo, hi) in enumerate(sp) if lo <= a <= hi]
        holders = [j for j in range(len(subs)) if so[j][5]]
        if len(holders) > 1:
            out.append(("C07", t, f"adr {a:#x}: subordinates {holders} see cyc at the same time"))
        if len(hit) > 1:
            continue        # windows sharing a word (sparse, narrower than a word): outside the property's domain
        sel_known = True
        if cyc:
            if holders != hit:
                key = K1 if any(isk1[j] for j in holders + hit) else None
                out.append(("C07", t, f"adr {a:#x}: cyc seen by {holders}, windows (word spans {sp}) say {hit}", key))
                sel_known = False
        elif holders:
            out.append(("C07", t, f"adr {a:#x}: bus cyc low but subordinates {holders} see cyc"))
        for j in hit:
            (_, sc) = subs[j]; o = so[j]; fs = sc["feat"]; ratio = sc["res"][1][2]
            exp = {"dat_w": dat_w & ((1 << sc["dw"]) - 1), "we": we, "stb": stb,
                   "sel": fan(sel, nsel, ratio) & ((1 << (sc["dw"] // sc["g"])) - 1),
                   "lock": (lock if fd[3] else 0) if fs[3] else 0,
                   "cti": (cti if fd[4] else 0) if fs[4] else 0,
                   "bte": (bte if fd[5] else 0) if fs[5] else 0}
            got = {"dat_w": o[1], "sel": o[2], "we": o[3], "stb": o[4], "lock": o[6], "cti": o[7], "bte": o[8]}
            for k in exp:
                if exp[k] != got[k]:
                    out.append(("C07", t, f"adr {a:#x}: selected subordinate {j} gets {k}={got[k]:#x}, the bus has {exp[k]:#x}"))
            if not sc["sparse"]:
                off = (a - sp[j][0]) & ((1 << sc["aw"]) - 1)
                if o[0] != off:
                    out.append(("C07", t, f"adr {a:#x}: subordinate {j} (window words {sp[j]}) gets adr {o[0]:#x}, offset is {off:#x}",
                                K1 if isk1[j] else None))
        # responses: premise = every unselected subordinate keeps ack/err/rty/stall low
        if not sel_known:
            continue
        quiet = all(not any(rs[j][k] and (k == 0 or subs[j][1]["feat"][k - 1]) for k in range(4))
                    for j in range(len(subs)) if j not in hit)
        key = K1 if (anyk1 and not cyc) else None   # with cyc low the design's choice is not observable
        if hit:
            j = hit[0]; fs = subs[j][1]["feat"]
            exp = [rs[j][0]] + [(rs[j][k] if fs[k - 1] else 0) if fd[k - 1] else 0 for k in (1, 2, 3)] + [rs[j][4]]
            if quiet and bo[:4] != exp[:4]:
                out.append(("C07", t, f"adr {a:#x}: upstream ack/err/rty/stall {bo[:4]}, selected subordinate {j} drives {exp[:4]}", key))
            if bo[4] != exp[4]:
                out.append(("C07", t, f"adr {a:#x}: upstream dat_r {bo[4]:#x}, selected subordinate {j} drives {exp[4]:#x}", key))
        else:
            if quiet and any(bo[:4]):
                out.append(("C07", t, f"adr {a:#x} selects nobody, all subordinates quiet, upstream response {bo[:4]}", key))
            if bo[4] != 0:
                out.append(("C07", t, f"adr {a:#x} selects nobody but upstream dat_r = {bo[4]:#x}", key))
        if len(out) > 40:
            break
    return out


def nontrivial(case, obs):
    """>= 2 windows added; some cycle selects a subordinate and some cycle with cyc high selects nobody."""
    if len(added(case["cfg"])) < 2:
        return False
    rows = obs[1]
    some = any(any(s[5] for s in so) for so, _ in rows)
    none = any(q[0] and not any(s[5] for s in so) for (q, _), (so, _) in zip(case["stim"], rows))
    return some and none


def describe(case):
    cfg = case["cfg"]
    return {"engine": "wbdec", "kind": case["kind"], "aw": cfg["aw"], "dw": cfg["dw"], "g": cfg["g"], "feat": cfg["feat"],
            "align": cfg.get("align", 0),
            "subs": [{k: sc.get(k) for k in ("aw", "dw", "g", "feat", "sparse", "align_to", "addr", "map_align", "res")}
                     for sc in cfg["subs"]],
            "cycles": len(case["stim"]), "first_cycle": case["stim"][0] if case["stim"] else None}


def shrink(case, fails):
    """Combinational design: keep the single failing vector."""
    try:
        br = oracle(case, run_impl(case))
    except Exception:
        return case
    for b in br:
        if isinstance(b[1], int) and not (len(b) > 3 and b[3]):
            c = dict(case); c["stim"] = [case["stim"][b[1]]]
            if fails(c):
                return c
    c = dict(case); c["stim"] = []
    return c if fails(c) else case


def stats(case, obs):
    """Integer counters describing the inputs of one case (summed by the runner)."""
    cfg = case["cfg"]
    d = {"cycles": len(case["stim"]), "cycles_cyc": sum(1 for q, _ in case["stim"] if q[0]),
         f"windows_added={len(added(cfg))}": 1, f"aw={cfg['aw']}": 1,
         f"decoder_feature_count={sum(cfg['feat'])}": 1}
    for sc in cfg["subs"]:
        r = sc["res"]
        k = r[0] if r[0] != "ok" else ("sparse" if sc["sparse"] else "k1_dense_finer" if r[1][2] > 1 else "dense")
        d["sub_" + k] = d.get("sub_" + k, 0) + 1
    if isinstance(obs, list) and len(obs) == 2 and obs[0] != "harness-exception":
        d["cycles_selecting"] = sum(1 for so, _ in obs[1] if any(s[5] for s in so))
    return d


def summarize(cases, obs):
    """Older runner API: the sum of stats()."""
    tot = {}
    for c, o in zip(cases, obs):
        for k, v in stats(c, o).items():
            tot[k] = tot.get(k, 0) + v
    return tot
