"""Fail-closed translator for the pure integer kernels of /repo (DESIGN §4.2).

Regenerates Gen/Kernels.v from the CURRENT source on every run.  Supported: integer constants, names,
attribute reads mapped to parameters, + - * // % << >> & | ^ ** ~ unary -, comparisons, max/min/ceil_log2,
assignment, augmented assignment, one-armed `if` whose body only (aug)assigns, `return`.  `assert` and
docstrings are skipped (asserts are separate proof obligations in the model).  A statement that cannot be
translated makes its target *opaque*; using an opaque name in a requested output aborts the translation."""
import ast, os


class Untranslatable(Exception):
    pass


BINOPS = {ast.Add: "Z.add", ast.Sub: "Z.sub", ast.Mult: "Z.mul", ast.FloorDiv: "Z.div", ast.Mod: "Z.modulo",
          ast.LShift: "Z.shiftl", ast.RShift: "Z.shiftr", ast.BitAnd: "Z.land", ast.BitOr: "Z.lor",
          ast.BitXor: "Z.lxor", ast.Pow: "Z.pow"}
CMPOPS = {ast.Eq: "Z.eqb", ast.Lt: "Z.ltb", ast.LtE: "Z.leb", ast.Gt: "Z.gtb", ast.GtE: "Z.geb"}


def attr_path(node):
    parts = []
    while isinstance(node, ast.Attribute):
        parts.append(node.attr)
        node = node.value
    if isinstance(node, ast.Name):
        parts.append(node.id)
        return ".".join(reversed(parts))
    raise Untranslatable(ast.dump(node))


class Tr:
    def __init__(self, attrs, params):
        self.attrs = attrs          # "reg_range.start" -> coq parameter name
        self.params = set(params)
        self.env = {}               # python local -> coq expression (string) or None when opaque

    def expr(self, n):
        if isinstance(n, ast.Constant) and isinstance(n.value, int) and not isinstance(n.value, bool):
            return f"({n.value})"
        if isinstance(n, ast.Name):
            if n.id in self.env:
                if self.env[n.id] is None:
                    raise Untranslatable(f"opaque name {n.id}")
                return self.env[n.id]
            if n.id in self.attrs:
                return self.attrs[n.id]
            raise Untranslatable(f"unknown name {n.id}")
        if isinstance(n, ast.Attribute):
            p = attr_path(n)
            if p in self.attrs:
                return self.attrs[p]
            raise Untranslatable(f"unmapped attribute {p}")
        if isinstance(n, ast.BinOp) and type(n.op) in BINOPS:
            return f"({BINOPS[type(n.op)]} {self.expr(n.left)} {self.expr(n.right)})"
        if isinstance(n, ast.UnaryOp) and isinstance(n.op, ast.Invert):
            return f"(Z.lnot {self.expr(n.operand)})"
        if isinstance(n, ast.UnaryOp) and isinstance(n.op, ast.USub):
            return f"(Z.opp {self.expr(n.operand)})"
        if isinstance(n, ast.Call) and isinstance(n.func, ast.Name) and not n.keywords:
            f = n.func.id
            args = [self.expr(a) for a in n.args]
            if f == "ceil_log2" and len(args) == 1:
                return f"(ceil_log2 {args[0]})"
            if f in ("max", "min") and len(args) == 2:
                return f"(Z.{f} {args[0]} {args[1]})"
        raise Untranslatable(ast.dump(n)[:120])

    def cond(self, n):
        if isinstance(n, ast.Compare) and len(n.ops) == 1:
            a, b = self.expr(n.left), self.expr(n.comparators[0])
            op = type(n.ops[0])
            if op is ast.NotEq:
                return f"(negb (Z.eqb {a} {b}))"
            if op in CMPOPS:
                return f"({CMPOPS[op]} {a} {b})"
        raise Untranslatable("condition " + ast.dump(n)[:120])

    def assign(self, name, node, aug=None):
        try:
            if aug is not None:
                cur = self.expr(ast.Name(id=name))
                val = f"({BINOPS[type(aug)]} {cur} {self.expr(node)})"
            else:
                val = self.expr(node)
            self.env[name] = val
        except (Untranslatable, KeyError):
            self.env[name] = None

    def stmts(self, body, outputs):
        """Returns the coq expression of the `return`, or of the requested output variables."""
        for st in body:
            if isinstance(st, ast.Expr) and isinstance(st.value, ast.Constant) and isinstance(st.value.value, str):
                continue
            if isinstance(st, ast.Assert):
                continue
            if isinstance(st, ast.Assign) and len(st.targets) == 1 and isinstance(st.targets[0], ast.Name):
                self.assign(st.targets[0].id, st.value)
                continue
            if isinstance(st, ast.AugAssign) and isinstance(st.target, ast.Name) and type(st.op) in BINOPS:
                self.assign(st.target.id, st.value, aug=st.op)
                continue
            if isinstance(st, ast.If) and not st.orelse:
                c = self.cond(st.test)
                before = dict(self.env)
                for s2 in st.body:
                    if isinstance(s2, ast.Assign) and len(s2.targets) == 1 and isinstance(s2.targets[0], ast.Name):
                        self.assign(s2.targets[0].id, s2.value)
                    elif isinstance(s2, ast.AugAssign) and isinstance(s2.target, ast.Name) and type(s2.op) in BINOPS:
                        self.assign(s2.target.id, s2.value, aug=s2.op)
                    else:
                        raise Untranslatable("statement in if-body: " + ast.dump(s2)[:120])
                for k, v in list(self.env.items()):
                    old = before.get(k, self.attrs.get(k))
                    if v != old:
                        if v is None or old is None:
                            self.env[k] = None
                        else:
                            self.env[k] = f"(if {c} then {v} else {old})"
                continue
            if isinstance(st, ast.Return):
                if outputs and isinstance(outputs, tuple):
                    # ("callargs", i, j, ...): the return value is a constructor call; the requested outputs are
                    # its positional arguments i, j, ... (whatever the locals holding them are called)
                    if not (isinstance(st.value, ast.Call) and not st.value.keywords
                            and len(st.value.args) > max(outputs[1:])):
                        raise Untranslatable("return is not the expected constructor call")
                    return [self.expr(st.value.args[k]) for k in outputs[1:]]
                if outputs:
                    break
                return self.expr(st.value)
            raise Untranslatable("statement " + ast.dump(st)[:120])
        if not outputs:
            raise Untranslatable("no return")
        return [self.expr(ast.Name(id=o)) for o in outputs]


def find_func(tree, path):
    node = tree
    for name in path:
        for ch in node.body:
            if isinstance(ch, (ast.ClassDef, ast.FunctionDef)) and ch.name == name:
                node = ch
                break
        else:
            raise Untranslatable("cannot find " + ".".join(path))
    return node


KERNELS = [
    # (file, path, coq name(s), parameters, attribute map, outputs)
    ("amaranth_soc/memory.py", ["MemoryMap", "_align_up"], ["gen_align_up"], ["value", "alignment"],
     {"value": "value", "alignment": "alignment"}, None),
    ("amaranth_soc/csr/bus.py", ["Multiplexer", "_Shadow", "decode_address"], ["gen_shadow_decode"],
     ["size", "start", "stop", "addr"],
     {"self.size": "size", "reg_range.start": "start", "reg_range.stop": "stop", "addr": "addr"}, None),
    ("amaranth_soc/csr/bus.py", ["Multiplexer", "_Shadow", "encode_offset"], ["gen_shadow_encode"],
     ["start", "stop", "offset"],
     {"reg_range.start": "start", "reg_range.stop": "stop", "offset": "offset"}, None),
    ("amaranth_soc/memory.py", ["MemoryMap", "_translate"],
     ["gen_translate_start", "gen_translate_end", "gen_translate_width"],
     ["rstart", "rend", "rwidth", "wstart", "wstep"],
     {"resource_info.start": "rstart", "resource_info.end": "rend", "resource_info.width": "rwidth",
      "window_range.start": "wstart", "window_range.step": "wstep"}, ("callargs", 2, 3, 4)),
]


def generate(repo):
    out = ["(* GENERATED on every run by harness/translate.py from /repo's current source. Do not edit. *)",
           "From Coq Require Import ZArith Bool.", "From Soc Require Import Lib.Bits.", "Open Scope Z_scope.", ""]
    for (f, path, names, params, attrs, outputs) in KERNELS:
        src = open(os.path.join(repo, f)).read()
        fn = find_func(ast.parse(src), path)
        tr = Tr(attrs, params)
        res = tr.stmts(fn.body, outputs)
        if not isinstance(res, list):
            res = [res]
        ps = " ".join(params)
        for n, e in zip(names, res):
            out.append(f"(* {f}: {'.'.join(path)} *)")
            out.append(f"Definition {n} ({ps} : Z) : Z := {e}.")
            out.append("")
    return "\n".join(out)


# what runner.check_kernels runs for a property whose propdef sets the flag
STAGES = [("kernels", "Kernels.v", generate, "Tie.v")]

if __name__ == "__main__":
    import sys
    print(generate(sys.argv[1] if len(sys.argv) > 1 else "/repo"))
