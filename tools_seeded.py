#!/usr/bin/env python3
"""Seeded-change bookkeeping (not part of any registered check).

  tools_seeded.py confirm <dir>            confirm a candidate {patch.diff, demo.py}: demo passes on the unchanged
                                           tree, patch applies, the 290-test suite still passes, demo fails with it
  tools_seeded.py run <id> [Cnn ...]       apply seeded/<id>/patch.diff to a scratch worktree of /repo and run the
                                           quick check of its property (default) or of the listed properties there
  tools_seeded.py table                    print the catch matrix from seeded/*/result.json

Checks are pointed at the scratch worktree through VERIF_REPO and write their evidence and scratch files to
.work/seeded/<id>/ (VERIF_EVIDENCE_DIR / VERIF_WORK), so the committed evidence is never touched.  Running against
/repo itself is:  git -C /repo apply seeded/<id>/patch.diff; ./check Cnn quick; git -C /repo checkout -- .
"""
import os, sys, json, subprocess, shutil, time, re, glob

HERE = os.path.dirname(os.path.abspath(__file__))
PY = "/venv/bin/python"


def sh(cmd, cwd=None, env=None, timeout=3600):
    p = subprocess.run(cmd, cwd=cwd, env=env, stdout=subprocess.PIPE, stderr=subprocess.STDOUT, timeout=timeout)
    return p.returncode, p.stdout.decode(errors="replace")


def scratch(tag):
    d = f"/tmp/evalrepo-{tag}"
    sh(["git", "-C", "/repo", "worktree", "remove", "--force", d])
    shutil.rmtree(d, ignore_errors=True)
    rc, out = sh(["git", "-C", "/repo", "worktree", "add", "--detach", d, "HEAD"])
    assert rc == 0, out
    return d


def drop(d):
    sh(["git", "-C", "/repo", "worktree", "remove", "--force", d])
    shutil.rmtree(d, ignore_errors=True)
    sh(["git", "-C", "/repo", "worktree", "prune"])


def pyenv(repo):
    e = dict(os.environ)
    e.update({"PYTHONPATH": repo, "PYTHONHASHSEED": "0", "PYTHONDONTWRITEBYTECODE": "1"})
    return e


def confirm(src):
    tag = os.path.basename(os.path.abspath(src)) + "-" + str(os.getpid())
    d = scratch(tag)
    res = {}
    try:
        demo = os.path.join(os.path.abspath(src), "demo.py")
        patch = os.path.join(os.path.abspath(src), "patch.diff")
        rc, out = sh([PY, demo], cwd=d, env=pyenv(d), timeout=900)
        res["demo_on_unchanged"] = {"exit": rc, "tail": out[-300:]}
        rc, out = sh(["git", "-C", d, "apply", patch])
        res["patch_applies"] = rc == 0
        if rc != 0:
            res["apply_output"] = out[-500:]
            return res
        rc, out = sh([PY, "-m", "pytest", "-q", "-p", "no:cacheprovider", "--timeout=900"], cwd=d, env=pyenv(d), timeout=1800)
        m = re.search(r"(\d+) passed", out)
        res["suite"] = {"exit": rc, "passed": int(m.group(1)) if m else None, "tail": out[-200:]}
        rc, out = sh([PY, demo], cwd=d, env=pyenv(d), timeout=900)
        res["demo_with_change"] = {"exit": rc, "tail": out[-600:]}
        res["confirmed"] = (res["demo_on_unchanged"]["exit"] == 0 and res["suite"]["exit"] == 0
                            and res["suite"]["passed"] == 290 and res["demo_with_change"]["exit"] != 0)
    finally:
        drop(d)
    return res


def import_(pid, needs, rnd=1):
    """Confirm /tmp/seed[2]-<pid>/out/{A,B} and keep the confirmed ones as seeded/<pid>-<X>/ (round 2: C, D)."""
    for x0 in ("A", "B"):
        src = f"/tmp/seed{'' if rnd == 1 else rnd}-{pid}/out/{x0}"
        x = x0 if rnd == 1 else {"A": "C", "B": "D"}[x0] if rnd == 2 else {"A": "E", "B": "F"}[x0] if rnd == 3 else {"A": "G", "B": "H"}[x0] if rnd == 4 else {"A": "I", "B": "J"}[x0] if rnd == 5 else {"A": "K", "B": "L"}[x0] if rnd == 6 else {"A": "M", "B": "N"}[x0] if rnd == 7 else {"A": "O", "B": "P"}[x0] if rnd == 8 else {"A": "Q", "B": "R"}[x0] if rnd == 9 else {"A": "S", "B": "T"}[x0] if rnd == 10 else x0 + str(rnd)
        if not os.path.exists(os.path.join(src, "patch.diff")):
            print(pid, x, "no patch"); continue
        res = confirm(src)
        print(pid, x, "confirmed" if res.get("confirmed") else "NOT CONFIRMED", json.dumps(res)[:400])
        if not res.get("confirmed"):
            continue
        dst = os.path.join(HERE, "seeded", f"{pid}-{x}")
        os.makedirs(dst, exist_ok=True)
        for f in ("patch.diff", "demo.py", "notes.md"):
            if os.path.exists(os.path.join(src, f)):
                shutil.copy(os.path.join(src, f), os.path.join(dst, f))
        meta = {"property": pid,
                "origin": "written by an independent sub-agent that was given only the property text and a scratch worktree of /repo",
                "needs_to_manifest": needs.get(x0, "see notes.md"),
                "confirmed_by": {
                    "commands": ["demo.py on a scratch worktree of /repo HEAD (expect exit 0)", "git apply patch.diff",
                                 "/venv/bin/python -m pytest -q -p no:cacheprovider (expect 290 passed)",
                                 "demo.py with the change (expect non-zero exit)"],
                    "demo_on_unchanged_exit": res["demo_on_unchanged"]["exit"],
                    "suite_passed": res["suite"]["passed"],
                    "demo_with_change_exit": res["demo_with_change"]["exit"],
                    "demo_with_change_tail": res["demo_with_change"]["tail"][-300:]}}
        json.dump(meta, open(os.path.join(dst, "meta.json"), "w"), indent=1)


def run(sid, props):
    sdir = os.path.join(HERE, "seeded", sid)
    meta = json.load(open(os.path.join(sdir, "meta.json")))
    props = props or [meta["property"]]
    d = scratch(sid)
    out_all = {}
    try:
        rc, out = sh(["git", "-C", d, "apply", os.path.join(sdir, "patch.diff")])
        assert rc == 0, out
        for pid in props:
            work = os.path.join(HERE, ".work", "seeded", sid)
            os.makedirs(work, exist_ok=True)
            e = dict(os.environ)
            e.update({"VERIF_REPO": d, "VERIF_WORK": work, "VERIF_EVIDENCE_DIR": os.path.join(work, "evidence")})
            t0 = time.time()
            rc, out = sh([os.path.join(HERE, "check"), pid, os.environ.get("SEEDED_TIER", "quick")], cwd=HERE, env=e, timeout=7200)
            vio = [l for l in out.splitlines() if l.startswith("VIOLATION")]
            r = {"exit": rc, "violation_lines": vio, "summary": [l for l in out.splitlines() if l.startswith(pid + " ")][-1:],
                 "wall_s": round(time.time() - t0, 1)}
            r["caught"] = rc == 1 and bool(vio)
            r["with_failing_input"] = r["caught"] and not any(v.endswith("no-failing-input-found") for v in vio)
            for v in vio[:1]:
                m = re.search(r"replay=(\S+)", v)
                if m and os.path.exists(m.group(1)):
                    rp = json.load(open(m.group(1)))
                    r["replay"] = {k: rp.get(k) for k in ("kind", "engine", "at", "what", "broken", "diff") if k in rp}
            out_all[pid] = r
            print(sid, pid, "CAUGHT" if r["caught"] else "MISSED",
                  "(failing input)" if r["with_failing_input"] else ("(no-failing-input-found)" if r["caught"] else ""),
                  r["summary"], flush=True)
    finally:
        drop(d)
    rf = os.path.join(sdir, "result.json")
    old = json.load(open(rf)) if os.path.exists(rf) else {}
    old.update(out_all)
    json.dump(old, open(rf, "w"), indent=1)
    return out_all


def robust(sids, seeds):
    """Each seeded change against its own property's quick check under several VERIF_SEEDs (how often is it caught?)."""
    out = {}
    for sid in sids:
        sdir = os.path.join(HERE, "seeded", sid)
        meta = json.load(open(os.path.join(sdir, "meta.json")))
        pid = meta["property"]
        d = scratch(sid + "-rb")
        try:
            rc, o = sh(["git", "-C", d, "apply", os.path.join(sdir, "patch.diff")])
            assert rc == 0, o
            res = {}
            for seed in seeds:
                work = os.path.join(HERE, ".work", "seeded", sid + "-rb")
                e = dict(os.environ)
                e.update({"VERIF_REPO": d, "VERIF_WORK": work, "VERIF_EVIDENCE_DIR": os.path.join(work, "evidence"),
                          "VERIF_SEED": str(seed), "VERIF_JOBS": os.environ.get("VERIF_JOBS", "8")})
                rc, o = sh([os.path.join(HERE, "check"), pid, "quick"], cwd=HERE, env=e, timeout=7200)
                vio = [l for l in o.splitlines() if l.startswith("VIOLATION")]
                res[str(seed)] = ("caught" if rc == 1 and vio and not vio[0].endswith("no-failing-input-found")
                                  else "caught-nfi" if rc == 1 and vio else "MISSED")
            out[sid] = res
            print(sid, pid, res, flush=True)
        finally:
            drop(d)
        rf = os.path.join(sdir, "robust.json")
        json.dump(res, open(rf, "w"), indent=1)
    return out


def table():
    rows = []
    for rf in sorted(glob.glob(os.path.join(HERE, "seeded", "*", "result.json"))):
        sid = os.path.basename(os.path.dirname(rf))
        meta = json.load(open(os.path.join(os.path.dirname(rf), "meta.json")))
        res = json.load(open(rf))
        for pid, r in sorted(res.items()):
            how = "-"
            if r["caught"]:
                how = "failing input" if r["with_failing_input"] else "no-failing-input-found"
            what = (r.get("replay") or {}).get("what") or "; ".join((r.get("replay") or {}).get("broken", [])[:1])
            rows.append((sid, meta["property"], pid, "caught" if r["caught"] else "MISSED", how, (what or "")[:110]))
    print("| seeded change | breaks | check | result | how | first report |")
    print("|---|---|---|---|---|---|")
    for r in rows:
        print("| " + " | ".join(r) + " |")


if __name__ == "__main__":
    a = sys.argv[1:]
    if a and a[0] == "confirm":
        print(json.dumps(confirm(a[1]), indent=1))
    elif a and a[0] == "run":
        run(a[1], a[2:])
    elif a and a[0] == "import":
        needs = {}
        rnd = 1
        for kv in a[2:]:
            k, v = kv.split("=", 1)
            if k == "round":
                rnd = int(v)
            else:
                needs[k] = v
        import_(a[1], needs, rnd)
    elif a and a[0] == "robust":
        sids = [x for x in a[1:] if not x.startswith("seeds=")] or sorted(os.listdir(os.path.join(HERE, "seeded")))
        sids = [x for x in sids if os.path.exists(os.path.join(HERE, "seeded", x, "meta.json"))]
        seeds = [1, 2, 3]
        for x in a[1:]:
            if x.startswith("seeds="):
                seeds = [int(y) for y in x[6:].split(",")]
        robust(sids, seeds)
    elif a and a[0] == "table":
        table()
    else:
        print(__doc__)
