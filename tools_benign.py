#!/usr/bin/env python3
"""Behaviour-preserving refactorings against the checks (development aid, not a registered check).

  tools_benign.py import <dir-with-R1..Rk> <tag>     keep the refactorings whose patch applies and keeps the suite green
                                                     as benign/<tag>-Rk/{patch.diff, notes.md, check.py}
  tools_benign.py run [<id> ...]                     apply each to a scratch worktree of /repo and run the quick checks
                                                     of the properties anchored in the files it touches; benign/RESULTS.md

What is measured: how often a harmless rewrite makes a check report "property no longer shown to hold"
(VIOLATION ... no-failing-input-found: a translator refused the new text or a tie lemma did not re-prove), and
whether any check claims a failing input (then either the rewrite is not harmless after all, or the check is wrong)."""
import os, sys, re, json, glob, shutil, subprocess, time

HERE = os.path.dirname(os.path.abspath(__file__))
sys.path.insert(0, HERE)
from tools_seeded import sh, scratch, drop, pyenv, PY      # noqa: E402
from tools_mutants import FILES                             # noqa: E402


def import_(src, tag):
    for d in sorted(glob.glob(os.path.join(src, "R*"))):
        k = os.path.basename(d)
        patch = os.path.join(d, "patch.diff")
        if not os.path.exists(patch) or not open(patch).read().strip():
            print(tag, k, "no patch"); continue
        w = scratch(f"benign-{tag}-{k}")
        try:
            rc, out = sh(["git", "-C", w, "apply", patch])
            if rc != 0:
                print(tag, k, "does not apply"); continue
            rc, out = sh([PY, "-m", "pytest", "-q", "-p", "no:cacheprovider", "--timeout=900"], cwd=w, env=pyenv(w), timeout=1800)
            if rc != 0 or "290 passed" not in out:
                print(tag, k, "suite fails"); continue
        finally:
            drop(w)
        dst = os.path.join(HERE, "benign", f"{tag}-{k}")
        os.makedirs(dst, exist_ok=True)
        for f in ("patch.diff", "notes.md", "check.py"):
            if os.path.exists(os.path.join(d, f)):
                shutil.copy(os.path.join(d, f), os.path.join(dst, f))
        print(tag, k, "kept")


def run(ids):
    ids = ids or sorted(os.listdir(os.path.join(HERE, "benign")))
    for bid in ids:
        bdir = os.path.join(HERE, "benign", bid)
        patch = os.path.join(bdir, "patch.diff")
        if not os.path.exists(patch):
            continue
        files = re.findall(r"^\+\+\+ b/(\S+)", open(patch).read(), flags=re.M)
        props = []
        for f in files:
            for p in FILES.get(f, []):
                if p not in props:
                    props.append(p)
        w = scratch("bn-" + bid)
        res = {}
        try:
            rc, out = sh(["git", "-C", w, "apply", patch])
            assert rc == 0, out
            for pid in props:
                work = os.path.join(HERE, ".work", "benign", bid)
                e = dict(os.environ)
                e.update({"VERIF_REPO": w, "VERIF_WORK": work, "VERIF_EVIDENCE_DIR": os.path.join(work, "evidence"),
                          "VERIF_JOBS": os.environ.get("VERIF_JOBS", "6")})
                rc, out = sh([os.path.join(HERE, "check"), pid, "quick"], cwd=HERE, env=e, timeout=7200)
                vio = [l for l in out.splitlines() if l.startswith("VIOLATION")]
                r = "ok" if rc == 0 and not vio else ("nfi" if vio and vio[0].endswith("no-failing-input-found") else "FAILING-INPUT")
                why = ""
                for v in vio[:1]:
                    m = re.search(r"replay=(\S+)", v)
                    if m and os.path.exists(m.group(1)):
                        rp = json.load(open(m.group(1)))
                        why = "; ".join(str(x) for x in (rp.get("broken") or [rp.get("what")])[:2])[:300]
                res[pid] = [r, why]
        finally:
            drop(w)
        json.dump(res, open(os.path.join(bdir, "result.json"), "w"), indent=1)
        print(bid, {k: v[0] for k, v in res.items()}, flush=True)


def table():
    rows = []
    for rf in sorted(glob.glob(os.path.join(HERE, "benign", "*", "result.json"))):
        bid = os.path.basename(os.path.dirname(rf))
        res = json.load(open(rf))
        rows.append((bid, res))
    print("| refactoring | checks run | quiet | property no longer shown (no failing input) | failing input claimed |")
    print("|---|---|---|---|---|")
    for bid, res in rows:
        ok = [p for p, v in res.items() if v[0] == "ok"]
        nfi = [f"{p} ({v[1][:80]})" for p, v in res.items() if v[0] == "nfi"]
        bad = [p for p, v in res.items() if v[0] == "FAILING-INPUT"]
        print(f"| {bid} | {len(res)} | {' '.join(ok)} | {'; '.join(nfi)} | {' '.join(bad)} |")


if __name__ == "__main__":
    a = sys.argv[1:]
    if a and a[0] == "import":
        import_(a[1], a[2])
    elif a and a[0] == "run":
        run(a[1:])
    elif a and a[0] == "table":
        table()
    else:
        print(__doc__)
