(* Engine-independent driver: reads "<engine-number> <sx>" lines, prints the model's sx.
   Integers travel as hexadecimal, built bit by bit into the extracted positive/Z. *)
open Model

let z_of_hex (s : string) : z =
  let neg = String.length s > 0 && s.[0] = '-' in
  let start = if neg then 1 else 0 in
  let acc = ref None in
  for i = start to String.length s - 1 do
    let c = s.[i] in
    let d = match c with
      | '0'..'9' -> Char.code c - 48
      | 'a'..'f' -> Char.code c - 87
      | _ -> failwith "hex" in
    for b = 3 downto 0 do
      let bit = (d lsr b) land 1 = 1 in
      acc := (match !acc, bit with
        | None, false -> None
        | None, true -> Some XH
        | Some p, false -> Some (XO p)
        | Some p, true -> Some (XI p))
    done
  done;
  match !acc with
  | None -> Z0
  | Some p -> if neg then Zneg p else Zpos p

let hex_of_pos (p : positive) : string =
  (* collect bits LSB first *)
  let rec bits p acc = match p with
    | XH -> true :: acc
    | XO q -> bits q (false :: acc)
    | XI q -> bits q (true :: acc) in
  (* bits returns MSB first because we cons while descending towards the MSB *)
  let rec lsb_first p = match p with
    | XH -> [true]
    | XO q -> false :: lsb_first q
    | XI q -> true :: lsb_first q in
  ignore bits;
  let l = Array.of_list (lsb_first p) in
  let n = Array.length l in
  let nd = (n + 3) / 4 in
  let b = Bytes.create nd in
  for k = 0 to nd - 1 do
    let v = ref 0 in
    for j = 0 to 3 do
      let idx = 4 * k + j in
      if idx < n && l.(idx) then v := !v lor (1 lsl j)
    done;
    Bytes.set b (nd - 1 - k) "0123456789abcdef".[!v]
  done;
  Bytes.to_string b

let hex_of_z = function
  | Z0 -> "0"
  | Zpos p -> hex_of_pos p
  | Zneg p -> "-" ^ hex_of_pos p

(* parser *)
let parse (s : string) (pos : int ref) : sx =
  let n = String.length s in
  let rec skip () = if !pos < n && (s.[!pos] = ' ' || s.[!pos] = '\t') then (incr pos; skip ()) in
  let rec item () : sx =
    skip ();
    if !pos >= n then failwith "eof"
    else if s.[!pos] = '(' then begin
      incr pos;
      let acc = ref [] in
      let fin = ref false in
      while not !fin do
        skip ();
        if !pos >= n then failwith "eof in list"
        else if s.[!pos] = ')' then (incr pos; fin := true)
        else acc := item () :: !acc
      done;
      L (List.rev !acc)
    end else begin
      let st = !pos in
      while !pos < n && s.[!pos] <> ' ' && s.[!pos] <> '(' && s.[!pos] <> ')' do incr pos done;
      A (z_of_hex (String.sub s st (!pos - st)))
    end in
  item ()

let rec print (b : Buffer.t) (x : sx) : unit =
  match x with
  | A z -> Buffer.add_string b (hex_of_z z)
  | L l ->
    Buffer.add_char b '(';
    List.iteri (fun i y -> if i > 0 then Buffer.add_char b ' '; print b y) l;
    Buffer.add_char b ')'

let () =
  let buf = Buffer.create 65536 in
  (try
    while true do
      let line = input_line stdin in
      if String.length line > 0 then begin
        let pos = ref 0 in
        let e = parse line pos in
        let c = parse line pos in
        let eng = match e with A z -> z | L _ -> failwith "engine" in
        Buffer.clear buf;
        print buf (run_engine eng c);
        Buffer.add_char buf '\n';
        print_string (Buffer.contents buf)
      end
    done
  with End_of_file -> ());
  flush stdout
