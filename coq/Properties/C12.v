(* C12 — Field actions keep, set and clear storage exactly as documented, for all time.
   Statements only; proofs live in Proofs/Actions.v.

   Conventions: `run0 c is` is the list of per-cycle observations from reset under the input trace
   `is`; observation t is taken in cycle t after combinational settle, i.e. it shows the storage
   BEFORE the t-th clock edge.  All values are unsigned bit patterns of width `c_w c`; "every
   shape" is every width >= 0 (signed and enum/flag shapes are compared as patterns), every
   `init` is every integer (Signal() keeps its low w bits).  No protocol assumption anywhere. *)
From Coq Require Import ZArith List Bool Lia.
From Soc Require Import Lib.Bits Model.Actions Proofs.Actions.
Import ListNotations.
Open Scope Z_scope.

(* ---- RW ---------------------------------------------------------------------------------------- *)

(* What a bus read (and the data output, see C12_data_eq_read) returns at time t: the initial value
   if no write strobe occurred before t, otherwise the data of the latest strobe before t. *)
Theorem C12_rw_holds_last_write : forall c is t o,
  c_kind c = KRW -> nth_error (run0 c is) t = Some o ->
  ((forall u i, (u < t)%nat -> nth_error is u = Some i -> p_w_stb i = false) ->
     o_port_r_data o = trunc (c_w c) (c_init c)) /\
  (forall u i, (u < t)%nat -> nth_error is u = Some i -> p_w_stb i = true ->
     (forall v j, (u < v < t)%nat -> nth_error is v = Some j -> p_w_stb j = false) ->
     o_port_r_data o = trunc (c_w c) (p_w_data i)).
Proof. intros c is t o Hk Ho. exact (rw_holds_last_write c is t o Hk Ho). Qed.
Print Assumptions C12_rw_holds_last_write.

(* ---- RW1C / RW1S: one step, all bits jointly ------------------------------------------------- *)

(* The coded per-bit pair of independent Ifs (clear on write-one, then set; later wins), folded over
   the bit index, is  storage' = (storage AND NOT (w_stb ? w_data : 0)) OR set  — for every width,
   every storage value and every input; setting wins a tie. *)
Theorem C12_rw1c_step : forall c s i, c_kind c = KRW1C -> 0 <= c_w c ->
  next c s i =
  Z.lor (Z.land s (Z.lnot (if p_w_stb i then trunc (c_w c) (p_w_data i) else 0)))
        (trunc (c_w c) (in_set i)).
Proof. intros c s i Hk Hw. exact (rw1c_formula c s i Hk Hw). Qed.
Print Assumptions C12_rw1c_step.

(* RW1S: storage' = (storage AND NOT clear) OR (w_stb ? w_data : 0); setting (by the bus) wins. *)
Theorem C12_rw1s_step : forall c s i, c_kind c = KRW1S -> 0 <= c_w c ->
  next c s i =
  Z.lor (Z.land s (Z.lnot (trunc (c_w c) (in_clear i))))
        (if p_w_stb i then trunc (c_w c) (p_w_data i) else 0).
Proof. intros c s i Hk Hw. exact (rw1s_formula c s i Hk Hw). Qed.
Print Assumptions C12_rw1s_step.

(* `next` is what relates consecutive port observations (RW, RW1C, RW1S), so the two step formulas
   above and the RW rule are statements about what is seen on port.r_data / data. *)
Theorem C12_step_observed : forall c is t o o' i, has_storage (c_kind c) = true ->
  nth_error (run0 c is) t = Some o -> nth_error (run0 c is) (S t) = Some o' ->
  nth_error is t = Some i ->
  o_port_r_data o' = next c (o_port_r_data o) i.
Proof. intros c is t o o' i Hs H H' Hi. exact (obs_next c is t o o' i Hs H H' Hi). Qed.
Print Assumptions C12_step_observed.

Theorem C12_rw_step : forall c s i, c_kind c = KRW ->
  next c s i = if p_w_stb i then trunc (c_w c) (p_w_data i) else s.
Proof. intros c s i Hk. exact (next_rw c s i Hk). Qed.
Print Assumptions C12_rw_step.

(* ---- untouched bits keep their value ----------------------------------------------------------- *)

(* Any bit position n: if, when n is inside the field, the bit is neither set nor written-one this
   cycle, it keeps its value; positions outside the field are never touched. *)
Theorem C12_rw1c_untouched_bits_keep : forall c s i n, c_kind c = KRW1C -> 0 <= c_w c ->
  (0 <= n < c_w c ->
     Z.testbit (in_set i) n = false /\ p_w_stb i && Z.testbit (p_w_data i) n = false) ->
  Z.testbit (next c s i) n = Z.testbit s n.
Proof. intros c s i n Hk Hw H. exact (rw1c_untouched c s i n Hk Hw H). Qed.
Print Assumptions C12_rw1c_untouched_bits_keep.

Theorem C12_rw1s_untouched_bits_keep : forall c s i n, c_kind c = KRW1S -> 0 <= c_w c ->
  (0 <= n < c_w c ->
     p_w_stb i && Z.testbit (p_w_data i) n = false /\ Z.testbit (in_clear i) n = false) ->
  Z.testbit (next c s i) n = Z.testbit s n.
Proof. intros c s i n Hk Hw H. exact (rw1s_untouched c s i n Hk Hw H). Qed.
Print Assumptions C12_rw1s_untouched_bits_keep.

(* ---- trace forms, per bit ---------------------------------------------------------------------- *)

(* RW1C: a bit set by the hardware `set` input at time u reads 1 at every later time t, as long as
   every write-one to it in between coincided with another set (set wins).  A simultaneous
   write-one at time u itself does not matter. *)
Theorem C12_rw1c_bit_set_until_cleared : forall c is t o u i n,
  c_kind c = KRW1C -> 0 <= n < c_w c ->
  nth_error (run0 c is) t = Some o -> (u < t)%nat -> nth_error is u = Some i ->
  Z.testbit (in_set i) n = true ->
  (forall v j, (u < v < t)%nat -> nth_error is v = Some j ->
     p_w_stb j && Z.testbit (p_w_data j) n = false \/ Z.testbit (in_set j) n = true) ->
  Z.testbit (o_port_r_data o) n = true.
Proof. intros c is t o u i n. exact (rw1c_bit_set_until_cleared c is t o u i n). Qed.
Print Assumptions C12_rw1c_bit_set_until_cleared.

(* RW1C: a bit cleared by writing a one (without a simultaneous set) reads 0 until it is set. *)
Theorem C12_rw1c_bit_clear_until_set : forall c is t o u i n,
  c_kind c = KRW1C -> 0 <= n < c_w c ->
  nth_error (run0 c is) t = Some o -> (u < t)%nat -> nth_error is u = Some i ->
  p_w_stb i && Z.testbit (p_w_data i) n = true -> Z.testbit (in_set i) n = false ->
  (forall v j, (u < v < t)%nat -> nth_error is v = Some j -> Z.testbit (in_set j) n = false) ->
  Z.testbit (o_port_r_data o) n = false.
Proof. intros c is t o u i n. exact (rw1c_bit_clear_until_set c is t o u i n). Qed.
Print Assumptions C12_rw1c_bit_clear_until_set.

(* RW1C: a bit that was never set nor written-one still shows its initial value. *)
Theorem C12_rw1c_bit_init_until_touched : forall c is t o n,
  c_kind c = KRW1C -> 0 <= n < c_w c ->
  nth_error (run0 c is) t = Some o ->
  (forall v j, (v < t)%nat -> nth_error is v = Some j ->
     Z.testbit (in_set j) n = false /\ p_w_stb j && Z.testbit (p_w_data j) n = false) ->
  Z.testbit (o_port_r_data o) n = Z.testbit (c_init c) n.
Proof. intros c is t o n. exact (rw1c_bit_init_until_touched c is t o n). Qed.
Print Assumptions C12_rw1c_bit_init_until_touched.

(* RW1S, dually: set by writing a one, cleared by the hardware `clear` input, set wins. *)
Theorem C12_rw1s_bit_set_until_cleared : forall c is t o u i n,
  c_kind c = KRW1S -> 0 <= n < c_w c ->
  nth_error (run0 c is) t = Some o -> (u < t)%nat -> nth_error is u = Some i ->
  p_w_stb i && Z.testbit (p_w_data i) n = true ->
  (forall v j, (u < v < t)%nat -> nth_error is v = Some j ->
     Z.testbit (in_clear j) n = false \/ p_w_stb j && Z.testbit (p_w_data j) n = true) ->
  Z.testbit (o_port_r_data o) n = true.
Proof. intros c is t o u i n. exact (rw1s_bit_set_until_cleared c is t o u i n). Qed.
Print Assumptions C12_rw1s_bit_set_until_cleared.

Theorem C12_rw1s_bit_clear_until_set : forall c is t o u i n,
  c_kind c = KRW1S -> 0 <= n < c_w c ->
  nth_error (run0 c is) t = Some o -> (u < t)%nat -> nth_error is u = Some i ->
  Z.testbit (in_clear i) n = true -> p_w_stb i && Z.testbit (p_w_data i) n = false ->
  (forall v j, (u < v < t)%nat -> nth_error is v = Some j ->
     p_w_stb j && Z.testbit (p_w_data j) n = false) ->
  Z.testbit (o_port_r_data o) n = false.
Proof. intros c is t o u i n. exact (rw1s_bit_clear_until_set c is t o u i n). Qed.
Print Assumptions C12_rw1s_bit_clear_until_set.

Theorem C12_rw1s_bit_init_until_touched : forall c is t o n,
  c_kind c = KRW1S -> 0 <= n < c_w c ->
  nth_error (run0 c is) t = Some o ->
  (forall v j, (v < t)%nat -> nth_error is v = Some j ->
     p_w_stb j && Z.testbit (p_w_data j) n = false /\ Z.testbit (in_clear j) n = false) ->
  Z.testbit (o_port_r_data o) n = Z.testbit (c_init c) n.
Proof. intros c is t o n. exact (rw1s_bit_init_until_touched c is t o n). Qed.
Print Assumptions C12_rw1s_bit_init_until_touched.

(* ---- R and W: same-cycle pass-through ---------------------------------------------------------- *)

Theorem C12_r_passthrough : forall c is t i o, c_kind c = KR ->
  nth_error is t = Some i -> nth_error (run0 c is) t = Some o ->
  o_port_r_data o = trunc (c_w c) (in_r_data i) /\ o_r_stb o = p_r_stb i.
Proof. intros c is t i o. exact (r_passthrough c is t i o). Qed.
Print Assumptions C12_r_passthrough.

Theorem C12_w_passthrough : forall c is t i o, c_kind c = KW ->
  nth_error is t = Some i -> nth_error (run0 c is) t = Some o ->
  o_w_data o = trunc (c_w c) (p_w_data i) /\ o_w_stb o = p_w_stb i.
Proof. intros c is t i o. exact (w_passthrough c is t i o). Qed.
Print Assumptions C12_w_passthrough.

(* ---- reserved actions influence nothing -------------------------------------------------------- *)

(* Every output stays at its reset value 0 in every cycle, there is no state, and therefore two
   input traces of the same length are indistinguishable. *)
Theorem C12_reserved_inert : forall c is, c_kind c = KRes ->
  (run0 c is = map (fun _ => zero_out) is /\ forall t, state_at c is t = 0) /\
  (forall is', length is = length is' -> run0 c is = run0 c is').
Proof.
  intros c is Hk. split; [exact (reserved_inert c is Hk)|].
  intros is' Hl. exact (reserved_ignores_inputs c is is' Hk Hl).
Qed.
Print Assumptions C12_reserved_inert.

(* ---- data output = what a bus read returns ----------------------------------------------------- *)

Theorem C12_data_eq_read : forall c is t o, has_storage (c_kind c) = true ->
  nth_error (run0 c is) t = Some o ->
  o_data o = o_port_r_data o /\ o_data o = state_at c is t.
Proof. intros c is t o Hs Ho. exact (data_eq_read c is t o Hs Ho). Qed.
Print Assumptions C12_data_eq_read.

(* Every data-carrying output is a pattern of the field's width, in every cycle, for every kind. *)
Theorem C12_outputs_in_range : forall c is t o, 0 <= c_w c ->
  nth_error (run0 c is) t = Some o ->
  0 <= o_port_r_data o < 2 ^ c_w c /\ 0 <= o_data o < 2 ^ c_w c /\ 0 <= o_w_data o < 2 ^ c_w c.
Proof. intros c is t o Hw Ho. exact (outputs_in_range c is t o Hw Ho). Qed.
Print Assumptions C12_outputs_in_range.

(* ---- non-vacuity ------------------------------------------------------------------------------- *)

Definition ix (rs ws : bool) (wd rd st cl : Z) : inp :=
  {| p_r_stb := rs; p_w_stb := ws; p_w_data := wd; in_r_data := rd; in_set := st; in_clear := cl |}.

(* RW1C, 4 bits, init 5: bit 3 is set at time 0; a write-one to bit 0 at time 1; at time 2 bit 3 is
   written-one and set in the same cycle (set wins).  Hypotheses of C12_rw1c_bit_set_until_cleared
   hold with u = 0, t = 3, n = 3; those of C12_rw1c_bit_clear_until_set with u = 1, t = 3, n = 0. *)
Definition ex_c : cfg := {| c_kind := KRW1C; c_w := 4; c_init := 5 |}.
Definition ex_is : list inp :=
  [ ix false false 0 0 8 0; ix false true 1 0 0 0; ix true true 8 0 8 0; ix false false 0 0 0 0 ].
Example C12_rw1c_nonvacuous :
  map o_port_r_data (run0 ex_c ex_is) = [5; 13; 12; 12] /\
  map o_data (run0 ex_c ex_is) = [5; 13; 12; 12] /\
  Z.testbit (in_set (nth 0 ex_is (ix false false 0 0 0 0))) 3 = true /\
  (p_w_stb (nth 1 ex_is (ix false false 0 0 0 0)) &&
     Z.testbit (p_w_data (nth 1 ex_is (ix false false 0 0 0 0))) 3 = false) /\
  (p_w_stb (nth 2 ex_is (ix false false 0 0 0 0)) &&
     Z.testbit (p_w_data (nth 2 ex_is (ix false false 0 0 0 0))) 3 = true) /\
  Z.testbit (in_set (nth 2 ex_is (ix false false 0 0 0 0))) 3 = true /\
  (p_w_stb (nth 1 ex_is (ix false false 0 0 0 0)) &&
     Z.testbit (p_w_data (nth 1 ex_is (ix false false 0 0 0 0))) 0 = true) /\
  Z.testbit (in_set (nth 1 ex_is (ix false false 0 0 0 0))) 0 = false /\
  Z.testbit (in_set (nth 2 ex_is (ix false false 0 0 0 0))) 0 = false.
Proof. vm_compute. repeat split. Qed.

(* RW1S, 3 bits, init 9 (kept as 1): write-one to bit 2 at time 0; clear bits 0 and 2 at time 1 while
   writing bit 2 again (set wins on bit 2, bit 0 is cleared); clear bit 2 at time 2. *)
Definition ex_c1 : cfg := {| c_kind := KRW1S; c_w := 3; c_init := 9 |}.
Definition ex_is1 : list inp :=
  [ ix false true 4 0 0 0; ix false true 4 0 0 5; ix false false 7 0 0 4; ix false false 0 0 0 0 ].
Example C12_rw1s_nonvacuous :
  map o_port_r_data (run0 ex_c1 ex_is1) = [1; 5; 4; 0].
Proof. vm_compute. reflexivity. Qed.

(* RW, 3 bits, init 9 (kept as 1): no write at time 0, write 13 (kept as 5) at time 1, a write
   strobe-less w_data change at time 2.  R and W pass through in the same cycle; a reserved action
   shows nothing. *)
Definition ex_c2 : cfg := {| c_kind := KRW; c_w := 3; c_init := 9 |}.
Definition ex_is2 : list inp :=
  [ ix false false 7 0 0 0; ix false true 13 0 0 0; ix false false 2 0 0 0; ix false false 0 0 0 0 ].
Example C12_rw_nonvacuous :
  map o_port_r_data (run0 ex_c2 ex_is2) = [1; 1; 5; 5] /\
  map (fun o => (o_port_r_data o, o_r_stb o))
      (run0 {| c_kind := KR; c_w := 3; c_init := 0 |} [ix true false 0 13 0 0; ix false true 7 2 7 7])
    = [(5, true); (2, false)] /\
  map (fun o => (o_w_data o, o_w_stb o))
      (run0 {| c_kind := KW; c_w := 3; c_init := 0 |} [ix true true 13 1 0 0; ix false false 2 7 7 7])
    = [(5, true); (2, false)] /\
  run0 {| c_kind := KRes; c_w := 3; c_init := 0 |} [ix true true 13 1 3 4] = [zero_out].
Proof. vm_compute. repeat split. Qed.
