(* C05 — CSR multiplexer writes are atomic and reach exactly the addressed register.
   Statements only; proofs in Proofs/MuxBasic.v, Proofs/MuxWrite.v, Proofs/MuxPrepare.v, Proofs/MuxAssemble.v. *)
From Coq Require Import ZArith List Bool Lia.
From Soc Require Import Lib.Bits Model.Mux Model.MuxSpec Proofs.MuxBasic.
From Soc Require Import Proofs.MuxWrite Proofs.MuxPrepare Proofs.MuxAssemble.
Import ListNotations.
Open Scope Z_scope.

(* A register's write strobe at time t+1 is exactly "write strobe at t to its last address", for every
   layout and every input sequence; hence one cycle, one register, nothing for read-only registers or
   unmapped addresses. *)
Theorem C05_w_strobe_exact : forall c is i i' k r, nth_error (c_regs c) k = Some r ->
  nth_error (o_wstb (out c (state_after c (init c) (is ++ [i])) i')) k =
    Some (r_wr r && i_wstb i && (i_addr i =? r_stop r - 1)).
Proof. intros c is i i' k r H. rewrite state_after_app. apply w_strobe_next, H. Qed.
Print Assumptions C05_w_strobe_exact.

Theorem C05_no_strobe_at_reset : forall c i k r, nth_error (c_regs c) k = Some r ->
  nth_error (o_wstb (out c (init c) i)) k = Some false.
Proof. exact w_strobe_init. Qed.
Print Assumptions C05_no_strobe_at_reset.

(* ------------------------------------------------------------------ write data *)

(* Atomic write.  Register number k is writable; at cycle t its last address is written (so its w_stb is
   up in cycle t+1, by C05_w_strobe_exact).  For every chunk j that carries data bits, `tj j` is the cycle
   of the latest write to address start+j and `dj j` the data written then; no other writable register
   is written after the earliest of these.  Then in cycle t+1 the register's w_data is the concatenation of
   the dj (see C05_assemble_is_concatenation).  Everything else is unconstrained: reads, idle cycles,
   earlier aborted attempts, writes to read-only registers or unmapped addresses, writes to the register's
   own padding chunks, any order of the chunk writes. *)
Theorem C05_write_atomic : forall c is t k r it (tj : Z -> nat) (dj : Z -> Z), wf_cfg c ->
  nth_error (c_regs c) k = Some r -> r_wr r = true ->
  nth_error is t = Some it -> i_wstb it = true -> i_addr it = r_stop r - 1 ->
  (forall j, 0 <= j < reg_len r -> j * c_dw c < r_width r ->
     (tj j <= t)%nat /\
     (exists i, nth_error is (tj j) = Some i /\ i_wstb i = true /\ i_addr i = r_start r + j /\
                dj j = trunc (c_dw c) (i_wdata i)) /\
     (forall u i, (tj j < u <= t)%nat -> nth_error is u = Some i ->
                  ~ (i_wstb i = true /\ i_addr i = r_start r + j))) ->
  (forall j u, 0 <= j < reg_len r -> j * c_dw c < r_width r -> (tj j < u <= t)%nat ->
               ~ other_write c is k u) ->
  elem_wdata c (st_at c is (S t)) r = assemble (c_dw c) (r_width r) dj (Z.to_nat (reg_len r)).
Proof. exact write_atomic. Qed.
Print Assumptions C05_write_atomic.

(* elem_wdata is what the port shows *)
Theorem C05_w_data_port : forall c s i k r, nth_error (c_regs c) k = Some r -> r_wr r = true ->
  nth_error (o_wdata (out c s i)) k = Some (elem_wdata c s r).
Proof. exact o_wdata_nth. Qed.
Print Assumptions C05_w_data_port.

(* `assemble` is the concatenation: bit b of the result is bit (b mod dw) of chunk b / dw, clipped to the
   register width (n chunks covering the width, as the memory map guarantees for its registers) *)
Theorem C05_assemble_is_concatenation : forall dw width data n b, 0 < dw -> 0 <= width -> 0 <= b ->
  width <= Z.of_nat n * dw ->
  Z.testbit (assemble dw width data n) b =
  if b <? width then Z.testbit (data (b / dw)) (b mod dw) else false.
Proof. exact assemble_full_testbit. Qed.
Print Assumptions C05_assemble_is_concatenation.

(* ------------------------------------------------------------------ stray writes *)

(* writes to read-only registers or unmapped addresses (and cycles without a write strobe) change no
   shadow chunk that a writable register uses: every writable register's w_data stays what it was.
   Holds from ANY state s, reachable or not. *)
Theorem C05_stray_write_inert : forall c s i, wf_cfg c ->
  (i_wstb i = false \/ forall r, In r (c_regs c) -> r_wr r = true -> ~ (r_start r <= i_addr i < r_stop r)) ->
  forall r, In r (c_regs c) -> r_wr r = true -> elem_wdata c (next c s i) r = elem_wdata c s r.
Proof. exact stray_write_inert. Qed.
Print Assumptions C05_stray_write_inert.

(* stronger: a write strobe outside every writable register leaves exactly the state that the same cycle
   without the strobe leaves (chunks, strobe registers, read path) — it can never be told from an idle cycle *)
Theorem C05_stray_write_is_idle : forall c s i, wf_cfg c ->
  (forall r, In r (c_regs c) -> r_wr r = true -> ~ (r_start r <= i_addr i < r_stop r)) ->
  next c s i = next c s (no_write i).
Proof. exact stray_write_is_idle. Qed.
Print Assumptions C05_stray_write_is_idle.

(* ------------------------------------------------------------------ the sharing limit *)

(* two admissible shadow-size pairs for the same registers: identical strobes on every trace *)
Theorem C05_sharing_limit_unobservable : forall c1 c2, wf_cfg c1 -> wf_cfg c2 ->
  c_dw c1 = c_dw c2 -> c_regs c1 = c_regs c2 ->
  (forall is i, o_rstb (out c1 (state_after c1 (init c1) is) i) = o_rstb (out c2 (state_after c2 (init c2) is) i) /\
                o_wstb (out c1 (state_after c1 (init c1) is) i) = o_wstb (out c2 (state_after c2 (init c2) is) i)).
Proof. intros c1 c2 _ _ _ Hregs. exact (sharing_strobes c1 c2 Hregs). Qed.
Print Assumptions C05_sharing_limit_unobservable.

(* ... and identical write data under the premises of C05_write_atomic (whose right-hand side does not
   mention the shadow sizes).  Outside these premises the sizes DO show: see
   C05_sharing_visible_outside_protocol below. *)
Theorem C05_sharing_limit_unobservable_wdata : forall c1 c2 is t k r it (tj : Z -> nat) (dj : Z -> Z),
  wf_cfg c1 -> wf_cfg c2 -> c_dw c1 = c_dw c2 -> c_regs c1 = c_regs c2 ->
  nth_error (c_regs c1) k = Some r -> r_wr r = true ->
  nth_error is t = Some it -> i_wstb it = true -> i_addr it = r_stop r - 1 ->
  (forall j, 0 <= j < reg_len r -> j * c_dw c1 < r_width r ->
     (tj j <= t)%nat /\
     (exists i, nth_error is (tj j) = Some i /\ i_wstb i = true /\ i_addr i = r_start r + j /\
                dj j = trunc (c_dw c1) (i_wdata i)) /\
     (forall u i, (tj j < u <= t)%nat -> nth_error is u = Some i ->
                  ~ (i_wstb i = true /\ i_addr i = r_start r + j))) ->
  (forall j u, 0 <= j < reg_len r -> j * c_dw c1 < r_width r -> (tj j < u <= t)%nat ->
               ~ other_write c1 is k u) ->
  elem_wdata c1 (st_at c1 is (S t)) r = elem_wdata c2 (st_at c2 is (S t)) r.
Proof. exact sharing_wdata. Qed.
Print Assumptions C05_sharing_limit_unobservable_wdata.

(* ------------------------------------------------------------------ the sizes prepare() computes *)

(* Multiplexer(memory_map, shadow_overlaps=ov) always gets admissible sizes: prepare() returns within its
   fuel, for every layout and every sharing limit. *)
Theorem C05_mk_cfg_total : forall dw regs ov, 0 < dw -> wf_layout regs ->
  (match ov with Some v => 0 <= v | None => True end) ->
  exists c, mk_cfg dw regs ov = Some c /\ wf_cfg c /\ c_regs c = regs /\ c_dw c = dw.
Proof. exact mk_cfg_total. Qed.
Print Assumptions C05_mk_cfg_total.

(* the termination argument itself, for ANY register list (no layout premise) and any limit *)
Theorem C05_shadow_size_total : forall ov regs, exists S, shadow_size ov regs = Some S /\ size_ok S regs.
Proof. exact shadow_size_total. Qed.
Print Assumptions C05_shadow_size_total.

(* ------------------------------------------------------------------ non-vacuity *)

(* 8-bit bus; [2,3) 8 bits; [3,5) 12 bits, unaligned, shares chunks with both neighbours; [8,12) 8 bits padded to
   four addresses (alignment 2): its last address 11 is a padding chunk *)
Definition ex_r0 := {| r_start := 2; r_stop := 3; r_width := 8; r_rd := true; r_wr := true |}.
Definition ex_r1 := {| r_start := 3; r_stop := 5; r_width := 12; r_rd := true; r_wr := true |}.
Definition ex_r2 := {| r_start := 8; r_stop := 12; r_width := 8; r_rd := false; r_wr := true |}.
Definition ex_regs := [ex_r0; ex_r1; ex_r2].
Definition ex_c := {| c_dw := 8; c_regs := ex_regs; c_Sr := 2; c_Sw := 4 |}.      (* shadow_overlaps=None *)
Definition ex_c0 := {| c_dw := 8; c_regs := ex_regs; c_Sr := 4; c_Sw := 16 |}.    (* shadow_overlaps=0 *)

Example C05_mk_cfg_nonvacuous :
  mk_cfg 8 ex_regs None = Some ex_c /\ mk_cfg 8 ex_regs (Some 0) = Some ex_c0 /\
  (* write chunks: addresses 2, 4 and 10 share chunk 2, addresses 3 and 11 share chunk 3 *)
  map (fun r => map (decode 4 r) (addrs r)) ex_regs = [[2]; [3; 2]; [0; 1; 2; 3]] /\
  (* with limit 0 the shadow grows to 16; the unaligned pair 2/4 still shares (best effort) *)
  map (fun r => map (decode 16 r) (addrs r)) ex_regs = [[2]; [3; 2]; [8; 9; 10; 11]].
Proof. vm_compute. auto. Qed.

Lemma ex_layout : wf_layout ex_regs.
Proof. unfold wf_layout, ex_regs. cbn. lia. Qed.

Lemma ex_wf : wf_cfg ex_c.
Proof.
  destruct (C05_mk_cfg_total 8 ex_regs None) as (c & E & Hwf & _); [lia|exact ex_layout|exact I|].
  destruct C05_mk_cfg_nonvacuous as (E' & _). rewrite E' in E. injection E as <-. exact Hwf.
Qed.

Lemma ex_wf0 : wf_cfg ex_c0.
Proof.
  destruct (C05_mk_cfg_total 8 ex_regs (Some 0)) as (c & E & Hwf & _); [lia|exact ex_layout|cbn; lia|].
  destruct C05_mk_cfg_nonvacuous as (_ & E' & _). rewrite E' in E. injection E as <-. exact Hwf.
Qed.

Definition ex_w (a d : Z) : inp := {| i_addr := a; i_rstb := false; i_wstb := true; i_wdata := d; i_rvals := [] |}.
Definition ex_rd (a : Z) : inp := {| i_addr := a; i_rstb := true; i_wstb := false; i_wdata := 238; i_rvals := [] |}.

(* an aborted attempt at address 4, a write to the neighbour [2,3) (which shares chunk 2 with address 4), then
   the transaction proper: 3 <- 0x134 (cut to 0x34), a read in between, 4 <- 0x5B (4 bits used): 0xB34 *)
Definition ex_is := [ex_w 4 255; ex_w 2 170; ex_w 3 308; ex_rd 9; ex_w 4 91].
Definition ex_tj (j : Z) : nat := if j =? 0 then 2%nat else 4%nat.
Definition ex_dj (j : Z) : Z := if j =? 0 then 52 else 91.

Ltac ex_nat_split u n :=
  match n with
  | O => idtac
  | S ?n' => destruct u as [|u]; [|ex_nat_split u n']
  end.
Ltac ex_nat_cases u H := ex_nat_split u 6%nat; try (exfalso; lia).

Example C05_write_atomic_nonvacuous :
  (* the premises of C05_write_atomic, for register 1 and t = 4 ... *)
  wf_cfg ex_c /\ nth_error (c_regs ex_c) 1 = Some ex_r1 /\ r_wr ex_r1 = true /\
  nth_error ex_is 4 = Some (ex_w 4 91) /\ i_wstb (ex_w 4 91) = true /\ i_addr (ex_w 4 91) = r_stop ex_r1 - 1 /\
  (forall j, 0 <= j < reg_len ex_r1 -> j * c_dw ex_c < r_width ex_r1 ->
     (ex_tj j <= 4)%nat /\
     (exists i, nth_error ex_is (ex_tj j) = Some i /\ i_wstb i = true /\ i_addr i = r_start ex_r1 + j /\
                ex_dj j = trunc (c_dw ex_c) (i_wdata i)) /\
     (forall u i, (ex_tj j < u <= 4)%nat -> nth_error ex_is u = Some i ->
                  ~ (i_wstb i = true /\ i_addr i = r_start ex_r1 + j))) /\
  (forall j u, 0 <= j < reg_len ex_r1 -> j * c_dw ex_c < r_width ex_r1 -> (ex_tj j < u <= 4)%nat ->
               ~ other_write ex_c ex_is 1 u) /\
  (* ... and both sides of its conclusion *)
  elem_wdata ex_c (st_at ex_c ex_is 5) ex_r1 = 2868 /\
  assemble (c_dw ex_c) (r_width ex_r1) ex_dj (Z.to_nat (reg_len ex_r1)) = 2868 /\
  (* the strobe of register 1 alone is up in that cycle *)
  o_wstb (out ex_c (st_at ex_c ex_is 5) (ex_rd 0)) = [false; true; false].
Proof.
  split; [exact ex_wf|]. repeat (split; [reflexivity|]).
  split; [|split; [|vm_compute; auto]].
  - intros j Hj _. assert (Ej : j = 0 \/ j = 1) by (unfold reg_len in Hj; cbn in Hj; lia).
    destruct Ej as [-> | ->]; (split; [cbn; lia|split]).
    + exists (ex_w 3 308). vm_compute. auto.
    + intros u i Hu Hi. cbn in Hu. ex_nat_cases u Hu; cbn in Hi; inversion Hi; subst i; cbn; intros [? ?]; discriminate.
    + exists (ex_w 4 91). vm_compute. auto.
    + intros u i Hu. cbn in Hu. lia.
  - intros j u Hj _ Hu (i & k' & r' & Hi & Hk' & Hne & Hwr & Hws & Ha).
    assert (Ej : j = 0 \/ j = 1) by (unfold reg_len in Hj; cbn in Hj; lia).
    destruct Ej as [-> | ->]; cbn in Hu; [|lia].
    ex_nat_cases u Hu; cbn in Hi; inversion Hi; subst i; [discriminate Hws|].
    destruct k' as [|[|[|k']]]; cbn in Hk'; try congruence; inversion Hk'; subst; cbn in Ha. all: try lia. all: try congruence. destruct k'; discriminate.
Qed.

(* a padded register: [8,12) holds 8 bits, so only the write to address 8 carries data; the writes to the
   padding addresses 9..11 (the last one completes the transaction) contribute nothing *)
Definition ex_is2 := [ex_w 8 119; ex_w 9 1; ex_w 10 2; ex_w 11 3].
Example C05_padded_write_nonvacuous :
  elem_wdata ex_c (st_at ex_c ex_is2 4) ex_r2 = 119 /\
  assemble 8 8 (fun _ => 119) (Z.to_nat (reg_len ex_r2)) = 119 /\
  o_wstb (out ex_c (st_at ex_c ex_is2 4) (ex_rd 0)) = [false; false; true] /\
  (* sizes do not matter here *)
  elem_wdata ex_c0 (st_at ex_c0 ex_is2 4) ex_r2 = 119.
Proof. vm_compute. auto. Qed.

(* The premise "no other writable register is written during the transaction" is needed, and without it the
   sharing limit IS observable: interleave a write to [8,12)'s padding address 11 into a transaction on [3,5).
   With shadow size 4 addresses 3 and 11 share chunk 3 and register 1 receives 0x322; with size 16 they do
   not and it receives 0x311.  (The multiplexer's documentation demands exclusive ownership for the duration
   of a register transaction, so this is outside its contract — but it bounds what can be proved.) *)
Definition ex_is3 := [ex_w 3 17; ex_w 11 34; ex_w 4 51].
Example C05_sharing_visible_outside_protocol :
  wf_cfg ex_c /\ wf_cfg ex_c0 /\ c_dw ex_c = c_dw ex_c0 /\ c_regs ex_c = c_regs ex_c0 /\
  other_write ex_c ex_is3 1 1 /\
  elem_wdata ex_c (st_at ex_c ex_is3 3) ex_r1 = 802 /\
  elem_wdata ex_c0 (st_at ex_c0 ex_is3 3) ex_r1 = 785.
Proof.
  split; [exact ex_wf|]. split; [exact ex_wf0|]. repeat (split; [reflexivity|]).
  split; [|vm_compute; auto].
  exists (ex_w 11 34), 2%nat, ex_r2. cbn. repeat split; auto; lia.
Qed.
