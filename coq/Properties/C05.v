(* C05 — CSR multiplexer writes are atomic and reach exactly the addressed register.
   Statements only; proofs in Proofs/MuxBasic.v, Proofs/MuxWrite.v. *)
From Coq Require Import ZArith List Bool Lia.
From Soc Require Import Lib.Bits Model.Mux Proofs.MuxBasic.
Import ListNotations.
Open Scope Z_scope.

(* A register's write strobe at time t+1 is exactly "write strobe at t to its last address", for every
   layout and every input sequence; hence one cycle, one register, nothing for read-only registers or
   unmapped addresses. *)
Theorem C05_w_strobe_exact : forall c is i i' k r, nth_error (c_regs c) k = Some r ->
  nth_error (o_wstb (out c (state_after c (init c) (is ++ [i])) i')) k =
    Some (r_wr r && i_wstb i && (i_addr i =? r_stop r - 1)).
Proof. intros c is i i' k r H. rewrite state_after_app. apply w_strobe_next, H. Qed.
Print Assumptions C05_w_strobe_exact.

Theorem C05_no_strobe_at_reset : forall c i k r, nth_error (c_regs c) k = Some r ->
  nth_error (o_wstb (out c (init c) i)) k = Some false.
Proof. exact w_strobe_init. Qed.
Print Assumptions C05_no_strobe_at_reset.
