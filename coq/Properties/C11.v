(* C11 — Register fields are packed LSB-first, contiguously, and strobed by access mode.
   Statements only; proofs live in Proofs/RegPack.v.

   Vocabulary (Model/RegPack.v): `reg_new annot fields cls_acc inst_acc` is Register.__init__;
   `reg_core t ra` is its part from the construction of the field collection `t` onwards;
   `flatten t` is the order in which Register.__iter__ yields the fields;
   `offset_of l i` is the total width of fields 0..i-1 of l;
   `reg_out t e vs` is one combinational evaluation of Register.elaborate: (element.r_data, field ports)
   from the element-side inputs e and each field's port.r_data vs. *)
From Coq Require Import ZArith List Bool Lia.
From Soc Require Import Lib.Bits Model.RegPack Proofs.RegPack.
Import ListNotations.
Open Scope Z_scope.

(* Whatever way the register was defined (fields argument, class annotations, access at class
   creation or instantiation), an accepted register is `reg_core` of the collection it ended up with:
   the `fields` argument as given (possible only when the annotations contain no Field at all), or
   else the annotations filtered; with the access that was given (both places must agree). *)
Theorem C11_new_is_core : forall annot fields ca ia t ra w,
  reg_new annot fields ca ia = Ok (t, ra, w) ->
  reg_core t ra = Ok w /\
  match annot, fields with
  | _, Some f => t = f /\ (forall a, annot = Some a -> flatten a = [])
  | Some a, None => t = filter_fields a
  | None, None => False
  end /\
  match ia, ca with
  | Some a, Some c => ra = a /\ a = c
  | Some a, None => ra = a
  | None, Some c => ra = c
  | None, None => False
  end.
Proof. exact new_is_core. Qed.
Print Assumptions C11_new_is_core.

(* Filtering class annotations keeps exactly the Field objects, in declaration order, whatever junk
   (non-Field annotations, empty or junk-only dicts and lists, at any depth) surrounds them; the
   result is a collection the constructors accept as soon as there is at least one Field. *)
Theorem C11_annotations_keep_fields_in_order : forall a,
  flatten (filter_fields a) = flatten a /\
  (build_ok (filter_fields a) = true <->
   (flatten a <> [] /\ Forall (fun f => 0 <= f_w f) (flatten a))).
Proof. intros a. split; [apply flatten_filter | apply filter_build_ok]. Qed.
Print Assumptions C11_annotations_keep_fields_in_order.

(* The element width is the sum of the field widths (and an accepted register has at least one
   field, all of non-negative width). *)
Theorem C11_width_is_sum : forall t ra w,
  reg_core t ra = Ok w ->
  w = sumz (map f_w (flatten t)) /\ 0 <= w /\
  flatten t <> [] /\ Forall (fun f => 0 <= f_w f) (flatten t).
Proof.
  intros t ra w H. destruct (reg_core_ok t ra w H) as (B & _ & Hw & Hp & HW).
  repeat split; auto. apply build_ok_nonempty; exact B.
Qed.
Print Assumptions C11_width_is_sum.

(* Field ranges [offset_of i, offset_of i + w_i) start at bit 0, follow each other without gap in
   iteration order, are pairwise disjoint, and end exactly at the element width. *)
Theorem C11_offsets_consecutive_lsb_first : forall t ra w,
  reg_core t ra = Ok w ->
  let l := flatten t in
  offset_of l 0 = 0 /\
  (forall i f, nth_error l i = Some f -> offset_of l (S i) = offset_of l i + f_w f) /\
  offset_of l (length l) = w /\
  (forall i j f, nth_error l i = Some f -> (i < j)%nat -> offset_of l i + f_w f <= offset_of l j) /\
  (forall i f, nth_error l i = Some f -> 0 <= offset_of l i /\ offset_of l i + f_w f <= w).
Proof.
  intros t ra w H l. destruct (reg_core_ok t ra w H) as (_ & _ & Hw & _ & HW). subst w.
  split; [reflexivity|]. split; [exact (offset_of_S l)|]. split; [exact (offset_of_all l)|].
  split; [intros i j f; exact (offsets_disjoint l i j f HW)|].
  intros i f Hf. split; [exact (offset_of_nonneg l i HW) | exact (offset_in_width l i f HW Hf)].
Qed.
Print Assumptions C11_offsets_consecutive_lsb_first.

(* A read returns each readable field's r_data (truncated to the field width) at the field's bit
   range, zero at the range of every field that is not readable, and nothing above the width. *)
Theorem C11_read_value : forall t ra w e vs,
  reg_core t ra = Ok w -> length vs = length (flatten t) ->
  0 <= fst (reg_out t e vs) < 2 ^ w /\
  forall i f v, nth_error (flatten t) i = Some f -> nth_error vs i = Some v ->
    slice (offset_of (flatten t) i) (f_w f) (fst (reg_out t e vs)) =
    if f_readable (f_a f) then trunc (f_w f) v else 0.
Proof.
  intros t ra w e vs H HL. destruct (reg_core_ok t ra w H) as (_ & _ & Hw & _ & HW). subst w.
  split; [exact (reg_rdata_bound t e vs HW HL) | exact (reg_rdata_slice t e vs HW HL)].
Qed.
Print Assumptions C11_read_value.

(* A register whose element is not readable (so has no r_data member) reads as 0 in the model. *)
Theorem C11_unreadable_register_reads_zero : forall t ra w e vs,
  reg_core t ra = Ok w -> length vs = length (flatten t) -> e_readable ra = false ->
  fst (reg_out t e vs) = 0.
Proof. exact unreadable_reads_zero. Qed.
Print Assumptions C11_unreadable_register_reads_zero.

(* A write hands each writable field exactly its own bit range of element.w_data; a field that is
   not writable is handed 0. *)
Theorem C11_write_slices : forall t ra w e vs i f,
  reg_core t ra = Ok w -> length vs = length (flatten t) ->
  nth_error (flatten t) i = Some f ->
  exists o, nth_error (snd (reg_out t e vs)) i = Some o /\
    p_w_data o = if f_writable (f_a f)
                 then slice (offset_of (flatten t) i) (f_w f) (e_w_data e) else 0.
Proof.
  intros t ra w e vs i f H HL Hf. destruct (reg_core_ok t ra w H) as (_ & _ & _ & _ & HW).
  eexists. split; [exact (reg_ports_nth t e vs HL i f Hf) | reflexivity].
Qed.
Print Assumptions C11_write_slices.

(* Strobes reach exactly the fields whose access mode includes that direction, one port per field. *)
Theorem C11_strobes_by_access : forall t ra w e vs,
  reg_core t ra = Ok w -> length vs = length (flatten t) ->
  length (snd (reg_out t e vs)) = length (flatten t) /\
  forall i f, nth_error (flatten t) i = Some f ->
    exists o, nth_error (snd (reg_out t e vs)) i = Some o /\
      p_r_stb o = f_readable (f_a f) && e_r_stb e /\
      p_w_stb o = f_writable (f_a f) && e_w_stb e.
Proof.
  intros t ra w e vs H HL. split; [exact (reg_ports_length t e vs HL)|].
  intros i f Hf. eexists. split; [exact (reg_ports_nth t e vs HL i f Hf) | split; reflexivity].
Qed.
Print Assumptions C11_strobes_by_access.

(* The constructor raises ValueError exactly when the field collection itself is well formed and
   some field needs a direction the element access lacks; TypeError exactly when the collection is
   malformed (empty dict/list, a non-Field value, a non-shape width); and an accepted register's
   fields all fit the element access. *)
Theorem C11_ctor_rejects_iff : forall t ra,
  (reg_core t ra = Err ValueError <->
   build_ok t = true /\
   exists f, In f (flatten t) /\
     ((f_readable (f_a f) = true /\ e_readable ra = false) \/
      (f_writable (f_a f) = true /\ e_writable ra = false))) /\
  (reg_core t ra = Err TypeError <-> build_ok t = false) /\
  (forall w, reg_core t ra = Ok w -> forall f, In f (flatten t) ->
     (f_readable (f_a f) = true -> e_readable ra = true) /\
     (f_writable (f_a f) = true -> e_writable ra = true)).
Proof.
  intros t ra. split; [apply ctor_value_error|]. split; [apply ctor_type_error|].
  intros w H f Hf. destruct (reg_core_ok t ra w H) as (_ & HX & _).
  exact (compatible_access ra _ f HX Hf).
Qed.
Print Assumptions C11_ctor_rejects_iff.

(* ---- non-vacuity: the annotated register of tests/test_csr_reg.py test_annotations, with its junk
   annotations, plus a write-only and a not-connected field ---- *)
Definition ex_annot : ftree :=
  Map [ (1, Leaf 1 FR);
        (2, Map [ (3, Leaf 3 FRW); (4, Arr [Leaf 1 FW; Leaf 1 FW]) ]);
        (5, Arr [ Map [(6, Leaf 2 FRW)]; Map [(6, Leaf 2 FRW)]; Arr [Leaf 2 FNC] ]);
        (7, Map [ (8, Junk); (9, Map []); (10, Junk) ]);
        (11, Arr [ Junk; Arr []; Map [] ]);
        (12, Junk);
        (13, Leaf 0 FRW) ].
Definition ex_in : ein := {| e_r_stb := true; e_w_stb := true; e_w_data := 2741 |}.  (* 0xAB5 *)
Definition ex_vals : list Z := [1; 5; 1; 1; 2; 3; 3; 0].

Example C11_nonvacuous :
  let t := filter_fields ex_annot in
    reg_new (Some ex_annot) None (Some ERW) None = Ok (t, ERW, 12) /\
    map f_w (flatten t) = [1; 3; 1; 1; 2; 2; 2; 0] /\
    map (offset_of (flatten t)) (seq 0 8) = [0; 1; 4; 5; 6; 8; 10; 12] /\
    length ex_vals = length (flatten t) /\
    (* r_data: a=1 | c=5<<1 | d (write-only) 0 | f=2<<6 | f=3<<8 | nc 0  *)
    fst (reg_out t ex_in ex_vals) = 1 + 5 * 2 + 2 * 64 + 3 * 256 /\
    map p_w_data (snd (reg_out t ex_in ex_vals)) = [0; 2; 1; 1; 2; 2; 0; 0] /\
    map p_r_stb (snd (reg_out t ex_in ex_vals)) = [true; true; false; false; true; true; false; true] /\
    map p_w_stb (snd (reg_out t ex_in ex_vals)) = [false; true; true; true; true; true; false; true].
Proof. vm_compute. repeat split; reflexivity. Qed.

Example C11_nonvacuous_rejections :
  reg_core (Map [(1, Leaf 2 FR); (2, Arr [Leaf 1 FNC; Leaf 3 FRW])]) ER = Err ValueError /\
  reg_core (Map [(1, Leaf 2 FR); (2, Arr [Leaf 1 FNC; Leaf 3 FRW])]) EW = Err ValueError /\
  reg_core (Map [(1, Leaf 2 FR); (2, Arr [Leaf 1 FNC; Leaf 3 FRW])]) ERW = Ok 6 /\
  reg_core (Map [(1, Leaf 2 FR); (2, Arr [])]) ERW = Err TypeError /\
  reg_new (Some ex_annot) (Some (Leaf 1 FR)) (Some ERW) None = Err ValueError /\
  reg_new None (Some (Leaf 1 FR)) (Some ER) (Some ERW) = Err ValueError.
Proof. vm_compute. repeat split; reflexivity. Qed.
