(* C07 — Wishbone decoder: one subordinate selected, by its window; request relayed to it, only its
   responses relayed back.  Statements only; proofs live in Proofs/WbDecoder.v (and Lib/Pattern.v).

   Vocabulary (Proofs/WbDecoder.v):
     win_dom c s   the window add() returned is in the property's domain: ratio 1 (dense between equal
                   granularities, or sparse), covers whole words (gbits <= map width of the subordinate),
                   start aligned to its size 2^w_aw, start + 2^w_aw <= stop <= size of the decoder's map
     dom c         0 <= addr_width, every added window is in that domain, ranges pairwise disjoint
                   (alignment and disjointness are what C02 proves about the allocator)
     start_word    start / 2^gbits                     span_words   2^(w_aw - gbits)
     in_span c s a start_word <= a < start_word + span_words
     dense_equal   dense window onto a subordinate with the decoder's data width and granularity, whose
                   memory map has the width Interface.memory_map demands
     quiet s r     subordinate s holds ack and those of err/rty/stall it has low *)
From Coq Require Import ZArith List Bool Lia.
From Soc Require Import Lib.Bits Lib.Pattern Model.WbDecoder Proofs.WbDecoder.
Import ListNotations.
Open Scope Z_scope.

(* The Case pattern the decoder uses for a window — window_patterns() minus the low granularity
   characters — matches a word address exactly when the window's word span contains it. *)
Theorem C07_pattern_matches_iff : forall c s a,
  0 <= c_aw c -> win_dom c s -> 0 <= a < 2 ^ c_aw c ->
  (pmatch (sub_pattern c s) a = true <-> in_span c s a).
Proof. exact pattern_matches_iff. Qed.
Print Assumptions C07_pattern_matches_iff.

(* Outside the domain of the selection theorems, for the record: a (sparse) window narrower than one
   word is matched at exactly the word containing it; two such windows inside one word get the same
   pattern and the first in address order takes the cycle. *)
Theorem C07_subword_window_pattern : forall c s a,
  0 <= c_aw c -> 0 <= w_aw (s_win s) < gbits (c_geom c) -> 0 <= w_start (s_win s) ->
  w_start (s_win s) mod 2 ^ w_aw (s_win s) = 0 ->
  w_start (s_win s) + 2 ^ w_aw (s_win s) <= 2 ^ map_aw (c_geom c) ->
  0 <= a < 2 ^ c_aw c ->
  (pmatch (sub_pattern c s) a = true <-> a = w_start (s_win s) / 2 ^ gbits (c_geom c)).
Proof. exact pattern_matches_subword. Qed.
Print Assumptions C07_subword_window_pattern.

(* At most one subordinate sees cyc: every configuration (also outside the domain), every input. *)
Theorem C07_cyc_at_most_one : forall c i j k oj ok,
  nth_error (out_s (out c i)) j = Some oj -> nth_error (out_s (out c i)) k = Some ok ->
  o_cyc oj = true -> o_cyc ok = true -> j = k.
Proof. exact cyc_at_most_one. Qed.
Print Assumptions C07_cyc_at_most_one.

(* ... namely the one whose window contains the address (dense and sparse windows alike). *)
Theorem C07_cyc_iff_window : forall c i j s o,
  dom c -> 0 <= adr (in_b i) < 2 ^ c_aw c ->
  nth_error (c_subs c) j = Some s -> nth_error (out_s (out c i)) j = Some o ->
  (o_cyc o = true <-> cyc (in_b i) = true /\ in_span c s (adr (in_b i))).
Proof. exact cyc_iff_window. Qed.
Print Assumptions C07_cyc_iff_window.

(* Every subordinate (hence the selected one) receives write data, write enable, strobe unchanged
   (data cut to its own width), each decoder select bit replicated over the `ratio` finer lines it
   covers, and lock/cti/bte — or 0 = no lock / CLASSIC / LINEAR when the decoder lacks the signal.
   No hypothesis: any configuration, any input. *)
Theorem C07_request_relay : forall c i j s,
  nth_error (c_subs c) j = Some s ->
  exists o, nth_error (out_s (out c i)) j = Some o /\
    o_dat_w o = trunc (s_dw s) (dat_w (in_b i)) /\
    o_we o = we (in_b i) /\ o_stb o = stb (in_b i) /\
    o_sel o = trunc (s_dw s / s_g s) (fanout (c_dw c / c_g c) (w_ratio (s_win s)) (sel (in_b i))) /\
    o_lock o = (f_lock (s_feat s) && f_lock (c_feat c) && lock (in_b i)) /\
    o_cti o = (if f_cti (s_feat s) && f_cti (c_feat c) then cti (in_b i) else 0) /\
    o_bte o = (if f_bte (s_feat s) && f_bte (c_feat c) then bte (in_b i) else 0).
Proof.
  intros c i j s H. eexists. split; [apply (out_s_nth c i j s H)|]. cbn. repeat split; reflexivity.
Qed.
Print Assumptions C07_request_relay.

(* Dense window (equal granularity): the selected subordinate receives the offset within its window
   as address, and write data and select lines exactly as on the decoder's bus.
   (1 <= s_aw + gbits excludes only the subordinate with addr_width 0 and granularity = data_width:
   its memory map is max(1, 0) = 1 bit wide, so its window spans two words while it has no address
   line; there the general C07_dense_offset_mod applies.) *)
Theorem C07_request_relay_dense : forall c i j s o,
  dom c -> nth_error (c_subs c) j = Some s -> nth_error (out_s (out c i)) j = Some o ->
  dense_equal c s -> 1 <= s_aw s + gbits (c_geom c) ->
  in_span c s (adr (in_b i)) ->
  0 <= dat_w (in_b i) < 2 ^ c_dw c -> 0 <= sel (in_b i) < 2 ^ (c_dw c / c_g c) ->
  o_adr o = adr (in_b i) - start_word c s /\ o_dat_w o = dat_w (in_b i) /\ o_sel o = sel (in_b i).
Proof. exact request_relay_dense. Qed.
Print Assumptions C07_request_relay_dense.

Theorem C07_dense_offset_mod : forall c i j s o,
  dom c -> nth_error (c_subs c) j = Some s -> nth_error (out_s (out c i)) j = Some o ->
  dense_equal c s -> 0 <= adr (in_b i) ->
  o_adr o = (adr (in_b i) - start_word c s) mod 2 ^ s_aw s.
Proof.
  intros c i j s o (_ & Hw & _) Hj Ho DE Ha. rewrite (out_s_nth c i j s Hj) in Ho. injection Ho as <-.
  apply (dense_offset_mod c s _ (Hw s (nth_error_In _ _ Hj)) DE Ha).
Qed.
Print Assumptions C07_dense_offset_mod.

(* If every unselected subordinate keeps its response lines low, upstream ack/err/rty/stall/dat_r are
   the selected subordinate's; a signal either side lacks reads 0. *)
Theorem C07_response_relay : forall c i j sj rj,
  dom c -> 0 <= adr (in_b i) < 2 ^ c_aw c ->
  nth_error (c_subs c) j = Some sj -> nth_error (in_s i) j = Some rj ->
  in_span c sj (adr (in_b i)) ->
  (forall k s r, k <> j -> nth_error (c_subs c) k = Some s -> nth_error (in_s i) k = Some r -> quiet s r) ->
  out_b (out c i) =
    {| r_ack := ack rj;
       r_err := f_err (c_feat c) && (f_err (s_feat sj) && err rj);
       r_rty := f_rty (c_feat c) && (f_rty (s_feat sj) && rty rj);
       r_stall := f_stall (c_feat c) && (f_stall (s_feat sj) && stall rj);
       r_dat_r := trunc (c_dw c) (dat_r rj) |}.
Proof. exact response_relay. Qed.
Print Assumptions C07_response_relay.

(* An address inside no window: nobody sees cyc, read data is 0 (unconditionally), and — the
   subordinates, all unselected, keeping their lines low — there is no response. *)
Theorem C07_nobody_selected : forall c i,
  dom c -> 0 <= adr (in_b i) < 2 ^ c_aw c ->
  (forall j s, nth_error (c_subs c) j = Some s -> ~ in_span c s (adr (in_b i))) ->
  r_dat_r (out_b (out c i)) = 0 /\
  (forall o, In o (out_s (out c i)) -> o_cyc o = false) /\
  ((forall k s r, nth_error (c_subs c) k = Some s -> nth_error (in_s i) k = Some r -> quiet s r) ->
   r_ack (out_b (out c i)) = false /\ r_err (out_b (out c i)) = false /\
   r_rty (out_b (out c i)) = false /\ r_stall (out_b (out c i)) = false).
Proof.
  intros c i D Ha N. destruct (nobody_selected_dat_r c i D Ha N) as [H1 H2].
  split; [exact H1|]. split; [exact H2|]. intros Q. exact (all_quiet_no_response c i Q).
Qed.
Print Assumptions C07_nobody_selected.

(* add() refuses an interface exactly for the four documented reasons; what it accepted satisfies them *)
Theorem C07_add_rejects_iff : forall d s sparse,
  add_ok d s sparse = false <->
  (g_g d < g_g s \/
   (sparse = false /\ g_dw s <> g_dw d) \/
   (sparse = true /\ g_g s <> g_dw s) \/
   (f_err (g_feat s) = true /\ f_err (g_feat d) = false) \/
   (f_rty (g_feat s) = true /\ f_rty (g_feat d) = false) \/
   (f_stall (g_feat s) = true /\ f_stall (g_feat d) = false)).
Proof. exact add_rejects_iff. Qed.
Print Assumptions C07_add_rejects_iff.

Theorem C07_added_pass_the_rules : forall d l s,
  In s (added d l) -> add_ok d (s_geom s) (s_sparse s) = true.
Proof. exact added_ok. Qed.
Print Assumptions C07_added_pass_the_rules.

(* ---- non-vacuity: 32-bit decoder with byte granularity (2 granularity bits), 4 address bits;
   a dense window added first at words 8..11 and a sparse 8-bit one added second at words 2..3
   (add order <> address order); a third attempt is refused ---- *)
Definition ex_feat (e l : bool) : feat :=
  {| f_err := e; f_rty := false; f_stall := false; f_lock := l; f_cti := false; f_bte := false |}.
Definition ex_dec : geom := {| g_aw := 4; g_dw := 32; g_g := 8; g_feat := ex_feat true true |}.
Definition ex_attempts : list attempt :=
  [ ({| g_aw := 2; g_dw := 32; g_g := 8; g_feat := ex_feat true false |}, false,
     Some {| w_start := 32; w_stop := 48; w_ratio := 1; w_aw := 4 |});
    ({| g_aw := 3; g_dw := 8; g_g := 8; g_feat := ex_feat false true |}, true,
     Some {| w_start := 8; w_stop := 16; w_ratio := 1; w_aw := 3 |});
    ({| g_aw := 1; g_dw := 16; g_g := 8; g_feat := ex_feat false false |}, false, None) ].
Definition ex_cfg : cfg := {| c_geom := ex_dec; c_subs := added ex_dec ex_attempts |}.
Definition ex_req (a : Z) : breq :=
  {| cyc := true; stb := true; we := true; adr := a; dat_w := 305419896; sel := 5; lock := true; cti := 2; bte := 1 |}.
Definition ex_rsp (k : bool) (d : Z) : sresp := {| ack := k; err := k; rty := k; stall := k; dat_r := d |}.

Lemma ex_dom : dom ex_cfg.
Proof.
  split; [vm_compute; discriminate|]. split.
  - intros s [<-|[<-|[]]]; vm_compute; intuition discriminate.
  - intros [|[|j]] [|[|k]] sj sk Hne Hj Hk; try congruence;
      try (destruct j; discriminate); try (destruct k; discriminate);
      vm_compute in Hj, Hk; injection Hj as <-; injection Hk as <-; vm_compute; intuition discriminate.
Qed.

Example C07_nonvacuous :
  dom ex_cfg /\
  add_verdicts ex_dec ex_attempts = [true; true; false] /\
  (exists s0, nth_error (c_subs ex_cfg) 0 = Some s0 /\ dense_equal ex_cfg s0 /\ in_span ex_cfg s0 9 /\
              1 <= s_aw s0 + gbits (c_geom ex_cfg)) /\
  (exists s1, nth_error (c_subs ex_cfg) 1 = Some s1 /\ in_span ex_cfg s1 3 /\
              quiet s1 (ex_rsp false 7)) /\
  out ex_cfg {| in_b := ex_req 9; in_s := [ex_rsp true 170; ex_rsp false 7] |} =
    {| out_s := [ {| o_adr := 1; o_dat_w := 305419896; o_sel := 5; o_we := true; o_stb := true; o_cyc := true;
                     o_lock := false; o_cti := 0; o_bte := 0 |};
                  {| o_adr := 1; o_dat_w := 120; o_sel := 1; o_we := true; o_stb := true; o_cyc := false;
                     o_lock := true; o_cti := 0; o_bte := 0 |} ];
       out_b := {| r_ack := true; r_err := true; r_rty := false; r_stall := false; r_dat_r := 170 |} |} /\
  selected ex_cfg 3 = Some 1%nat /\ selected ex_cfg 5 = None.
Proof.
  split; [exact ex_dom|]. split; [vm_compute; reflexivity|].
  split; [eexists; split; [vm_compute; reflexivity|]; vm_compute; intuition discriminate|].
  split; [eexists; split; [vm_compute; reflexivity|]; vm_compute; intuition discriminate|].
  vm_compute. auto.
Qed.
