(* C10, engine `bridgemux`: what the correspondence run compares the real
   `WishboneCSRBridge in front of a csr.Multiplexer` against IS the composite of Model/BridgeMuxSpec.v
   that C10_atomic_write_through_mux / C10_atomic_read_through_mux / C10_composite_decomposes
   (Properties/C10.v) speak about.

   Engine/BridgeMuxE.v cannot call BridgeMuxSpec.crun directly (monolithic extraction refuses constants of
   a file containing module aliases), it runs the transcription crun_e; the theorems below close that gap
   for every input, so the transcription is not part of the trusted base. *)
From Coq Require Import ZArith List Bool.
From Soc Require Import Lib.Sx Lib.Bits Model.WbCsrBridge Model.Mux Model.BridgeMuxSpec
                        Engine.BridgeMuxE Proofs.BridgeMuxEngine.
Import ListNotations.
Open Scope Z_scope.

(* the transcribed composite is the composite, from every state, on every input list *)
Theorem C10_engine_composite_is_crun : forall bc mc xs s,
  crun_e bc mc s xs = crun bc mc s (map to_cinp xs).
Proof. exact crun_e_eq. Qed.
Print Assumptions C10_engine_composite_is_crun.

(* the engine = the sx codec (`run_with`: decode, WbCsrBridge.construct / cfg_of, Mux.mk_cfg, encode every
   port of every cycle) around BridgeMuxSpec.crun started in BridgeMuxSpec.cinit *)
Theorem C10_engine_runs_composite : forall s,
  run_bridgemux s = run_with (fun bc mc xs => crun bc mc (cinit mc) (map to_cinp xs)) s.
Proof. exact engine_runs_composite. Qed.
Print Assumptions C10_engine_runs_composite.

(* non-vacuity: the configuration and trace of Properties/C10.v's composite Example (8-bit CSR bus behind a
   32-bit Wishbone bus; a 24-bit register at CSR addresses 4..6 and an 8-bit one at 7 share word 1; a write
   of 0xAABBCCDD held on cycles 1..5, then a read held on 7..11), through the codec: accepted, 14 rows;
   cycle 4: the 24-bit register's w_stb with w_data 0xBBCCDD; cycle 5: the 8-bit one's with 0xAA;
   cycle 6: acknowledge; cycle 12: acknowledge with dat_r = 0x34_111111 (the 24-bit register's value of
   cycle 7 in lanes 0..2, the 8-bit register's value of cycle 10 in lane 3) *)
Definition cy (c s w a se d : Z) (vs : list Z) : sx := L [A c; A s; A w; A a; A se; A d; zl vs].
Definition ex_case : sx :=
  L [A 8; A 32; A 4; L [zl [4; 7; 24; 1; 1]; zl [7; 8; 8; 1; 1]]; L [];
     L [ cy 1 0 0 0 0 0 [1; 2];
         cy 1 1 1 1 15 0xAABBCCDD [0x101010; 0x20]; cy 1 1 1 1 15 0xAABBCCDD [0x101011; 0x21];
         cy 1 1 1 1 15 0xAABBCCDD [0x101012; 0x22]; cy 1 1 1 1 15 0xAABBCCDD [0x101013; 0x23];
         cy 1 1 1 1 15 0xAABBCCDD [0x101014; 0x24];
         cy 1 1 0 1 15 0 [0x101015; 0x25];
         cy 1 1 0 1 15 0 [0x111111; 0x31]; cy 1 1 0 1 15 0 [0x222222; 0x32];
         cy 1 1 0 1 15 0 [0x333333; 0x33]; cy 1 1 0 1 15 0 [0x444444; 0x34];
         cy 1 1 0 1 15 0 [0x555555; 0x35];
         cy 0 0 0 0 0 0 [0x666666; 0x36]; cy 0 0 0 0 0 0 [0x777777; 0x37] ]].

Example C10_engine_nonvacuous :
  exists rows,
    run_bridgemux ex_case = L [zl [2; 2; 32; 8; 4; 8; 0; 16; 1]; zl [4; 4]; L rows] /\
    length rows = 14%nat /\
    nth 4 rows (A 0) = L [A 0; A 0; zl [7; 0; 1; 0xAA; 0]; zl [0; 0]; zl [1; 0]; zl [0xBBCCDD; 0]] /\
    nth 5 rows (A 0) = L [A 0; A 0; zl [4; 0; 0; 0; 0]; zl [0; 0]; zl [0; 1]; zl [0xBBCCDD; 0xAA]] /\
    nth 6 rows (A 0) = L [A 1; A 0; zl [4; 0; 0; 0; 0]; zl [0; 0]; zl [0; 0]; zl [0xBBCCDD; 0xAA]] /\
    nth 12 rows (A 0) = L [A 1; A 0x34111111; zl [0; 0; 0; 0; 0]; zl [0; 0]; zl [0; 0]; zl [0xBBCCDD; 0xAA]].
Proof. eexists. vm_compute. repeat split. Qed.
