(* C18 — Names in a memory map are unique and prefix-free; conflicts are refused, a legal name is never
   refused, refused calls change nothing, and the paths reported by all_resources() are pairwise distinct.
   Statements only; proofs live in Proofs/Namespace*.v. *)
From Coq Require Import ZArith List Bool Lia.
From Soc Require Import Lib.Res Lib.PyList Model.MemoryMap Model.MemSpec
                        Proofs.Namespace Proofs.NamespaceInv Proofs.NamespaceDecide Proofs.NamespacePaths.
Import ListNotations.
Open Scope Z_scope.

(* the boolean conflict test used in the statements below is the user-level relation
   "equal, a prefix of, or an extension of" *)
Theorem C18_name_conflictb_iff : forall a b, name_conflictb a b = true <-> name_conflict a b.
Proof. exact name_conflictb_iff. Qed.
Print Assumptions C18_name_conflictb_iff.

(* the index loop of is_available computes the prefix relation and never indexes out of range
   (no IndexError = Err OtherError) on non-empty names *)
Theorem C18_conflicts_spec : forall a b, a <> [] -> b <> [] -> conflicts a b = Ok (name_conflictb a b).
Proof. exact conflicts_spec. Qed.
Print Assumptions C18_conflicts_spec.

(* is_available is sound and complete, and its internal assert cannot fire when the queried names do
   not conflict among themselves (which holds for the names of any reachable child map, see
   C18_names_prefix_free) *)
Theorem C18_is_available_spec : forall assigned queries,
  (forall n, In n assigned -> n <> []) -> (forall q, In q queries -> q <> []) ->
  (forall i j a b, i <> j -> nth_error queries i = Some a -> nth_error queries j = Some b ->
                   ~ name_conflict a b) ->
  is_available assigned queries =
    Ok (forallb (fun q => forallb (fun n => negb (name_conflictb q n)) assigned) queries).
Proof. exact is_available_spec. Qed.
Print Assumptions C18_is_available_spec.

(* every name MemoryMap.Name accepts is non-empty *)
Theorem C18_names_nonempty : forall r n, mk_name r = Ok n -> n <> [].
Proof. exact mk_name_nonempty. Qed.
Print Assumptions C18_names_nonempty.

(* in every map of every reachable world the visible names are non-empty and pairwise neither equal
   nor prefixes of one another *)
Theorem C18_names_prefix_free : forall w m, reachable w -> In m w ->
  (forall n, In n (m_names m) -> n <> []) /\
  forall i j a b, i <> j -> nth_error (m_names m) i = Some a -> nth_error (m_names m) j = Some b ->
                  ~ name_conflict a b.
Proof. exact reachable_names_ok. Qed.
Print Assumptions C18_names_prefix_free.

(* which names are visible in a map: its resources', its named windows', and everything visible in
   its anonymous windows *)
Theorem C18_visible_names : forall w m, reachable w -> In m w -> forall n,
  In n (m_names m) <->
    (exists r, In r (m_ress m) /\ r_name r = n) \/
    (exists wn c, In (wn, c) (m_wins m) /\ w_name wn = Some n) \/
    (exists wn c, In (wn, c) (m_wins m) /\ w_name wn = None /\ In n (m_names c)).
Proof. exact reachable_visible_names. Qed.
Print Assumptions C18_visible_names.

(* acceptance of a resource name is decided by the prefix relation, exactly *)
Theorem C18_resource_name_decides : forall w m, reachable w -> In m w ->
  forall id nm n size addr al,
  m_frozen m = false -> has_res m id = false -> mk_name nm = Ok n ->
  ((exists x, In x (m_names m) /\ name_conflict n x) ->
      add_resource m id true nm size addr al = Err ValueError) /\
  ((forall x, In x (m_names m) -> ~ name_conflict n x) ->
      is_available (m_names m) [n] = Ok true).
Proof.
  intros w m Hr Hm id nm n size addr al Hf Hid Hn. split.
  - exact (resource_conflict_refused w m Hr Hm id nm n size addr al Hf Hid Hn).
  - exact (resource_free_available w m Hr Hm nm n Hn).
Qed.
Print Assumptions C18_resource_name_decides.

(* a legal name is never refused: with no conflict, and alignment and placement acceptable, the call
   succeeds and returns the computed range (in particular the asserts of _RangeMap.insert cannot fire) *)
Theorem C18_legal_resource_name_accepted : forall w m, reachable w -> In m w ->
  forall id nm n size addr al,
  m_frozen m = false -> has_res m id = false -> mk_name nm = Ok n ->
  (forall x, In x (m_names m) -> ~ name_conflict n x) ->
  forall A, (al = VNone /\ A = m_al m \/ exists a, al = VInt a /\ 0 <= a /\ A = Z.max a (m_al m)) ->
  forall s e, compute_addr_range m addr size A = Ok (s, e) ->
  exists m', add_resource m id true nm size addr al = Ok (m', (s, e)).
Proof.
  intros w m Hr Hm id nm n size addr al Hf Hid Hn.
  exact (resource_legal_accepted w m Hr Hm id nm n size addr al Hf Hid Hn).
Qed.
Print Assumptions C18_legal_resource_name_accepted.

(* both directions in one statement: when everything but the name is acceptable, add_resource succeeds
   exactly when the name conflicts with no visible name *)
Theorem C18_resource_accepted_iff : forall w m, reachable w -> In m w ->
  forall id nm n size addr al A s e,
  m_frozen m = false -> has_res m id = false -> mk_name nm = Ok n ->
  (al = VNone /\ A = m_al m \/ exists a, al = VInt a /\ 0 <= a /\ A = Z.max a (m_al m)) ->
  compute_addr_range m addr size A = Ok (s, e) ->
  ((exists m', add_resource m id true nm size addr al = Ok (m', (s, e))) <->
   (forall x, In x (m_names m) -> ~ name_conflict n x)).
Proof.
  intros w m Hr Hm id nm n size addr al A s e Hf Hid Hn HA Hcar. split.
  - intros (m' & H) x Hx Hc.
    rewrite (resource_conflict_refused w m Hr Hm id nm n size addr al Hf Hid Hn) in H by eauto.
    discriminate.
  - intros Hc. exact (resource_legal_accepted w m Hr Hm id nm n size addr al Hf Hid Hn Hc A HA s e Hcar).
Qed.
Print Assumptions C18_resource_accepted_iff.

(* the namespace check of add_window: for a named window the one name, for an anonymous window all the
   names visible in the window map; the answer is the prefix relation, and the assert is dead *)
Theorem C18_window_name_decides : forall w m wm, reachable w -> In m w -> In wm w ->
  forall nmo queries,
  (nmo = None /\ queries = m_names wm \/ exists r n, nmo = Some r /\ mk_name r = Ok n /\ queries = [n]) ->
  is_available (m_names m) queries =
    Ok (forallb (fun q => forallb (fun x => negb (name_conflictb q x)) (m_names m)) queries).
Proof. exact window_available_spec. Qed.
Print Assumptions C18_window_name_decides.

(* a window one of whose names conflicts with a visible name is refused with ValueError.  No hypothesis
   on the other arguments is needed: every check that add_window makes before the namespace check
   raises ValueError too (the name itself is valid by the first hypothesis). *)
Theorem C18_window_conflict_refused : forall w m wm, reachable w -> In m w -> In wm w ->
  forall wid nmo queries addr sparse,
  (nmo = None /\ queries = m_names wm \/ exists r n, nmo = Some r /\ mk_name r = Ok n /\ queries = [n]) ->
  (exists q x, In q queries /\ In x (m_names m) /\ name_conflict q x) ->
  add_window m wid wm nmo addr sparse = Err ValueError.
Proof.
  intros w m wm Hr Hm Hwm wid nmo queries addr sparse H Hc.
  destruct H as [(-> & ->)|(r & n & -> & Hn & ->)].
  - apply (window_conflict_refused w m wm Hr Hm Hwm wid None None addr sparse eq_refl Hc).
  - apply (window_conflict_refused w m wm Hr Hm Hwm wid (Some r) (Some n) addr sparse); [|exact Hc].
    simpl. rewrite Hn. reflexivity.
Qed.
Print Assumptions C18_window_conflict_refused.

(* a legal window name is never refused.  The other checks of add_window are named win_width_check,
   win_ratio, win_size, win_align in Proofs/NamespaceDecide.v; `add_window_eq` there (by reflexivity)
   shows that add_window is literally the sequence of these checks.  `win_name_arg nmo = Ok n` says the
   name argument is None (n = None) or a valid name (n = Some name); `win_queries wm n` are the names
   the window would contribute: the one name, or all names visible in the window map. *)
Theorem C18_legal_window_name_accepted : forall w m wm, reachable w -> In m w -> In wm w ->
  forall wid nmo n addr sparse s e,
  m_frozen m = false -> has_win m wid = false -> (m_dw wm >? m_dw m) = false ->
  win_width_check m wm sparse = Ok tt -> win_name_arg nmo = Ok n ->
  (forall q x, In q (win_queries wm n) -> In x (m_names m) -> ~ name_conflict q x) ->
  Z.land (win_ratio m wm sparse) (win_ratio m wm sparse - 1) = 0 ->
  (win_ratio m wm sparse >? Z.shiftl 1 (m_al wm)) = false ->
  compute_addr_range m addr (VInt (win_size m wm sparse)) (win_align m wm sparse) = Ok (s, e) ->
  exists m', add_window m wid wm nmo addr sparse = Ok (m', (s, e, win_ratio m wm sparse)).
Proof. exact window_legal_accepted. Qed.
Print Assumptions C18_legal_window_name_accepted.

Theorem C18_window_accepted_iff : forall w m wm, reachable w -> In m w -> In wm w ->
  forall wid nmo n addr sparse s e,
  m_frozen m = false -> has_win m wid = false -> (m_dw wm >? m_dw m) = false ->
  win_width_check m wm sparse = Ok tt -> win_name_arg nmo = Ok n ->
  Z.land (win_ratio m wm sparse) (win_ratio m wm sparse - 1) = 0 ->
  (win_ratio m wm sparse >? Z.shiftl 1 (m_al wm)) = false ->
  compute_addr_range m addr (VInt (win_size m wm sparse)) (win_align m wm sparse) = Ok (s, e) ->
  ((exists m', add_window m wid wm nmo addr sparse = Ok (m', (s, e, win_ratio m wm sparse))) <->
   (forall q x, In q (win_queries wm n) -> In x (m_names m) -> ~ name_conflict q x)).
Proof.
  intros w m wm Hr Hm Hwm wid nmo n addr sparse s e Hf Hid Hdw Hwc Hn Hpow Hra Hcar. split.
  - intros (m' & H) q x Hq Hx Hc.
    rewrite (window_conflict_refused w m wm Hr Hm Hwm wid nmo n addr sparse Hn) in H by eauto.
    discriminate.
  - intros Hc.
    exact (window_legal_accepted w m wm Hr Hm Hwm wid nmo n addr sparse s e Hf Hid Hdw Hwc Hn Hc Hpow Hra Hcar).
Qed.
Print Assumptions C18_window_accepted_iff.

(* consequence: the paths reported for the resources of any map are pairwise distinct *)
Theorem C18_paths_distinct : forall w m l, reachable w -> In m w ->
  all_resources m = Ok l -> NoDup (map i_path l).
Proof. exact reachable_paths_distinct. Qed.
Print Assumptions C18_paths_distinct.

(* a refused call changes nothing *)
Theorem C18_refusal_changes_nothing : forall w o,
  result_failed (snd (wstep w o)) = true -> fst (wstep w o) = w.
Proof. exact refusal_changes_nothing. Qed.
Print Assumptions C18_refusal_changes_nothing.

(* ------------------------------------------------------------------ non-vacuity *)

(* atoms: 1 = "a", 2 = "b", 3 = "ab", 4 = "0", 5 = "w" *)
Definition hist : list op :=
  [ ONew (VInt 8) (VInt 8) (VInt 0);                                            (* map 0 *)
    ORes 0 10 true (NStr 1) (VInt 1) VNone VNone;                               (* "a"          ok *)
    ORes 0 11 true (NTuple [RStr 1; RStr 2]) (VInt 1) VNone VNone;              (* ("a","b")    refused *)
    ORes 0 12 true (NTuple [RStr 3]) (VInt 1) VNone VNone;                      (* ("ab",)      ok *)
    ORes 0 13 true (NTuple [RStr 4]) (VInt 1) VNone VNone;                      (* ("0",)       ok *)
    ORes 0 14 true (NTuple [RInt 0]) (VInt 1) VNone VNone;                      (* (0,)         ok *)
    ORes 0 15 true (NTuple [RInt 0; RStr 1]) (VInt 1) VNone VNone;              (* (0,"a")      refused *)
    ONew (VInt 4) (VInt 8) (VInt 0);                                            (* map 1 *)
    ORes 1 20 true (NTuple [RStr 3; RStr 1]) (VInt 1) VNone VNone;              (* ("ab","a") in map 1 *)
    ORes 1 21 true (NTuple [RStr 2]) (VInt 1) VNone VNone;                      (* ("b",) in map 1 *)
    OWin 0 (Some 1%nat) None VNone None;                  (* anonymous: ("ab","a") extends ("ab",): refused *)
    OWin 0 (Some 1%nat) (Some (NStr 5)) VNone None ].     (* named "w": ok *)

Example C18_hist_results_nonvacuous :
  results_from [] hist =
  [ RNew (Ok 0%nat); RRes (Ok (0, 1)); RRes (Err ValueError); RRes (Ok (1, 2)); RRes (Ok (2, 3));
    RRes (Ok (3, 4)); RRes (Err ValueError); RNew (Ok 1%nat); RRes (Ok (0, 1)); RRes (Ok (1, 2));
    RWin (Err ValueError); RWin (Ok (16, 32, 1)) ].
Proof. vm_compute. reflexivity. Qed.

(* the final world: map 0 is open, sees five names (the last one is the named window), and reports
   six pairwise distinct paths, two of them through the window *)
Example C18_hist_world_nonvacuous :
  match world_after hist with
  | [m0; m1] =>
      m_frozen m0 = false /\ m_frozen m1 = true /\
      m_names m0 = [[PStr 1]; [PStr 3]; [PStr 4]; [PInt 0]; [PStr 5]] /\
      m_names m1 = [[PStr 3; PStr 1]; [PStr 2]] /\
      match all_resources m0 with
      | Ok l => map i_path l =
                  [ [[PStr 1]]; [[PStr 3]]; [[PStr 4]]; [[PInt 0]];
                    [[PStr 5]; [PStr 3; PStr 1]]; [[PStr 5]; [PStr 2]] ]
      | Err _ => False
      end
  | _ => False
  end.
Proof. vm_compute. repeat split; reflexivity. Qed.

(* the hypotheses of C18_resource_name_decides / C18_legal_resource_name_accepted /
   C18_window_conflict_refused are met in the world reached before the two window calls *)
Example C18_decides_hyps_nonvacuous :
  let w := world_after (firstn 10 hist) in
  reachable w /\
  match w with
  | [m0; m1] =>
      In m0 w /\ In m1 w /\ m_frozen m0 = false /\ has_res m0 11 = false /\
      mk_name (NTuple [RStr 1; RStr 2]) = Ok [PStr 1; PStr 2] /\
      name_conflictb [PStr 1; PStr 2] [PStr 1] = true /\           (* ("a","b") extends "a" *)
      name_conflictb [PStr 4] [PInt 0] = false /\                  (* "0" is not 0 *)
      name_conflictb [PStr 3] [PStr 1] = false /\                  (* "ab" does not extend "a" *)
      forallb (fun x => negb (name_conflictb [PStr 5] x)) (m_names m0) = true /\
      compute_addr_range m0 VNone (VInt 1) (m_al m0) = Ok (4, 5) /\
      existsb (fun q => existsb (name_conflictb q) (m_names m0)) (m_names m1) = true
  | _ => False
  end.
Proof.
  split; [exists (firstn 10 hist); reflexivity|]. vm_compute. repeat split; auto.
Qed.

(* the hypothesis "queries pairwise conflict-free" of C18_is_available_spec is needed: the assert of
   is_available does fire when two queried names conflict with each other *)
Example C18_assert_needs_hypothesis_nonvacuous :
  is_available [] [[PStr 1]; [PStr 1; PStr 2]] = Err AssertionError /\
  is_available [[PStr 1]] [[PStr 3]; [PStr 1; PStr 2]] = Ok false /\
  is_available [[PStr 1]; [PInt 0]] [[PStr 3]; [PStr 4]] = Ok true.
Proof. vm_compute. repeat split; reflexivity. Qed.
