(* C10 — Wishbone-to-CSR bridge performs each transfer exactly once, in order, on time.
   Statements only; proofs live in Proofs/WbCsrBridge.v and Proofs/BridgeMux.v.  First the pure bridge
   (the CSR side is any environment: r_data is an arbitrary input of the trace); then, in the last
   part of the file, the bridge composed with the CSR multiplexer (atomic_through_mux).

   Conventions: `c` is the hardware configuration (ratio 2^(c_r c), CSR address width, granule width),
   `wf c` only says these three numbers are non-negative; `tr : nat -> inp` is an arbitrary infinite
   input trace; `state_at c tr t` / `out_at c tr t` are the registers / ports in cycle t. *)
From Coq Require Import ZArith List Bool Lia.
From Soc Require Import Lib.Bits Model.WbCsrBridge Proofs.WbCsrBridge.
(* only Required here; Imported where the composition starts (Model.Mux reuses the names cfg, inp, out ...) *)
From Soc Require Model.Mux Model.MuxSpec Model.BridgeMuxSpec Proofs.BridgeMux.
Import ListNotations.
Open Scope Z_scope.

(* ---------------------------------------------------------------------------------------------- *)
(* Constructor                                                                                    *)
(* ---------------------------------------------------------------------------------------------- *)

(* exact_log2 raises exactly on the non-powers of two, and returns the exponent otherwise. *)
Theorem C10_exact_log2_spec : forall n,
  (forall k, exact_log2 n = Some k -> 0 <= k /\ n = 2 ^ k) /\
  (exact_log2 n = None -> forall k, 0 <= k -> n <> 2 ^ k).
Proof. intros n. split; [intros k; apply exact_log2_some | apply exact_log2_none]. Qed.
Print Assumptions C10_exact_log2_spec.

(* Whatever the constructor accepts has the property's geometry: both widths in {8,16,32,64}, the
   Wishbone width is the CSR width times 2^r with 0 <= r <= 3, r <= CSR address width, the Wishbone
   address width is the CSR address width minus r, granularity = CSR data width, and the CSR map is
   published as the single window [0, 2^addr_width) of a map with the CSR geometry. *)
Theorem C10_construct_ok : forall k g, 1 <= k_caw k -> construct k = Ok g ->
  let dw := match k_dw k with None => k_cdw k | Some d => d end in
  legal_w (k_cdw k) = true /\ legal_w dw = true /\
  0 <= g_r g <= 3 /\ dw = k_cdw k * 2 ^ g_r g /\ g_r g <= k_caw k /\
  g = {| g_r := g_r g; g_wb_aw := k_caw k - g_r g; g_wb_dw := dw; g_gran := k_cdw k;
         g_mm_aw := k_caw k; g_mm_dw := k_cdw k;
         g_win_start := 0; g_win_stop := 2 ^ k_caw k; g_win_ratio := 1 |} /\
  wf (cfg_of k g).
Proof. exact construct_ok. Qed.
Print Assumptions C10_construct_ok.

(* Every geometry in the property's domain is accepted (explicit or defaulted data_width). *)
Theorem C10_construct_complete : forall caw cdw r,
  legal_w cdw = true -> legal_w (cdw * 2 ^ r) = true -> 0 <= r <= caw -> 1 <= caw ->
  construct {| k_caw := caw; k_cdw := cdw; k_dw := Some (cdw * 2 ^ r) |} =
    Ok {| g_r := r; g_wb_aw := caw - r; g_wb_dw := cdw * 2 ^ r; g_gran := cdw;
          g_mm_aw := caw; g_mm_dw := cdw; g_win_start := 0; g_win_stop := 2 ^ caw; g_win_ratio := 1 |}.
Proof. exact construct_complete. Qed.
Print Assumptions C10_construct_complete.

Theorem C10_construct_default : forall caw cdw, legal_w cdw = true -> 1 <= caw ->
  construct {| k_caw := caw; k_cdw := cdw; k_dw := None |} =
    Ok {| g_r := 0; g_wb_aw := caw; g_wb_dw := cdw; g_gran := cdw;
          g_mm_aw := caw; g_mm_dw := cdw; g_win_start := 0; g_win_stop := 2 ^ caw; g_win_ratio := 1 |}.
Proof. exact construct_default. Qed.
Print Assumptions C10_construct_default.

(* Every refusal is a ValueError (the TypeError branch of wishbone.Signature is unreachable). *)
Theorem C10_construct_refusal_is_ValueError : forall k e, construct k = Err e -> e = ValueError.
Proof. exact construct_err_value. Qed.
Print Assumptions C10_construct_refusal_is_ValueError.

(* ---------------------------------------------------------------------------------------------- *)
(* All traces, no protocol assumption                                                             *)
(* ---------------------------------------------------------------------------------------------- *)

(* state_inv: the sequencer never leaves [0, ratio]; an acknowledge is only ever pending in the last
   state.  (The register has r+1 bits, so values ratio+1 .. 2*ratio-1 exist but are unreachable.) *)
Theorem C10_state_inv : forall c tr t, wf c ->
  0 <= cycle (state_at c tr t) <= ratio c /\
  (ack (state_at c tr t) = true -> cycle (state_at c tr t) = ratio c).
Proof. intros c tr t H. exact (state_inv c tr t H). Qed.
Print Assumptions C10_state_inv.

(* no_stray_strobe: a CSR strobe implies a Wishbone request in this very cycle, a granule state, and
   that granule's select bit; read strobes only without we, write strobes only with we, never both. *)
Theorem C10_no_stray_strobe : forall c tr t, wf c ->
  let o := out_at c tr t in let i := tr t in let s := state_at c tr t in
  (o_r_stb o = true \/ o_w_stb o = true ->
     cyc i = true /\ stb i = true /\ 0 <= cycle s < ratio c /\ Z.testbit (sel i) (cycle s) = true) /\
  (o_r_stb o = true -> we i = false) /\ (o_w_stb o = true -> we i = true) /\
  o_r_stb o && o_w_stb o = false.
Proof.
  intros c tr t H o i s. subst o i s. unfold out_at.
  split; [apply no_stray_strobe; auto | apply strobe_direction; auto].
Qed.
Print Assumptions C10_no_stray_strobe.

(* The acknowledge is one cycle long whatever the initiator does ... *)
Theorem C10_ack_one_cycle : forall c tr t,
  o_ack (out_at c tr t) = true -> o_ack (out_at c tr (S t)) = false.
Proof. intros c tr t H. unfold out_at in *. rewrite out_ack in *. cbn [state_at]. apply ack_one_cycle; auto. Qed.
Print Assumptions C10_ack_one_cycle.

(* ... and is only ever raised by a request seen in the last sequencer state. *)
Theorem C10_ack_cause : forall c tr t, wf c -> o_ack (out_at c tr (S t)) = true ->
  o_ack (out_at c tr t) = false /\ cyc (tr t) = true /\ stb (tr t) = true /\
  cycle (state_at c tr t) = ratio c.
Proof.
  intros c tr t H Ha. unfold out_at in *. rewrite out_ack in *. cbn [state_at] in Ha.
  apply ack_cause; auto. apply state_inv; auto.
Qed.
Print Assumptions C10_ack_cause.

(* Without a request (cyc without stb, stb without cyc, neither) an idle bridge does nothing. *)
Theorem C10_idle_stays_idle : forall c tr t, wf c ->
  idle (state_at c tr t) -> cyc (tr t) && stb (tr t) = false ->
  state_at c tr (S t) = state_at c tr t /\
  o_r_stb (out_at c tr t) = false /\ o_w_stb (out_at c tr t) = false /\ o_ack (out_at c tr t) = false.
Proof.
  intros c tr t H Hi Hn. split; [cbn [state_at]; apply idle_stays_idle; auto|].
  unfold out_at. rewrite out_spec by auto. cbn [o_r_stb o_w_stb o_ack]. unfold in_case, act.
  rewrite Hn. destruct Hi as (_ & Ha). auto.
Qed.
Print Assumptions C10_idle_stays_idle.

(* ---------------------------------------------------------------------------------------------- *)
(* transfer: protocol premise stated on the trace                                                 *)
(* ---------------------------------------------------------------------------------------------- *)

(* Premises: the bridge is idle at t0 (cycle = 0, no acknowledge pending) and the initiator asserts
   cyc & stb at t0 and holds cyc stb we adr sel dat_w unchanged on [t0, t0+ratio] (`req_held`).
   Nothing is assumed about r_data, nor about any input after t0+ratio.  With R = ratio:
   1. for every granule i < R, in cycle t0+i: CSR address = adr*R + i (mod 2^csr_aw), read strobe
      = sel_i & ~we, write strobe = sel_i & we, w_data = lane i of dat_w  (one access per selected
      granule, ascending order, none for unselected ones);
   2. no CSR strobe in cycle t0+R;
   3. ack = 0 on [t0, t0+R], 1 in cycle t0+R+1, 0 in cycle t0+R+2;
   4. in the acknowledge cycle, lane i of dat_r is the CSR read data sampled in cycle t0+i+1 (the
      cycle after granule i's strobe: CSR reads are registered), for every lane;
   5. the bridge is idle again at t0+R+2, so the theorem applies again to a back-to-back or later
      transfer. *)
Theorem C10_transfer : forall c tr t0,
  wf c -> idle (state_at c tr t0) -> req_held tr t0 (nratio c) ->
  let x := tr t0 in
  let R := nratio c in
  (forall i, (i < R)%nat ->
     let o := out_at c tr (t0 + i) in
     o_addr o = trunc (c_caw c) (adr x * ratio c + Z.of_nat i) /\
     o_r_stb o = Z.testbit (sel x) (Z.of_nat i) && negb (we x) /\
     o_w_stb o = Z.testbit (sel x) (Z.of_nat i) && we x /\
     o_w_data o = lane c (Z.of_nat i) (dat_w x)) /\
  (o_r_stb (out_at c tr (t0 + R)) = false /\ o_w_stb (out_at c tr (t0 + R)) = false) /\
  (forall j, (j <= R)%nat -> o_ack (out_at c tr (t0 + j)) = false) /\
  o_ack (out_at c tr (t0 + R + 1)) = true /\
  o_ack (out_at c tr (t0 + R + 2)) = false /\
  (forall i, (i < R)%nat ->
     lane c (Z.of_nat i) (o_dat_r (out_at c tr (t0 + R + 1))) =
     trunc (c_g c) (r_data (tr (t0 + i + 1)%nat))) /\
  idle (state_at c tr (t0 + R + 2)).
Proof. exact transfer. Qed.
Print Assumptions C10_transfer.

(* `nratio c` really is the ratio, and the bridge is idle after reset. *)
Theorem C10_nratio : forall c, wf c -> Z.of_nat (nratio c) = ratio c.
Proof. exact nratio_eq. Qed.
Print Assumptions C10_nratio.

Theorem C10_idle_after_reset : forall c tr, idle (state_at c tr 0).
Proof. intros c tr. split; reflexivity. Qed.
Print Assumptions C10_idle_after_reset.

(* In a constructed bridge (Wishbone address width = CSR address width - r) the truncation in
   clause 1 is vacuous: the CSR address is exactly adr * ratio + i. *)
Theorem C10_address_exact : forall k g a i, 1 <= k_caw k -> construct k = Ok g ->
  0 <= a < 2 ^ g_wb_aw g -> 0 <= i < ratio (cfg_of k g) ->
  trunc (c_caw (cfg_of k g)) (a * ratio (cfg_of k g) + i) = a * ratio (cfg_of k g) + i.
Proof.
  intros k g a i Hk Hc Ha Hi. destruct (construct_ok k g Hk Hc) as (_ & _ & Hr & _ & Hle & Eg & _).
  rewrite Eg in Ha. cbn [g_wb_aw] in Ha. unfold ratio, cfg_of in *. cbn [c_r c_caw] in *.
  apply addr_no_wrap; lia.
Qed.
Print Assumptions C10_address_exact.

(* The finite runs executed by the correspondence engine are prefixes of the trace semantics. *)
Theorem C10_run_is_trace : forall c is d t, (t < length is)%nat ->
  nth_error (run c init is) t = Some (out_at c (fun n => nth n is d) t).
Proof. exact run_is_out_at. Qed.
Print Assumptions C10_run_is_trace.

(* ---------------------------------------------------------------------------------------------- *)
(* non-vacuity                                                                                    *)
(* ---------------------------------------------------------------------------------------------- *)

(* 8-bit CSR bus with 4 address bits behind a 32-bit Wishbone bus: ratio 4 *)
Definition ex_k : kcfg := {| k_caw := 4; k_cdw := 8; k_dw := Some 32 |}.
Definition ex_c : cfg := {| c_r := 2; c_caw := 4; c_g := 8 |}.
Definition rq (c s w : bool) (a se d r : Z) : inp :=
  {| cyc := c; stb := s; we := w; adr := a; sel := se; dat_w := d; r_data := r |}.
(* cycle 0: cyc without stb; cycles 1..5: a read of word 2 with select 1011 held (t0 = 1, ratio 4);
   cycle 6: acknowledge cycle, the initiator already presents the next request (a write with select
   0110, back-to-back from cycle 7, held on [7, 11]); cycle 12: its acknowledge cycle. *)
Definition ex_list : list inp :=
  [ rq true false true 3 15 0 0x99;
    rq true true false 2 11 0xAABBCCDD 0x10; rq true true false 2 11 0xAABBCCDD 0x11;
    rq true true false 2 11 0xAABBCCDD 0x12; rq true true false 2 11 0xAABBCCDD 0x13;
    rq true true false 2 11 0xAABBCCDD 0x14;
    rq true true true 1 6 0x11223344 0x15;
    rq true true true 1 6 0x11223344 0x16; rq true true true 1 6 0x11223344 0x17;
    rq true true true 1 6 0x11223344 0x18; rq true true true 1 6 0x11223344 0x19;
    rq true true true 1 6 0x11223344 0x1A;
    rq false false false 0 0 0 0x1B; rq false false false 0 0 0 0x1C ].
Definition ex_tr (n : nat) : inp := nth n ex_list (rq false false false 0 0 0 0).

Example C10_nonvacuous_premises :
  construct ex_k = Ok {| g_r := 2; g_wb_aw := 2; g_wb_dw := 32; g_gran := 8; g_mm_aw := 4; g_mm_dw := 8;
                         g_win_start := 0; g_win_stop := 16; g_win_ratio := 1 |} /\
  cfg_of ex_k {| g_r := 2; g_wb_aw := 2; g_wb_dw := 32; g_gran := 8; g_mm_aw := 4; g_mm_dw := 8;
                 g_win_start := 0; g_win_stop := 16; g_win_ratio := 1 |} = ex_c /\
  wf ex_c /\ nratio ex_c = 4%nat /\
  idle (state_at ex_c ex_tr 1) /\ req_held ex_tr 1 (nratio ex_c) /\
  idle (state_at ex_c ex_tr 7) /\ req_held ex_tr 7 (nratio ex_c).
Proof.
  assert (N : nratio ex_c = 4%nat) by (vm_compute; reflexivity).
  assert (Hh : forall t0, (t0 = 1 \/ t0 = 7)%nat -> req_held ex_tr t0 4).
  { intros t0 [-> | ->]; (split; [reflexivity|]; split; [reflexivity|];
      intros [|[|[|[|[|j]]]]] Hj; [vm_compute; repeat split; reflexivity ..|lia]). }
  rewrite N.
  split; [vm_compute; reflexivity|]. split; [vm_compute; reflexivity|].
  split; [unfold wf, ex_c; cbn; lia|]. split; [reflexivity|].
  split; [split; vm_compute; reflexivity|]. split; [apply Hh; auto|].
  split; [split; vm_compute; reflexivity|]. apply Hh; auto.
Qed.

(* what the two transfers look like at the ports: [ack; dat_r; csr addr; r_stb; w_stb; w_data] *)
Example C10_nonvacuous_trace :
  map (fun o => (o_ack o, o_dat_r o, o_addr o, (o_r_stb o, o_w_stb o), o_w_data o)) (run ex_c init ex_list) =
  [ (false, 0, 12, (false, false), 0);
    (false, 0, 8, (true, false), 0xDD); (false, 0, 9, (true, false), 0xCC);
    (false, 0x11, 10, (false, false), 0xBB); (false, 0x1211, 11, (true, false), 0xAA);
    (false, 0x131211, 8, (false, false), 0);
    (true, 0x14131211, 4, (false, false), 0);
    (false, 0x15131211, 4, (false, false), 0x44); (false, 0x15131211, 5, (false, true), 0x33);
    (false, 0x15131217, 6, (false, true), 0x22); (false, 0x15131817, 7, (false, false), 0x11);
    (false, 0x15191817, 4, (false, false), 0);
    (true, 0x1A191817, 0, (false, false), 0);
    (false, 0x1A191817, 0, (false, false), 0) ].
Proof. vm_compute. reflexivity. Qed.

(* refused arguments: CSR address narrower than the granule index, ratio 3, 128-bit Wishbone,
   12-bit CSR, Wishbone narrower than CSR; and the smallest legal bridge (ratio 1) *)
Example C10_nonvacuous_constructor :
  construct {| k_caw := 1; k_cdw := 8; k_dw := Some 32 |} = Err ValueError /\
  construct {| k_caw := 4; k_cdw := 8; k_dw := Some 24 |} = Err ValueError /\
  construct {| k_caw := 4; k_cdw := 8; k_dw := Some 128 |} = Err ValueError /\
  construct {| k_caw := 4; k_cdw := 12; k_dw := None |} = Err ValueError /\
  construct {| k_caw := 4; k_cdw := 16; k_dw := Some 8 |} = Err ValueError /\
  construct {| k_caw := 1; k_cdw := 64; k_dw := None |} =
    Ok {| g_r := 0; g_wb_aw := 1; g_wb_dw := 64; g_gran := 64; g_mm_aw := 1; g_mm_dw := 64;
          g_win_start := 0; g_win_stop := 2; g_win_ratio := 1 |}.
Proof. vm_compute. repeat split; reflexivity. Qed.

(* ============================================================================================== *)
(* atomic_through_mux: the bridge in front of a csr.Multiplexer                                   *)
(* ============================================================================================== *)

(* The composite machine is Model/BridgeMuxSpec.v: the two existing models wired port to port (bridge
   addr / r_stb / w_stb / w_data -> multiplexer bus; multiplexer r_data -> bridge), one clock.  Nothing
   new is modelled.  `bc` / `mc` are the bridge / multiplexer configurations, `fits bc mc` says the
   bridge's granule is the multiplexer's data width, `tr : nat -> cinp` is an arbitrary infinite trace of
   composite inputs (the Wishbone initiator's signals and every register's element.r_data, per cycle),
   `wb_out_at` / `elem_out_at` are the Wishbone-side / element-side ports in cycle t.

   Common premises (the held-transfer premise of C10_transfer, on the composite): the bridge half is
   idle at t0; the initiator holds cyc stb we adr sel dat_w on [t0, t0+R] (`req_held (wb_trace tr)`
   mentions only these six signals); the addressed word lies inside the CSR address space
   (`word_in_range`, automatic for a constructed bridge by C10_address_exact); register number k of the
   multiplexer lies entirely inside the addressed word (`reg_in_word`) and all of ITS granules are
   selected (`reg_selected`; the select bits of the other granules, which may hit other registers or
   nothing, are arbitrary).  Nothing is assumed about the register values, about what the other
   granules of the word hit, about the multiplexer's history before t0, or about the shadow sizes.
   gf = index within the word of the register's first granule, ge = index after its last one. *)
Import Model.Mux Model.MuxSpec Model.BridgeMuxSpec Proofs.BridgeMux.

(* WRITE: "write side effects have taken place by the time the acknowledge is seen; multi-granule
   registers are written atomically".
   1. gf < ge <= R;
   2. the register's w_stb is up in cycle t0+ge - the cycle after the granule write to its last
      address - and in no other cycle of [t0, t0+R+2]; since ge <= R this is strictly before the
      acknowledge cycle t0+R+1;
   3. in that cycle its w_data is the concatenation of lanes gf .. ge-1 of dat_w clipped to the
      register width (`assemble`, read bit by bit by C05_assemble_is_concatenation; closed form below);
   4. ack = 0 on [t0, t0+R] and 1 in cycle t0+R+1;
   5. the bridge half is idle again at t0+R+2 (it is idle out of reset, C10_idle_after_reset through
      C10_composite_decomposes), so the theorem applies again to a back-to-back or later transfer. *)
Theorem C10_atomic_write_through_mux : forall bc mc tr t0 k r,
  wf bc -> wf_cfg mc -> fits bc mc ->
  idle (fst (cstate_at bc mc tr t0)) -> req_held (wb_trace tr) t0 (nratio bc) ->
  let x := tr t0 in
  let R := nratio bc in
  word_in_range bc (x_adr x) ->
  nth_error (c_regs mc) k = Some r -> reg_in_word bc (x_adr x) r -> reg_selected bc (x_adr x) (x_sel x) r ->
  x_we x = true -> r_wr r = true ->
  let gf := Z.to_nat (r_start r - x_adr x * ratio bc) in
  let ge := Z.to_nat (r_stop r - x_adr x * ratio bc) in
  (Z.of_nat gf = r_start r - x_adr x * ratio bc /\ Z.of_nat ge = r_stop r - x_adr x * ratio bc /\
   (gf < ge <= R)%nat) /\
  (forall j, (j <= R + 2)%nat ->
     nth_error (o_wstb (elem_out_at bc mc tr (t0 + j))) k = Some (j =? ge)%nat) /\
  nth_error (o_wdata (elem_out_at bc mc tr (t0 + ge))) k =
    Some (assemble (c_dw mc) (r_width r) (fun j => lane bc (Z.of_nat gf + j) (x_dat_w x))
                   (Z.to_nat (reg_len r))) /\
  (forall j, (j <= R)%nat -> o_ack (wb_out_at bc mc tr (t0 + j)) = false) /\
  o_ack (wb_out_at bc mc tr (t0 + R + 1)) = true /\
  idle (fst (cstate_at bc mc tr (t0 + R + 2))).
Proof. exact atomic_write_through_mux. Qed.
Print Assumptions C10_atomic_write_through_mux.

(* closed form of clause 3: n lanes starting at lane o, clipped to a width they cover (the memory map
   gives a register at least ceil(width / data_width) addresses), are the width-bit field of dat_w
   starting at lane o *)
Theorem C10_lanes_concat : forall bc o width z n,
  0 < c_g bc -> 0 <= o -> 0 <= width -> width <= Z.of_nat n * c_g bc ->
  assemble (c_g bc) width (fun j => lane bc (o + j) z) n = slice (o * c_g bc) width z.
Proof. exact lanes_concat. Qed.
Print Assumptions C10_lanes_concat.

(* READ: "multi-granule registers are read atomically".
   1. gf < ge <= R;
   2. the register's r_stb (its read side effect) is up in cycle t0+gf - the cycle in which its first
      granule is presented - and in no other cycle of [t0, t0+R+1];
   3. in the acknowledge cycle, lane i of dat_r, for EVERY granule i of the register, is word i-gf of
      the ONE value the register presented in cycle t0+gf, whatever it presents in any other cycle
      (`word dw width j v` = bits [j*dw, min(width, (j+1)*dw)) of v);
   4. ack = 0 on [t0, t0+R] and 1 in cycle t0+R+1;
   5. the bridge half is idle again at t0+R+2 (it is idle out of reset, C10_idle_after_reset through
      C10_composite_decomposes), so the theorem applies again to a back-to-back or later transfer. *)
Theorem C10_atomic_read_through_mux : forall bc mc tr t0 k r,
  wf bc -> wf_cfg mc -> fits bc mc ->
  idle (fst (cstate_at bc mc tr t0)) -> req_held (wb_trace tr) t0 (nratio bc) ->
  let x := tr t0 in
  let R := nratio bc in
  word_in_range bc (x_adr x) ->
  nth_error (c_regs mc) k = Some r -> reg_in_word bc (x_adr x) r -> reg_selected bc (x_adr x) (x_sel x) r ->
  x_we x = false -> r_rd r = true ->
  let gf := Z.to_nat (r_start r - x_adr x * ratio bc) in
  let ge := Z.to_nat (r_stop r - x_adr x * ratio bc) in
  (Z.of_nat gf = r_start r - x_adr x * ratio bc /\ Z.of_nat ge = r_stop r - x_adr x * ratio bc /\
   (gf < ge <= R)%nat) /\
  (forall j, (j <= R + 1)%nat ->
     nth_error (o_rstb (elem_out_at bc mc tr (t0 + j))) k = Some (j =? gf)%nat) /\
  (forall i, (gf <= i < ge)%nat ->
     lane bc (Z.of_nat i) (o_dat_r (wb_out_at bc mc tr (t0 + R + 1))) =
     word (c_dw mc) (r_width r) (Z.of_nat i - Z.of_nat gf)
          (trunc (r_width r) (nth k (x_rvals (tr (t0 + gf)%nat)) 0))) /\
  (forall j, (j <= R)%nat -> o_ack (wb_out_at bc mc tr (t0 + j)) = false) /\
  o_ack (wb_out_at bc mc tr (t0 + R + 1)) = true /\
  idle (fst (cstate_at bc mc tr (t0 + R + 2))).
Proof. exact atomic_read_through_mux. Qed.
Print Assumptions C10_atomic_read_through_mux.

(* The special case the clause is usually read as: the word holds exactly one register, which fills
   it (`fills_word`), and every granule is selected (`all_selected`).  The write strobe comes in cycle
   t0+R with w_data = dat_w clipped to the register width; the read strobe comes in cycle t0 and
   every lane of dat_r is the corresponding word of the value presented in cycle t0. *)
Theorem C10_atomic_write_whole_word : forall bc mc tr t0 k r,
  wf bc -> wf_cfg mc -> fits bc mc ->
  idle (fst (cstate_at bc mc tr t0)) -> req_held (wb_trace tr) t0 (nratio bc) ->
  let x := tr t0 in
  let R := nratio bc in
  word_in_range bc (x_adr x) ->
  nth_error (c_regs mc) k = Some r -> fills_word bc (x_adr x) r -> all_selected bc (x_sel x) ->
  x_we x = true -> r_wr r = true -> r_width r <= ratio bc * c_dw mc ->
  (forall j, (j <= R + 2)%nat ->
     nth_error (o_wstb (elem_out_at bc mc tr (t0 + j))) k = Some (j =? R)%nat) /\
  nth_error (o_wdata (elem_out_at bc mc tr (t0 + R))) k = Some (trunc (r_width r) (x_dat_w x)) /\
  (forall j, (j <= R)%nat -> o_ack (wb_out_at bc mc tr (t0 + j)) = false) /\
  o_ack (wb_out_at bc mc tr (t0 + R + 1)) = true /\
  idle (fst (cstate_at bc mc tr (t0 + R + 2))).
Proof. exact atomic_write_whole_word. Qed.
Print Assumptions C10_atomic_write_whole_word.

Theorem C10_atomic_read_whole_word : forall bc mc tr t0 k r,
  wf bc -> wf_cfg mc -> fits bc mc ->
  idle (fst (cstate_at bc mc tr t0)) -> req_held (wb_trace tr) t0 (nratio bc) ->
  let x := tr t0 in
  let R := nratio bc in
  word_in_range bc (x_adr x) ->
  nth_error (c_regs mc) k = Some r -> fills_word bc (x_adr x) r -> all_selected bc (x_sel x) ->
  x_we x = false -> r_rd r = true ->
  (forall j, (j <= R + 1)%nat ->
     nth_error (o_rstb (elem_out_at bc mc tr (t0 + j))) k = Some (j =? 0)%nat) /\
  (forall i, (i < R)%nat ->
     lane bc (Z.of_nat i) (o_dat_r (wb_out_at bc mc tr (t0 + R + 1))) =
     word (c_dw mc) (r_width r) (Z.of_nat i) (trunc (r_width r) (nth k (x_rvals x) 0))) /\
  (forall j, (j <= R)%nat -> o_ack (wb_out_at bc mc tr (t0 + j)) = false) /\
  o_ack (wb_out_at bc mc tr (t0 + R + 1)) = true /\
  idle (fst (cstate_at bc mc tr (t0 + R + 2))).
Proof. exact atomic_read_whole_word. Qed.
Print Assumptions C10_atomic_read_whole_word.

(* The composite decomposes: its bridge half is the bridge model run over the inputs it actually
   sees (so every pure-bridge theorem above applies to it, with r_data := the multiplexer's r_data),
   its multiplexer half is the multiplexer model run over the bridge's CSR-side outputs (so C04/C05
   apply to it). *)
Theorem C10_composite_decomposes : forall bc mc tr t,
  fst (cstate_at bc mc tr t) = B.state_at bc (btr bc mc tr) t /\
  snd (cstate_at bc mc tr t) = M.state_after mc (M.init mc) (map (mtr bc mc tr) (seq 0 t)) /\
  wb_out_at bc mc tr t = B.out_at bc (btr bc mc tr) t /\
  r_data (btr bc mc tr t) = bus_rdata mc (snd (cstate_at bc mc tr t)) /\
  mtr bc mc tr t = mux_of (B.out_at bc (btr bc mc tr) t) (tr t) /\
  elem_out_at bc mc tr t = M.out mc (snd (cstate_at bc mc tr t)) (mtr bc mc tr t).
Proof.
  intros bc mc tr t. split; [apply fst_cstate|]. split; [apply snd_cstate|].
  split; [apply wb_out_is_out_at|]. split; [reflexivity|]. split; [apply mtr_eq|reflexivity].
Qed.
Print Assumptions C10_composite_decomposes.

Theorem C10_composite_idle_after_reset : forall bc mc tr, idle (fst (cstate_at bc mc tr 0)).
Proof. intros bc mc tr. split; reflexivity. Qed.
Print Assumptions C10_composite_idle_after_reset.

(* finite runs of the composite (used in the Example below) are prefixes of the trace semantics *)
Theorem C10_crun_is_trace : forall bc mc xs d t, (t < length xs)%nat ->
  nth_error (crun bc mc (cinit mc) xs) t =
  Some (wb_out_at bc mc (fun n => nth n xs d) t, elem_out_at bc mc (fun n => nth n xs d) t).
Proof. exact crun_is_out_at. Qed.
Print Assumptions C10_crun_is_trace.

(* ---------------------------------------------------------------------------------------------- *)
(* non-vacuity: 8-bit CSR bus behind a 32-bit Wishbone bus (ratio 4); a 24-bit register at CSR     *)
(* addresses 4..6 and an 8-bit one at address 7 share Wishbone word 1                               *)
(* ---------------------------------------------------------------------------------------------- *)
Definition mx_bc : B.cfg := {| c_r := 2; c_caw := 4; c_g := 8 |}.
Definition mx_r0 : reg := {| r_start := 4; r_stop := 7; r_width := 24; r_rd := true; r_wr := true |}.
Definition mx_r1 : reg := {| r_start := 7; r_stop := 8; r_width := 8; r_rd := true; r_wr := true |}.
Definition mx_mc : M.cfg := {| c_dw := 8; c_regs := [mx_r0; mx_r1]; c_Sr := 4; c_Sw := 4 |}.
Definition cx (c s w : bool) (a se d : Z) (vs : list Z) : cinp :=
  {| x_cyc := c; x_stb := s; x_we := w; x_adr := a; x_sel := se; x_dat_w := d; x_rvals := vs |}.
(* cycle 0: cyc without stb; cycles 1..5: a write of 0xAABBCCDD to word 1, all granules selected
   (t0 = 1); cycle 6: its acknowledge cycle, the initiator already presents a read of word 1, held on
   [7, 11] (t0 = 7); cycle 12: its acknowledge cycle.  Both registers present a different value in
   every cycle. *)
Definition mx_list : list cinp :=
  [ cx true false false 0 0 0 [1; 2];
    cx true true true 1 15 0xAABBCCDD [0x101010; 0x20]; cx true true true 1 15 0xAABBCCDD [0x101011; 0x21];
    cx true true true 1 15 0xAABBCCDD [0x101012; 0x22]; cx true true true 1 15 0xAABBCCDD [0x101013; 0x23];
    cx true true true 1 15 0xAABBCCDD [0x101014; 0x24];
    cx true true false 1 15 0 [0x101015; 0x25];
    cx true true false 1 15 0 [0x111111; 0x31]; cx true true false 1 15 0 [0x222222; 0x32];
    cx true true false 1 15 0 [0x333333; 0x33]; cx true true false 1 15 0 [0x444444; 0x34];
    cx true true false 1 15 0 [0x555555; 0x35];
    cx false false false 0 0 0 [0x666666; 0x36]; cx false false false 0 0 0 [0x777777; 0x37] ].
Definition mx_tr (n : nat) : cinp := nth n mx_list (cx false false false 0 0 0 []).

Lemma mx_wf : wf_cfg mx_mc.
Proof.
  split; [reflexivity|]. split; [cbn; lia|].
  split; exists 2; (split; [reflexivity|]); (split; [lia|]);
    cbn [rregs wregs mx_mc c_regs filter mx_r0 mx_r1 r_rd r_wr In]; intros r H;
    repeat (destruct H as [<-|H]; [vm_compute; discriminate|]); contradiction.
Qed.

(* every premise of the two theorems holds, for both registers, on this trace *)
Example C10_mux_nonvacuous_premises :
  mk_cfg 8 [mx_r0; mx_r1] None = Some mx_mc /\
  wf mx_bc /\ wf_cfg mx_mc /\ fits mx_bc mx_mc /\ nratio mx_bc = 4%nat /\
  (* the write, t0 = 1 *)
  idle (fst (cstate_at mx_bc mx_mc mx_tr 1)) /\ req_held (wb_trace mx_tr) 1 (nratio mx_bc) /\
  x_we (mx_tr 1) = true /\ word_in_range mx_bc (x_adr (mx_tr 1)) /\
  (* the read, t0 = 7 *)
  idle (fst (cstate_at mx_bc mx_mc mx_tr 7)) /\ req_held (wb_trace mx_tr) 7 (nratio mx_bc) /\
  x_we (mx_tr 7) = false /\ word_in_range mx_bc (x_adr (mx_tr 7)) /\
  (* both registers lie in word 1 and are selected; neither fills the word *)
  nth_error (c_regs mx_mc) 0 = Some mx_r0 /\ nth_error (c_regs mx_mc) 1 = Some mx_r1 /\
  reg_in_word mx_bc 1 mx_r0 /\ reg_in_word mx_bc 1 mx_r1 /\
  reg_selected mx_bc 1 15 mx_r0 /\ reg_selected mx_bc 1 15 mx_r1.
Proof.
  assert (N : nratio mx_bc = 4%nat) by (vm_compute; reflexivity).
  assert (Hh : forall t0, (t0 = 1 \/ t0 = 7)%nat -> req_held (wb_trace mx_tr) t0 4).
  { intros t0 [-> | ->]; (split; [reflexivity|]; split; [reflexivity|];
      intros [|[|[|[|[|j]]]]] Hj; [vm_compute; repeat split; reflexivity ..|lia]). }
  assert (Hs : forall r, r = mx_r0 \/ r = mx_r1 -> reg_selected mx_bc 1 15 r).
  { intros r Hr i Hi.
    assert (Ei : i = 0 \/ i = 1 \/ i = 2 \/ i = 3) 
      by (destruct Hr as [-> | ->]; unfold ratio in Hi; cbn [mx_r0 mx_r1 r_start r_stop mx_bc c_r] in Hi;
          change (2 ^ 2) with 4 in Hi; lia).
    destruct Ei as [-> | [-> | [-> | ->]]]; reflexivity. }
  rewrite N.
  split; [vm_compute; reflexivity|]. split; [unfold wf, mx_bc; cbn; lia|]. split; [exact mx_wf|].
  split; [reflexivity|]. split; [reflexivity|].
  split; [split; vm_compute; reflexivity|]. split; [apply Hh; auto|]. split; [reflexivity|].
  split; [vm_compute; split; discriminate|].
  split; [split; vm_compute; reflexivity|]. split; [apply Hh; auto|]. split; [reflexivity|].
  split; [vm_compute; split; discriminate|].
  split; [reflexivity|]. split; [reflexivity|].
  split; [vm_compute; split; discriminate|]. split; [vm_compute; split; discriminate|].
  split; apply Hs; auto.
Qed.

(* The ports of the composite on this trace, per cycle:
   ((ack, dat_r), (csr addr, r_stb, w_stb, w_data), (mux r_data, elem r_stb, elem w_stb, elem w_data)).
   WRITE (t0 = 1): register 0 (gf = 0, ge = 3) gets w_stb in cycle 4 with w_data 0xBBCCDD, register 1
   (gf = 3, ge = 4) in cycle 5 with w_data 0xAA; the acknowledge is in cycle 6.
   READ (t0 = 7): register 0 gets r_stb in cycle 7, register 1 in cycle 10; in the acknowledge cycle 12
   dat_r = 0x34111111: lanes 0..2 are the value 0x111111 register 0 presented in cycle 7 (not 0x222222,
   0x333333 of the cycles in which its 2nd and 3rd granule were read), lane 3 is the value 0x34
   register 1 presented in cycle 10. *)
Example C10_mux_nonvacuous_trace :
  map (fun o => ((o_ack (fst o), o_dat_r (fst o)),
                 (o_addr (fst o), o_r_stb (fst o), o_w_stb (fst o), o_w_data (fst o)),
                 (o_rdata (snd o), o_rstb (snd o), o_wstb (snd o), o_wdata (snd o))))
      (crun mx_bc mx_mc (cinit mx_mc) mx_list) =
  [ ((false, 0), (0, false, false, 0), (0, [false; false], [false; false], [0; 0]));
    ((false, 0), (4, false, true, 0xDD), (0, [false; false], [false; false], [0; 0]));
    ((false, 0), (5, false, true, 0xCC), (0, [false; false], [false; false], [0xDD; 0]));
    ((false, 0), (6, false, true, 0xBB), (0, [false; false], [false; false], [0xCCDD; 0]));
    ((false, 0), (7, false, true, 0xAA), (0, [false; false], [true; false], [0xBBCCDD; 0]));
    ((false, 0), (4, false, false, 0), (0, [false; false], [false; true], [0xBBCCDD; 0xAA]));
    ((true, 0), (4, false, false, 0), (0, [false; false], [false; false], [0xBBCCDD; 0xAA]));
    ((false, 0), (4, true, false, 0), (0, [true; false], [false; false], [0xBBCCDD; 0xAA]));
    ((false, 0), (5, true, false, 0), (0x11, [false; false], [false; false], [0xBBCCDD; 0xAA]));
    ((false, 0x11), (6, true, false, 0), (0x11, [false; false], [false; false], [0xBBCCDD; 0xAA]));
    ((false, 0x1111), (7, true, false, 0), (0x11, [false; true], [false; false], [0xBBCCDD; 0xAA]));
    ((false, 0x111111), (4, false, false, 0), (0x34, [false; false], [false; false], [0xBBCCDD; 0xAA]));
    ((true, 0x34111111), (0, false, false, 0), (0, [false; false], [false; false], [0xBBCCDD; 0xAA]));
    ((false, 0x34111111), (0, false, false, 0), (0, [false; false], [false; false], [0xBBCCDD; 0xAA])) ].
Proof. vm_compute. reflexivity. Qed.

(* and the right-hand sides of the theorems' conclusions, for these instances *)
Example C10_mux_nonvacuous_rhs :
  assemble 8 24 (fun j => lane mx_bc (0 + j) 0xAABBCCDD) 3 = 0xBBCCDD /\
  assemble 8 8 (fun j => lane mx_bc (3 + j) 0xAABBCCDD) 1 = 0xAA /\
  map (fun i => word 8 24 (i - 0) (trunc 24 (nth 0 (x_rvals (mx_tr 7)) 0))) [0; 1; 2] = [0x11; 0x11; 0x11] /\
  word 8 8 (3 - 3) (trunc 8 (nth 1 (x_rvals (mx_tr 10)) 0)) = 0x34 /\
  map (fun i => lane mx_bc i 0x34111111) [0; 1; 2; 3] = [0x11; 0x11; 0x11; 0x34].
Proof. vm_compute. repeat split; reflexivity. Qed.
