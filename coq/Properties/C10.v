(* C10 — Wishbone-to-CSR bridge performs each transfer exactly once, in order, on time.
   Statements only; proofs live in Proofs/WbCsrBridge.v.  Pure bridge (the CSR side is any
   environment: r_data is an arbitrary input of the trace); the composition with the CSR multiplexer
   (atomic_through_mux) is a separate obligation and is NOT stated here.

   Conventions: `c` is the hardware configuration (ratio 2^(c_r c), CSR address width, granule width),
   `wf c` only says these three numbers are non-negative; `tr : nat -> inp` is an arbitrary infinite
   input trace; `state_at c tr t` / `out_at c tr t` are the registers / ports in cycle t. *)
From Coq Require Import ZArith List Bool Lia.
From Soc Require Import Lib.Bits Model.WbCsrBridge Proofs.WbCsrBridge.
Import ListNotations.
Open Scope Z_scope.

(* ---------------------------------------------------------------------------------------------- *)
(* Constructor                                                                                    *)
(* ---------------------------------------------------------------------------------------------- *)

(* exact_log2 raises exactly on the non-powers of two, and returns the exponent otherwise. *)
Theorem C10_exact_log2_spec : forall n,
  (forall k, exact_log2 n = Some k -> 0 <= k /\ n = 2 ^ k) /\
  (exact_log2 n = None -> forall k, 0 <= k -> n <> 2 ^ k).
Proof. intros n. split; [intros k; apply exact_log2_some | apply exact_log2_none]. Qed.
Print Assumptions C10_exact_log2_spec.

(* Whatever the constructor accepts has the property's geometry: both widths in {8,16,32,64}, the
   Wishbone width is the CSR width times 2^r with 0 <= r <= 3, r <= CSR address width, the Wishbone
   address width is the CSR address width minus r, granularity = CSR data width, and the CSR map is
   published as the single window [0, 2^addr_width) of a map with the CSR geometry. *)
Theorem C10_construct_ok : forall k g, 1 <= k_caw k -> construct k = Ok g ->
  let dw := match k_dw k with None => k_cdw k | Some d => d end in
  legal_w (k_cdw k) = true /\ legal_w dw = true /\
  0 <= g_r g <= 3 /\ dw = k_cdw k * 2 ^ g_r g /\ g_r g <= k_caw k /\
  g = {| g_r := g_r g; g_wb_aw := k_caw k - g_r g; g_wb_dw := dw; g_gran := k_cdw k;
         g_mm_aw := k_caw k; g_mm_dw := k_cdw k;
         g_win_start := 0; g_win_stop := 2 ^ k_caw k; g_win_ratio := 1 |} /\
  wf (cfg_of k g).
Proof. exact construct_ok. Qed.
Print Assumptions C10_construct_ok.

(* Every geometry in the property's domain is accepted (explicit or defaulted data_width). *)
Theorem C10_construct_complete : forall caw cdw r,
  legal_w cdw = true -> legal_w (cdw * 2 ^ r) = true -> 0 <= r <= caw -> 1 <= caw ->
  construct {| k_caw := caw; k_cdw := cdw; k_dw := Some (cdw * 2 ^ r) |} =
    Ok {| g_r := r; g_wb_aw := caw - r; g_wb_dw := cdw * 2 ^ r; g_gran := cdw;
          g_mm_aw := caw; g_mm_dw := cdw; g_win_start := 0; g_win_stop := 2 ^ caw; g_win_ratio := 1 |}.
Proof. exact construct_complete. Qed.
Print Assumptions C10_construct_complete.

Theorem C10_construct_default : forall caw cdw, legal_w cdw = true -> 1 <= caw ->
  construct {| k_caw := caw; k_cdw := cdw; k_dw := None |} =
    Ok {| g_r := 0; g_wb_aw := caw; g_wb_dw := cdw; g_gran := cdw;
          g_mm_aw := caw; g_mm_dw := cdw; g_win_start := 0; g_win_stop := 2 ^ caw; g_win_ratio := 1 |}.
Proof. exact construct_default. Qed.
Print Assumptions C10_construct_default.

(* Every refusal is a ValueError (the TypeError branch of wishbone.Signature is unreachable). *)
Theorem C10_construct_refusal_is_ValueError : forall k e, construct k = Err e -> e = ValueError.
Proof. exact construct_err_value. Qed.
Print Assumptions C10_construct_refusal_is_ValueError.

(* ---------------------------------------------------------------------------------------------- *)
(* All traces, no protocol assumption                                                             *)
(* ---------------------------------------------------------------------------------------------- *)

(* state_inv: the sequencer never leaves [0, ratio]; an acknowledge is only ever pending in the last
   state.  (The register has r+1 bits, so values ratio+1 .. 2*ratio-1 exist but are unreachable.) *)
Theorem C10_state_inv : forall c tr t, wf c ->
  0 <= cycle (state_at c tr t) <= ratio c /\
  (ack (state_at c tr t) = true -> cycle (state_at c tr t) = ratio c).
Proof. intros c tr t H. exact (state_inv c tr t H). Qed.
Print Assumptions C10_state_inv.

(* no_stray_strobe: a CSR strobe implies a Wishbone request in this very cycle, a granule state, and
   that granule's select bit; read strobes only without we, write strobes only with we, never both. *)
Theorem C10_no_stray_strobe : forall c tr t, wf c ->
  let o := out_at c tr t in let i := tr t in let s := state_at c tr t in
  (o_r_stb o = true \/ o_w_stb o = true ->
     cyc i = true /\ stb i = true /\ 0 <= cycle s < ratio c /\ Z.testbit (sel i) (cycle s) = true) /\
  (o_r_stb o = true -> we i = false) /\ (o_w_stb o = true -> we i = true) /\
  o_r_stb o && o_w_stb o = false.
Proof.
  intros c tr t H o i s. subst o i s. unfold out_at.
  split; [apply no_stray_strobe; auto | apply strobe_direction; auto].
Qed.
Print Assumptions C10_no_stray_strobe.

(* The acknowledge is one cycle long whatever the initiator does ... *)
Theorem C10_ack_one_cycle : forall c tr t,
  o_ack (out_at c tr t) = true -> o_ack (out_at c tr (S t)) = false.
Proof. intros c tr t H. unfold out_at in *. rewrite out_ack in *. cbn [state_at]. apply ack_one_cycle; auto. Qed.
Print Assumptions C10_ack_one_cycle.

(* ... and is only ever raised by a request seen in the last sequencer state. *)
Theorem C10_ack_cause : forall c tr t, wf c -> o_ack (out_at c tr (S t)) = true ->
  o_ack (out_at c tr t) = false /\ cyc (tr t) = true /\ stb (tr t) = true /\
  cycle (state_at c tr t) = ratio c.
Proof.
  intros c tr t H Ha. unfold out_at in *. rewrite out_ack in *. cbn [state_at] in Ha.
  apply ack_cause; auto. apply state_inv; auto.
Qed.
Print Assumptions C10_ack_cause.

(* Without a request (cyc without stb, stb without cyc, neither) an idle bridge does nothing. *)
Theorem C10_idle_stays_idle : forall c tr t, wf c ->
  idle (state_at c tr t) -> cyc (tr t) && stb (tr t) = false ->
  state_at c tr (S t) = state_at c tr t /\
  o_r_stb (out_at c tr t) = false /\ o_w_stb (out_at c tr t) = false /\ o_ack (out_at c tr t) = false.
Proof.
  intros c tr t H Hi Hn. split; [cbn [state_at]; apply idle_stays_idle; auto|].
  unfold out_at. rewrite out_spec by auto. cbn [o_r_stb o_w_stb o_ack]. unfold in_case, act.
  rewrite Hn. destruct Hi as (_ & Ha). auto.
Qed.
Print Assumptions C10_idle_stays_idle.

(* ---------------------------------------------------------------------------------------------- *)
(* transfer: protocol premise stated on the trace                                                 *)
(* ---------------------------------------------------------------------------------------------- *)

(* Premises: the bridge is idle at t0 (cycle = 0, no acknowledge pending) and the initiator asserts
   cyc & stb at t0 and holds cyc stb we adr sel dat_w unchanged on [t0, t0+ratio] (`req_held`).
   Nothing is assumed about r_data, nor about any input after t0+ratio.  With R = ratio:
   1. for every granule i < R, in cycle t0+i: CSR address = adr*R + i (mod 2^csr_aw), read strobe
      = sel_i & ~we, write strobe = sel_i & we, w_data = lane i of dat_w  (one access per selected
      granule, ascending order, none for unselected ones);
   2. no CSR strobe in cycle t0+R;
   3. ack = 0 on [t0, t0+R], 1 in cycle t0+R+1, 0 in cycle t0+R+2;
   4. in the acknowledge cycle, lane i of dat_r is the CSR read data sampled in cycle t0+i+1 (the
      cycle after granule i's strobe: CSR reads are registered), for every lane;
   5. the bridge is idle again at t0+R+2, so the theorem applies again to a back-to-back or later
      transfer. *)
Theorem C10_transfer : forall c tr t0,
  wf c -> idle (state_at c tr t0) -> req_held tr t0 (nratio c) ->
  let x := tr t0 in
  let R := nratio c in
  (forall i, (i < R)%nat ->
     let o := out_at c tr (t0 + i) in
     o_addr o = trunc (c_caw c) (adr x * ratio c + Z.of_nat i) /\
     o_r_stb o = Z.testbit (sel x) (Z.of_nat i) && negb (we x) /\
     o_w_stb o = Z.testbit (sel x) (Z.of_nat i) && we x /\
     o_w_data o = lane c (Z.of_nat i) (dat_w x)) /\
  (o_r_stb (out_at c tr (t0 + R)) = false /\ o_w_stb (out_at c tr (t0 + R)) = false) /\
  (forall j, (j <= R)%nat -> o_ack (out_at c tr (t0 + j)) = false) /\
  o_ack (out_at c tr (t0 + R + 1)) = true /\
  o_ack (out_at c tr (t0 + R + 2)) = false /\
  (forall i, (i < R)%nat ->
     lane c (Z.of_nat i) (o_dat_r (out_at c tr (t0 + R + 1))) =
     trunc (c_g c) (r_data (tr (t0 + i + 1)%nat))) /\
  idle (state_at c tr (t0 + R + 2)).
Proof. exact transfer. Qed.
Print Assumptions C10_transfer.

(* `nratio c` really is the ratio, and the bridge is idle after reset. *)
Theorem C10_nratio : forall c, wf c -> Z.of_nat (nratio c) = ratio c.
Proof. exact nratio_eq. Qed.
Print Assumptions C10_nratio.

Theorem C10_idle_after_reset : forall c tr, idle (state_at c tr 0).
Proof. intros c tr. split; reflexivity. Qed.
Print Assumptions C10_idle_after_reset.

(* In a constructed bridge (Wishbone address width = CSR address width - r) the truncation in
   clause 1 is vacuous: the CSR address is exactly adr * ratio + i. *)
Theorem C10_address_exact : forall k g a i, 1 <= k_caw k -> construct k = Ok g ->
  0 <= a < 2 ^ g_wb_aw g -> 0 <= i < ratio (cfg_of k g) ->
  trunc (c_caw (cfg_of k g)) (a * ratio (cfg_of k g) + i) = a * ratio (cfg_of k g) + i.
Proof.
  intros k g a i Hk Hc Ha Hi. destruct (construct_ok k g Hk Hc) as (_ & _ & Hr & _ & Hle & Eg & _).
  rewrite Eg in Ha. cbn [g_wb_aw] in Ha. unfold ratio, cfg_of in *. cbn [c_r c_caw] in *.
  apply addr_no_wrap; lia.
Qed.
Print Assumptions C10_address_exact.

(* The finite runs executed by the correspondence engine are prefixes of the trace semantics. *)
Theorem C10_run_is_trace : forall c is d t, (t < length is)%nat ->
  nth_error (run c init is) t = Some (out_at c (fun n => nth n is d) t).
Proof. exact run_is_out_at. Qed.
Print Assumptions C10_run_is_trace.

(* ---------------------------------------------------------------------------------------------- *)
(* non-vacuity                                                                                    *)
(* ---------------------------------------------------------------------------------------------- *)

(* 8-bit CSR bus with 4 address bits behind a 32-bit Wishbone bus: ratio 4 *)
Definition ex_k : kcfg := {| k_caw := 4; k_cdw := 8; k_dw := Some 32 |}.
Definition ex_c : cfg := {| c_r := 2; c_caw := 4; c_g := 8 |}.
Definition rq (c s w : bool) (a se d r : Z) : inp :=
  {| cyc := c; stb := s; we := w; adr := a; sel := se; dat_w := d; r_data := r |}.
(* cycle 0: cyc without stb; cycles 1..5: a read of word 2 with select 1011 held (t0 = 1, ratio 4);
   cycle 6: acknowledge cycle, the initiator already presents the next request (a write with select
   0110, back-to-back from cycle 7, held on [7, 11]); cycle 12: its acknowledge cycle. *)
Definition ex_list : list inp :=
  [ rq true false true 3 15 0 0x99;
    rq true true false 2 11 0xAABBCCDD 0x10; rq true true false 2 11 0xAABBCCDD 0x11;
    rq true true false 2 11 0xAABBCCDD 0x12; rq true true false 2 11 0xAABBCCDD 0x13;
    rq true true false 2 11 0xAABBCCDD 0x14;
    rq true true true 1 6 0x11223344 0x15;
    rq true true true 1 6 0x11223344 0x16; rq true true true 1 6 0x11223344 0x17;
    rq true true true 1 6 0x11223344 0x18; rq true true true 1 6 0x11223344 0x19;
    rq true true true 1 6 0x11223344 0x1A;
    rq false false false 0 0 0 0x1B; rq false false false 0 0 0 0x1C ].
Definition ex_tr (n : nat) : inp := nth n ex_list (rq false false false 0 0 0 0).

Example C10_nonvacuous_premises :
  construct ex_k = Ok {| g_r := 2; g_wb_aw := 2; g_wb_dw := 32; g_gran := 8; g_mm_aw := 4; g_mm_dw := 8;
                         g_win_start := 0; g_win_stop := 16; g_win_ratio := 1 |} /\
  cfg_of ex_k {| g_r := 2; g_wb_aw := 2; g_wb_dw := 32; g_gran := 8; g_mm_aw := 4; g_mm_dw := 8;
                 g_win_start := 0; g_win_stop := 16; g_win_ratio := 1 |} = ex_c /\
  wf ex_c /\ nratio ex_c = 4%nat /\
  idle (state_at ex_c ex_tr 1) /\ req_held ex_tr 1 (nratio ex_c) /\
  idle (state_at ex_c ex_tr 7) /\ req_held ex_tr 7 (nratio ex_c).
Proof.
  assert (N : nratio ex_c = 4%nat) by (vm_compute; reflexivity).
  assert (Hh : forall t0, (t0 = 1 \/ t0 = 7)%nat -> req_held ex_tr t0 4).
  { intros t0 [-> | ->]; (split; [reflexivity|]; split; [reflexivity|];
      intros [|[|[|[|[|j]]]]] Hj; [vm_compute; repeat split; reflexivity ..|lia]). }
  rewrite N.
  split; [vm_compute; reflexivity|]. split; [vm_compute; reflexivity|].
  split; [unfold wf, ex_c; cbn; lia|]. split; [reflexivity|].
  split; [split; vm_compute; reflexivity|]. split; [apply Hh; auto|].
  split; [split; vm_compute; reflexivity|]. apply Hh; auto.
Qed.

(* what the two transfers look like at the ports: [ack; dat_r; csr addr; r_stb; w_stb; w_data] *)
Example C10_nonvacuous_trace :
  map (fun o => (o_ack o, o_dat_r o, o_addr o, (o_r_stb o, o_w_stb o), o_w_data o)) (run ex_c init ex_list) =
  [ (false, 0, 12, (false, false), 0);
    (false, 0, 8, (true, false), 0xDD); (false, 0, 9, (true, false), 0xCC);
    (false, 0x11, 10, (false, false), 0xBB); (false, 0x1211, 11, (true, false), 0xAA);
    (false, 0x131211, 8, (false, false), 0);
    (true, 0x14131211, 4, (false, false), 0);
    (false, 0x15131211, 4, (false, false), 0x44); (false, 0x15131211, 5, (false, true), 0x33);
    (false, 0x15131217, 6, (false, true), 0x22); (false, 0x15131817, 7, (false, false), 0x11);
    (false, 0x15191817, 4, (false, false), 0);
    (true, 0x1A191817, 0, (false, false), 0);
    (false, 0x1A191817, 0, (false, false), 0) ].
Proof. vm_compute. reflexivity. Qed.

(* refused arguments: CSR address narrower than the granule index, ratio 3, 128-bit Wishbone,
   12-bit CSR, Wishbone narrower than CSR; and the smallest legal bridge (ratio 1) *)
Example C10_nonvacuous_constructor :
  construct {| k_caw := 1; k_cdw := 8; k_dw := Some 32 |} = Err ValueError /\
  construct {| k_caw := 4; k_cdw := 8; k_dw := Some 24 |} = Err ValueError /\
  construct {| k_caw := 4; k_cdw := 8; k_dw := Some 128 |} = Err ValueError /\
  construct {| k_caw := 4; k_cdw := 12; k_dw := None |} = Err ValueError /\
  construct {| k_caw := 4; k_cdw := 16; k_dw := Some 8 |} = Err ValueError /\
  construct {| k_caw := 1; k_cdw := 64; k_dw := None |} =
    Ok {| g_r := 0; g_wb_aw := 1; g_wb_dw := 64; g_gran := 64; g_mm_aw := 1; g_mm_dw := 64;
          g_win_start := 0; g_win_stop := 2; g_win_ratio := 1 |}.
Proof. vm_compute. repeat split; reflexivity. Qed.
