(* C14 — placeholder, replaced once Proofs/CsrEvent.v exists. *)
From Coq Require Import ZArith List Bool.
From Soc Require Import Model.CsrEvent.
