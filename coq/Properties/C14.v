(* C14 — CSR event monitor: enable reads back, pending is read / write-one-to-clear.
   Statements only; proofs live in Proofs/CsrEvent.v.  The model (Model/CsrEvent.v) is the composition
   multiplexer (Model/Mux.v) o glue o event monitor (Model/Event.v) over the memory map the constructor builds
   (Model/MemoryMap.v); bus-level statements are corollaries of the C04/C05 multiplexer theorems and of the
   C13 monitor theorems.

   Vocabulary (Model/CsrEvent.v, Proofs/CsrEvent.v):
     params             constructor arguments: trigger mode of every source (any number of them, EventMap order),
                        data_width and alignment as passed (an int, None, or some other object), trigger=
     valid p            data_width is a positive int, alignment a non-negative int, trigger a valid mode
     construct p        EventMonitor.__init__: Ok b (the built monitor) or the exception raised
     pn/pdw/pal p       event count n, data width, alignment;  pspan p = align_up(max(ceil(n/dw),1), alignment),
                        the number of addresses each of the two registers occupies
     reg_en p, reg_pe p the enable register [0, pspan) and the pending register [pspan, 2*pspan), n bits, rw
     st_at b is t       state before cycle t of the bus/source input trace `is` (from reset)
     enable_at / pending_at / rdata_at b is t     the two masks during cycle t, bus.r_data in cycle t
     src_at is t k, trg_at modes is t k           source k's input line / its trigger (by mode) in cycle t
     written_ones p b s   pending.element.w_data while pending.element.w_stb is up, 0 otherwise
     write_txn p r other is t tj dj   a write transaction to register r completes at cycle t; for each word j
                        carrying mask bits, tj j is the cycle of the latest write to start+j, dj j its data, and
                        the other register is not written after the earliest of them (premise of C05_write_atomic)
     written_value p r dj   the words dj concatenated and clipped to the n mask bits
     first_read p is u  cycle u is a read strobe at the first address of either register *)
From Coq Require Import ZArith List Bool Lia.
From Soc Require Import Lib.Bits Lib.Res.
From Soc Require Model.Mux Model.MuxSpec Model.Event Model.MemoryMap Model.MemSpec Model.CsrDecoder Proofs.CsrDecoder Proofs.Event.
From Soc Require Import Model.CsrEvent Proofs.CsrEvent.
Import ListNotations.
Open Scope Z_scope.

(* ========================================================================================== *)
(* Constructor and layout: every event count, data width, alignment                            *)
(* ========================================================================================== *)

(* layout_fits.  For EVERY event count n >= 0, data width dw > 0 and alignment al >= 0 the memory map
   constructor call and the two add_resource() calls succeed (no out-of-bounds, no overlap, no name clash,
   the internal assertions of _RangeMap.insert are not hit), and all_resources() then reports exactly
   enable at [0, S) and pending at [S, 2S), width dw, where S is the least multiple of 2^al that is
   >= max(ceil(n/dw), 1); both fit the 2^addr_width addresses and S words hold all n mask bits. *)
Theorem C14_layout_fits : forall n dw al, 0 < dw -> 0 <= n -> 0 <= al ->
  build_map n dw al = Ok (final_map n dw al) /\
  MemoryMap.all_resources (final_map n dw al) = Ok [info_enable n dw al; info_pending n dw al] /\
  MemoryMap.resources (final_map n dw al) =
    [ (id_enable, [MemoryMap.PStr atom_enable], 0, span n dw al);
      (id_pending, [MemoryMap.PStr atom_pending], span n dw al, span n dw al + span n dw al) ] /\
  MemSpec.least_multiple_ge (2 ^ al) (Z.max (reg_size n dw) 1) (span n dw al) /\
  2 * span n dw al <= 2 ^ addr_width n dw al /\
  n <= span n dw al * dw.
Proof. exact layout_fits. Qed.
Print Assumptions C14_layout_fits.

(* The constructor accepts exactly the valid argument combinations; everything else is a ValueError. *)
Theorem C14_constructor_total : forall p, valid p -> exists b, construct p = Ok b /\ built_ok p b.
Proof. exact construct_ok. Qed.
Print Assumptions C14_constructor_total.

Theorem C14_constructor_refuses : forall p, valid p \/ construct p = Err ValueError.
Proof. exact valid_or_refused. Qed.
Print Assumptions C14_constructor_refuses.

(* What an accepted monitor is made of: bus address width, the memory map above, a well-formed multiplexer
   configuration over exactly the two registers at the reported addresses, the monitor over the sources. *)
Theorem C14_accepted_configuration : forall p b, construct p = Ok b -> valid p /\ built_ok p b.
Proof. exact construct_inv. Qed.
Print Assumptions C14_accepted_configuration.

(* ========================================================================================== *)
(* Element level: every accepted configuration, EVERY input trace (protocol-following or not)   *)
(* ========================================================================================== *)

(* row t of a run = the outputs in the state reached by the first t cycles; bus.r_data is rdata_at *)
Theorem C14_run_is_out_of_reached_state : forall b is t i, nth_error is t = Some i ->
  nth_error (run b (init b) is) t = Some (out b (st_at b is t) i) /\
  co_rdata (out b (st_at b is t) i) = rdata_at b is t.
Proof. intros b is t i H. split; [exact (run_nth b is (init b) t i H)|reflexivity]. Qed.
Print Assumptions C14_run_is_out_of_reached_state.

(* every source's trg follows its own trigger mode *)
Theorem C14_trg_follows_mode : forall p b, construct p = Ok b -> forall is t i k,
  nth_error is t = Some i -> (k < length (p_modes p))%nat ->
  nth_error (co_trg (out b (st_at b is t) i)) k = Some (trg_at (p_modes p) is t k).
Proof.
  intros p b Hc. destruct (construct_inv p b Hc) as [Hv Hb]. exact (trg_follows_mode p b Hb).
Qed.
Print Assumptions C14_trg_follows_mode.

(* pending_w1c, one step from ANY state:  pending' = trg | (pending & ~written_ones), bit by bit.
   Ones clear exactly the bits written, unless the event triggers in the same cycle; zeros clear nothing. *)
Theorem C14_pending_w1c_step : forall p b, construct p = Ok b -> forall s i k,
  Proofs.Event.st_ok (b_mon b) (c_mon s) -> (k < length (p_modes p))%nat ->
  exists tk, nth_error (co_trg (out b s i)) k = Some tk /\
    Z.testbit (Event.st_pending (c_mon (next b s i))) (Z.of_nat k) =
    tk || (Z.testbit (Event.st_pending (c_mon s)) (Z.of_nat k) &&
           negb (Z.testbit (written_ones p b s) (Z.of_nat k))).
Proof.
  intros p b Hc. destruct (construct_inv p b Hc) as [Hv Hb]. exact (pending_w1c_step p b Hb).
Qed.
Print Assumptions C14_pending_w1c_step.

(* the same along every trace, the trigger spelled out by mode; bits beyond the sources stay 0 *)
Theorem C14_pending_w1c : forall p b, construct p = Ok b -> forall is t i k,
  nth_error is t = Some i -> (k < length (p_modes p))%nat ->
  Z.testbit (pending_at b is (S t)) (Z.of_nat k) =
  trg_at (p_modes p) is t k ||
  (Z.testbit (pending_at b is t) (Z.of_nat k) &&
   negb (Z.testbit (written_ones p b (st_at b is t)) (Z.of_nat k))).
Proof.
  intros p b Hc. destruct (construct_inv p b Hc) as [Hv Hb]. exact (pending_w1c p b Hv Hb).
Qed.
Print Assumptions C14_pending_w1c.

Theorem C14_pending_zeros_clear_nothing : forall p b, construct p = Ok b -> forall s i k,
  Proofs.Event.st_ok (b_mon b) (c_mon s) -> (k < length (p_modes p))%nat ->
  Z.testbit (written_ones p b s) (Z.of_nat k) = false ->
  Z.testbit (Event.st_pending (c_mon s)) (Z.of_nat k) = true ->
  Z.testbit (Event.st_pending (c_mon (next b s i))) (Z.of_nat k) = true.
Proof.
  intros p b Hc. destruct (construct_inv p b Hc) as [Hv Hb]. exact (pending_zeros_clear_nothing p b Hb).
Qed.
Print Assumptions C14_pending_zeros_clear_nothing.

(* the element strobes the glue sees are the bus write of the previous cycle to the register's LAST address *)
Theorem C14_strobes_follow_bus_writes : forall p b, construct p = Ok b -> forall is t,
  en_wstb b (st_at b is t) =
    match t with O => false | S t' => match nth_error is t' with
                                      | Some i => ci_wstb i && (ci_addr i =? pspan p - 1)
                                      | None => en_wstb b (st_at b is t') end end /\
  pe_wstb b (st_at b is t) =
    match t with O => false | S t' => match nth_error is t' with
                                      | Some i => ci_wstb i && (ci_addr i =? pspan p + pspan p - 1)
                                      | None => pe_wstb b (st_at b is t') end end.
Proof.
  intros p b Hc. destruct (construct_inv p b Hc) as [Hv Hb]. exact (strobes_at p b Hb).
Qed.
Print Assumptions C14_strobes_follow_bus_writes.

(* enable is a register latched on enable.element.w_stb *)
Theorem C14_enable_latch : forall p b, construct p = Ok b -> forall s i,
  c_enable (next b s i) = if en_wstb b s then Mux.elem_wdata (b_mux b) (c_mux s) (reg_en p) else c_enable s.
Proof.
  intros p b Hc. destruct (construct_inv p b Hc) as [Hv Hb]. exact (enable_latch p b Hb).
Qed.
Print Assumptions C14_enable_latch.

(* irq_follows: src.i = ((enable & pending) != 0) in every cycle; equivalently some event is enabled and pending *)
Theorem C14_irq_follows : forall p b, construct p = Ok b -> forall is t i,
  co_irq (out b (st_at b is t) i) = negb (Z.land (enable_at b is t) (pending_at b is t) =? 0) /\
  (co_irq (out b (st_at b is t) i) = true <->
   exists k, (k < length (p_modes p))%nat /\ Z.testbit (enable_at b is t) (Z.of_nat k) = true /\
             Z.testbit (pending_at b is t) (Z.of_nat k) = true).
Proof.
  intros p b Hc is t i. destruct (construct_inv p b Hc) as [Hv Hb].
  split; [exact (irq_follows b is t i)|exact (irq_iff_enabled_pending p b Hv Hb is t i)].
Qed.
Print Assumptions C14_irq_follows.

(* both masks are n-bit values in every reachable state *)
Theorem C14_masks_in_range : forall p b, construct p = Ok b -> forall is t,
  0 <= enable_at b is t < 2 ^ pn p /\ 0 <= pending_at b is t < 2 ^ pn p.
Proof.
  intros p b Hc. destruct (construct_inv p b Hc) as [Hv Hb]. exact (mask_ranges p b Hv Hb).
Qed.
Print Assumptions C14_masks_in_range.

(* ========================================================================================== *)
(* Bus level: protocol-following transactions at the addresses all_resources() reports           *)
(* ========================================================================================== *)

(* Two cycles after the last word of a completed multi-word write to the enable register the enable mask is the
   written value ... *)
Theorem C14_enable_write : forall p b, construct p = Ok b -> forall is t tj dj i',
  write_txn p (reg_en p) (reg_pe p) is t tj dj -> nth_error is (S t) = Some i' ->
  enable_at b is (S (S t)) = written_value p (reg_en p) dj.
Proof.
  intros p b Hc. destruct (construct_inv p b Hc) as [Hv Hb]. exact (enable_write p b Hb).
Qed.
Print Assumptions C14_enable_write.

(* ... it keeps that value until the cycle after the next write to the register's last address ... *)
Theorem C14_enable_holds : forall p b, construct p = Ok b -> forall is u u', (u <= u')%nat ->
  (forall v i, (u <= S v < u')%nat -> nth_error is v = Some i ->
               ~ (ci_wstb i = true /\ ci_addr i = pspan p - 1)) ->
  enable_at b is u' = enable_at b is u.
Proof.
  intros p b Hc. destruct (construct_inv p b Hc) as [Hv Hb]. exact (enable_holds p b Hb).
Qed.
Print Assumptions C14_enable_holds.

(* enable_readback: ... and any later protocol-following read returns it word by word, whatever the sources,
   the pending register and unrelated bus traffic do in between. *)
Theorem C14_enable_readback : forall p b, construct p = Ok b -> forall is t tj dj t0 t' j i0 it',
  write_txn p (reg_en p) (reg_pe p) is t tj dj ->
  (S t < t0)%nat ->
  (forall v i, (t < v)%nat -> (S v < t0)%nat -> nth_error is v = Some i ->
               ~ (ci_wstb i = true /\ ci_addr i = pspan p - 1)) ->
  nth_error is t0 = Some i0 -> ci_rstb i0 = true -> ci_addr i0 = 0 ->
  (t0 <= t')%nat -> (forall u, (t0 < u <= t')%nat -> ~ first_read p is u) ->
  nth_error is t' = Some it' -> ci_rstb it' = true -> ci_addr it' = j -> 0 <= j < pspan p ->
  rdata_at b is (S t') = Mux.word (pdw p) (pn p) j (written_value p (reg_en p) dj).
Proof.
  intros p b Hc. destruct (construct_inv p b Hc) as [Hv Hb]. exact (enable_readback p b Hv Hb).
Qed.
Print Assumptions C14_enable_readback.

(* pending_read_snapshot (instance of C04 read_atomic): a multi-word read of the pending register returns the
   words of the mask as it was in the cycle its FIRST word was read - events arriving or being cleared during
   the read do not tear it. *)
Theorem C14_pending_read_snapshot : forall p b, construct p = Ok b -> forall is t0 t j i0 it,
  nth_error is t0 = Some i0 -> ci_rstb i0 = true -> ci_addr i0 = pspan p ->
  (t0 <= t)%nat -> (forall u, (t0 < u <= t)%nat -> ~ first_read p is u) ->
  nth_error is t = Some it -> ci_rstb it = true -> ci_addr it = pspan p + j -> 0 <= j < pspan p ->
  rdata_at b is (S t) = Mux.word (pdw p) (pn p) j (pending_at b is t0).
Proof.
  intros p b Hc. destruct (construct_inv p b Hc) as [Hv Hb]. exact (pending_read_snapshot p b Hv Hb).
Qed.
Print Assumptions C14_pending_read_snapshot.

Theorem C14_enable_read_snapshot : forall p b, construct p = Ok b -> forall is t0 t j i0 it,
  nth_error is t0 = Some i0 -> ci_rstb i0 = true -> ci_addr i0 = 0 ->
  (t0 <= t)%nat -> (forall u, (t0 < u <= t)%nat -> ~ first_read p is u) ->
  nth_error is t = Some it -> ci_rstb it = true -> ci_addr it = j -> 0 <= j < pspan p ->
  rdata_at b is (S t) = Mux.word (pdw p) (pn p) j (enable_at b is t0).
Proof.
  intros p b Hc. destruct (construct_inv p b Hc) as [Hv Hb]. exact (enable_read_snapshot p b Hv Hb).
Qed.
Print Assumptions C14_enable_read_snapshot.

(* pending_w1c through the bus: the cycle after the last word of a completed write to the pending register,
   exactly the written ones are cleared - except the events that trigger in that very cycle. *)
Theorem C14_pending_clear_by_write : forall p b, construct p = Ok b -> forall is t tj dj i' k,
  write_txn p (reg_pe p) (reg_en p) is t tj dj -> nth_error is (S t) = Some i' ->
  (k < length (p_modes p))%nat ->
  Z.testbit (pending_at b is (S (S t))) (Z.of_nat k) =
  trg_at (p_modes p) is (S t) k ||
  (Z.testbit (pending_at b is (S t)) (Z.of_nat k) &&
   negb (Z.testbit (written_value p (reg_pe p) dj) (Z.of_nat k))).
Proof.
  intros p b Hc. destruct (construct_inv p b Hc) as [Hv Hb]. exact (pending_clear_by_write p b Hv Hb).
Qed.
Print Assumptions C14_pending_clear_by_write.

(* in every cycle that does not follow a write to the pending register's last address nothing is cleared *)
Theorem C14_pending_not_cleared_without_write : forall p b, construct p = Ok b -> forall is t i k,
  nth_error is t = Some i -> (k < length (p_modes p))%nat ->
  (forall t' iw, t = S t' -> nth_error is t' = Some iw ->
                 ~ (ci_wstb iw = true /\ ci_addr iw = pspan p + pspan p - 1)) ->
  Z.testbit (pending_at b is (S t)) (Z.of_nat k) =
  trg_at (p_modes p) is t k || Z.testbit (pending_at b is t) (Z.of_nat k).
Proof.
  intros p b Hc. destruct (construct_inv p b Hc) as [Hv Hb]. exact (pending_not_cleared_without_write p b Hv Hb).
Qed.
Print Assumptions C14_pending_not_cleared_without_write.

(* what a completed write delivers, word by word and bit by bit: word j read back is the data written to word j,
   clipped to the mask bits that word carries (0 for padding words); mask bit k is bit k mod dw of word k / dw *)
Theorem C14_written_value_words : forall p r dj j, valid p -> (r = reg_en p \/ r = reg_pe p) -> 0 <= j ->
  Mux.word (pdw p) (pn p) j (written_value p r dj) =
  trunc (Z.max 0 (Z.min (pn p) ((j + 1) * pdw p) - j * pdw p)) (dj j).
Proof. exact word_written. Qed.
Print Assumptions C14_written_value_words.

Theorem C14_written_value_bits : forall p r dj k, valid p -> (r = reg_en p \/ r = reg_pe p) -> 0 <= k ->
  Z.testbit (written_value p r dj) k =
  if k <? pn p then Z.testbit (dj (k / pdw p)) (k mod pdw p) else false.
Proof. exact written_value_testbit. Qed.
Print Assumptions C14_written_value_bits.

(* ========================================================================================== *)
(* Attachment through a csr.Decoder (wiring.connect() from an initiator interface is signal identity) *)
(* ========================================================================================== *)

(* Decoder.add(mon.bus) places the window where the decoder's Case pattern is exact: aligned to the window's own
   size and inside the decoder's address space (an explicit address must be a multiple of the window size) *)
Theorem C14_decoder_window : forall p b d a, construct p = Ok b -> attach b d = Ok a ->
  (d_addr d = VNone \/ exists x, d_addr d = VInt x /\ x mod 2 ^ b_aw b = 0) ->
  Proofs.CsrDecoder.wf_sub (a_aw a) (a_sub a) /\ CsrDecoder.s_aw (a_sub a) = b_aw b /\ a_aw a = d_aw d.
Proof.
  intros p b d a Hc. destruct (construct_inv p b Hc) as [Hv Hb]. exact (attach_wf p b d a Hv Hb).
Qed.
Print Assumptions C14_decoder_window.

(* the decoder's memory map reports the two registers under the window's name at window start + own address *)
Theorem C14_decoder_layout : forall p b d a, construct p = Ok b -> attach b d = Ok a ->
  MemoryMap.all_resources (a_map a) =
  Ok [shifted (CsrDecoder.s_start (a_sub a)) (info_enable (pn p) (pdw p) (pal p));
      shifted (CsrDecoder.s_start (a_sub a)) (info_pending (pn p) (pdw p) (pal p))].
Proof.
  intros p b d a Hc. destruct (construct_inv p b Hc) as [Hv Hb]. exact (attached_layout p b d a Hv Hb).
Qed.
Print Assumptions C14_decoder_layout.

(* the monitor behind the decoder is the monitor itself run on the routed trace - an access inside the window
   arrives with the window start subtracted, any other access arrives without strobes - and the decoder's r_data
   is the monitor's.  Hence every theorem above holds behind a decoder at the addresses ITS map reports. *)
Theorem C14_through_decoder : forall b a is, Proofs.CsrDecoder.wf_sub (a_aw a) (a_sub a) ->
  run_attached b a is = run b (init b) (map (through a) is) /\
  forall i, 0 <= ci_addr i < 2 ^ a_aw a ->
    through a i = cinp_of (Proofs.CsrDecoder.route (a_sub a) (bus_of i)) (ci_src i).
Proof.
  intros b a is Hwf. split; [exact (run_attached_is_run b a is)|]. intros i. exact (through_route a i Hwf).
Qed.
Print Assumptions C14_through_decoder.

(* ========================================================================================== *)
(* non-vacuity                                                                                 *)
(* ========================================================================================== *)

(* Three events (level, rise, fall) on a 2-bit bus: two words per register, the second one holding a single mask
   bit.  enable at [0,2), pending at [2,4), 2 address bits. *)
Definition ex_p : params :=
  {| p_modes := [Event.Level; Event.Rise; Event.Fall]; p_dw := VInt 2; p_al := VInt 0; p_trigger := 1 |}.
Definition ex_dummy : built :=
  {| b_n := 0; b_aw := 0; b_trigger := 0; b_map := MemoryMap.MM 0 0 0 [] [] [] [] 0 false;
     b_mux := {| Mux.c_dw := 0; Mux.c_regs := []; Mux.c_Sr := 0; Mux.c_Sw := 0 |};
     b_mon := []; b_ken := 0; b_kpe := 0 |}.
Definition ex_b : built := Eval vm_compute in match construct ex_p with Ok b => b | Err _ => ex_dummy end.

Definition cyc (a : Z) (r w : bool) (d : Z) (s0 s1 s2 : bool) : cinp :=
  {| ci_addr := a; ci_rstb := r; ci_wstb := w; ci_wdata := d; ci_src := [s0; s1; s2] |}.
Definition ex_is : list cinp :=
  [ cyc 0 false true 1 false false true;     (* 0: enable word 0 <- 01                                        *)
    cyc 1 false true 3 true true false;      (* 1: enable word 1 <- 11 (one bit used); all three sources trigger *)
    cyc 0 false false 0 false true false;    (* 2: enable.w_stb is up, enable becomes 101 at the end             *)
    cyc 2 true false 0 false false false;    (* 3: read pending word 0 (snapshot 111)                            *)
    cyc 3 true false 0 false false false;    (* 4: read pending word 1                                           *)
    cyc 2 false true 3 false false false;    (* 5: pending word 0 <- 11: clear events 0 and 1                    *)
    cyc 3 false true 0 false false false;    (* 6: pending word 1 <- 0 : do not clear event 2; completes         *)
    cyc 1 false false 0 false true false;    (* 7: the clear takes effect; event 1 (rise) triggers in this cycle *)
    cyc 0 true false 0 false true false;     (* 8: read enable word 0                                            *)
    cyc 1 true false 0 false true false;     (* 9: read enable word 1                                            *)
    cyc 0 false false 0 false true false ].

Example C14_nonvacuous :
  construct ex_p = Ok ex_b /\ pspan ex_p = 2 /\ b_aw ex_b = 2 /\
  MemoryMap.all_resources (b_map ex_b) = Ok [info_enable 3 2 0; info_pending 3 2 0] /\
  (* bus.r_data, src.i and every trg, cycle by cycle *)
  map (fun o => (co_rdata o, co_irq o, co_trg o)) (run ex_b (init ex_b) ex_is) =
    [(0, false, [false; false; false]); (0, false, [true; true; true]);
     (0, false, [false; false; false]); (0, true, [false; false; false]);
     (3, true, [false; false; false]); (1, true, [false; false; false]);
     (0, true, [false; false; false]); (0, true, [false; true; false]);
     (0, true, [false; false; false]); (1, true, [false; false; false]);
     (1, true, [false; false; false])] /\
  (* enable and pending in cycles 0..11: enable = 101 from cycle 3 on; pending = 111 from cycle 2 on and
     110 from cycle 8 on: event 0 cleared, event 1 written-one but re-triggered in cycle 7, event 2 written zero *)
  map (fun t => (enable_at ex_b ex_is t, pending_at ex_b ex_is t)) (seq 0 12) =
    [(0, 0); (0, 0); (0, 7); (5, 7); (5, 7); (5, 7); (5, 7); (5, 7); (5, 6); (5, 6); (5, 6); (5, 6)].
Proof. vm_compute. repeat split; reflexivity. Qed.

Lemma ex_constructed : construct ex_p = Ok ex_b.
Proof. vm_compute. reflexivity. Qed.

Ltac ex_nat_split u n :=
  match n with
  | O => idtac
  | S ?n' => destruct u as [|u]; [|ex_nat_split u n']
  end.
Ltac ex_nat_cases u := ex_nat_split u 12%nat; try (exfalso; lia).

(* the premises of the write theorems hold for the two write transactions of the trace *)
Definition ex_tj_en (j : Z) : nat := if j =? 0 then 0%nat else 1%nat.
Definition ex_dj_en (j : Z) : Z := if j =? 0 then 1 else 3.
Definition ex_tj_pe (j : Z) : nat := if j =? 0 then 5%nat else 6%nat.
Definition ex_dj_pe (j : Z) : Z := if j =? 0 then 3 else 0.

Example C14_write_txn_nonvacuous :
  write_txn ex_p (reg_en ex_p) (reg_pe ex_p) ex_is 1 ex_tj_en ex_dj_en /\
  write_txn ex_p (reg_pe ex_p) (reg_en ex_p) ex_is 6 ex_tj_pe ex_dj_pe /\
  written_value ex_p (reg_en ex_p) ex_dj_en = 5 /\ written_value ex_p (reg_pe ex_p) ex_dj_pe = 3.
Proof.
  assert (HS : pspan ex_p = 2) by (vm_compute; reflexivity).
  split; [|split; [|vm_compute; auto]].
  - split; [exists (cyc 1 false true 3 true true false); vm_compute; auto|].
    intros j Hj _. match type of Hj with _ <= _ < ?L => replace L with 2 in Hj by (vm_compute; reflexivity) end.
    assert (Ej : j = 0 \/ j = 1) by lia.
    destruct Ej as [-> | ->]; (split; [cbn; lia|split; [|split]]).
    + exists (cyc 0 false true 1 false false true). vm_compute. auto.
    + intros u i Hu Hi. cbn in Hu. ex_nat_cases u; cbn in Hi; inversion Hi; subst i; unfold reg_en, reg_pe; cbn [Mux.r_start Mux.r_stop cyc ci_addr ci_wstb]; rewrite ?HS; intros [? ?]; try discriminate; lia.
    + intros u Hu (i & Hi & Hw & Ha). cbn in Hu. ex_nat_cases u; cbn in Hi; inversion Hi; subst i; unfold reg_en, reg_pe in Ha; cbn [Mux.r_start Mux.r_stop cyc ci_addr] in Ha; rewrite ?HS in Ha; lia.
    + exists (cyc 1 false true 3 true true false). vm_compute. auto.
    + intros u i Hu. cbn in Hu. lia.
    + intros u Hu. cbn in Hu. lia.
  - split; [exists (cyc 3 false true 0 false false false); vm_compute; auto|].
    intros j Hj _. match type of Hj with _ <= _ < ?L => replace L with 2 in Hj by (vm_compute; reflexivity) end.
    assert (Ej : j = 0 \/ j = 1) by lia.
    destruct Ej as [-> | ->]; (split; [cbn; lia|split; [|split]]).
    + exists (cyc 2 false true 3 false false false). vm_compute. auto.
    + intros u i Hu Hi. cbn in Hu. ex_nat_cases u; cbn in Hi; inversion Hi; subst i; unfold reg_en, reg_pe; cbn [Mux.r_start Mux.r_stop cyc ci_addr ci_wstb]; rewrite ?HS; intros [? ?]; try discriminate; lia.
    + intros u Hu (i & Hi & Hw & Ha). cbn in Hu. ex_nat_cases u; cbn in Hi; inversion Hi; subst i; unfold reg_en, reg_pe in Ha; cbn [Mux.r_start Mux.r_stop cyc ci_addr] in Ha; rewrite ?HS in Ha; lia.
    + exists (cyc 3 false true 0 false false false). vm_compute. auto.
    + intros u i Hu. cbn in Hu. lia.
    + intros u Hu. cbn in Hu. lia.
Qed.

(* ... so the theorems apply to this trace: enable after the write; read-back of enable word 1 in cycle 10;
   event 1 survives the clear it coincides with, event 0 does not *)
Example C14_theorems_apply :
  enable_at ex_b ex_is 3 = 5 /\ rdata_at ex_b ex_is 10 = 1 /\
  Z.testbit (pending_at ex_b ex_is 8) 1 = true /\ Z.testbit (pending_at ex_b ex_is 8) 0 = false.
Proof.
  destruct C14_write_txn_nonvacuous as (Hen & Hpe & Ven & Vpe).
  assert (HS : pspan ex_p = 2) by (vm_compute; reflexivity).
  split; [|split; [|split]].
  - rewrite (C14_enable_write ex_p ex_b ex_constructed ex_is 1 ex_tj_en ex_dj_en _ Hen eq_refl). exact Ven.
  - rewrite (C14_enable_readback ex_p ex_b ex_constructed ex_is 1 ex_tj_en ex_dj_en 8 9 1
               (cyc 0 true false 0 false true false) (cyc 1 true false 0 false true false) Hen);
      try reflexivity; try lia.
    + intros v i Hv1 Hv2 Hi. ex_nat_cases v; cbn in Hi; inversion Hi; subst i; cbn; rewrite ?HS; intros [? ?]; try discriminate; lia.
    + intros u Hu (i & Hi & Hr & Ha). ex_nat_cases u. cbn in Hi. inversion Hi; subst i. cbn [cyc ci_addr] in Ha. rewrite HS in Ha. lia.
  - change (Z.testbit (pending_at ex_b ex_is 8) (Z.of_nat 1) = true).
    rewrite (C14_pending_clear_by_write ex_p ex_b ex_constructed ex_is 6 ex_tj_pe ex_dj_pe _ 1 Hpe eq_refl); [|cbn; lia].
    vm_compute. reflexivity.
  - change (Z.testbit (pending_at ex_b ex_is 8) (Z.of_nat 0) = false).
    rewrite (C14_pending_clear_by_write ex_p ex_b ex_constructed ex_is 6 ex_tj_pe ex_dj_pe _ 0 Hpe eq_refl); [|cbn; lia].
    rewrite Vpe. vm_compute. reflexivity.
Qed.

(* the same monitor behind csr.Decoder(addr_width=4), window placed at 8: the trace with every address moved
   into the window gives the same outputs; an access outside the window (address 1) is an idle cycle *)
Definition ex_d : dparams := {| d_aw := 4; d_al := 0; d_addr := VInt 8 |}.
Definition ex_a_dummy : attached :=
  {| a_map := MemoryMap.MM 0 0 0 [] [] [] [] 0 false; a_aw := 0;
     a_sub := {| CsrDecoder.s_aw := 0; CsrDecoder.s_start := 0; CsrDecoder.s_stop := 0 |} |}.
Definition ex_a : attached := Eval vm_compute in match attach ex_b ex_d with Ok a => a | Err _ => ex_a_dummy end.
Definition moved (i : cinp) : cinp :=
  {| ci_addr := ci_addr i + 8; ci_rstb := ci_rstb i; ci_wstb := ci_wstb i; ci_wdata := ci_wdata i; ci_src := ci_src i |}.

Example C14_decoder_nonvacuous :
  attach ex_b ex_d = Ok ex_a /\ a_sub ex_a = {| CsrDecoder.s_aw := 2; CsrDecoder.s_start := 8; CsrDecoder.s_stop := 12 |} /\
  8 mod 2 ^ b_aw ex_b = 0 /\
  option_map (map (fun i => (MemoryMap.i_path i, MemoryMap.i_start i, MemoryMap.i_end i))) 
             (match MemoryMap.all_resources (a_map ex_a) with Ok l => Some l | Err _ => None end) =
    Some [([[MemoryMap.PStr 3]; [MemoryMap.PStr 1]], 8, 10); ([[MemoryMap.PStr 3]; [MemoryMap.PStr 2]], 10, 12)] /\
  run_attached ex_b ex_a (map moved ex_is) = run ex_b (init ex_b) ex_is /\
  through ex_a (cyc 9 true true 3 true false true) = cyc 1 true true 3 true false true /\
  through ex_a (cyc 1 true true 3 true false true) = cyc 1 false false 3 true false true.
Proof. vm_compute. repeat split; reflexivity. Qed.
