(* C03 — Resource lookup through windows is coherent in every direction.
   Statements only; proofs in Proofs/Lookup.v (lookup theorems over well-formed trees),
   Proofs/LookupWf.v (the tree invariant and its preservation by every API call) and
   Proofs/LookupArith.v (division on multiples of the window ratio).

   Domain: maps `m` of a world reachable through the API on which all_resources() does not raise
   (`all_resources m = Ok l`); `translate` returns `Err AssertionError` exactly where the asserts of
   MemoryMap._translate fire (dense windows over ranges they cannot divide). *)
From Coq Require Import ZArith List Bool Lia.
From Soc Require Import Lib.Res Lib.PyList Model.MemoryMap Model.MemSpec
  Proofs.LookupWf Proofs.Lookup.
Import ListNotations.
Open Scope Z_scope.

(* plain address arithmetic: what all_resources() yields is exactly the map's own resources at their
   own ranges, plus every resource of every window at [b + s/r, b + e/r), width multiplied by r, the
   window's name (if any) prefixed to the path *)
Theorem C03_translation : forall w m l, reachable w -> In m w -> all_resources m = Ok l ->
  forall i, In i l <->
    (exists r, In r (m_ress m) /\
        i = {| i_res := r_id r; i_path := [r_name r]; i_start := r_start r; i_end := r_stop r; i_width := m_dw m |}) \/
    (exists wn c lc i', In (wn, c) (m_wins m) /\ all_resources c = Ok lc /\ In i' lc /\
        i_start i' mod w_step wn = 0 /\ i_end i' mod w_step wn = 0 /\
        i = {| i_res := i_res i';
               i_path := match w_name wn with None => i_path i' | Some n => n :: i_path i' end;
               i_start := w_start wn + i_start i' / w_step wn;
               i_end := w_start wn + i_end i' / w_step wn;
               i_width := i_width i' * w_step wn |}).
Proof. intros w m l Hr Hin Hl. exact (translation_wf m l (reachable_wf w m Hr Hin) Hl). Qed.
Print Assumptions C03_translation.

(* ascending, disjoint, non-empty, inside the map's address space *)
Theorem C03_sorted_disjoint : forall w m l, reachable w -> In m w -> all_resources m = Ok l ->
  ascending 0 (map (fun i => (i_start i, i_end i)) l) /\
  (forall i, In i l -> i_end i <= 2 ^ m_aw m).
Proof. intros w m l Hr Hin Hl. exact (sorted_wf m (reachable_wf w m Hr Hin) l Hl). Qed.
Print Assumptions C03_sorted_disjoint.

(* every address inside a reported range decodes to that resource, every other address to nothing
   (negative addresses and addresses >= 2^aw included: a ranges over all of Z) *)
Theorem C03_decode_iff_reported : forall w m l, reachable w -> In m w -> all_resources m = Ok l ->
  forall a id, decode_address m a = Some id <->
               exists i, In i l /\ i_res i = id /\ i_start i <= a < i_end i.
Proof. intros w m l Hr Hin Hl. exact (decode_wf m (reachable_wf w m Hr Hin) l Hl). Qed.
Print Assumptions C03_decode_iff_reported.

(* find_resource agrees with all_resources; KeyError exactly for objects that were never added;
   no other outcome (in particular none of _translate's asserts fires in find_resource when
   all_resources() went through) *)
Theorem C03_find_spec : forall w m l, reachable w -> In m w -> all_resources m = Ok l -> forall id,
  (forall i, find_resource m id = Ok i -> In i l /\ i_res i = id) /\
  (find_resource m id = Err KeyError <-> forall i, In i l -> i_res i <> id) /\
  ((exists i, find_resource m id = Ok i) \/ find_resource m id = Err KeyError).
Proof. intros w m l Hr Hin Hl. exact (find_wf m (reachable_wf w m Hr Hin) l Hl). Qed.
Print Assumptions C03_find_spec.

(* every added resource is reported exactly once *)
Theorem C03_each_addition_once : forall w m l, reachable w -> In m w -> all_resources m = Ok l ->
  length l = tree_count m.
Proof. intros w m l Hr Hin Hl. exact (count_wf m (reachable_wf w m Hr Hin) l Hl). Qed.
Print Assumptions C03_each_addition_once.

(* the invariant the above rest on holds of every map of every reachable world *)
Theorem C03_reachable_wellformed : forall w m, reachable w -> In m w -> wf_tree m.
Proof. exact reachable_wf. Qed.
Print Assumptions C03_reachable_wellformed.

(* ---- non-vacuity ---- *)
(* map 0 = leaf A (two resources); map 1 = B: one resource and A behind an anonymous window;
   map 2 = leaf C, alignment 1 (two resources); map 3 = leaf D; map 4 = root, 16 bits wide:
   B behind the named sparse window [10] (three levels: root > [10] > anonymous > A),
   C behind the named dense ratio-2 window [11], D behind the named sparse window [12] at 0x200 *)
Definition ops3 : list op :=
  [ ONew (VInt 4) (VInt 8) (VInt 0);
    ORes 0 100 true (NStr 1) (VInt 2) VNone VNone;
    ORes 0 101 true (NStr 2) (VInt 4) VNone VNone;
    ONew (VInt 6) (VInt 8) (VInt 0);
    ORes 1 102 true (NStr 3) (VInt 3) VNone VNone;
    OWin 1 (Some 0%nat) None VNone None;
    ONew (VInt 4) (VInt 8) (VInt 1);
    ORes 2 103 true (NStr 4) (VInt 2) VNone VNone;
    ORes 2 104 true (NStr 5) (VInt 3) VNone VNone;
    ONew (VInt 3) (VInt 8) (VInt 0);
    ORes 3 105 true (NStr 6) (VInt 3) VNone VNone;
    ONew (VInt 10) (VInt 16) (VInt 0);
    ORes 4 106 true (NStr 13) (VInt 1) VNone VNone;
    OWin 4 (Some 1%nat) (Some (NStr 10)) VNone (Some true);
    OWin 4 (Some 2%nat) (Some (NStr 11)) VNone (Some false);
    OWin 4 (Some 3%nat) (Some (NStr 12)) (VInt 512) (Some true) ].
Definition root3 : mmap := nth 4 (world_after ops3) (MM 0 0 0 [] [] [] [] 0 false).
Definition inf id path s e w := {| i_res := id; i_path := path; i_start := s; i_end := e; i_width := w |}.

Example C03_nonvacuous :
  reachable (world_after ops3) /\ In root3 (world_after ops3) /\
  results_from [] ops3 =
    [ RNew (Ok 0%nat); RRes (Ok (0, 2)); RRes (Ok (2, 6)); RNew (Ok 1%nat); RRes (Ok (0, 3));
      RWin (Ok (16, 32, 1)); RNew (Ok 2%nat); RRes (Ok (0, 2)); RRes (Ok (2, 6)); RNew (Ok 3%nat);
      RRes (Ok (0, 3)); RNew (Ok 4%nat); RRes (Ok (0, 1)); RWin (Ok (64, 128, 1));
      RWin (Ok (128, 136, 2)); RWin (Ok (512, 520, 1)) ] /\
  all_resources root3 = Ok
    [ inf 106 [[PStr 13]] 0 1 16;
      inf 102 [[PStr 10]; [PStr 3]] 64 67 8;
      inf 100 [[PStr 10]; [PStr 1]] 80 82 8;
      inf 101 [[PStr 10]; [PStr 2]] 82 86 8;
      inf 103 [[PStr 11]; [PStr 4]] 128 129 16;
      inf 104 [[PStr 11]; [PStr 5]] 129 131 16;
      inf 105 [[PStr 12]; [PStr 6]] 512 515 8 ] /\
  map (decode_address root3)
      [0; 1; 63; 64; 66; 67; 80; 81; 82; 85; 86; 127; 128; 129; 130; 131; 135; 512; 514; 515; -1; 1024] =
      [Some 106; None; None; Some 102; Some 102; None; Some 100; Some 100; Some 101; Some 101; None;
       None; Some 103; Some 104; Some 104; None; None; Some 105; Some 105; None; None; None] /\
  map (find_resource root3) [100; 104; 105; 106; 999] =
      [ Ok (inf 100 [[PStr 10]; [PStr 1]] 80 82 8); Ok (inf 104 [[PStr 11]; [PStr 5]] 129 131 16);
        Ok (inf 105 [[PStr 12]; [PStr 6]] 512 515 8); Ok (inf 106 [[PStr 13]] 0 1 16); Err KeyError ] /\
  tree_count root3 = 7%nat.
Proof.
  split; [exists ops3; reflexivity|]. vm_compute. repeat split; auto 10.
Qed.

(* outside the domain: a dense ratio-2 window over a map (alignment 1) that sees, through a ratio-1
   window, a leaf resource of odd size; the first assert of _translate fires *)
Definition ops_out : list op :=
  [ ONew (VInt 3) (VInt 8) (VInt 0);
    ORes 0 7 true (NStr 1) (VInt 1) VNone VNone;
    ONew (VInt 5) (VInt 8) (VInt 1);
    OWin 1 (Some 0%nat) None VNone None;
    ONew (VInt 8) (VInt 16) (VInt 0);
    OWin 2 (Some 1%nat) None VNone (Some false) ].
Example C03_domain_is_proper :
  results_from [] ops_out =
    [ RNew (Ok 0%nat); RRes (Ok (0, 1)); RNew (Ok 1%nat); RWin (Ok (0, 8, 1)); RNew (Ok 2%nat);
      RWin (Ok (0, 16, 2)) ] /\
  all_resources (nth 2 (world_after ops_out) (MM 0 0 0 [] [] [] [] 0 false)) = Err AssertionError.
Proof. vm_compute. auto. Qed.
