(* C15 — Wishbone SRAM behaves as a memory with a one-cycle, single acknowledge.
   Statements only; definitions and proofs live in Model/Sram.v and Proofs/Sram.v.

   Vocabulary (Proofs/Sram.v):
     reach g rows0 tr        state reached from power-up by the input history tr
     accepted s i            ~ack(s) & cyc(i) & stb(i): the transfer presented in this cycle is taken
     accepted_write g s i    writable & accepted & we;      accepted_read s i = accepted & ~we
     word g i                the addressed word, adr truncated to addr_width
     row l a                 word a of a memory image
     init_word g init a      word a of the constructor's init argument, cast to unsigned(data_width)
     writes_of g false tr    the accepted writes of the history tr, computed from the inputs alone
     agran gr ws a k v0      granule k of word a after the writes ws over the initial value v0
   Every theorem quantifies over all constructor arguments that WishboneSRAM accepts (hence every
   legal size / data_width / granularity / writable / init) and all input histories. *)
From Coq Require Import ZArith List Bool Lia.
From Soc Require Import Lib.Bits Model.Sram Proofs.Sram.
Import ListNotations.
Open Scope Z_scope.

(* ---------------- acknowledge ---------------- *)

Theorem C15_ack_initial : forall rows0, o_ack (out (init_state rows0)) = false.
Proof. reflexivity. Qed.
Print Assumptions C15_ack_initial.

(* ack(t+1) = cyc(t) & stb(t) & ~ack(t), in every state, for every geometry (writable or not) and
   whatever we/adr/sel/dat_w are: one cycle after the request, never spontaneous, never twice in a
   row for a held request *)
Theorem C15_ack_exact : forall g s i,
  o_ack (out (next g s i)) = cyc i && stb i && negb (o_ack (out s)).
Proof.
  intros g s i. cbn [out o_ack]. rewrite ack_step. unfold accepted.
  destruct (ack s), (cyc i), (stb i); reflexivity.
Qed.
Print Assumptions C15_ack_exact.

(* the same over a whole run: the observed ack sequence is the sequence defined by that recurrence
   from ack(0) = 0 *)
Theorem C15_ack_trace : forall g rows0 tr,
  map o_ack (run g (init_state rows0) tr) = ack_seq false tr.
Proof. intros g rows0 tr. exact (ack_trace g tr (init_state rows0)). Qed.
Print Assumptions C15_ack_trace.

(* a request held through its acknowledge cycle is not taken a second time in that cycle *)
Theorem C15_served_once : forall g s i j, accepted s i = true -> accepted (next g s i) j = false.
Proof. exact accepted_once. Qed.
Print Assumptions C15_served_once.

(* ---------------- writes ---------------- *)

(* In every reachable state: without an accepted write the memory image is unchanged; an accepted
   write leaves the image's shape alone and, granule by granule, replaces exactly the granules of the
   addressed word whose sel bit is set by the corresponding granule of dat_w.  (With C15_served_once
   the update happens once per transfer.) *)
Theorem C15_write_exact : forall sz d gr wr init g rows0 tr i,
  construct sz d gr wr init = Ok (g, rows0) ->
  let s := reach g rows0 tr in
  (accepted_write g s i = false -> rows (next g s i) = rows s) /\
  (accepted_write g s i = true ->
     length (rows (next g s i)) = length (rows s) /\
     forall a, 0 <= a < g_depth g ->
       0 <= row (rows (next g s i)) a < 2 ^ g_dw g /\
       forall k, 0 <= k < nsel g ->
         slice (k * g_gran g) (g_gran g) (row (rows (next g s i)) a) =
         if (word g i =? a) && Z.testbit (sel i) k
         then slice (k * g_gran g) (g_gran g) (dat_w i)
         else slice (k * g_gran g) (g_gran g) (row (rows s) a)).
Proof. exact write_exact. Qed.
Print Assumptions C15_write_exact.

(* the granule-wise description above is complete: a row value is determined by its granules *)
Theorem C15_row_determined_by_granules : forall sz d gr wr init g rows0 x y,
  construct sz d gr wr init = Ok (g, rows0) ->
  0 <= x < 2 ^ g_dw g -> 0 <= y < 2 ^ g_dw g ->
  (forall k, 0 <= k < nsel g ->
     slice (k * g_gran g) (g_gran g) x = slice (k * g_gran g) (g_gran g) y) -> x = y.
Proof.
  intros sz d gr wr init g rows0 x y H. destruct (construct_wf _ _ _ _ _ _ _ H) as [W _].
  exact (row_determined g x y W).
Qed.
Print Assumptions C15_row_determined_by_granules.

(* at every time the memory image is the abstract memory: init with the accepted writes of the
   history folded over it, and nothing else *)
Theorem C15_memory_is_abstract_memory : forall sz d gr wr init g rows0 tr,
  construct sz d gr wr init = Ok (g, rows0) ->
  length (rows (reach g rows0 tr)) = Z.to_nat (g_depth g) /\
  forall a, 0 <= a < g_depth g ->
    0 <= row (rows (reach g rows0 tr)) a < 2 ^ g_dw g /\
    forall k, 0 <= k < nsel g ->
      slice (k * g_gran g) (g_gran g) (row (rows (reach g rows0 tr)) a) =
      agran (g_gran g) (writes_of g false tr) a k
            (slice (k * g_gran g) (g_gran g) (init_word g init a)).
Proof. exact memory_exact. Qed.
Print Assumptions C15_memory_is_abstract_memory.

(* ---------------- reads ---------------- *)

(* an accepted read at time t = |tr| returns at t+1 (together with its acknowledge, C15_ack_exact)
   the abstract memory's word: per granule the data of the latest accepted write that selected it,
   the init contents if there was none *)
Theorem C15_read_returns_latest : forall sz d gr wr init g rows0 tr i,
  construct sz d gr wr init = Ok (g, rows0) ->
  let s := reach g rows0 tr in
  accepted_read s i = true ->
  0 <= o_dat_r (out (next g s i)) < 2 ^ g_dw g /\
  forall k, 0 <= k < nsel g ->
    slice (k * g_gran g) (g_gran g) (o_dat_r (out (next g s i))) =
    agran (g_gran g) (writes_of g false tr) (word g i) k
          (slice (k * g_gran g) (g_gran g) (init_word g init (word g i))).
Proof. exact read_returns_latest. Qed.
Print Assumptions C15_read_returns_latest.

(* ---------------- read-only ---------------- *)

(* a read-only SRAM never changes its contents (every reachable state, every output of every run),
   still acknowledges every transfer - writes included - and returns the init word *)
Theorem C15_readonly_constant : forall sz d gr init g rows0 tr,
  construct sz d gr false init = Ok (g, rows0) ->
  rows (reach g rows0 tr) = rows0 /\
  (forall o, In o (run g (init_state rows0) tr) -> o_mem o = rows0) /\
  (forall i, ack (next g (reach g rows0 tr) i) = accepted (reach g rows0 tr) i /\
             rows (next g (reach g rows0 tr) i) = rows0 /\
             latch (next g (reach g rows0 tr) i) = row rows0 (word g i)).
Proof. exact readonly_constant. Qed.
Print Assumptions C15_readonly_constant.

(* ---------------- runs and reachable states ---------------- *)

(* the statements above speak about `reach`; the t-th row observed in a run is the output of the
   state reached by the first t inputs *)
Theorem C15_run_outputs_are_reachable_states : forall g rows0 tr t, (t < length tr)%nat ->
  nth_error (run g (init_state rows0) tr) t = Some (out (reach g rows0 (firstn t tr))).
Proof. intros g rows0 tr t H. exact (run_nth g tr (init_state rows0) t H). Qed.
Print Assumptions C15_run_outputs_are_reachable_states.

(* ---------------- constructor ---------------- *)

(* accepted exactly for: int power-of-two size >= 2, data_width and granularity (default
   data_width) in {8,16,32,64} given as ints, granularity <= data_width <= size * granularity, and no
   more init values than rows *)
Theorem C15_constructor_accepts_iff : forall sz d gr wr init,
  (exists g rows0, construct sz d gr wr init = Ok (g, rows0)) <->
  (exists s dd gg,
     sz = VInt s /\ d = VInt dd /\ (gr = VInt gg \/ (gr = VNone /\ gg = dd)) /\
     is_pow2 s = true /\ 2 <= s /\ width_ok dd = true /\ width_ok gg = true /\
     gg <= dd /\ dd <= s * gg /\ Z.of_nat (length init) <= s * gg / dd).
Proof. exact construct_accepts_iff. Qed.
Print Assumptions C15_constructor_accepts_iff.

(* and then the geometry is consistent (wf: rows * data_width = size * granularity exactly,
   2^addr_width rows, sel has data_width / granularity bits, the memory map spans 2^k = size
   granules) and the memory starts as the init image *)
Theorem C15_constructor_geometry : forall sz d gr wr init g rows0,
  construct sz d gr wr init = Ok (g, rows0) ->
  wf g /\ g_wr g = wr /\ length rows0 = Z.to_nat (g_depth g) /\
  forall a, 0 <= a < g_depth g -> row rows0 a = init_word g init a.
Proof. exact construct_geometry. Qed.
Print Assumptions C15_constructor_geometry.

(* the documented refusals *)
Theorem C15_constructor_refusals :
  (forall sz d gr wr init, (forall s, sz = VInt s -> is_pow2 s = false) ->
     construct sz d gr wr init = Err TypeError) /\
  (forall s d gr wr init, (forall z, num d = Some z -> width_ok z = false) ->
     construct (VInt s) d gr wr init = Err TypeError) /\
  (forall s dd gg wr init, width_ok gg = false ->
     construct (VInt s) (VInt dd) (VInt gg) wr init = Err TypeError) /\
  (forall s dd gg wr init, is_pow2 s = true -> width_ok dd = true -> width_ok gg = true ->
     s * gg < dd -> construct (VInt s) (VInt dd) (VInt gg) wr init = Err ValueError).
Proof.
  repeat split; [exact construct_size_type_error | exact construct_width_type_error
                | exact construct_gran_type_error | exact construct_too_small].
Qed.
Print Assumptions C15_constructor_refusals.

(* ---------------- non-vacuity ---------------- *)

(* 8 bytes as 2 rows of 32 bits, byte granularity.  A write of 0xAABBCCDD to word 1 with sel = 0101,
   held through its acknowledge, then a read of word 1 returning 0x55BB77DD (the read port is enabled in
   every cycle that is not an accepted write, so dat_r already shows the word in the cycle before). *)
Definition ex_init : list Z := [287454020; 1432778632].          (* 0x11223344, 0x55667788 *)
Definition ex_g : geom :=
  {| g_size := 8; g_dw := 32; g_gran := 8; g_wr := true; g_depth := 2; g_aw := 1; g_mmaw := 3 |}.
Definition ex_w : inp :=
  {| cyc := true; stb := true; we := true; adr := 1; sel := 5; dat_w := 2864434397 |}.
Definition ex_r : inp :=
  {| cyc := true; stb := true; we := false; adr := 1; sel := 15; dat_w := 0 |}.

Example C15_nonvacuous :
  construct (VInt 8) (VInt 32) (VInt 8) true ex_init = Ok (ex_g, ex_init) /\
  accepted_write ex_g (reach ex_g ex_init []) ex_w = true /\
  accepted_write ex_g (reach ex_g ex_init [ex_w]) ex_w = false /\
  writes_of ex_g false [ex_w; ex_w] = [{| w_adr := 1; w_sel := 5; w_dat := 2864434397 |}] /\
  accepted_read (reach ex_g ex_init [ex_w; ex_w]) ex_r = true /\
  rows (reach ex_g ex_init [ex_w; ex_w]) = [287454020; 1438349277] /\
  map (fun o => (o_ack o, o_dat_r o)) (run ex_g (init_state ex_init) [ex_w; ex_w; ex_r; ex_r]) =
    [(false, 0); (true, 0); (false, 1438349277); (true, 1438349277)].
Proof. vm_compute. repeat split; reflexivity. Qed.

(* the same SRAM built read-only acknowledges the write and keeps its contents; and the
   constructor's refusals are reachable *)
Example C15_nonvacuous_readonly :
  let g := {| g_size := 8; g_dw := 32; g_gran := 8; g_wr := false; g_depth := 2; g_aw := 1; g_mmaw := 3 |} in
  construct (VInt 8) (VInt 32) VNone false [7] =
    Ok ({| g_size := 8; g_dw := 32; g_gran := 32; g_wr := false; g_depth := 8; g_aw := 3; g_mmaw := 3 |},
        [7; 0; 0; 0; 0; 0; 0; 0]) /\
  construct (VInt 8) (VInt 32) (VInt 8) false ex_init = Ok (g, ex_init) /\
  accepted (reach g ex_init []) ex_w = true /\
  map (fun o => (o_ack o, o_mem o)) (run g (init_state ex_init) [ex_w; ex_w]) =
    [(false, ex_init); (true, ex_init)] /\
  construct (VInt 2) (VInt 32) (VInt 8) true [] = Err ValueError /\
  construct (VInt 1) (VInt 8) VNone true [] = Err ValueError /\
  construct (VInt 6) (VInt 8) VNone true [] = Err TypeError /\
  construct (VInt 4) (VFloat 8) VNone true [] = Err TypeError.
Proof. vm_compute. repeat split; reflexivity. Qed.
