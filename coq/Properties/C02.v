(* C02 — memory-map allocation: resources and windows are placed disjointly, in bounds, aligned, and
   reported exactly; failed calls change nothing; frozen maps reject additions; the internal
   assertions of _RangeMap.insert and _Namespace are unreachable.
   Statements only; proofs live in Proofs/MemArith.v, MemNames.v, MemAlloc.v, MemReports.v, MemWorld.v,
   MemRecords.v.
   Every theorem quantifies over all reachable worlds (all finite API call histories). *)
From Coq Require Import ZArith List Bool Lia.
From Soc Require Import Lib.Res Lib.PyList Model.MemoryMap Model.MemSpec.
From Soc Require Import Proofs.RangeMap Proofs.MemArith Proofs.MemNames Proofs.MemAlloc
                        Proofs.MemReports Proofs.MemWorld Proofs.MemRecords.
Import ListNotations.
Open Scope Z_scope.

(* T9: _align_up returns the least multiple of 2^alignment that is >= value *)
Theorem C02_align_up_spec : forall v a, 0 <= a -> least_multiple_ge (2 ^ a) v (align_up v a).
Proof. exact align_up_spec. Qed.
Print Assumptions C02_align_up_spec.

(* T1: the stored ranges of every map are non-empty, ascending, pairwise disjoint, start at or above
   0 and end within the map's address space *)
Theorem C02_disjoint_in_bounds : forall w m, reachable w -> In m w ->
  ascending 0 (map (fun x => (e_start x, e_stop x)) (m_ranges m)) /\
  (forall x, In x (m_ranges m) -> e_stop x <= 2 ^ m_aw m).
Proof. intros w m Hr Hin. exact (disjoint_in_bounds m (reachable_in_wf w m Hr Hin)). Qed.
Print Assumptions C02_disjoint_in_bounds.

(* T2: what resources()/windows() report is exactly the range map's content, split by kind, in
   order (no entry dropped, none invented; resources have step 1) *)
Theorem C02_reports_exact : forall w m, reachable w -> In m w ->
  map (fun '(id, _, s, e) => (AR id, s, e, 1)) (resources m) =
    map (fun x => (e_asg x, e_start x, e_stop x, e_step x))
        (filter (fun x => match e_asg x with AR _ => true | _ => false end) (m_ranges m)) /\
  map (fun '(id, _, s, e, r) => (AW id, s, e, r)) (windows m) =
    map (fun x => (e_asg x, e_start x, e_stop x, e_step x))
        (filter (fun x => match e_asg x with AW _ => true | _ => false end) (m_ranges m)).
Proof. intros w m Hr Hin. exact (reports_exact m (reachable_in_wf w m Hr Hin)). Qed.
Print Assumptions C02_reports_exact.

Theorem C02_reports_ascending : forall w m, reachable w -> In m w ->
  ascending 0 (map (fun '(_, _, s, e) => (s, e)) (resources m)) /\
  ascending 0 (map (fun '(_, _, s, e, _) => (s, e)) (windows m)).
Proof. intros w m Hr Hin. exact (reports_ascending m (reachable_in_wf w m Hr Hin)). Qed.
Print Assumptions C02_reports_ascending.

(* extra (complements T2): records and range entries are in one-to-one correspondence — every
   resource / window record ever added is reported, with the range stored in its record, nothing
   else is reported, and identities are pairwise distinct *)
Theorem C02_records_reported : forall w m, reachable w -> In m w ->
  (forall id n s e, In (id, n, s, e) (resources m) <->
     exists r, In r (m_ress m) /\ r_id r = id /\ r_name r = n /\ r_start r = s /\ r_stop r = e) /\
  (forall id n s e st, In (id, n, s, e, st) (windows m) <->
     exists wn c, In (wn, c) (m_wins m) /\ w_id wn = id /\ w_name wn = n /\ w_start wn = s /\
                  w_stop wn = e /\ w_step wn = st) /\
  NoDup (map e_asg (m_ranges m)) /\
  NoDup (map r_id (m_ress m)) /\ NoDup (map (fun wc => w_id (fst wc)) (m_wins m)).
Proof. intros w m Hr Hin. exact (records_reported m (reachable_wf_full w m Hr Hin)). Qed.
Print Assumptions C02_records_reported.

(* T3: a successful add_resource places exactly the computed range: size rounded up to the
   effective alignment (at least one unit), at the given address or at the cursor rounded up, moves
   the cursor to its end, and adds exactly that one report *)
Theorem C02_add_resource_ok : forall w mi m, reachable w -> nth_error w mi = Some m ->
  forall id comp nm size addr al m' s e,
  add_resource m id comp nm size addr al = Ok (m', (s, e)) ->
  exists n sz A,
    mk_name nm = Ok n /\ size = VInt sz /\ 0 <= sz /\
    A = match al with VInt a => Z.max a (m_al m) | _ => m_al m end /\
    least_multiple_ge (2 ^ A) (Z.max sz 1) (e - s) /\
    (forall a, addr = VInt a -> s = a) /\
    (addr = VNone -> least_multiple_ge (2 ^ A) (m_next m) s) /\
    m_next m' = e /\
    (forall t, In t (resources m') <-> t = (id, n, s, e) \/ In t (resources m)) /\
    windows m' = windows m /\
    m_frozen m' = m_frozen m /\ m_aw m' = m_aw m /\ m_dw m' = m_dw m /\ m_al m' = m_al m.
Proof.
  intros w mi m Hr Hn id comp nm size addr al m' s e H.
  exact (add_resource_spec m id comp nm size addr al m' s e (wf_world_nth w mi m (reachable_wf w Hr) Hn) H).
Qed.
Print Assumptions C02_add_resource_ok.

(* T4: windows.  The reported name n is the validated given name, or None for an anonymous window.
   (Form adjusted w.r.t. the target list: there the new report was `exists n, t = (wid, n, s, e, r)`
   inside the equivalence, which no model can satisfy right-to-left; here n is fixed outside.) *)
Theorem C02_add_window_ok : forall w mi m, reachable w -> nth_error w mi = Some m ->
  forall wid wm nm addr sparse m' s e r, In wm w ->
  add_window m wid wm nm addr sparse = Ok (m', (s, e, r)) ->
  exists A n,
    match nm with None => n = None | Some rn => exists x, mk_name rn = Ok x /\ n = Some x end /\
    r = (if match sparse with Some true => true | _ => false end then 1 else m_dw m / m_dw wm) /\
    1 <= r /\ A = Z.max (m_al m) (m_aw wm / r) /\
    least_multiple_ge (2 ^ A) (Z.max (2 ^ m_aw wm / r) 1) (e - s) /\
    (forall a, addr = VInt a -> s = a) /\
    (addr = VNone -> least_multiple_ge (2 ^ A) (m_next m) s) /\
    m_next m' = e /\
    (forall t, In t (windows m') <-> t = (wid, n, s, e, r) \/ In t (windows m)) /\
    resources m' = resources m /\
    m_frozen m' = m_frozen m /\ m_aw m' = m_aw m /\ m_dw m' = m_dw m /\ m_al m' = m_al m.
Proof.
  intros w mi m Hr Hn wid wm nm addr sparse m' s e r Hwm H.
  exact (add_window_spec m wid wm nm addr sparse m' s e r
           (wf_world_nth w mi m (reachable_wf w Hr) Hn) (reachable_in_wf w wm Hr Hwm) H).
Qed.
Print Assumptions C02_add_window_ok.

(* ratio 1: an implicitly placed window starts at a multiple of its own size 2^aw_w *)
Theorem C02_window_ratio1_aligned : forall w mi m, reachable w -> nth_error w mi = Some m ->
  forall wid wm nm addr sparse m' s e r, In wm w ->
  add_window m wid wm nm addr sparse = Ok (m', (s, e, r)) ->
  r = 1 -> addr = VNone -> s mod 2 ^ m_aw wm = 0 /\ 2 ^ m_aw wm <= e - s.
Proof.
  intros w mi m Hr Hn wid wm nm addr sparse m' s e r Hwm H.
  exact (window_ratio1_aligned m wid wm nm addr sparse m' s e r
           (wf_world_nth w mi m (reachable_wf w Hr) Hn) (reachable_in_wf w wm Hr Hwm) H).
Qed.
Print Assumptions C02_window_ratio1_aligned.

(* The T4 target as literally listed (new report quantified as `exists n` INSIDE the equivalence) is
   not satisfiable: right-to-left it would put (wid, n, s, e, r) into windows() for every n.  Witness:
   a named window added to an empty map; the tuple with name None is not reported. *)
Theorem C02_add_window_ok_literal_refuted :
  ~ (forall w mi m, reachable w -> nth_error w mi = Some m ->
     forall wid wm nm addr sparse m' s e r, In wm w ->
     add_window m wid wm nm addr sparse = Ok (m', (s, e, r)) ->
     exists A,
       r = (if match sparse with Some true => true | _ => false end then 1 else m_dw m / m_dw wm) /\
       1 <= r /\ A = Z.max (m_al m) (m_aw wm / r) /\
       least_multiple_ge (2 ^ A) (Z.max (2 ^ m_aw wm / r) 1) (e - s) /\
       (forall a, addr = VInt a -> s = a) /\
       (addr = VNone -> least_multiple_ge (2 ^ A) (m_next m) s) /\
       m_next m' = e /\
       (forall t, In t (windows m') <-> (exists n, t = (wid, n, s, e, r)) \/ In t (windows m)) /\
       resources m' = resources m /\ m_frozen m' = m_frozen m).
Proof.
  intros H.
  pose (ops := [ONew (VInt 8) (VInt 32) (VInt 0); ONew (VInt 4) (VInt 32) (VInt 0)]).
  pose (m := MM 8 32 0 [] [] [] [] 0 false). pose (wm := MM 4 32 0 [] [] [] [] 0 false).
  pose (m' := match add_window m 1 wm (Some (NStr 5)) VNone None with Ok (x, _) => x | Err _ => m end).
  destruct (H (world_after ops) 0%nat m (ex_intro _ ops eq_refl) ltac:(vm_compute; reflexivity)
              1 wm (Some (NStr 5)) VNone None m' 0 16 1
              ltac:(vm_compute; auto) ltac:(vm_compute; reflexivity))
    as (A & _ & _ & _ & _ & _ & _ & _ & Hw & _).
  destruct (Hw (1, None, 0, 16, 1)) as (_ & Hback).
  assert (Hin : In (1, None, 0, 16, 1) (windows m')) by (apply Hback; left; eexists; reflexivity).
  vm_compute in Hin. destruct Hin as [Hin|[]]. discriminate.
Qed.
Print Assumptions C02_add_window_ok_literal_refuted.

(* T5: a call that raises leaves every map unchanged (any world, reachable or not) *)
Theorem C02_failed_call_no_effect : forall w o,
  result_failed (snd (wstep w o)) = true -> fst (wstep w o) = w.
Proof. exact failed_call_no_effect. Qed.
Print Assumptions C02_failed_call_no_effect.

(* T6 *)
Theorem C02_frozen_rejects : forall m, m_frozen m = true ->
  (forall id comp nm size addr al, add_resource m id comp nm size addr al = Err ValueError) /\
  (forall wid wm nm addr sparse, add_window m wid wm nm addr sparse = Err ValueError).
Proof. exact frozen_rejects. Qed.
Print Assumptions C02_frozen_rejects.

Theorem C02_frozen_forever : forall w o mi m, nth_error w mi = Some m -> m_frozen m = true ->
  exists m', nth_error (fst (wstep w o)) mi = Some m' /\ m_frozen m' = true.
Proof. exact frozen_forever. Qed.
Print Assumptions C02_frozen_forever.

Theorem C02_window_use_freezes : forall w mi wi nm addr sparse w' r,
  wstep w (OWin mi (Some wi) nm addr sparse) = (w', RWin (Ok r)) ->
  exists wm', nth_error w' wi = Some wm' /\ m_frozen wm' = true.
Proof. exact window_use_freezes. Qed.
Print Assumptions C02_window_use_freezes.

(* T7: the assert statements of _RangeMap.insert / _Namespace.is_available and the IndexError of the
   namespace loop are unreachable: the API only ever raises ValueError / TypeError (OtherError is
   the model's marker for the excluded self-window call) *)
Theorem C02_no_internal_error : forall w o, reachable w ->
  match snd (wstep w o) with
  | RRes (Err e) => e = ValueError \/ e = TypeError
  | RWin (Err e) => e = ValueError \/ e = TypeError \/
                    (e = OtherError /\ exists mi nm a s, o = OWin mi (Some mi) nm a s)
  | RAlign (Err e) => e = ValueError
  | RNew (Err e) => e = ValueError
  | _ => True
  end.
Proof. exact no_internal_error. Qed.
Print Assumptions C02_no_internal_error.

(* T8: the harness' cursor probe align_to(0) is neutral *)
Theorem C02_probe_neutral : forall w m, reachable w -> In m w ->
  align_to m (VInt 0) = Ok (m, m_next m).
Proof. exact probe_neutral. Qed.
Print Assumptions C02_probe_neutral.

(* Non-vacuity: a concrete history with two maps, three resources of different alignments (1, 4, 8),
   one window, three failing calls (frozen map, duplicate name, overlapping explicit address) and a
   cursor probe. *)
Definition C02_example_ops : list op :=
  [ONew (VInt 8) (VInt 32) (VInt 0);
   ONew (VInt 4) (VInt 32) (VInt 0);
   ORes 1 100 true (NStr 1) (VInt 3) VNone VNone;
   ORes 0 200 true (NStr 2) (VInt 1) VNone VNone;
   ORes 0 201 true (NStr 3) (VInt 2) VNone (VInt 2);
   ORes 0 202 true (NStr 4) (VInt 5) VNone (VInt 3);
   OWin 0 (Some 1%nat) (Some (NStr 5)) VNone None;
   ORes 1 101 true (NStr 6) (VInt 1) VNone VNone;
   ORes 0 203 true (NStr 2) (VInt 1) VNone VNone;
   ORes 0 204 true (NStr 7) (VInt 1) (VInt 6) VNone;
   OAlign 0 (VInt 0)].

Example C02_nonvacuous :
  reachable (world_after C02_example_ops) /\
  results_from [] C02_example_ops =
    [RNew (Ok 0%nat); RNew (Ok 1%nat); RRes (Ok (0, 3)); RRes (Ok (0, 1)); RRes (Ok (4, 8));
     RRes (Ok (8, 16)); RWin (Ok (16, 32, 1)); RRes (Err ValueError); RRes (Err ValueError);
     RRes (Err ValueError); RAlign (Ok 32)] /\
  map (fun m => (resources m, windows m, m_next m, m_frozen m)) (world_after C02_example_ops) =
    [([(200, [PStr 2], 0, 1); (201, [PStr 3], 4, 8); (202, [PStr 4], 8, 16)],
      [(1, Some [PStr 5], 16, 32, 1)], 32, false);
     ([(100, [PStr 1], 0, 3)], [], 3, true)] /\
  map (fun m => map (fun x => (e_start x, e_stop x, e_step x, e_asg x)) (m_ranges m))
      (world_after C02_example_ops) =
    [[(0, 1, 1, AR 200); (4, 8, 1, AR 201); (8, 16, 1, AR 202); (16, 32, 1, AW 1)];
     [(0, 3, 1, AR 100)]].
Proof. split; [exists C02_example_ops; reflexivity|]. vm_compute. repeat split. Qed.
