(* C17 — CSR builder: registers are laid out deterministically at the promised offsets.
   Statements only; proofs live in Proofs/Builder.v (wrappers), BuilderArith.v, BuilderMap.v,
   BuilderLayout.v, BuilderInv.v, on top of the memory-map proofs of C02/C18.

   Vocabulary (Model/Builder.v, Model/BuilderSpec.v):
     reachable_builder b   b results from an accepted Builder(addr_width, data_width, granularity) followed by
                           any finite tree of add / with Cluster / with Index / freeze / as_memory_map calls
                           with arbitrary arguments (valid or not); register widths are non-negative
     as_memory_map b       (builder afterwards, Ok map | Err exception)
     placed b              the promised layout in closed form, in insertion order: (id, name, start, end)
     units b r / span b r  ceil(width / data_width)  /  that rounded up to a power of two (at least 1)
     legal b / illegal b   no / some register leaves [0, 2^addr_width), overlaps an earlier one or collides
                           in name (equal, prefix or extension) with an earlier one
     resources m           what MemoryMap.resources() yields: (id, name, start, end) in address order *)
From Coq Require Import ZArith List Bool Lia Permutation.
From Soc Require Import Lib.Res Lib.Bits Lib.PyList Model.MemoryMap Model.MemSpec Model.Builder
                        Model.BuilderSpec.
From Soc Require Import Proofs.BuilderMap Proofs.BuilderLayout Proofs.BuilderInv Proofs.Builder
                        Proofs.BuilderAll.
Import ListNotations.
Open Scope Z_scope.

(* ------------------------------------------------------------------ placement *)

(* explicit_at_offset: a register added with offset o is reported at exactly o x granularity /
   data_width — no rounding is involved (address x data_width = o x granularity) — whatever else
   is in the builder; it occupies span addresses *)
Theorem C17_explicit_at_offset : forall b m r o,
  reachable_builder b -> snd (as_memory_map b) = Ok m -> In r (bd_regs b) -> b_off r = Some o ->
  exists s, In (b_id r, b_name r, s, s + span b r) (resources m) /\
            s * bd_dw b = o * bd_gran b /\ s = o / (bd_dw b / bd_gran b).
Proof. exact explicit_at_offset. Qed.
Print Assumptions C17_explicit_at_offset.

(* implicit_first_aligned_after_prev: the i-th added register, if it has no offset, starts at the least
   multiple of its own (power-of-two) size that is >= the end of the register added just before it
   (0 for the first one); that previous register is itself reported with that end *)
Theorem C17_implicit_first_aligned_after_prev : forall b m i r,
  reachable_builder b -> snd (as_memory_map b) = Ok m ->
  nth_error (bd_regs b) i = Some r -> b_off r = None ->
  exists s, In (b_id r, b_name r, s, s + span b r) (resources m) /\
            least_multiple_ge (span b r) (prev_end b i) s /\
            match i with
            | O => prev_end b i = 0
            | S j => exists r' q, nth_error (bd_regs b) j = Some r' /\ nth_error (placed b) j = Some q /\
                                  In q (resources m) /\ p_id q = b_id r' /\ prev_end b i = p_end q
            end.
Proof. exact implicit_first_aligned_after_prev. Qed.
Print Assumptions C17_implicit_first_aligned_after_prev.

(* size_pow2: units = ceil(width / data_width); span is the least power of two >= max(units, 1) *)
Theorem C17_size_pow2 : forall b r, reachable_builder b -> In r (bd_regs b) ->
  (0 <= units b r /\ b_width r <= units b r * bd_dw b /\ units b r * bd_dw b < b_width r + bd_dw b) /\
  exists k, 0 <= k /\ span b r = 2 ^ k /\ Z.max (units b r) 1 <= 2 ^ k /\
            (0 < k -> 2 ^ (k - 1) < Z.max (units b r) 1).
Proof. exact size_pow2. Qed.
Print Assumptions C17_size_pow2.

(* the whole rule at once: the i-th register is the i-th entry of the closed-form layout, it is
   reported by resources() under its recorded name, with both placement clauses *)
Theorem C17_layout : forall b m, reachable_builder b -> snd (as_memory_map b) = Ok m ->
  forall i r, nth_error (bd_regs b) i = Some r ->
  exists p, nth_error (placed b) i = Some p /\ In p (resources m) /\
    p_id p = b_id r /\ p_name p = b_name r /\ p_end p = p_start p + span b r /\
    (forall o, b_off r = Some o ->
       p_start p * bd_dw b = o * bd_gran b /\ p_start p = o / (bd_dw b / bd_gran b)) /\
    (b_off r = None -> least_multiple_ge (span b r) (prev_end b i) (p_start p)).
Proof. exact layout. Qed.
Print Assumptions C17_layout.

(* nothing else is reported: resources() is exactly the closed-form layout, sorted by address *)
Theorem C17_resources_are_the_layout : forall b m,
  reachable_builder b -> snd (as_memory_map b) = Ok m ->
  ascending 0 (keys (resources m)) /\ Permutation (resources m) (placed b) /\
  (ascending 0 (keys (placed b)) -> resources m = placed b).
Proof. exact resources_sorted. Qed.
Print Assumptions C17_resources_are_the_layout.

(* insertion order = map order when no register has an explicit offset *)
Theorem C17_insertion_order_implicit : forall b m,
  reachable_builder b -> snd (as_memory_map b) = Ok m ->
  (forall r, In r (bd_regs b) -> b_off r = None) -> resources m = placed b.
Proof. exact insertion_order_implicit. Qed.
Print Assumptions C17_insertion_order_implicit.

(* ------------------------------------------------------------------ names *)

(* name_is_scope_path (1): an accepted add records exactly the register, its width, the current scope
   stack followed by the name, and the offset, after all earlier registers; nothing else changes *)
Theorem C17_add_records : forall b nm r off b', badd b nm r off = Ok b' ->
  exists id w o, r = RReg id w /\ bd_frozen b = false /\
    (off = VNone /\ o = None \/
     exists z, off = VInt z /\ 0 <= z /\ z mod (bd_dw b / bd_gran b) = 0 /\ o = Some z) /\
    ~ In id (map b_id (bd_regs b)) /\
    bd_regs b' = bd_regs b ++ [{| b_id := id; b_width := w;
                                  b_name := bd_stack b ++ [PStr (atom_of nm)]; b_off := o |}] /\
    bd_stack b' = bd_stack b /\ bd_frozen b' = false.
Proof. exact add_records. Qed.
Print Assumptions C17_add_records.

(* name_is_scope_path (2): the scope stack is the lexical nesting.  Running any call tree equals running
   its calls one after the other, each add prefixed by the parts of the Cluster/Index blocks that
   lexically enclose it (blocks with a refused argument are skipped entirely); blocks are balanced, and
   neither their `assert` nor their pop can fail *)
Theorem C17_name_is_scope_path : forall ops b,
  fst (run_ops b ops) = fold_left leaf_step (flat_map (flatten (bd_stack b)) ops) b /\
  forallb clean (snd (run_ops b ops)) = true.
Proof. exact run_ops_lexical. Qed.
Print Assumptions C17_name_is_scope_path.

(* ------------------------------------------------------------------ rejection *)

(* rejects_iff: as_memory_map raises ValueError exactly when the promised layout is illegal, returns a
   map exactly when it is legal, and never raises anything else (in particular none of the internal
   asserts of the memory map can fire) — a register is never silently moved (C17_explicit_at_offset,
   C17_resources_are_the_layout hold for every returned map) *)
Theorem C17_rejects_iff : forall b, reachable_builder b ->
  (snd (as_memory_map b) = Err ValueError <-> illegal b) /\
  ((exists m, snd (as_memory_map b) = Ok m) <-> legal b) /\
  (legal b <-> ~ illegal b) /\
  (forall e, snd (as_memory_map b) = Err e -> e = ValueError).
Proof. exact rejects_iff. Qed.
Print Assumptions C17_rejects_iff.

(* ------------------------------------------------------------------ freezing *)

(* frozen_builder_rejects: a frozen builder refuses every add (a non-register is a TypeError first) *)
Theorem C17_frozen_builder_rejects : forall b nm r off, bd_frozen b = true ->
  badd b nm r off = Err (match r with RNotReg => TypeError | RReg _ _ => ValueError end).
Proof. exact frozen_builder_rejects. Qed.
Print Assumptions C17_frozen_builder_rejects.

(* as_memory_map freezes the builder, also when it raises *)
Theorem C17_as_memory_map_freezes : forall b, bd_frozen (fst (as_memory_map b)) = true.
Proof. exact as_memory_map_freezes. Qed.
Print Assumptions C17_as_memory_map_freezes.

(* frozen is forever: after any further call tree the builder is still frozen, with the same
   registers and geometry *)
Theorem C17_frozen_forever : forall b ops, bd_frozen b = true ->
  bd_frozen (fst (run_ops b ops)) = true /\ bd_regs (fst (run_ops b ops)) = bd_regs b /\
  bd_aw (fst (run_ops b ops)) = bd_aw b /\ bd_dw (fst (run_ops b ops)) = bd_dw b /\
  bd_gran (fst (run_ops b ops)) = bd_gran b.
Proof. exact frozen_forever. Qed.
Print Assumptions C17_frozen_forever.

(* deterministic: once frozen, every later as_memory_map gives the same answer *)
Theorem C17_layout_stable : forall b ops, bd_frozen b = true ->
  snd (as_memory_map (fst (run_ops b ops))) = snd (as_memory_map b).
Proof. exact layout_stable. Qed.
Print Assumptions C17_layout_stable.

(* ------------------------------------------------------------------ link to C02 / C18 *)

(* the returned map is one that a history of MemoryMap calls produces, so every theorem of C02, C03
   and C18 applies to it; it is frozen, has the builder's geometry, alignment 0 and no windows *)
Theorem C17_map_is_memory_map : forall b m, reachable_builder b -> snd (as_memory_map b) = Ok m ->
  reachable [m] /\ m_frozen m = true /\ m_aw m = bd_aw b /\ m_dw m = bd_dw b /\ m_al m = 0 /\
  windows m = [].
Proof. exact map_reachable. Qed.
Print Assumptions C17_map_is_memory_map.

(* all_resources() of the returned map: one entry per register, path = (name,), width = data_width *)
Theorem C17_all_resources : forall b m, reachable_builder b -> snd (as_memory_map b) = Ok m ->
  all_resources m = Ok (map (info_of (bd_dw b)) (resources m)).
Proof. exact builder_all_resources. Qed.
Print Assumptions C17_all_resources.

(* every reachable builder has a valid geometry, registers with distinct identities, valid names and
   offsets that are non-negative multiples of data_width / granularity *)
Theorem C17_reachable_invariant : forall b, reachable_builder b -> binv b.
Proof. exact reachable_binv. Qed.
Print Assumptions C17_reachable_invariant.

(* ------------------------------------------------------------------ non-vacuity *)

(* aw 4, dw 32, granularity 8.  atoms: 1 "a", 2 "x", 3 "y", 4 "z".
     with Cluster("a"): add("x", 32 bits);  with Index(0): add("y", 33 bits)
     with Cluster(""):  add("x", ...)              -- refused block, skipped
     add("z", 8 bits, offset=32)                   -- byte offset 32 = address 8
     add("x", reg 10 again)                        -- duplicate
     as_memory_map(); add(...)                     -- frozen *)
Definition ex_ops : list bop :=
  [ BScope (KCluster (SStr 1))
      [ BAdd (SStr 2) (RReg 10 32) VNone;
        BScope (KIndex (VInt 0)) [ BAdd (SStr 3) (RReg 11 33) VNone ] ];
    BScope (KCluster (SStr 0)) [ BAdd (SStr 2) (RReg 14 8) VNone ];
    BAdd (SStr 4) (RReg 12 8) (VInt 32);
    BAdd (SStr 2) (RReg 10 32) VNone;
    BAdd (SStr 2) (RReg 15 8) (VInt 3);
    BAsMap;
    BAdd (SStr 2) (RReg 13 8) VNone ].

Definition ex_b0 : builder :=
  {| bd_aw := 4; bd_dw := 32; bd_gran := 8; bd_regs := []; bd_stack := []; bd_frozen := false |}.
Definition ex_b : builder := fst (run_ops ex_b0 ex_ops).

Example C17_reachable_nonvacuous : reachable_builder ex_b.
Proof.
  exists (VInt 4), (VInt 32), (VInt 8), ex_b0, ex_ops. split; [reflexivity|]. split; reflexivity.
Qed.

Example C17_layout_nonvacuous :
  bd_regs ex_b =
    [ {| b_id := 10; b_width := 32; b_name := [PStr 1; PStr 2]; b_off := None |};
      {| b_id := 11; b_width := 33; b_name := [PStr 1; PInt 0; PStr 3]; b_off := None |};
      {| b_id := 12; b_width := 8; b_name := [PStr 4]; b_off := Some 32 |} ] /\
  bd_frozen ex_b = true /\ bd_stack ex_b = [] /\
  placed ex_b = [ (10, [PStr 1; PStr 2], 0, 1); (11, [PStr 1; PInt 0; PStr 3], 2, 4); (12, [PStr 4], 8, 9) ] /\
  match snd (as_memory_map ex_b) with
  | Ok m => resources m = placed ex_b /\ m_frozen m = true
  | Err _ => False
  end /\
  map (fun o => match o with
                | OAdd r => r
                | OScope en _ _ => en
                | _ => Ok tt end) (snd (run_ops ex_b0 ex_ops)) =
    [Ok tt; Err TypeError; Ok tt; Err ValueError; Err ValueError; Ok tt; Err ValueError].
Proof. vm_compute. repeat split; reflexivity. Qed.

(* an illegal layout: "b" is given the byte offset 0 although "a" already sits at address 0; and one
   that overflows a 1-bit address space; and a name collision ("a" vs ("a", "b")) *)
Definition ex_bad (aw : Z) (l : list bop) : builder :=
  fst (run_ops {| bd_aw := aw; bd_dw := 8; bd_gran := 8; bd_regs := []; bd_stack := []; bd_frozen := false |} l).

Definition ex_overlap : list bop := [BAdd (SStr 1) (RReg 1 8) VNone; BAdd (SStr 2) (RReg 2 8) (VInt 0)].
Definition ex_overflow : list bop := [BAdd (SStr 1) (RReg 1 8) VNone; BAdd (SStr 2) (RReg 2 16) VNone].
Definition ex_collide : list bop :=
  [BAdd (SStr 1) (RReg 1 8) VNone; BScope (KCluster (SStr 1)) [BAdd (SStr 2) (RReg 2 8) VNone]].

Example C17_rejects_nonvacuous :
  snd (as_memory_map (ex_bad 4 ex_overlap)) = Err ValueError /\
  snd (as_memory_map (ex_bad 1 ex_overflow)) = Err ValueError /\
  snd (as_memory_map (ex_bad 4 ex_collide)) = Err ValueError /\
  placed (ex_bad 4 ex_overlap) = [(1, [PStr 1], 0, 1); (2, [PStr 2], 0, 1)] /\
  placed (ex_bad 1 ex_overflow) = [(1, [PStr 1], 0, 1); (2, [PStr 2], 2, 4)] /\
  placed (ex_bad 4 ex_collide) = [(1, [PStr 1], 0, 1); (2, [PStr 1; PStr 2], 1, 2)].
Proof. vm_compute. repeat split; reflexivity. Qed.

Example C17_rejects_reachable_nonvacuous : reachable_builder (ex_bad 4 ex_overlap).
Proof.
  exists (VInt 4), (VInt 8), (VInt 8),
         {| bd_aw := 4; bd_dw := 8; bd_gran := 8; bd_regs := []; bd_stack := []; bd_frozen := false |},
         ex_overlap.
  split; [reflexivity|]. split; reflexivity.
Qed.
