(* C17 — CSR builder layout.  Statements only; proofs live in Proofs/Builder.v. *)
From Coq Require Import ZArith List Bool Lia.
From Soc Require Import Lib.Res Lib.Bits Lib.PyList Model.MemoryMap Model.MemSpec Model.Builder Proofs.Builder.
Import ListNotations.
Open Scope Z_scope.

Theorem C17_frozen_builder_rejects : forall b nm r off, bd_frozen b = true ->
  badd b nm r off = Err (match r with RNotReg => TypeError | RReg _ _ => ValueError end).
Proof. exact frozen_builder_rejects. Qed.
Print Assumptions C17_frozen_builder_rejects.
