(* C01 — The memory map tells the truth about the hardware, end to end.
   Statements only; proofs in Proofs/HierMap.v (the maps of a hierarchy), Proofs/HierCsr.v (CSR trees),
   Proofs/HierWb.v (the Wishbone machine), Proofs/HierWb2.v (maps of a Wishbone hierarchy), HierWb3.v (from the
   root map's windows to the root decoder's selection), HierWb4.v (reach_iff_decode through SRAMs and bridges),
   HierCycle1-6.v (rung 3: held transfers on the cycle-exact Wishbone machine).

   Reading guide (Model/Hierarchy.v).  A hierarchy is syntax: `csrnode` = csr.Multiplexer over
   registers (with the add_resource()/align_to() calls made on its map) | csr.Decoder over csrnodes
   (with the align_to()/add() calls).  Two readings of it:
     csr_map n   the memory map, built by the SAME MemoryMap API calls (Model/MemoryMap.v, C02/C03);
     csr_hw n    the elaborated hardware: each decoder's Cases are read off its own map in
                 window_patterns() order, each multiplexer's registers off its own resources();
     creach h a  routing read off the hardware only: first matching Case pattern of each decoder
                 (Lib/CsrPattern.v, bit by bit), the subordinate sees addr[:addr_width], the
                 multiplexer's Case(chunk_addr) list; result = (register id, chunk index).
   Domain (`csr_dom`): explicit window addresses are multiples of the window's size 2^addr_width
   (design note N2); everything else is whatever the constructors accept (`csr_map n = Ok m`,
   `csr_hw n = Ok h`), and all_resources() does not raise (`all_resources m = Ok l`, as in C03). *)
From Coq Require Import ZArith List Bool Lia.
From Soc Require Import Lib.Res Lib.Bits Model.MemoryMap Model.Hierarchy Model.MuxSpec
  Proofs.LookupWf Proofs.HierMap Proofs.HierCsr Proofs.HierInert Proofs.HierWf Proofs.HierWb
  Proofs.HierWb2 Proofs.HierWb3 Proofs.HierWb4
  Proofs.CsrTreeFlat Proofs.CsrTreeRegs
  Proofs.HierCycle1 Proofs.HierCycle2 Proofs.HierCycle3 Proofs.HierCycle4 Proofs.HierCycle5 Proofs.HierCycle6.
From Soc Require Model.CsrDecoder Model.Mux Model.WbDecoder Proofs.WbDecoder
  Model.Sram Proofs.Sram Model.WbCsrBridge Proofs.WbCsrBridge.
Import ListNotations.
Open Scope Z_scope.

(* ---- rung 1: CSR-only trees, any depth ---- *)

(* reach_iff_decode: an address selects chunk `off` of register `id` in the hardware iff the root map
   decodes the address to `id` and reports it `off` addresses above that register's start *)
Theorem C01_csr_reach_iff_decode : forall n m h l, csr_dom n ->
  csr_map n = Ok m -> csr_hw n = Ok h -> all_resources m = Ok l ->
  forall a, 0 <= a < 2 ^ csr_aw n ->
  forall id off, creach h a = Some (id, off) <->
    decode_address m a = Some id /\
    exists i, In i l /\ i_res i = id /\ i_start i <= a < i_end i /\ off = a - i_start i.
Proof. exact csr_reach_iff_decode. Qed.
Print Assumptions C01_csr_reach_iff_decode.

(* the same with find_resource(), every register object occurring once in the tree *)
Theorem C01_csr_reach_iff_find : forall n m h l, csr_dom n ->
  csr_map n = Ok m -> csr_hw n = Ok h -> all_resources m = Ok l -> NoDup (map i_res l) ->
  forall a, 0 <= a < 2 ^ csr_aw n ->
  forall id off, creach h a = Some (id, off) <->
    decode_address m a = Some id /\ exists i, find_resource m id = Ok i /\ off = a - i_start i.
Proof. exact csr_reach_iff_find. Qed.
Print Assumptions C01_csr_reach_iff_find.

(* an address selects nothing in the hardware iff the map leaves it unassigned *)
Theorem C01_csr_unassigned_iff_unreached : forall n m h l, csr_dom n ->
  csr_map n = Ok m -> csr_hw n = Ok h -> all_resources m = Ok l ->
  forall a, 0 <= a < 2 ^ csr_aw n -> (decode_address m a = None <-> creach h a = None).
Proof. exact csr_unassigned_iff_unreached. Qed.
Print Assumptions C01_csr_unassigned_iff_unreached.

(* the maps the constructors build are well-formed trees (C03's invariant), of the node's widths *)
Theorem C01_csr_map_wellformed : forall n m, csr_dom n -> csr_map n = Ok m ->
  wf_tree m /\ m_aw m = csr_aw n /\ m_dw m = csr_dw n /\ 0 < csr_aw n.
Proof. intros n m Hd. exact (csr_map_good n Hd m). Qed.
Print Assumptions C01_csr_map_wellformed.

(* unassigned_inert, on the cycle-exact machine (composition of Model/CsrDecoder.v and Model/Mux.v over the
   tree; `c_leaves` = the element ports of every register in the cycle whose root bus carries `b`, `c_next` =
   the registered state after that cycle, `c_rdata` = the root bus r_data, a function of the state).
   From ANY state, with ANY strobes and data on the bus and any register values: an access to an address the
   root map leaves unassigned raises no register's r_stb in that cycle, no register's w_stb in the following
   cycle (w_stb is registered; whatever that cycle's own inputs rv', b'), and the root reads zero in the
   following cycle.  csr_widths: no element has a negative width. *)
Theorem C01_csr_unassigned_inert : forall n m h l, csr_dom n -> csr_widths n ->
  csr_map n = Ok m -> csr_hw n = Ok h -> all_resources m = Ok l ->
  forall s rv b, 0 <= CsrDecoder.addr b < 2 ^ csr_aw n -> decode_address m (CsrDecoder.addr b) = None ->
  (forall lo, In lo (c_leaves h s rv b) -> lo_rstb lo = false) /\
  (forall rv' b' lo, In lo (c_leaves h (c_next h s rv b) rv' b') -> lo_wstb lo = false) /\
  c_rdata h (c_next h s rv b) = 0.
Proof. exact csr_unassigned_inert. Qed.
Print Assumptions C01_csr_unassigned_inert.

(* the same for a cycle without strobes, at every address *)
Theorem C01_csr_idle_inert : forall n h, csr_dom n -> csr_widths n -> csr_hw n = Ok h ->
  forall s rv b, CsrDecoder.r_stb b = false -> CsrDecoder.w_stb b = false ->
  (forall lo, In lo (c_leaves h s rv b) -> lo_rstb lo = false) /\
  (forall rv' b' lo, In lo (c_leaves h (c_next h s rv b) rv' b') -> lo_wstb lo = false) /\
  c_rdata h (c_next h s rv b) = 0.
Proof. exact csr_idle_inert. Qed.
Print Assumptions C01_csr_idle_inert.

(* every multiplexer configuration of the elaborated tree meets the premise of C04/C05 (ascending disjoint
   registers, admissible shadow sizes), one id per register: the theorems about single multiplexers apply
   to every multiplexer of every hierarchy *)
Theorem C01_csr_hw_wellformed : forall n h, csr_dom n -> csr_widths n -> csr_hw n = Ok h -> hw_wf h.
Proof. intros n h Hd Hw. exact (csr_hw_wf n Hd Hw h). Qed.
Print Assumptions C01_csr_hw_wellformed.

(* ---- rung 2: the Wishbone layer (wishbone.Decoder over WishboneSRAM / WishboneCSRBridge over CSR trees) ----

   Reading guide.  `wbroot_map r` is the root decoder's memory map, built by the same add_window() calls
   (granularity units, window number k = the k-th add()); `wbroot_hw r` the hardware: the decoder's
   configuration `wh_cfg h` (Model/WbDecoder.v; each subordinate carries the range add() returned, READ OFF THE
   MAP) and the subordinates' hardware `wh_subs h`; `wreach h ga` routing read off the hardware only, for the
   granule address ga = word * 2^gbits + lane: the root Switch's first matching Case pattern, the word address
   truncated to the subordinate's width, then SRAM row * lanes + lane, or the bridge's CSR address
   Cat(lane, adr) and rung 1's `creach` below the bridge.

   Domain (`wb_dom r`, Proofs/HierWb2.v): the root's addr_width is not negative (wishbone.Signature checks it,
   the model does not); every add() is either dense (sparse=False) between equal geometries (subordinate data
   width = root data width, subordinate granularity = root granularity; for a bridge: the CSR data width), or
   sparse (sparse=True) under a root whose granularity is its data width (gbits = 0) with a subordinate whose
   granularity is its data width (what add() demands of a sparse subordinate); an explicit address is a
   multiple of the window size 2^addr_width of the subordinate's map (note N2); the tree behind a bridge is in
   rung 1's domain `csr_dom`.  This is the whole domain the correspondence engine `hier` generates.  "Every window is at least one word wide" is NOT assumed: it is
   derived from the constructors' own checks (Proofs/HierWb3.v sub_geom).  Everything else is whatever the
   constructors accept (`wbroot_map r = Ok m`, `wbroot_hw r = Ok h`, `all_resources m = Ok l`).

   PROVED below: C01_wb_reach_iff_decode, C01_wb_reach_iff_find, C01_wb_unassigned_iff_unreached (routing, SRAM
   and bridge leaves alike), C01_wb_cfg_in_domain (the decoder configuration read off the map is inside the
   domain of C07's selection theorems), C01_wb_outside_windows_inert (outside every window of the MAP => the
   HARDWARE selects nobody) and the combined trace corollary C01_wb_unselected_inert.

   NOT PROVED (the correspondence engine `hier` checks the model's `reach` against decode_address() /
   find_resource() of the real root map, and the oracle the real hardware against the real map, on every
   generated hierarchy and address):
     - outside `wb_dom`: sparse windows under gbits > 0 (one subordinate word then occupies a whole root word
       while the root map gives it one granule address; `wreach` is not defined for them and the generator does
       not make them), dense windows between different granularities (ratio > 1);
     - (the cycle-exact counterpart of reach IS proved now: rung 3 at the end of this file; what remains open
       there is listed in its 'Still not proved' note.) *)

(* reach_iff_decode: a granule address selects granule / chunk `off` of resource `id` in the hardware iff the
   root map decodes the address to `id` and reports it `off` addresses above that resource's start *)
Theorem C01_wb_reach_iff_decode : forall r m h l, wb_dom r ->
  wbroot_map r = Ok m -> wbroot_hw r = Ok h -> all_resources m = Ok l ->
  forall ga, 0 <= ga < 2 ^ (wr_aw r + wbroot_gbits r) ->
  forall id off, wreach h ga = Some (id, off) <->
    decode_address m ga = Some id /\
    exists i, In i l /\ i_res i = id /\ i_start i <= ga < i_end i /\ off = ga - i_start i.
Proof. exact wb_reach_iff_decode. Qed.
Print Assumptions C01_wb_reach_iff_decode.

(* the same with find_resource(), every resource object occurring once in the hierarchy *)
Theorem C01_wb_reach_iff_find : forall r m h l, wb_dom r ->
  wbroot_map r = Ok m -> wbroot_hw r = Ok h -> all_resources m = Ok l -> NoDup (map i_res l) ->
  forall ga, 0 <= ga < 2 ^ (wr_aw r + wbroot_gbits r) ->
  forall id off, wreach h ga = Some (id, off) <->
    decode_address m ga = Some id /\ exists i, find_resource m id = Ok i /\ off = ga - i_start i.
Proof. exact wb_reach_iff_find. Qed.
Print Assumptions C01_wb_reach_iff_find.

(* a granule address reaches nothing in the hardware iff the root map leaves it unassigned *)
Theorem C01_wb_unassigned_iff_unreached : forall r m h l, wb_dom r ->
  wbroot_map r = Ok m -> wbroot_hw r = Ok h -> all_resources m = Ok l ->
  forall ga, 0 <= ga < 2 ^ (wr_aw r + wbroot_gbits r) -> (decode_address m ga = None <-> wreach h ga = None).
Proof. exact wb_unassigned_iff_unreached. Qed.
Print Assumptions C01_wb_unassigned_iff_unreached.

(* the configuration of the root decoder, read off the map the add() calls built, meets the premise of C07's
   selection theorems (ratio-1 windows of at least one word, aligned to their size, pairwise disjoint, inside
   the map): cyc_iff_window / selected_none_iff / request relay apply to the root of every hierarchy *)
Theorem C01_wb_cfg_in_domain : forall r m h, wb_dom r -> wbroot_map r = Ok m -> wbroot_hw r = Ok h ->
  Proofs.WbDecoder.dom (wh_cfg h).
Proof. exact wbroot_cfg_dom. Qed.
Print Assumptions C01_wb_cfg_in_domain.

(* a word whose first granule lies outside every window of the root MAP selects no subordinate in the HARDWARE *)
Theorem C01_wb_outside_windows_inert : forall r m h, wb_dom r -> wbroot_map r = Ok m -> wbroot_hw r = Ok h ->
  forall q, 0 <= WbDecoder.adr q < 2 ^ wr_aw r ->
  (forall wn c, In (wn, c) (m_wins m) ->
     ~ (w_start wn <= WbDecoder.adr q * 2 ^ wbroot_gbits r < w_start wn + 2 ^ m_aw c)) ->
  unselected h q.
Proof. exact wb_outside_windows_unselected. Qed.
Print Assumptions C01_wb_outside_windows_inert.

(* the combined corollary, premise on the MAP: from the reset state and for traces of any length in which every
   request either has cyc low or addresses a word outside every window of the root map, the root never
   acknowledges, no register below any bridge sees r_stb, no SRAM sees cyc, and every SRAM keeps its contents.
   (wb_dom_subs: csr_dom and csr_widths of every tree behind a bridge.) *)
Theorem C01_wb_unselected_inert : forall r m h, wb_dom r -> wb_dom_subs (wr_subs r) ->
  wbroot_map r = Ok m -> wbroot_hw r = Ok h -> forall tr,
  (forall q rv, In (q, rv) tr ->
     WbDecoder.cyc q = false \/
     (0 <= WbDecoder.adr q < 2 ^ wr_aw r /\
      forall wn c, In (wn, c) (m_wins m) ->
        ~ (w_start wn <= WbDecoder.adr q * 2 ^ wbroot_gbits r < w_start wn + 2 ^ m_aw c))) ->
  forall o, In o (wb_run h (map winit (wh_subs h)) tr) ->
    wo_ack o = false /\
    (forall lo, In lo (wo_leaves o) -> lo_rstb lo = false) /\
    (forall x, In x (wo_srams o) -> snd (fst x) = false) /\
    map (fun x : Z * bool * list Z => snd x) (wo_srams o) = concat (map sram_rows (map winit (wh_subs h))).
Proof. exact wb_outside_windows_inert. Qed.
Print Assumptions C01_wb_unselected_inert.

(* The same two trace theorems with the premise stated on the HARDWARE (`unselected`: cyc low, or no Case
   pattern of the root decoder matches the word address); they need no domain beyond well-formed parts, and
   C01_wb_unselected_inert above is their corollary through C01_wb_outside_windows_inert. *)

(* While no request reaches a subordinate, from the reset state and for traces of any length: the root never
   acknowledges, no register below any bridge sees r_stb, no SRAM sees cyc, and every SRAM's contents stay
   what they were (`wo_srams` lists (id, cyc, rows) per SRAM).  wbhw_wf: every part is well formed, which
   C01_wb_hw_wellformed derives from the construction. *)
Theorem C01_wb_unselected_inert_partial : forall h, wbhw_wf h -> forall tr,
  (forall q rv, In (q, rv) tr ->
     WbDecoder.cyc q = false \/ WbDecoder.selected (wh_cfg h) (WbDecoder.adr q) = None) ->
  forall o, In o (wb_run h (map winit (wh_subs h)) tr) ->
    wo_ack o = false /\
    (forall lo, In lo (wo_leaves o) -> lo_rstb lo = false) /\
    (forall x, In x (wo_srams o) -> snd (fst x) = false) /\
    map (fun x : Z * bool * list Z => snd x) (wo_srams o) = concat (map sram_rows (map winit (wh_subs h))).
Proof. exact unselected_trace_init. Qed.
Print Assumptions C01_wb_unselected_inert_partial.

(* ... and from any state in which no subordinate is acknowledging *)
Theorem C01_wb_unselected_inert_any_state_partial : forall h, wbhw_wf h -> forall tr ss,
  Forall2 wst_ok (wh_subs h) ss -> Forall ack_low ss ->
  (forall q rv, In (q, rv) tr -> unselected h q) ->
  forall o, In o (wb_run h ss tr) ->
    wo_ack o = false /\
    (forall lo, In lo (wo_leaves o) -> lo_rstb lo = false) /\
    (forall x, In x (wo_srams o) -> snd (fst x) = false) /\
    map (fun x : Z * bool * list Z => snd x) (wo_srams o) = concat (map sram_rows ss).
Proof. exact unselected_trace. Qed.
Print Assumptions C01_wb_unselected_inert_any_state_partial.

(* the hardware of every Wishbone hierarchy the constructors accept is well formed: SRAM geometries and
   initial contents (C15's premise), multiplexers below bridges (C04/C05's premise) *)
Theorem C01_wb_hw_wellformed : forall r h, wb_dom_subs (wr_subs r) -> wbroot_hw r = Ok h -> wbhw_wf h.
Proof. exact wbroot_hw_wf. Qed.
Print Assumptions C01_wb_hw_wellformed.

(* ---- non-vacuity: a 5-bit decoder (alignment 1) over an anonymous 2-bit multiplexer (a two-chunk
   12-bit register at 0 and an 8-bit one at the explicit address 3) and, after align_to(4), a named
   3-bit decoder whose named window at the explicit address 4 holds a 1-bit multiplexer ---- *)
Definition ex_reg id w nm size addr :=
  MAdd {| l_id := id; l_width := w; l_rd := true; l_wr := true; l_name := NStr nm;
          l_size := VInt size; l_addr := addr; l_align := VNone |}.
Definition ex_mux0 := MuxLeaf 2 8 0 [ex_reg 0 12 10 2 VNone; ex_reg 1 8 11 1 (VInt 3)] None.
Definition ex_mux1 := MuxLeaf 1 8 0 [ex_reg 2 8 12 1 VNone] (Some 0).
Definition ex_inner :=
  CsrDec 3 8 0 [({| o_aligns := []; o_name := Some (NStr 20); o_addr := VInt 4 |}, ex_mux1)].
Definition ex_tree :=
  CsrDec 5 8 1 [({| o_aligns := []; o_name := None; o_addr := VNone |}, ex_mux0);
                ({| o_aligns := [4]; o_name := Some (NStr 21); o_addr := VNone |}, ex_inner)].
Definition ex_addrs := map Z.of_nat (seq 0 32).

Example C01_nonvacuous_dom : csr_dom ex_tree.
Proof.
  cbn [csr_dom ex_tree ex_inner ex_mux0 ex_mux1 o_addr csr_aw].
  repeat split; intros z H; try discriminate. injection H as <-. reflexivity.
Qed.

Example C01_nonvacuous_dom_mux0 : csr_dom ex_mux0.
Proof. exact I. Qed.

Example C01_nonvacuous_widths : csr_widths ex_tree.
Proof. cbn. unfold ops_widths. repeat split; repeat constructor; cbn; lia. Qed.

(* the machine: a read strobe at address 20 (register 2 behind two windows), then at the unassigned
   address 21; element ports as (id, r_stb, w_stb) and the root r_data, register 2 holding 0x5A *)
Example C01_nonvacuous_machine :
  exists h, csr_hw ex_tree = Ok h /\
    map (fun o : Z * list lobs => (fst o, map (fun lo => (lo_id lo, lo_rstb lo, lo_wstb lo)) (snd o)))
        (csr_run h (cinit h)
           [({| CsrDecoder.addr := 20; CsrDecoder.r_stb := true; CsrDecoder.w_stb := false; CsrDecoder.w_data := 0 |}, [0; 0; 90]);
            ({| CsrDecoder.addr := 21; CsrDecoder.r_stb := true; CsrDecoder.w_stb := true; CsrDecoder.w_data := 7 |}, [0; 0; 90]);
            ({| CsrDecoder.addr := 0; CsrDecoder.r_stb := false; CsrDecoder.w_stb := false; CsrDecoder.w_data := 0 |}, [0; 0; 90])]) =
    [(0, [(0, false, false); (1, false, false); (2, true, false)]);
     (90, [(0, false, false); (1, false, false); (2, false, false)]);
     (0, [(0, false, false); (1, false, false); (2, false, false)])].
Proof.
  destruct (csr_hw ex_tree) as [h|] eqn:Eh; [|vm_compute in Eh; discriminate].
  exists h. split; [reflexivity|]. vm_compute in Eh. injection Eh as <-. vm_compute. reflexivity.
Qed.

Example C01_nonvacuous :
  exists m h l, csr_map ex_tree = Ok m /\ csr_hw ex_tree = Ok h /\ all_resources m = Ok l /\
    map (fun i => (i_res i, i_start i, i_end i)) l = [(0, 0, 2); (1, 3, 4); (2, 20, 21)] /\
    NoDup (map i_res l) /\
    map (decode_address m) ex_addrs =
      [Some 0; Some 0; None; Some 1] ++ repeat None 16 ++ [Some 2] ++ repeat None 11 /\
    map (creach h) ex_addrs =
      [Some (0, 0); Some (0, 1); None; Some (1, 0)] ++ repeat None 16 ++ [Some (2, 0)] ++ repeat None 11.
Proof.
  destruct (csr_map ex_tree) as [m|] eqn:Em; [|vm_compute in Em; discriminate].
  destruct (csr_hw ex_tree) as [h|] eqn:Eh; [|vm_compute in Eh; discriminate].
  destruct (all_resources m) as [l|] eqn:El;
    [|vm_compute in Em; injection Em as <-; vm_compute in El; discriminate].
  exists m, h, l. vm_compute in Em. injection Em as <-. vm_compute in Eh. injection Eh as <-.
  vm_compute in El. injection El as <-.
  split; [reflexivity|]. split; [reflexivity|]. split; [reflexivity|]. split; [reflexivity|].
  split; [|split; vm_compute; reflexivity].
  cbn. repeat constructor; cbn; intuition discriminate.
Qed.

(* a Wishbone root (3 address bits, 16 data bits, byte granularity) over a named 4-byte SRAM at 0 and, at the
   explicit byte address 8, a bridge over ex_mux0: the model's routing agrees with the map on all 16 byte
   addresses of this instance (computed, not a theorem: see the NOT PROVED note), words 2, 3, 6, 7 select
   nobody, and a held request to word 7 is never acknowledged *)
Definition ex_wb : wbroot :=
  {| wr_aw := 3; wr_dw := 16; wr_gran := 8; wr_al := 0;
     wr_subs := [({| o_aligns := []; o_name := Some (NStr 30); o_addr := VNone |}, false,
                  SramLeaf 1000 4 16 8 true [4660; 22136]);
                 ({| o_aligns := []; o_name := None; o_addr := VInt 8 |}, false,
                  BridgeNode 16 (Some (NStr 31)) ex_mux0)] |}.
Definition ex_req (a : Z) : WbDecoder.breq :=
  {| WbDecoder.cyc := true; WbDecoder.stb := true; WbDecoder.we := true; WbDecoder.adr := a;
     WbDecoder.dat_w := 43981; WbDecoder.sel := 3; WbDecoder.lock := false; WbDecoder.cti := 0; WbDecoder.bte := 0 |}.

Example C01_nonvacuous_wb :
  wb_dom_subs (wr_subs ex_wb) /\
  exists m h, wbroot_map ex_wb = Ok m /\ wbroot_hw ex_wb = Ok h /\
    map (decode_address m) (map Z.of_nat (seq 0 16)) =
      [Some 1000; Some 1000; Some 1000; Some 1000; None; None; None; None;
       Some 0; Some 0; None; Some 1; None; None; None; None] /\
    map (wreach h) (map Z.of_nat (seq 0 16)) =
      [Some (1000, 0); Some (1000, 1); Some (1000, 2); Some (1000, 3); None; None; None; None;
       Some (0, 0); Some (0, 1); None; Some (1, 0); None; None; None; None] /\
    map (WbDecoder.selected (wh_cfg h)) [0; 1; 2; 3; 4; 5; 6; 7] =
      [Some 0%nat; Some 0%nat; None; None; Some 1%nat; Some 1%nat; None; None] /\
    map (fun o => (wo_ack o, map (fun x : Z * bool * list Z => (snd (fst x), snd x)) (wo_srams o)))
        (wb_run h (map winit (wh_subs h)) [(ex_req 7, [0; 0]); (ex_req 7, [0; 0]); (ex_req 7, [0; 0])]) =
      [(false, [(false, [4660; 22136])]); (false, [(false, [4660; 22136])]); (false, [(false, [4660; 22136])])] /\
    (* whereas a request to word 1 (inside the SRAM's window) writes and is acknowledged *)
    map (fun o => (wo_ack o, map (fun x : Z * bool * list Z => (snd (fst x), snd x)) (wo_srams o)))
        (wb_run h (map winit (wh_subs h)) [(ex_req 1, [0; 0]); (ex_req 1, [0; 0])]) =
      [(false, [(true, [4660; 22136])]); (true, [(true, [4660; 43981])])].
Proof.
  split.
  - cbn. split; [apply C01_nonvacuous_dom_mux0|]. split; [|exact I].
    unfold ops_widths. repeat constructor; cbn; lia.
  - destruct (wbroot_map ex_wb) as [m|] eqn:Em; [|vm_compute in Em; discriminate].
    destruct (wbroot_hw ex_wb) as [h|] eqn:Eh; [|vm_compute in Eh; discriminate].
    exists m, h. vm_compute in Em. injection Em as <-. vm_compute in Eh. injection Eh as <-.
    split; [reflexivity|]. split; [reflexivity|]. vm_compute. repeat split; reflexivity.
Qed.

(* ex_wb is inside rung 2's domain, its root map has the windows [0, 4) and [8, 12) (2 address bits each); word 7
   (granule 14) lies outside both: the premise of C01_wb_outside_windows_inert holds of it, and the conclusions
   of C01_wb_reach_iff_decode can be read off C01_nonvacuous_wb above (e.g. granule 11 = word 5, lane 1 reaches
   chunk 0 of register 1 behind the bridge; the map reports register 1 at [11, 12)) *)
Example C01_nonvacuous_wb_dom : wb_dom ex_wb.
Proof.
  split; [cbn; lia|]. repeat constructor; cbn; try (left; repeat split; reflexivity); try exact I;
    intros z H; try discriminate.
  injection H as <-. reflexivity.
Qed.

Example C01_nonvacuous_wb_outside :
  exists m h l, wbroot_map ex_wb = Ok m /\ wbroot_hw ex_wb = Ok h /\ all_resources m = Ok l /\
    map (fun i => (i_res i, i_start i, i_end i)) l = [(1000, 0, 4); (0, 8, 10); (1, 11, 12)] /\
    map (fun wc : winent * mmap => (w_start (fst wc), m_aw (snd wc))) (m_wins m) = [(0, 2); (8, 2)] /\
    wreach h 11 = Some (1, 0) /\ decode_address m 11 = Some 1 /\
    0 <= WbDecoder.adr (ex_req 7) < 2 ^ wr_aw ex_wb /\
    (forall wn c, In (wn, c) (m_wins m) ->
       ~ (w_start wn <= WbDecoder.adr (ex_req 7) * 2 ^ wbroot_gbits ex_wb < w_start wn + 2 ^ m_aw c)).
Proof.
  destruct (wbroot_map ex_wb) as [m|] eqn:Em; [|vm_compute in Em; discriminate].
  destruct (wbroot_hw ex_wb) as [h|] eqn:Eh; [|vm_compute in Eh; discriminate].
  destruct (all_resources m) as [l|] eqn:El;
    [|vm_compute in Em; injection Em as <-; vm_compute in El; discriminate].
  exists m, h, l. vm_compute in Em. injection Em as <-. vm_compute in Eh. injection Eh as <-.
  vm_compute in El. injection El as <-.
  split; [reflexivity|]. split; [reflexivity|]. split; [reflexivity|]. split; [reflexivity|].
  split; [reflexivity|]. split; [vm_compute; reflexivity|]. split; [vm_compute; reflexivity|].
  split; [vm_compute; split; [discriminate|reflexivity]|].
  intros wn c [H|[H|[]]]; injection H as <- <-; vm_compute; intros [H1 H2]; try (apply H1; reflexivity);
    discriminate.
Qed.

(* a sparse window: a 16-bit root with granularity 16 (gbits = 0) over an 8-bit, 4-byte SRAM added with
   sparse=True after align_to(2): each SRAM byte occupies one root word, the map and the hardware agree *)
Definition ex_wb_sparse : wbroot :=
  {| wr_aw := 3; wr_dw := 16; wr_gran := 16; wr_al := 0;
     wr_subs := [({| o_aligns := [2]; o_name := Some (NStr 32); o_addr := VInt 4 |}, true,
                  SramLeaf 2000 4 8 8 true [17; 34; 51; 68])] |}.

Example C01_nonvacuous_wb_sparse :
  wb_dom ex_wb_sparse /\
  exists m h, wbroot_map ex_wb_sparse = Ok m /\ wbroot_hw ex_wb_sparse = Ok h /\
    map (decode_address m) (map Z.of_nat (seq 0 8)) =
      [None; None; None; None; Some 2000; Some 2000; Some 2000; Some 2000] /\
    map (wreach h) (map Z.of_nat (seq 0 8)) =
      [None; None; None; None; Some (2000, 0); Some (2000, 1); Some (2000, 2); Some (2000, 3)].
Proof.
  split.
  - split; [cbn; lia|]. constructor; [|constructor].
    split; [right; cbn; repeat split; reflexivity|].
    split; [cbn; intros z H; injection H as <-; reflexivity|exact I].
  - destruct (wbroot_map ex_wb_sparse) as [m|] eqn:Em; [|vm_compute in Em; discriminate].
    destruct (wbroot_hw ex_wb_sparse) as [h|] eqn:Eh; [|vm_compute in Eh; discriminate].
    exists m, h. vm_compute in Em. injection Em as <-. vm_compute in Eh. injection Eh as <-.
    split; [reflexivity|]. split; [reflexivity|]. vm_compute. split; reflexivity.
Qed.

(* ---- rung 3: held Wishbone transfers on the cycle-exact machine `wb_run` ----

   Reading guide (Proofs/HierCycle1.v, HierCycle3.v).  All statements are about `wb_run h (map winit (wh_subs h)) tr`:
   the hierarchy machine from reset on an arbitrary root trace tr (per cycle: the root request and element.r_data
   of every register).
     wb_after h ss tr        the registered state after tr (cycle t of wb_run = wb_out of the state after t cycles);
     sub_req c k s q         what the root decoder relays to subordinate k when the root carries q = C07's request
                             relay (Model/WbDecoder.v's sub_out): cyc = "k is selected" & cyc, the word address cut
                             to the subordinate's width, sel / dat_w cut to its widths, we / stb unchanged;
     w_after hh s l          subordinate hh's own machine (Model/Sram.v, or Model/WbCsrBridge.v in front of the CSR
                             tree machine of rung 1) run alone on the relayed requests l;
     held q rvs              the request q presented in |rvs| consecutive cycles (register values rvs);
     ack_low / sub_idle      no acknowledge pending / additionally, for a bridge, sequencer state 0 (C10's idle);
     br_tr, br_ctr           for a bridge subordinate: the input trace of the bridge (nat -> inp, as C10 wants it)
                             and the CSR-bus trace below it (list of (bus, register values), as C06 wants it),
                             both from reset;
     xf_addr bc so j         trunc(csr_aw)(relayed word * ratio + j): the CSR address of granule j;
     xf_rstb / xf_wstb       the strobes a register reported at [i_start, i_end) of the CSR tree's root map gets
                             in cycle t0+j: r_stb iff j < R, granule j selected, a read, and granule j is the
                             register's FIRST address; w_stb iff 1 <= j <= R, granule j-1 selected, a write, and
                             granule j-1 is its LAST address (w_stb is registered in the multiplexer: C05).
   Premise "no acknowledge pending at t0" (Forall ack_low of the state after `pre`) is observable: it is
   equivalent to the root's ack being low in cycle t0 (C01_wb_no_ack_pending_observable); it holds at reset and
   again after every transfer of T1/T2 (their last conjuncts), so the theorems chain over back-to-back transfers.

   PROVED: the projection of wb_run onto one subordinate (C01_wb_projection; for a bridge, C01_wb_bridge_projection:
   the bridge machine of C10 in front of the CSR tree machine of C06, fed with the relayed request), T1
   (C01_wb_sram_transfer), T2 at CSR-bus level (C01_wb_bridge_transfer) and at register level for every register
   of the tree in terms of the tree's root addresses (C01_wb_bridge_transfer_strobes; a bridge over a single
   multiplexer is the tree of depth 0), the atomic read and write through bridge and tree
   (C01_wb_bridge_read_atomic, C01_wb_bridge_write_atomic), T3's link from the ROOT map to the premises of T1/T2
   (C01_wb_decode_selects, _sram, _bridge).

   Still not proved:
     - T3 for registers behind a bridge is stated with the register's range in the map of the CSR TREE below the
       bridge (lc); C01_wb_decode_selects_bridge gives the translation of addresses (CSR address = ga - window
       start, and the tree reaches (i_res i, ga - i_start i) there), not the translation of whole `info` records
       of the ROOT map into those of the tree's map.
     - T2 is stated for a request held THROUGH its acknowledge cycle ([t0, t0+R+1], what the Wishbone protocol
       demands); C10_transfer needs it only on [t0, t0+R] ("whatever the initiator does in the acknowledge
       cycle"): the bridge-side clauses (CSR accesses, ack, dat_r) would survive a different request at t0+R+1,
       the frame clauses about the OTHER subordinates in that cycle would not (a new request may select one).
     - the data clauses (C01_wb_bridge_read_atomic / _write_atomic) cover a register lying entirely inside the
       addressed word with all its granules selected; registers spanning several words (several transfers) are
       left to C06_tree_read_atomic / C06_tree_write_atomic on the trace `br_ctr` that C01_wb_bridge_projection
       provides.
     - w_stb below the OTHER bridges in cycle t0 itself is not claimed (it is decided by cycle t0-1: an aborted
       transfer of another bridge may still deliver a registered w_stb at t0).
     - requests that change or drop cyc in the middle of a bridge transfer, and sparse / ratio > 1 windows outside
       wb_dom (as in rung 2). *)

(* cycle t of the machine is the output function applied to the state after t cycles *)
Theorem C01_wb_run_is_state_output : forall h tr ss t q rv, nth_error tr t = Some (q, rv) ->
  nth_error (wb_run h ss tr) t = Some (wb_out h (wb_after h ss (firstn t tr)) q rv).
Proof. intros h tr ss. exact (wb_run_nth h tr ss). Qed.
Print Assumptions C01_wb_run_is_state_output.

(* (a) PROJECTION.  Subordinate k of the hierarchy machine is its own machine, run alone on the request the root
   decoder relays to it (a function of the ROOT request only); from ANY state of the right length, any trace. *)
Theorem C01_wb_projection : forall h, length (WbDecoder.c_subs (wh_cfg h)) = length (wh_subs h) ->
  forall tr ss k hh s sk, length ss = length (wh_subs h) ->
  nth_error (wh_subs h) k = Some hh -> nth_error (WbDecoder.c_subs (wh_cfg h)) k = Some s -> nth_error ss k = Some sk ->
  nth_error (wb_after h ss tr) k = Some (w_after hh sk (sub_trace (wh_cfg h) k s tr)).
Proof. exact wb_after_proj. Qed.
Print Assumptions C01_wb_projection.

(* C07's request relay, on the hierarchy: what subordinate k is sent *)
Theorem C01_wb_relayed_request : forall c k s q,
  WbDecoder.o_cyc (sub_req c k s q) = WbDecoder.is_sel (WbDecoder.selected c (WbDecoder.adr q)) k && WbDecoder.cyc q /\
  WbDecoder.o_stb (sub_req c k s q) = WbDecoder.stb q /\ WbDecoder.o_we (sub_req c k s q) = WbDecoder.we q /\
  WbDecoder.o_adr (sub_req c k s q) =
    trunc (WbDecoder.s_aw s) (Z.shiftl (WbDecoder.adr q) (Z.log2 (WbDecoder.w_ratio (WbDecoder.s_win s)))) /\
  WbDecoder.o_dat_w (sub_req c k s q) = trunc (WbDecoder.s_dw s) (WbDecoder.dat_w q) /\
  WbDecoder.o_sel (sub_req c k s q) =
    trunc (WbDecoder.s_dw s / WbDecoder.s_g s)
          (fanout (WbDecoder.c_dw c / WbDecoder.c_g c) (WbDecoder.w_ratio (WbDecoder.s_win s)) (WbDecoder.sel q)).
Proof. intros c k s q. repeat split; reflexivity. Qed.
Print Assumptions C01_wb_relayed_request.

(* For a bridge subordinate, from reset: its state after t cycles is C10's bridge machine on the trace br_tr
   and rung 1's CSR tree machine on the trace br_ctr; in cycle t the bridge is fed the relayed request and, as
   csr r_data, the tree's r_data; the CSR bus carries the bridge's outputs; the element ports below the bridge
   are those csr_run shows on br_ctr.  (The composite of Model/BridgeMuxSpec.v generalised from one multiplexer
   to a CSR tree, and embedded in the hierarchy.) *)
Theorem C01_wb_bridge_projection : forall h k bc ch s tr,
  length (WbDecoder.c_subs (wh_cfg h)) = length (wh_subs h) ->
  nth_error (wh_subs h) k = Some (HBridge bc ch) -> nth_error (WbDecoder.c_subs (wh_cfg h)) k = Some s ->
  let btr := br_tr h k bc ch s tr in
  let ctr := br_ctr h k bc ch s tr in
  (forall t, (t <= length tr)%nat ->
     nth_error (wb_after h (map winit (wh_subs h)) (firstn t tr)) k =
     Some (SBridge (WbCsrBridge.state_at bc btr t) (c_after ch (cinit ch) (firstn t ctr)))) /\
  (forall t q rv, nth_error tr t = Some (q, rv) ->
     btr t = bridge_inp ch (c_after ch (cinit ch) (firstn t ctr)) (sub_req (wh_cfg h) k s q) /\
     nth_error ctr t = Some (csr_bus_of (WbCsrBridge.out_at bc btr t), rv) /\
     nth_error (csr_run ch (cinit ch) ctr) t =
       Some (c_rdata ch (c_after ch (cinit ch) (firstn t ctr)),
             w_leaves (HBridge bc ch) (SBridge (WbCsrBridge.state_at bc btr t) (c_after ch (cinit ch) (firstn t ctr)))
                      rv (sub_req (wh_cfg h) k s q))).
Proof.
  intros h k bc ch s tr Hlen Hh Hs btr ctr. split.
  - intros t Ht. exact (proj_state h k bc ch s tr Hlen Hh Hs t Ht).
  - intros t q rv Hq. destruct (proj_cycle h k bc ch s tr Hlen t q rv Hq) as [E1 E2].
    split; [exact E1|]. split; [exact E2|]. exact (proj_leaves h k bc ch s tr Hlen t q rv Hq).
Qed.
Print Assumptions C01_wb_bridge_projection.

(* the premise "no acknowledge pending" is observable at the root *)
Theorem C01_wb_no_ack_pending_observable : forall h ss q rv, length (WbDecoder.c_subs (wh_cfg h)) = length ss ->
  (wo_ack (wb_out h ss q rv) = false <-> Forall ack_low ss).
Proof.
  intros h ss q rv Hl. split; [exact (root_ack_low h ss q rv Hl)|]. intros H. exact (acks_low_no_ack h ss q H).
Qed.
Print Assumptions C01_wb_no_ack_pending_observable.

(* reset state: nothing pending *)
Theorem C01_wb_reset_idle : forall h, wbhw_wf h -> Forall ack_low (wb_after h (map winit (wh_subs h)) []).
Proof. intros h H. exact (winit_all_low h H). Qed.
Print Assumptions C01_wb_reset_idle.

(* (b) T1: SRAM leaf.  pre = any history from reset after which no acknowledge is pending; t0 = |pre|; the request
   q (cyc & stb) is presented in cycles t0 and t0+1 and selects subordinate k, the SRAM `id`; (q2, rv2) is whatever
   comes next.  so = the relayed request.  Then:
   - ack at the root: 0 at t0, 1 at t0+1, 0 at t0+2;
   - the SRAM ports (id, cyc, rows): PA ++ (id, cyc = 1, rows) :: PB in both cycles, cyc = 0 on every other SRAM,
     and PA, PB (ids and contents of the other SRAMs) are the same lists in both cycles;
   - the rows r0 at t0 and r1 at t0+1 of the selected SRAM: same shape; granule kk of row a is the granule of the
     relayed dat_w iff the SRAM is writable, the request is a write, a = the relayed address cut to the SRAM's
     address width and relayed sel bit kk is set; every other granule of every row is unchanged;
     at t0+2 every SRAM holds what it held at t0+1 (one write);
   - a read returns at t0+1 row a of the memory AS IT WAS at t0;
   - no register below any bridge sees r_stb at t0 or t0+1, nor w_stb at t0+1 or t0+2 (w_stb at t0 is the
     business of cycle t0-1);
   - no acknowledge is pending after the two cycles. *)
Theorem C01_wb_sram_transfer : forall h, wbhw_wf h -> forall pre q rv0 rv1 q2 rv2 post k id g rows0 s,
  let tr := pre ++ (q, rv0) :: (q, rv1) :: (q2, rv2) :: post in
  let t0 := length pre in
  Forall ack_low (wb_after h (map winit (wh_subs h)) pre) ->
  WbDecoder.cyc q = true -> WbDecoder.stb q = true -> WbDecoder.selected (wh_cfg h) (WbDecoder.adr q) = Some k ->
  nth_error (wh_subs h) k = Some (HSram id g rows0) -> nth_error (WbDecoder.c_subs (wh_cfg h)) k = Some s ->
  let so := sub_req (wh_cfg h) k s q in
  exists o0 o1 o2 PA PB r0 r1,
    nth_error (wb_run h (map winit (wh_subs h)) tr) t0 = Some o0 /\
    nth_error (wb_run h (map winit (wh_subs h)) tr) (t0 + 1) = Some o1 /\
    nth_error (wb_run h (map winit (wh_subs h)) tr) (t0 + 2) = Some o2 /\
    wo_ack o0 = false /\ wo_ack o1 = true /\ wo_ack o2 = false /\
    wo_srams o0 = PA ++ (id, true, r0) :: PB /\ wo_srams o1 = PA ++ (id, true, r1) :: PB /\
    (forall x, In x PA \/ In x PB -> snd (fst x) = false) /\
    map (fun x : Z * bool * list Z => snd x) (wo_srams o2) = map (fun x : Z * bool * list Z => snd x) (wo_srams o1) /\
    Proofs.Sram.rows_ok g r0 /\ length r1 = length r0 /\
    (forall a, 0 <= a < Sram.g_depth g -> forall kk, 0 <= kk < Sram.nsel g ->
       slice (kk * Sram.g_gran g) (Sram.g_gran g) (Proofs.Sram.row r1 a) =
       if Sram.g_wr g && WbDecoder.we q && (trunc (Sram.g_aw g) (WbDecoder.o_adr so) =? a) &&
          Z.testbit (WbDecoder.o_sel so) kk
       then slice (kk * Sram.g_gran g) (Sram.g_gran g) (WbDecoder.o_dat_w so)
       else slice (kk * Sram.g_gran g) (Sram.g_gran g) (Proofs.Sram.row r0 a)) /\
    (WbDecoder.we q = false ->
       wo_dat_r o1 = trunc (WbDecoder.c_dw (wh_cfg h)) (Proofs.Sram.row r0 (trunc (Sram.g_aw g) (WbDecoder.o_adr so)))) /\
    (forall lo, In lo (wo_leaves o0) -> lo_rstb lo = false) /\
    (forall lo, In lo (wo_leaves o1) -> lo_rstb lo = false /\ lo_wstb lo = false) /\
    (forall lo, In lo (wo_leaves o2) -> lo_wstb lo = false) /\
    Forall ack_low (wb_after h (map winit (wh_subs h)) (pre ++ [(q, rv0); (q, rv1)])).
Proof. exact sram_transfer. Qed.
Print Assumptions C01_wb_sram_transfer.

(* (c, d) T2: bridge leaf, at the CSR bus below the bridge.  R = ratio of the bridge; the request q is held on
   [t0, t0+R+1] (through its acknowledge cycle, as the Wishbone protocol demands) and selects subordinate k, a
   bridge that is idle at t0, no acknowledge pending anywhere.  ctr = the CSR-bus trace below the bridge.  Then:
   1. every CSR address fits the CSR address width; ctr has one entry per cycle;
   2. granule i < R: in cycle t0+i the CSR bus carries addr = relayed word * R + i (cut to the CSR address width),
      r_stb = relayed sel_i & ~we, w_stb = relayed sel_i & we, w_data = lane i of the relayed dat_w: exactly one
      access per selected granule, ascending, none for unselected granules;
   3. no CSR strobe at t0+R, t0+R+1, nor in the cycle before t0;
   4. at the root, in every cycle t0+j, j <= R+1: ack = (j = R+1); every SRAM port shows cyc = 0 and the same
      contents P throughout; the element ports are L1 ++ los ++ L2 where los are the ports that rung 1's machine
      csr_run shows in that cycle on ctr (so every C06 theorem applies to them), and L1, L2 (below the other
      bridges) carry no r_stb, and no w_stb from t0+1 on; in the acknowledge cycle lane i of dat_r is the CSR
      tree's r_data of cycle t0+i+1 (the cycle after granule i's read strobe), for every lane that fits the root's
      data width;
   5. afterwards no acknowledge is pending and the bridge is idle again. *)
Theorem C01_wb_bridge_transfer : forall h k bc ch s, wbhw_wf h -> Proofs.WbCsrBridge.wf bc ->
  nth_error (wh_subs h) k = Some (HBridge bc ch) -> nth_error (WbDecoder.c_subs (wh_cfg h)) k = Some s ->
  forall pre q rvs post, length rvs = (Proofs.WbCsrBridge.nratio bc + 2)%nat ->
  WbDecoder.cyc q = true -> WbDecoder.stb q = true -> WbDecoder.selected (wh_cfg h) (WbDecoder.adr q) = Some k ->
  Forall ack_low (wb_after h (map winit (wh_subs h)) pre) ->
  (forall sk, nth_error (wb_after h (map winit (wh_subs h)) pre) k = Some sk -> sub_idle sk) ->
  let R := Proofs.WbCsrBridge.nratio bc in
  let tr := pre ++ held q rvs ++ post in
  let t0 := length pre in
  let so := sub_req (wh_cfg h) k s q in
  let ctr := br_ctr h k bc ch s tr in
  in_range (WbCsrBridge.c_caw bc) ctr /\ length ctr = length tr /\
  (forall i, (i < R)%nat ->
     nth_error ctr (t0 + i)%nat =
     Some ({| CsrDecoder.addr := trunc (WbCsrBridge.c_caw bc) (WbDecoder.o_adr so * WbCsrBridge.ratio bc + Z.of_nat i);
              CsrDecoder.r_stb := Z.testbit (WbDecoder.o_sel so) (Z.of_nat i) && negb (WbDecoder.we q);
              CsrDecoder.w_stb := Z.testbit (WbDecoder.o_sel so) (Z.of_nat i) && WbDecoder.we q;
              CsrDecoder.w_data := WbCsrBridge.lane bc (Z.of_nat i) (WbDecoder.o_dat_w so) |}, nth i rvs [])) /\
  (forall j, (j = R \/ j = R + 1)%nat ->
     exists b, nth_error ctr (t0 + j)%nat = Some (b, nth j rvs []) /\
               CsrDecoder.r_stb b = false /\ CsrDecoder.w_stb b = false) /\
  (forall t' b rv, t0 = S t' -> nth_error ctr t' = Some (b, rv) ->
     CsrDecoder.r_stb b = false /\ CsrDecoder.w_stb b = false) /\
  (exists P, (forall x, In x P -> snd (fst x) = false) /\
     forall j, (j < R + 2)%nat ->
     exists o rd los L1 L2,
       nth_error (wb_run h (map winit (wh_subs h)) tr) (t0 + j)%nat = Some o /\
       nth_error (csr_run ch (cinit ch) ctr) (t0 + j)%nat = Some (rd, los) /\
       wo_ack o = (j =? R + 1)%nat /\
       wo_srams o = P /\
       wo_leaves o = L1 ++ los ++ L2 /\
       (forall lo, In lo L1 \/ In lo L2 -> lo_rstb lo = false /\ ((1 <= j)%nat -> lo_wstb lo = false)) /\
       (j = (R + 1)%nat -> forall i, (i < R)%nat ->
          (Z.of_nat i + 1) * WbCsrBridge.c_g bc <= WbDecoder.c_dw (wh_cfg h) ->
          WbCsrBridge.lane bc (Z.of_nat i) (wo_dat_r o) =
          trunc (WbCsrBridge.c_g bc) (rdata_after ch ctr (t0 + i + 1)))) /\
  Forall ack_low (wb_after h (map winit (wh_subs h)) (pre ++ held q rvs)) /\
  (forall sk, nth_error (wb_after h (map winit (wh_subs h)) (pre ++ held q rvs)) k = Some sk -> sub_idle sk).
Proof. exact bridge_transfer. Qed.
Print Assumptions C01_wb_bridge_transfer.

(* (d) T2 at the registers, for a bridge over ANY CSR tree c of rung 1's domain (a single multiplexer is the tree
   of depth 0), lc = all_resources() of the tree's own root map.  Same premises.  In every cycle t0+j, j <= R+1:
   the element ports are L1 ++ los ++ L2; below the other bridges (L1, L2) no r_stb, and no w_stb from t0+1 on;
   below this bridge every port belongs to a register i reported by the tree's map, and every reported register
   has its port, with   r_stb = readable & xf_rstb   and   w_stb = writable & xf_wstb:
   a register is read-strobed exactly in the cycle t0+j in which granule j is its first address (selected, read),
   write-strobed exactly in the cycle after the granule that is its last address was written (selected, write),
   and no other register of any subordinate is strobed; no SRAM sees cyc; ack exactly at t0+R+1. *)
Theorem C01_wb_bridge_transfer_strobes : forall h k bc ch s c mc lc, wbhw_wf h -> Proofs.WbCsrBridge.wf bc ->
  nth_error (wh_subs h) k = Some (HBridge bc ch) -> nth_error (WbDecoder.c_subs (wh_cfg h)) k = Some s ->
  csr_dom c -> csr_widths c -> csr_map c = Ok mc -> csr_hw c = Ok ch -> all_resources mc = Ok lc ->
  WbCsrBridge.c_caw bc = csr_aw c ->
  forall pre q rvs post, length rvs = (Proofs.WbCsrBridge.nratio bc + 2)%nat ->
  WbDecoder.cyc q = true -> WbDecoder.stb q = true -> WbDecoder.selected (wh_cfg h) (WbDecoder.adr q) = Some k ->
  Forall ack_low (wb_after h (map winit (wh_subs h)) pre) ->
  (forall sk, nth_error (wb_after h (map winit (wh_subs h)) pre) k = Some sk -> sub_idle sk) ->
  let R := Proofs.WbCsrBridge.nratio bc in
  let tr := pre ++ held q rvs ++ post in
  let t0 := length pre in
  let so := sub_req (wh_cfg h) k s q in
  forall j, (j < R + 2)%nat ->
  exists o L1 los L2,
    nth_error (wb_run h (map winit (wh_subs h)) tr) (t0 + j)%nat = Some o /\
    wo_ack o = (j =? R + 1)%nat /\
    (forall x, In x (wo_srams o) -> snd (fst x) = false) /\
    wo_leaves o = L1 ++ los ++ L2 /\
    (forall lo, In lo L1 \/ In lo L2 -> lo_rstb lo = false /\ ((1 <= j)%nat -> lo_wstb lo = false)) /\
    (forall lo, In lo los -> exists i L kk r, In i lc /\ reg_at (csr_aw c) ch i L kk r /\ lo_id lo = i_res i /\
       lo_rstb lo = Mux.r_rd r && xf_rstb bc so j i /\ lo_wstb lo = Mux.r_wr r && xf_wstb bc so j i) /\
    (forall i, In i lc -> exists L kk r lo, reg_at (csr_aw c) ch i L kk r /\ In lo los /\ lo_id lo = i_res i /\
       lo_rstb lo = Mux.r_rd r && xf_rstb bc so j i /\ lo_wstb lo = Mux.r_wr r && xf_wstb bc so j i).
Proof. exact bridge_transfer_strobes. Qed.
Print Assumptions C01_wb_bridge_transfer_strobes.

(* T2, read data (C04's snapshot semantics through bridge and tree).  Same premises, a READ; the addressed word
   lies inside the CSR address space (C01_wb_decode_selects_bridge derives it from the map); i = a readable
   register reported by the tree's map lying entirely inside the addressed word [A, A + R), all of whose granules
   are selected (the other select bits are arbitrary); gf = index of its first granule within the word.  Then in
   the acknowledge cycle t0+R+1, for every granule gn of the register, lane gn of the root's dat_r is chunk
   gn - gf of the ONE value the register presented in cycle t0+gf (the cycle of its r_stb), whatever it presents
   in any other cycle (`Mux.word dw width j v` = bits [j*dw, min(width, (j+1)*dw)) of v; the outer trunc is to the
   bridge's granule = the CSR data width, C01_wb_constructed_bridge, and does nothing to a chunk). *)
Theorem C01_wb_bridge_read_atomic : forall h k bc ch s c mc lc, wbhw_wf h -> Proofs.WbCsrBridge.wf bc ->
  nth_error (wh_subs h) k = Some (HBridge bc ch) -> nth_error (WbDecoder.c_subs (wh_cfg h)) k = Some s ->
  csr_dom c -> csr_widths c -> csr_map c = Ok mc -> csr_hw c = Ok ch -> all_resources mc = Ok lc ->
  WbCsrBridge.c_caw bc = csr_aw c ->
  forall pre q rvs post, length rvs = (Proofs.WbCsrBridge.nratio bc + 2)%nat ->
  WbDecoder.cyc q = true -> WbDecoder.stb q = true -> WbDecoder.selected (wh_cfg h) (WbDecoder.adr q) = Some k ->
  Forall ack_low (wb_after h (map winit (wh_subs h)) pre) ->
  (forall sk, nth_error (wb_after h (map winit (wh_subs h)) pre) k = Some sk -> sub_idle sk) ->
  let R := Proofs.WbCsrBridge.nratio bc in
  let tr := pre ++ held q rvs ++ post in
  let t0 := length pre in
  let so := sub_req (wh_cfg h) k s q in
  let A := WbDecoder.o_adr so * WbCsrBridge.ratio bc in
  WbDecoder.we q = false ->
  0 <= WbDecoder.o_adr so -> (WbDecoder.o_adr so + 1) * WbCsrBridge.ratio bc <= 2 ^ WbCsrBridge.c_caw bc ->
  forall i L kk r, In i lc -> reg_at (csr_aw c) ch i L kk r -> Mux.r_rd r = true ->
  A <= i_start i -> i_end i <= A + WbCsrBridge.ratio bc ->
  (forall gz, i_start i <= A + gz < i_end i -> Z.testbit (WbDecoder.o_sel so) gz = true) ->
  let gf := Z.to_nat (i_start i - A) in
  exists o, nth_error (wb_run h (map winit (wh_subs h)) tr) (t0 + R + 1)%nat = Some o /\ wo_ack o = true /\
    forall gn, i_start i <= A + Z.of_nat gn < i_end i ->
      (Z.of_nat gn + 1) * WbCsrBridge.c_g bc <= WbDecoder.c_dw (wh_cfg h) ->
      WbCsrBridge.lane bc (Z.of_nat gn) (wo_dat_r o) =
      trunc (WbCsrBridge.c_g bc)
        (Mux.word (csr_dw c) (Mux.r_width r) (Z.of_nat gn - Z.of_nat gf)
                  (trunc (Mux.r_width r) (nth (Z.to_nat (i_res i)) (nth gf rvs []) 0))).
Proof. exact bridge_read_atomic. Qed.
Print Assumptions C01_wb_bridge_read_atomic.

(* T2, write data (C05's atomic write through bridge and tree).  Same premises, a WRITE; i = a writable register
   reported by the tree's map lying entirely inside the addressed word, all its granules selected; gf / ge = index
   within the word of its first granule / of the granule after its last one.  Then gf < ge <= R, and in cycle
   t0+ge (the cycle after its last chunk was written; strictly before the acknowledge cycle t0+R+1: "write side
   effects have taken place by the time the acknowledge is seen") the register's element port shows w_stb and,
   as w_data, the concatenation of the relayed dat_w lanes gf .. ge-1 clipped to the register's width
   (`assemble`, C05_assemble_is_concatenation; each lane cut to the CSR data width, which does nothing to a
   lane of a constructed bridge). *)
Theorem C01_wb_bridge_write_atomic : forall h k bc ch s c mc lc, wbhw_wf h -> Proofs.WbCsrBridge.wf bc ->
  nth_error (wh_subs h) k = Some (HBridge bc ch) -> nth_error (WbDecoder.c_subs (wh_cfg h)) k = Some s ->
  csr_dom c -> csr_widths c -> csr_map c = Ok mc -> csr_hw c = Ok ch -> all_resources mc = Ok lc ->
  WbCsrBridge.c_caw bc = csr_aw c ->
  forall pre q rvs post, length rvs = (Proofs.WbCsrBridge.nratio bc + 2)%nat ->
  WbDecoder.cyc q = true -> WbDecoder.stb q = true -> WbDecoder.selected (wh_cfg h) (WbDecoder.adr q) = Some k ->
  Forall ack_low (wb_after h (map winit (wh_subs h)) pre) ->
  (forall sk, nth_error (wb_after h (map winit (wh_subs h)) pre) k = Some sk -> sub_idle sk) ->
  let R := Proofs.WbCsrBridge.nratio bc in
  let tr := pre ++ held q rvs ++ post in
  let t0 := length pre in
  let so := sub_req (wh_cfg h) k s q in
  let A := WbDecoder.o_adr so * WbCsrBridge.ratio bc in
  WbDecoder.we q = true ->
  0 <= WbDecoder.o_adr so -> (WbDecoder.o_adr so + 1) * WbCsrBridge.ratio bc <= 2 ^ WbCsrBridge.c_caw bc ->
  forall i L kk r, In i lc -> reg_at (csr_aw c) ch i L kk r -> Mux.r_wr r = true ->
  A <= i_start i -> i_end i <= A + WbCsrBridge.ratio bc ->
  (forall gz, i_start i <= A + gz < i_end i -> Z.testbit (WbDecoder.o_sel so) gz = true) ->
  let gf := Z.to_nat (i_start i - A) in
  let ge := Z.to_nat (i_end i - A) in
  (gf < ge <= R)%nat /\
  exists o lo, nth_error (wb_run h (map winit (wh_subs h)) tr) (t0 + ge)%nat = Some o /\ wo_ack o = false /\
    In lo (wo_leaves o) /\ lo_id lo = i_res i /\ lo_wstb lo = true /\
    lo_wdata lo = assemble (csr_dw c) (Mux.r_width r)
                    (fun j => trunc (csr_dw c) (WbCsrBridge.lane bc (Z.of_nat gf + j) (WbDecoder.o_dat_w so)))
                    (Z.to_nat (i_end i - i_start i)).
Proof. exact bridge_write_atomic. Qed.
Print Assumptions C01_wb_bridge_write_atomic.

(* the bridges of a constructed hierarchy meet T2's premises on the configuration *)
Theorem C01_wb_constructed_bridge : forall r m h j o sp n wn w g bc ch, wb_dom r -> wbroot_map r = Ok m ->
  sub_is r m h j o sp n wn w g (HBridge bc ch) ->
  exists dw nm c, n = BridgeNode dw nm c /\ csr_dom c /\
    Proofs.WbCsrBridge.wf bc /\ WbCsrBridge.c_caw bc = csr_aw c /\ WbCsrBridge.c_g bc = csr_dw c /\ csr_hw c = Ok ch.
Proof. exact sub_is_bridge. Qed.
Print Assumptions C01_wb_constructed_bridge.

(* (e) T3: the leaf identified by the ROOT MAP.  If all_resources() of the root map reports resource i at a range
   containing the granule address ga (so decode_address(ga) = i's resource), then for the word ga / 2^gbits the
   root decoder selects a subordinate j (the premise `selected = Some k` of T1 / T2), namely the one whose
   window [w_start, w_start + 2^aw) of the root map contains ga, and that subordinate reaches (i_res i,
   ga - i_start i) at the offset of ga inside its window (node_reach: an SRAM its own granule, a bridge what
   rung 1's creach finds below it).  sub_is (Proofs/HierWb3.v) = "subordinate j is add() number j: its syntax n,
   its window wn in the root map, its hardware hh, its entry in the decoder's configuration". *)
Theorem C01_wb_decode_selects : forall r m h l, wb_dom r ->
  wbroot_map r = Ok m -> wbroot_hw r = Ok h -> all_resources m = Ok l ->
  forall ga, 0 <= ga < 2 ^ (wr_aw r + wbroot_gbits r) ->
  forall i, In i l -> i_start i <= ga < i_end i ->
  decode_address m ga = Some (i_res i) /\
  exists j o sp n wn w g hh, sub_is r m h j o sp n wn w g hh /\
    WbDecoder.selected (wh_cfg h) (ga / 2 ^ wbroot_gbits r) = Some j /\
    w_start wn <= ga < w_start wn + 2 ^ wb_maw n /\
    node_reach hh (ga - w_start wn) = Some (i_res i, ga - i_start i).
Proof. exact decode_selects. Qed.
Print Assumptions C01_wb_decode_selects.

(* T3 for T1: if the selected subordinate is an SRAM, it is the reported resource, one word holds nsel = 2^gbits
   granules, and for a request to the word of ga the row that C01_wb_sram_transfer names
   (trunc (g_aw) (o_adr so)) is (ga - i_start i) / nsel and the lane of ga is (ga - i_start i) mod nsel:
   a held write with sel bit `lane` changes exactly granule ga - i_start i of the resource the map reports. *)
Theorem C01_wb_decode_selects_sram : forall r m h l, wb_dom r ->
  wbroot_map r = Ok m -> wbroot_hw r = Ok h -> all_resources m = Ok l ->
  forall ga, 0 <= ga < 2 ^ (wr_aw r + wbroot_gbits r) ->
  forall i, In i l -> i_start i <= ga < i_end i ->
  forall j id ge rows0 s, WbDecoder.selected (wh_cfg h) (ga / 2 ^ wbroot_gbits r) = Some j ->
  nth_error (wh_subs h) j = Some (HSram id ge rows0) ->
  nth_error (WbDecoder.c_subs (wh_cfg h)) j = Some s ->
  forall q, WbDecoder.adr q = ga / 2 ^ wbroot_gbits r ->
  id = i_res i /\ Sram.nsel ge = 2 ^ wbroot_gbits r /\
  trunc (Sram.g_aw ge) (WbDecoder.o_adr (sub_req (wh_cfg h) j s q)) = (ga - i_start i) / Sram.nsel ge /\
  ga mod 2 ^ wbroot_gbits r = (ga - i_start i) mod Sram.nsel ge.
Proof. exact decode_selects_sram. Qed.
Print Assumptions C01_wb_decode_selects_sram.

(* T3 for T2: if the selected subordinate is a bridge, its ratio is 2^gbits, the CSR address of the granule that
   C01_wb_bridge_transfer names (relayed word * ratio + lane, no truncation: the word lies inside the CSR address
   space) is ga - window start, and rung 1's routing below the bridge reaches, at that CSR address, chunk
   ga - i_start i of the register the ROOT map reports (C01_csr_reach_iff_decode then names it in the tree's
   map). *)
Theorem C01_wb_decode_selects_bridge : forall r m h l, wb_dom r ->
  wbroot_map r = Ok m -> wbroot_hw r = Ok h -> all_resources m = Ok l ->
  forall ga, 0 <= ga < 2 ^ (wr_aw r + wbroot_gbits r) ->
  forall i, In i l -> i_start i <= ga < i_end i ->
  forall j bc ch s, WbDecoder.selected (wh_cfg h) (ga / 2 ^ wbroot_gbits r) = Some j ->
  nth_error (wh_subs h) j = Some (HBridge bc ch) ->
  nth_error (WbDecoder.c_subs (wh_cfg h)) j = Some s ->
  forall q, WbDecoder.adr q = ga / 2 ^ wbroot_gbits r ->
  exists wn, In wn (map fst (m_wins m)) /\ w_id wn = Z.of_nat j /\
    w_start wn <= ga < w_start wn + 2 ^ WbCsrBridge.c_caw bc /\
    WbCsrBridge.c_r bc = wbroot_gbits r /\
    WbDecoder.o_adr (sub_req (wh_cfg h) j s q) * WbCsrBridge.ratio bc + ga mod 2 ^ wbroot_gbits r = ga - w_start wn /\
    0 <= WbDecoder.o_adr (sub_req (wh_cfg h) j s q) /\
    (WbDecoder.o_adr (sub_req (wh_cfg h) j s q) + 1) * WbCsrBridge.ratio bc <= 2 ^ WbCsrBridge.c_caw bc /\
    creach ch (ga - w_start wn) = Some (i_res i, ga - i_start i).
Proof. exact decode_selects_bridge. Qed.
Print Assumptions C01_wb_decode_selects_bridge.

(* ---- rung 3, non-vacuity on ex_wb (16-bit root, byte granularity: SRAM `1000` at words 0-1, bridge of ratio 2 over
   ex_mux0 at words 4-5; register 0 = 12 bits at CSR addresses 0-1 = root bytes 8-9).
   Trace: a write of 0xABCD to SRAM word 1 with sel = 01 (cycles 0-1), then a write of 0xABCD to bridge word 4 with
   sel = 11 held on [2, 5] (R = 2: granules at 2 and 3, register 0's w_stb at cycle 4 with w_data 0xBCD, ack at 5),
   then back to back a read of word 4 held on [6, 9] (r_stb at 6, where register 0 presents 0xABC; ack at 9 with
   dat_r = 0x0ABC although the register presents 0x123 in cycle 7: one snapshot), then an idle cycle.
   Every premise of C01_wb_sram_transfer (t0 = 0) and of C01_wb_bridge_transfer / _strobes (t0 = 2 and t0 = 6)
   holds, and the run shows what the theorems say. ---- *)
Definition ex_rq (we : bool) (a sel d : Z) : WbDecoder.breq :=
  {| WbDecoder.cyc := true; WbDecoder.stb := true; WbDecoder.we := we; WbDecoder.adr := a;
     WbDecoder.dat_w := d; WbDecoder.sel := sel; WbDecoder.lock := false; WbDecoder.cti := 0; WbDecoder.bte := 0 |}.
Definition ex_idle : WbDecoder.breq :=
  {| WbDecoder.cyc := false; WbDecoder.stb := false; WbDecoder.we := false; WbDecoder.adr := 0;
     WbDecoder.dat_w := 0; WbDecoder.sel := 0; WbDecoder.lock := false; WbDecoder.cti := 0; WbDecoder.bte := 0 |}.
Definition ex_t1 : wtrace := [(ex_rq true 1 1 43981, [0; 0]); (ex_rq true 1 1 43981, [0; 0])].
Definition ex_t2 : wtrace := held (ex_rq true 4 3 43981) [[0; 0]; [0; 0]; [0; 0]; [0; 0]].
Definition ex_t3 : wtrace := held (ex_rq false 4 3 0) [[2748; 0]; [291; 0]; [0; 0]; [0; 0]].
Definition ex_show (o : wobs) :=
  (wo_ack o, wo_dat_r o, map (fun lo => (lo_id lo, lo_rstb lo, lo_wstb lo, lo_wdata lo)) (wo_leaves o), wo_srams o).

Example C01_wb_rung3_nonvacuous :
  exists h, wbroot_hw ex_wb = Ok h /\ wbhw_wf h /\
  (exists g rows0 s0,
     nth_error (wh_subs h) 0 = Some (HSram 1000 g rows0) /\ nth_error (WbDecoder.c_subs (wh_cfg h)) 0 = Some s0 /\
     WbDecoder.selected (wh_cfg h) 1 = Some 0%nat /\
     Forall ack_low (wb_after h (map winit (wh_subs h)) [])) /\
  (exists bc ch s1,
     nth_error (wh_subs h) 1 = Some (HBridge bc ch) /\ nth_error (WbDecoder.c_subs (wh_cfg h)) 1 = Some s1 /\
     Proofs.WbCsrBridge.wf bc /\ Proofs.WbCsrBridge.nratio bc = 2%nat /\
     WbDecoder.selected (wh_cfg h) 4 = Some 1%nat /\
     csr_hw ex_mux0 = Ok ch /\ WbCsrBridge.c_caw bc = csr_aw ex_mux0 /\
     Forall ack_low (wb_after h (map winit (wh_subs h)) ex_t1) /\
     (forall sk, nth_error (wb_after h (map winit (wh_subs h)) ex_t1) 1 = Some sk -> sub_idle sk) /\
     Forall ack_low (wb_after h (map winit (wh_subs h)) (ex_t1 ++ ex_t2)) /\
     (forall sk, nth_error (wb_after h (map winit (wh_subs h)) (ex_t1 ++ ex_t2)) 1 = Some sk -> sub_idle sk) /\
     (* the CSR bus below the bridge during the write: (addr, r_stb, w_stb, w_data) *)
     map (fun x : CsrDecoder.bus * list Z =>
            (CsrDecoder.addr (fst x), CsrDecoder.r_stb (fst x), CsrDecoder.w_stb (fst x), CsrDecoder.w_data (fst x)))
         (br_ctr h 1 bc ch s1 (ex_t1 ++ ex_t2)) =
       [(2, false, false, 0); (2, false, false, 0);
        (0, false, true, 205); (1, false, true, 171); (0, false, false, 0); (0, false, false, 0)]) /\
  map ex_show (wb_run h (map winit (wh_subs h)) (ex_t1 ++ ex_t2 ++ ex_t3 ++ [(ex_idle, [0; 0])])) =
    [(false, 0, [(0, false, false, 0); (1, false, false, 0)], [(1000, true, [4660; 22136])]);
     (true, 0, [(0, false, false, 0); (1, false, false, 0)], [(1000, true, [4660; 22221])]);
     (false, 0, [(0, false, false, 0); (1, false, false, 0)], [(1000, false, [4660; 22221])]);
     (false, 0, [(0, false, false, 205); (1, false, false, 0)], [(1000, false, [4660; 22221])]);
     (false, 0, [(0, false, true, 3021); (1, false, false, 171)], [(1000, false, [4660; 22221])]);
     (true, 0, [(0, false, false, 3021); (1, false, false, 171)], [(1000, false, [4660; 22221])]);
     (false, 0, [(0, true, false, 3021); (1, false, false, 171)], [(1000, false, [4660; 22221])]);
     (false, 0, [(0, false, false, 3021); (1, false, false, 171)], [(1000, false, [4660; 22221])]);
     (false, 188, [(0, false, false, 3021); (1, false, false, 171)], [(1000, false, [4660; 22221])]);
     (true, 2748, [(0, false, false, 3021); (1, false, false, 171)], [(1000, false, [4660; 22221])]);
     (false, 4660, [(0, false, false, 3021); (1, false, false, 171)], [(1000, false, [4660; 22221])])].
Proof.
  destruct (wbroot_hw ex_wb) as [h|] eqn:Eh; [|vm_compute in Eh; discriminate].
  exists h. split; [reflexivity|].
  split; [exact (C01_wb_hw_wellformed ex_wb h (proj1 C01_nonvacuous_wb) Eh)|].
  vm_compute in Eh. injection Eh as <-.
  split.
  { eexists _, _, _. split; [reflexivity|]. split; [reflexivity|]. split; [vm_compute; reflexivity|].
    vm_compute. repeat constructor. }
  split.
  { eexists _, _, _. split; [reflexivity|]. split; [reflexivity|].
    split; [unfold Proofs.WbCsrBridge.wf; cbn; lia|]. split; [vm_compute; reflexivity|].
    split; [vm_compute; reflexivity|]. split; [vm_compute; reflexivity|]. split; [reflexivity|].
    split; [vm_compute; repeat constructor|].
    split; [intros sk Hn; vm_compute in Hn; injection Hn as <-; split; reflexivity|].
    split; [vm_compute; repeat constructor|].
    split; [intros sk Hn; vm_compute in Hn; injection Hn as <-; split; reflexivity|].
    vm_compute. reflexivity. }
  vm_compute. reflexivity.
Qed.

(* ... and the right-hand side of C01_wb_bridge_read_atomic for that read (register 0, gf = 0, snapshot 0xABC of
   cycle 6): lanes 0 and 1 of dat_r = 0x0ABC in the acknowledge cycle 9 are chunks 0 and 1 of 0xABC *)
Example C01_wb_rung3_read_rhs :
  map (fun g => WbCsrBridge.lane {| WbCsrBridge.c_r := 1; WbCsrBridge.c_caw := 2; WbCsrBridge.c_g := 8 |} g 2748) [0; 1] =
  map (fun g => trunc 8 (Mux.word 8 12 (g - 0) (trunc 12 (nth 0 [2748; 0] 0)))) [0; 1].
Proof. vm_compute. reflexivity. Qed.

(* ... and of C01_wb_bridge_write_atomic for the write (register 0: gf = 0, ge = 2, 12 bits): w_data 0xBCD in cycle 4 *)
Example C01_wb_rung3_write_rhs :
  assemble 8 12 (fun j => trunc 8 (WbCsrBridge.lane {| WbCsrBridge.c_r := 1; WbCsrBridge.c_caw := 2; WbCsrBridge.c_g := 8 |}
                                                    (0 + j) 43981)) 2 = 3021.
Proof. vm_compute. reflexivity. Qed.
