(* C01 — The memory map tells the truth about the hardware, end to end.
   Statements only; proofs in Proofs/HierMap.v (the maps of a hierarchy), Proofs/HierCsr.v (CSR trees),
   Proofs/HierWb.v (the Wishbone machine), Proofs/HierWb2.v (maps of a Wishbone hierarchy), HierWb3.v (from the
   root map's windows to the root decoder's selection), HierWb4.v (reach_iff_decode through SRAMs and bridges).

   Reading guide (Model/Hierarchy.v).  A hierarchy is syntax: `csrnode` = csr.Multiplexer over
   registers (with the add_resource()/align_to() calls made on its map) | csr.Decoder over csrnodes
   (with the align_to()/add() calls).  Two readings of it:
     csr_map n   the memory map, built by the SAME MemoryMap API calls (Model/MemoryMap.v, C02/C03);
     csr_hw n    the elaborated hardware: each decoder's Cases are read off its own map in
                 window_patterns() order, each multiplexer's registers off its own resources();
     creach h a  routing read off the hardware only: first matching Case pattern of each decoder
                 (Lib/CsrPattern.v, bit by bit), the subordinate sees addr[:addr_width], the
                 multiplexer's Case(chunk_addr) list; result = (register id, chunk index).
   Domain (`csr_dom`): explicit window addresses are multiples of the window's size 2^addr_width
   (design note N2); everything else is whatever the constructors accept (`csr_map n = Ok m`,
   `csr_hw n = Ok h`), and all_resources() does not raise (`all_resources m = Ok l`, as in C03). *)
From Coq Require Import ZArith List Bool Lia.
From Soc Require Import Lib.Res Lib.Bits Model.MemoryMap Model.Hierarchy Model.MuxSpec
  Proofs.LookupWf Proofs.HierMap Proofs.HierCsr Proofs.HierInert Proofs.HierWf Proofs.HierWb
  Proofs.HierWb2 Proofs.HierWb3 Proofs.HierWb4.
From Soc Require Model.CsrDecoder Model.Mux Model.WbDecoder Proofs.WbDecoder.
Import ListNotations.
Open Scope Z_scope.

(* ---- rung 1: CSR-only trees, any depth ---- *)

(* reach_iff_decode: an address selects chunk `off` of register `id` in the hardware iff the root map
   decodes the address to `id` and reports it `off` addresses above that register's start *)
Theorem C01_csr_reach_iff_decode : forall n m h l, csr_dom n ->
  csr_map n = Ok m -> csr_hw n = Ok h -> all_resources m = Ok l ->
  forall a, 0 <= a < 2 ^ csr_aw n ->
  forall id off, creach h a = Some (id, off) <->
    decode_address m a = Some id /\
    exists i, In i l /\ i_res i = id /\ i_start i <= a < i_end i /\ off = a - i_start i.
Proof. exact csr_reach_iff_decode. Qed.
Print Assumptions C01_csr_reach_iff_decode.

(* the same with find_resource(), every register object occurring once in the tree *)
Theorem C01_csr_reach_iff_find : forall n m h l, csr_dom n ->
  csr_map n = Ok m -> csr_hw n = Ok h -> all_resources m = Ok l -> NoDup (map i_res l) ->
  forall a, 0 <= a < 2 ^ csr_aw n ->
  forall id off, creach h a = Some (id, off) <->
    decode_address m a = Some id /\ exists i, find_resource m id = Ok i /\ off = a - i_start i.
Proof. exact csr_reach_iff_find. Qed.
Print Assumptions C01_csr_reach_iff_find.

(* an address selects nothing in the hardware iff the map leaves it unassigned *)
Theorem C01_csr_unassigned_iff_unreached : forall n m h l, csr_dom n ->
  csr_map n = Ok m -> csr_hw n = Ok h -> all_resources m = Ok l ->
  forall a, 0 <= a < 2 ^ csr_aw n -> (decode_address m a = None <-> creach h a = None).
Proof. exact csr_unassigned_iff_unreached. Qed.
Print Assumptions C01_csr_unassigned_iff_unreached.

(* the maps the constructors build are well-formed trees (C03's invariant), of the node's widths *)
Theorem C01_csr_map_wellformed : forall n m, csr_dom n -> csr_map n = Ok m ->
  wf_tree m /\ m_aw m = csr_aw n /\ m_dw m = csr_dw n /\ 0 < csr_aw n.
Proof. intros n m Hd. exact (csr_map_good n Hd m). Qed.
Print Assumptions C01_csr_map_wellformed.

(* unassigned_inert, on the cycle-exact machine (composition of Model/CsrDecoder.v and Model/Mux.v over the
   tree; `c_leaves` = the element ports of every register in the cycle whose root bus carries `b`, `c_next` =
   the registered state after that cycle, `c_rdata` = the root bus r_data, a function of the state).
   From ANY state, with ANY strobes and data on the bus and any register values: an access to an address the
   root map leaves unassigned raises no register's r_stb in that cycle, no register's w_stb in the following
   cycle (w_stb is registered; whatever that cycle's own inputs rv', b'), and the root reads zero in the
   following cycle.  csr_widths: no element has a negative width. *)
Theorem C01_csr_unassigned_inert : forall n m h l, csr_dom n -> csr_widths n ->
  csr_map n = Ok m -> csr_hw n = Ok h -> all_resources m = Ok l ->
  forall s rv b, 0 <= CsrDecoder.addr b < 2 ^ csr_aw n -> decode_address m (CsrDecoder.addr b) = None ->
  (forall lo, In lo (c_leaves h s rv b) -> lo_rstb lo = false) /\
  (forall rv' b' lo, In lo (c_leaves h (c_next h s rv b) rv' b') -> lo_wstb lo = false) /\
  c_rdata h (c_next h s rv b) = 0.
Proof. exact csr_unassigned_inert. Qed.
Print Assumptions C01_csr_unassigned_inert.

(* the same for a cycle without strobes, at every address *)
Theorem C01_csr_idle_inert : forall n h, csr_dom n -> csr_widths n -> csr_hw n = Ok h ->
  forall s rv b, CsrDecoder.r_stb b = false -> CsrDecoder.w_stb b = false ->
  (forall lo, In lo (c_leaves h s rv b) -> lo_rstb lo = false) /\
  (forall rv' b' lo, In lo (c_leaves h (c_next h s rv b) rv' b') -> lo_wstb lo = false) /\
  c_rdata h (c_next h s rv b) = 0.
Proof. exact csr_idle_inert. Qed.
Print Assumptions C01_csr_idle_inert.

(* every multiplexer configuration of the elaborated tree meets the premise of C04/C05 (ascending disjoint
   registers, admissible shadow sizes), one id per register: the theorems about single multiplexers apply
   to every multiplexer of every hierarchy *)
Theorem C01_csr_hw_wellformed : forall n h, csr_dom n -> csr_widths n -> csr_hw n = Ok h -> hw_wf h.
Proof. intros n h Hd Hw. exact (csr_hw_wf n Hd Hw h). Qed.
Print Assumptions C01_csr_hw_wellformed.

(* ---- rung 2: the Wishbone layer (wishbone.Decoder over WishboneSRAM / WishboneCSRBridge over CSR trees) ----

   Reading guide.  `wbroot_map r` is the root decoder's memory map, built by the same add_window() calls
   (granularity units, window number k = the k-th add()); `wbroot_hw r` the hardware: the decoder's
   configuration `wh_cfg h` (Model/WbDecoder.v; each subordinate carries the range add() returned, READ OFF THE
   MAP) and the subordinates' hardware `wh_subs h`; `wreach h ga` routing read off the hardware only, for the
   granule address ga = word * 2^gbits + lane: the root Switch's first matching Case pattern, the word address
   truncated to the subordinate's width, then SRAM row * lanes + lane, or the bridge's CSR address
   Cat(lane, adr) and rung 1's `creach` below the bridge.

   Domain (`wb_dom r`, Proofs/HierWb2.v): the root's addr_width is not negative (wishbone.Signature checks it,
   the model does not); every add() is either dense (sparse=False) between equal geometries (subordinate data
   width = root data width, subordinate granularity = root granularity; for a bridge: the CSR data width), or
   sparse (sparse=True) under a root whose granularity is its data width (gbits = 0) with a subordinate whose
   granularity is its data width (what add() demands of a sparse subordinate); an explicit address is a
   multiple of the window size 2^addr_width of the subordinate's map (note N2); the tree behind a bridge is in
   rung 1's domain `csr_dom`.  This is the whole domain the correspondence engine `hier` generates.  "Every window is at least one word wide" is NOT assumed: it is
   derived from the constructors' own checks (Proofs/HierWb3.v sub_geom).  Everything else is whatever the
   constructors accept (`wbroot_map r = Ok m`, `wbroot_hw r = Ok h`, `all_resources m = Ok l`).

   PROVED below: C01_wb_reach_iff_decode, C01_wb_reach_iff_find, C01_wb_unassigned_iff_unreached (routing, SRAM
   and bridge leaves alike), C01_wb_cfg_in_domain (the decoder configuration read off the map is inside the
   domain of C07's selection theorems), C01_wb_outside_windows_inert (outside every window of the MAP => the
   HARDWARE selects nobody) and the combined trace corollary C01_wb_unselected_inert.

   NOT PROVED (the correspondence engine `hier` checks the model's `reach` against decode_address() /
   find_resource() of the real root map, and the oracle the real hardware against the real map, on every
   generated hierarchy and address):
     - outside `wb_dom`: sparse windows under gbits > 0 (one subordinate word then occupies a whole root word
       while the root map gives it one granule address; `wreach` is not defined for them and the generator does
       not make them), dense windows between different granularities (ratio > 1);
     - the cycle-exact counterpart of reach (which leaf is strobed in which cycle of a Wishbone transfer through
       a bridge): C07 request relay + C10 transfer + C15 are proved per component, their composition over the
       hierarchy machine `wb_run` is proved only for the unselected case (the theorems at the end of this
       section). *)

(* reach_iff_decode: a granule address selects granule / chunk `off` of resource `id` in the hardware iff the
   root map decodes the address to `id` and reports it `off` addresses above that resource's start *)
Theorem C01_wb_reach_iff_decode : forall r m h l, wb_dom r ->
  wbroot_map r = Ok m -> wbroot_hw r = Ok h -> all_resources m = Ok l ->
  forall ga, 0 <= ga < 2 ^ (wr_aw r + wbroot_gbits r) ->
  forall id off, wreach h ga = Some (id, off) <->
    decode_address m ga = Some id /\
    exists i, In i l /\ i_res i = id /\ i_start i <= ga < i_end i /\ off = ga - i_start i.
Proof. exact wb_reach_iff_decode. Qed.
Print Assumptions C01_wb_reach_iff_decode.

(* the same with find_resource(), every resource object occurring once in the hierarchy *)
Theorem C01_wb_reach_iff_find : forall r m h l, wb_dom r ->
  wbroot_map r = Ok m -> wbroot_hw r = Ok h -> all_resources m = Ok l -> NoDup (map i_res l) ->
  forall ga, 0 <= ga < 2 ^ (wr_aw r + wbroot_gbits r) ->
  forall id off, wreach h ga = Some (id, off) <->
    decode_address m ga = Some id /\ exists i, find_resource m id = Ok i /\ off = ga - i_start i.
Proof. exact wb_reach_iff_find. Qed.
Print Assumptions C01_wb_reach_iff_find.

(* a granule address reaches nothing in the hardware iff the root map leaves it unassigned *)
Theorem C01_wb_unassigned_iff_unreached : forall r m h l, wb_dom r ->
  wbroot_map r = Ok m -> wbroot_hw r = Ok h -> all_resources m = Ok l ->
  forall ga, 0 <= ga < 2 ^ (wr_aw r + wbroot_gbits r) -> (decode_address m ga = None <-> wreach h ga = None).
Proof. exact wb_unassigned_iff_unreached. Qed.
Print Assumptions C01_wb_unassigned_iff_unreached.

(* the configuration of the root decoder, read off the map the add() calls built, meets the premise of C07's
   selection theorems (ratio-1 windows of at least one word, aligned to their size, pairwise disjoint, inside
   the map): cyc_iff_window / selected_none_iff / request relay apply to the root of every hierarchy *)
Theorem C01_wb_cfg_in_domain : forall r m h, wb_dom r -> wbroot_map r = Ok m -> wbroot_hw r = Ok h ->
  Proofs.WbDecoder.dom (wh_cfg h).
Proof. exact wbroot_cfg_dom. Qed.
Print Assumptions C01_wb_cfg_in_domain.

(* a word whose first granule lies outside every window of the root MAP selects no subordinate in the HARDWARE *)
Theorem C01_wb_outside_windows_inert : forall r m h, wb_dom r -> wbroot_map r = Ok m -> wbroot_hw r = Ok h ->
  forall q, 0 <= WbDecoder.adr q < 2 ^ wr_aw r ->
  (forall wn c, In (wn, c) (m_wins m) ->
     ~ (w_start wn <= WbDecoder.adr q * 2 ^ wbroot_gbits r < w_start wn + 2 ^ m_aw c)) ->
  unselected h q.
Proof. exact wb_outside_windows_unselected. Qed.
Print Assumptions C01_wb_outside_windows_inert.

(* the combined corollary, premise on the MAP: from the reset state and for traces of any length in which every
   request either has cyc low or addresses a word outside every window of the root map, the root never
   acknowledges, no register below any bridge sees r_stb, no SRAM sees cyc, and every SRAM keeps its contents.
   (wb_dom_subs: csr_dom and csr_widths of every tree behind a bridge.) *)
Theorem C01_wb_unselected_inert : forall r m h, wb_dom r -> wb_dom_subs (wr_subs r) ->
  wbroot_map r = Ok m -> wbroot_hw r = Ok h -> forall tr,
  (forall q rv, In (q, rv) tr ->
     WbDecoder.cyc q = false \/
     (0 <= WbDecoder.adr q < 2 ^ wr_aw r /\
      forall wn c, In (wn, c) (m_wins m) ->
        ~ (w_start wn <= WbDecoder.adr q * 2 ^ wbroot_gbits r < w_start wn + 2 ^ m_aw c))) ->
  forall o, In o (wb_run h (map winit (wh_subs h)) tr) ->
    wo_ack o = false /\
    (forall lo, In lo (wo_leaves o) -> lo_rstb lo = false) /\
    (forall x, In x (wo_srams o) -> snd (fst x) = false) /\
    map (fun x : Z * bool * list Z => snd x) (wo_srams o) = concat (map sram_rows (map winit (wh_subs h))).
Proof. exact wb_outside_windows_inert. Qed.
Print Assumptions C01_wb_unselected_inert.

(* The same two trace theorems with the premise stated on the HARDWARE (`unselected`: cyc low, or no Case
   pattern of the root decoder matches the word address); they need no domain beyond well-formed parts, and
   C01_wb_unselected_inert above is their corollary through C01_wb_outside_windows_inert. *)

(* While no request reaches a subordinate, from the reset state and for traces of any length: the root never
   acknowledges, no register below any bridge sees r_stb, no SRAM sees cyc, and every SRAM's contents stay
   what they were (`wo_srams` lists (id, cyc, rows) per SRAM).  wbhw_wf: every part is well formed, which
   C01_wb_hw_wellformed derives from the construction. *)
Theorem C01_wb_unselected_inert_partial : forall h, wbhw_wf h -> forall tr,
  (forall q rv, In (q, rv) tr ->
     WbDecoder.cyc q = false \/ WbDecoder.selected (wh_cfg h) (WbDecoder.adr q) = None) ->
  forall o, In o (wb_run h (map winit (wh_subs h)) tr) ->
    wo_ack o = false /\
    (forall lo, In lo (wo_leaves o) -> lo_rstb lo = false) /\
    (forall x, In x (wo_srams o) -> snd (fst x) = false) /\
    map (fun x : Z * bool * list Z => snd x) (wo_srams o) = concat (map sram_rows (map winit (wh_subs h))).
Proof. exact unselected_trace_init. Qed.
Print Assumptions C01_wb_unselected_inert_partial.

(* ... and from any state in which no subordinate is acknowledging *)
Theorem C01_wb_unselected_inert_any_state_partial : forall h, wbhw_wf h -> forall tr ss,
  Forall2 wst_ok (wh_subs h) ss -> Forall ack_low ss ->
  (forall q rv, In (q, rv) tr -> unselected h q) ->
  forall o, In o (wb_run h ss tr) ->
    wo_ack o = false /\
    (forall lo, In lo (wo_leaves o) -> lo_rstb lo = false) /\
    (forall x, In x (wo_srams o) -> snd (fst x) = false) /\
    map (fun x : Z * bool * list Z => snd x) (wo_srams o) = concat (map sram_rows ss).
Proof. exact unselected_trace. Qed.
Print Assumptions C01_wb_unselected_inert_any_state_partial.

(* the hardware of every Wishbone hierarchy the constructors accept is well formed: SRAM geometries and
   initial contents (C15's premise), multiplexers below bridges (C04/C05's premise) *)
Theorem C01_wb_hw_wellformed : forall r h, wb_dom_subs (wr_subs r) -> wbroot_hw r = Ok h -> wbhw_wf h.
Proof. exact wbroot_hw_wf. Qed.
Print Assumptions C01_wb_hw_wellformed.

(* ---- non-vacuity: a 5-bit decoder (alignment 1) over an anonymous 2-bit multiplexer (a two-chunk
   12-bit register at 0 and an 8-bit one at the explicit address 3) and, after align_to(4), a named
   3-bit decoder whose named window at the explicit address 4 holds a 1-bit multiplexer ---- *)
Definition ex_reg id w nm size addr :=
  MAdd {| l_id := id; l_width := w; l_rd := true; l_wr := true; l_name := NStr nm;
          l_size := VInt size; l_addr := addr; l_align := VNone |}.
Definition ex_mux0 := MuxLeaf 2 8 0 [ex_reg 0 12 10 2 VNone; ex_reg 1 8 11 1 (VInt 3)] None.
Definition ex_mux1 := MuxLeaf 1 8 0 [ex_reg 2 8 12 1 VNone] (Some 0).
Definition ex_inner :=
  CsrDec 3 8 0 [({| o_aligns := []; o_name := Some (NStr 20); o_addr := VInt 4 |}, ex_mux1)].
Definition ex_tree :=
  CsrDec 5 8 1 [({| o_aligns := []; o_name := None; o_addr := VNone |}, ex_mux0);
                ({| o_aligns := [4]; o_name := Some (NStr 21); o_addr := VNone |}, ex_inner)].
Definition ex_addrs := map Z.of_nat (seq 0 32).

Example C01_nonvacuous_dom : csr_dom ex_tree.
Proof.
  cbn [csr_dom ex_tree ex_inner ex_mux0 ex_mux1 o_addr csr_aw].
  repeat split; intros z H; try discriminate. injection H as <-. reflexivity.
Qed.

Example C01_nonvacuous_dom_mux0 : csr_dom ex_mux0.
Proof. exact I. Qed.

Example C01_nonvacuous_widths : csr_widths ex_tree.
Proof. cbn. unfold ops_widths. repeat split; repeat constructor; cbn; lia. Qed.

(* the machine: a read strobe at address 20 (register 2 behind two windows), then at the unassigned
   address 21; element ports as (id, r_stb, w_stb) and the root r_data, register 2 holding 0x5A *)
Example C01_nonvacuous_machine :
  exists h, csr_hw ex_tree = Ok h /\
    map (fun o : Z * list lobs => (fst o, map (fun lo => (lo_id lo, lo_rstb lo, lo_wstb lo)) (snd o)))
        (csr_run h (cinit h)
           [({| CsrDecoder.addr := 20; CsrDecoder.r_stb := true; CsrDecoder.w_stb := false; CsrDecoder.w_data := 0 |}, [0; 0; 90]);
            ({| CsrDecoder.addr := 21; CsrDecoder.r_stb := true; CsrDecoder.w_stb := true; CsrDecoder.w_data := 7 |}, [0; 0; 90]);
            ({| CsrDecoder.addr := 0; CsrDecoder.r_stb := false; CsrDecoder.w_stb := false; CsrDecoder.w_data := 0 |}, [0; 0; 90])]) =
    [(0, [(0, false, false); (1, false, false); (2, true, false)]);
     (90, [(0, false, false); (1, false, false); (2, false, false)]);
     (0, [(0, false, false); (1, false, false); (2, false, false)])].
Proof.
  destruct (csr_hw ex_tree) as [h|] eqn:Eh; [|vm_compute in Eh; discriminate].
  exists h. split; [reflexivity|]. vm_compute in Eh. injection Eh as <-. vm_compute. reflexivity.
Qed.

Example C01_nonvacuous :
  exists m h l, csr_map ex_tree = Ok m /\ csr_hw ex_tree = Ok h /\ all_resources m = Ok l /\
    map (fun i => (i_res i, i_start i, i_end i)) l = [(0, 0, 2); (1, 3, 4); (2, 20, 21)] /\
    NoDup (map i_res l) /\
    map (decode_address m) ex_addrs =
      [Some 0; Some 0; None; Some 1] ++ repeat None 16 ++ [Some 2] ++ repeat None 11 /\
    map (creach h) ex_addrs =
      [Some (0, 0); Some (0, 1); None; Some (1, 0)] ++ repeat None 16 ++ [Some (2, 0)] ++ repeat None 11.
Proof.
  destruct (csr_map ex_tree) as [m|] eqn:Em; [|vm_compute in Em; discriminate].
  destruct (csr_hw ex_tree) as [h|] eqn:Eh; [|vm_compute in Eh; discriminate].
  destruct (all_resources m) as [l|] eqn:El;
    [|vm_compute in Em; injection Em as <-; vm_compute in El; discriminate].
  exists m, h, l. vm_compute in Em. injection Em as <-. vm_compute in Eh. injection Eh as <-.
  vm_compute in El. injection El as <-.
  split; [reflexivity|]. split; [reflexivity|]. split; [reflexivity|]. split; [reflexivity|].
  split; [|split; vm_compute; reflexivity].
  cbn. repeat constructor; cbn; intuition discriminate.
Qed.

(* a Wishbone root (3 address bits, 16 data bits, byte granularity) over a named 4-byte SRAM at 0 and, at the
   explicit byte address 8, a bridge over ex_mux0: the model's routing agrees with the map on all 16 byte
   addresses of this instance (computed, not a theorem: see the NOT PROVED note), words 2, 3, 6, 7 select
   nobody, and a held request to word 7 is never acknowledged *)
Definition ex_wb : wbroot :=
  {| wr_aw := 3; wr_dw := 16; wr_gran := 8; wr_al := 0;
     wr_subs := [({| o_aligns := []; o_name := Some (NStr 30); o_addr := VNone |}, false,
                  SramLeaf 1000 4 16 8 true [4660; 22136]);
                 ({| o_aligns := []; o_name := None; o_addr := VInt 8 |}, false,
                  BridgeNode 16 (Some (NStr 31)) ex_mux0)] |}.
Definition ex_req (a : Z) : WbDecoder.breq :=
  {| WbDecoder.cyc := true; WbDecoder.stb := true; WbDecoder.we := true; WbDecoder.adr := a;
     WbDecoder.dat_w := 43981; WbDecoder.sel := 3; WbDecoder.lock := false; WbDecoder.cti := 0; WbDecoder.bte := 0 |}.

Example C01_nonvacuous_wb :
  wb_dom_subs (wr_subs ex_wb) /\
  exists m h, wbroot_map ex_wb = Ok m /\ wbroot_hw ex_wb = Ok h /\
    map (decode_address m) (map Z.of_nat (seq 0 16)) =
      [Some 1000; Some 1000; Some 1000; Some 1000; None; None; None; None;
       Some 0; Some 0; None; Some 1; None; None; None; None] /\
    map (wreach h) (map Z.of_nat (seq 0 16)) =
      [Some (1000, 0); Some (1000, 1); Some (1000, 2); Some (1000, 3); None; None; None; None;
       Some (0, 0); Some (0, 1); None; Some (1, 0); None; None; None; None] /\
    map (WbDecoder.selected (wh_cfg h)) [0; 1; 2; 3; 4; 5; 6; 7] =
      [Some 0%nat; Some 0%nat; None; None; Some 1%nat; Some 1%nat; None; None] /\
    map (fun o => (wo_ack o, map (fun x : Z * bool * list Z => (snd (fst x), snd x)) (wo_srams o)))
        (wb_run h (map winit (wh_subs h)) [(ex_req 7, [0; 0]); (ex_req 7, [0; 0]); (ex_req 7, [0; 0])]) =
      [(false, [(false, [4660; 22136])]); (false, [(false, [4660; 22136])]); (false, [(false, [4660; 22136])])] /\
    (* whereas a request to word 1 (inside the SRAM's window) writes and is acknowledged *)
    map (fun o => (wo_ack o, map (fun x : Z * bool * list Z => (snd (fst x), snd x)) (wo_srams o)))
        (wb_run h (map winit (wh_subs h)) [(ex_req 1, [0; 0]); (ex_req 1, [0; 0])]) =
      [(false, [(true, [4660; 22136])]); (true, [(true, [4660; 43981])])].
Proof.
  split.
  - cbn. split; [apply C01_nonvacuous_dom_mux0|]. split; [|exact I].
    unfold ops_widths. repeat constructor; cbn; lia.
  - destruct (wbroot_map ex_wb) as [m|] eqn:Em; [|vm_compute in Em; discriminate].
    destruct (wbroot_hw ex_wb) as [h|] eqn:Eh; [|vm_compute in Eh; discriminate].
    exists m, h. vm_compute in Em. injection Em as <-. vm_compute in Eh. injection Eh as <-.
    split; [reflexivity|]. split; [reflexivity|]. vm_compute. repeat split; reflexivity.
Qed.

(* ex_wb is inside rung 2's domain, its root map has the windows [0, 4) and [8, 12) (2 address bits each); word 7
   (granule 14) lies outside both: the premise of C01_wb_outside_windows_inert holds of it, and the conclusions
   of C01_wb_reach_iff_decode can be read off C01_nonvacuous_wb above (e.g. granule 11 = word 5, lane 1 reaches
   chunk 0 of register 1 behind the bridge; the map reports register 1 at [11, 12)) *)
Example C01_nonvacuous_wb_dom : wb_dom ex_wb.
Proof.
  split; [cbn; lia|]. repeat constructor; cbn; try (left; repeat split; reflexivity); try exact I;
    intros z H; try discriminate.
  injection H as <-. reflexivity.
Qed.

Example C01_nonvacuous_wb_outside :
  exists m h l, wbroot_map ex_wb = Ok m /\ wbroot_hw ex_wb = Ok h /\ all_resources m = Ok l /\
    map (fun i => (i_res i, i_start i, i_end i)) l = [(1000, 0, 4); (0, 8, 10); (1, 11, 12)] /\
    map (fun wc : winent * mmap => (w_start (fst wc), m_aw (snd wc))) (m_wins m) = [(0, 2); (8, 2)] /\
    wreach h 11 = Some (1, 0) /\ decode_address m 11 = Some 1 /\
    0 <= WbDecoder.adr (ex_req 7) < 2 ^ wr_aw ex_wb /\
    (forall wn c, In (wn, c) (m_wins m) ->
       ~ (w_start wn <= WbDecoder.adr (ex_req 7) * 2 ^ wbroot_gbits ex_wb < w_start wn + 2 ^ m_aw c)).
Proof.
  destruct (wbroot_map ex_wb) as [m|] eqn:Em; [|vm_compute in Em; discriminate].
  destruct (wbroot_hw ex_wb) as [h|] eqn:Eh; [|vm_compute in Eh; discriminate].
  destruct (all_resources m) as [l|] eqn:El;
    [|vm_compute in Em; injection Em as <-; vm_compute in El; discriminate].
  exists m, h, l. vm_compute in Em. injection Em as <-. vm_compute in Eh. injection Eh as <-.
  vm_compute in El. injection El as <-.
  split; [reflexivity|]. split; [reflexivity|]. split; [reflexivity|]. split; [reflexivity|].
  split; [reflexivity|]. split; [vm_compute; reflexivity|]. split; [vm_compute; reflexivity|].
  split; [vm_compute; split; [discriminate|reflexivity]|].
  intros wn c [H|[H|[]]]; injection H as <- <-; vm_compute; intros [H1 H2]; try (apply H1; reflexivity);
    discriminate.
Qed.

(* a sparse window: a 16-bit root with granularity 16 (gbits = 0) over an 8-bit, 4-byte SRAM added with
   sparse=True after align_to(2): each SRAM byte occupies one root word, the map and the hardware agree *)
Definition ex_wb_sparse : wbroot :=
  {| wr_aw := 3; wr_dw := 16; wr_gran := 16; wr_al := 0;
     wr_subs := [({| o_aligns := [2]; o_name := Some (NStr 32); o_addr := VInt 4 |}, true,
                  SramLeaf 2000 4 8 8 true [17; 34; 51; 68])] |}.

Example C01_nonvacuous_wb_sparse :
  wb_dom ex_wb_sparse /\
  exists m h, wbroot_map ex_wb_sparse = Ok m /\ wbroot_hw ex_wb_sparse = Ok h /\
    map (decode_address m) (map Z.of_nat (seq 0 8)) =
      [None; None; None; None; Some 2000; Some 2000; Some 2000; Some 2000] /\
    map (wreach h) (map Z.of_nat (seq 0 8)) =
      [None; None; None; None; Some (2000, 0); Some (2000, 1); Some (2000, 2); Some (2000, 3)].
Proof.
  split.
  - split; [cbn; lia|]. constructor; [|constructor].
    split; [right; cbn; repeat split; reflexivity|].
    split; [cbn; intros z H; injection H as <-; reflexivity|exact I].
  - destruct (wbroot_map ex_wb_sparse) as [m|] eqn:Em; [|vm_compute in Em; discriminate].
    destruct (wbroot_hw ex_wb_sparse) as [h|] eqn:Eh; [|vm_compute in Eh; discriminate].
    exists m, h. vm_compute in Em. injection Em as <-. vm_compute in Eh. injection Eh as <-.
    split; [reflexivity|]. split; [reflexivity|]. vm_compute. split; reflexivity.
Qed.
