(* C01 — The memory map tells the truth about the hardware, end to end.
   Statements only; proofs in Proofs/HierMap.v (the maps of a hierarchy), Proofs/HierCsr.v (CSR trees).

   Reading guide (Model/Hierarchy.v).  A hierarchy is syntax: `csrnode` = csr.Multiplexer over
   registers (with the add_resource()/align_to() calls made on its map) | csr.Decoder over csrnodes
   (with the align_to()/add() calls).  Two readings of it:
     csr_map n   the memory map, built by the SAME MemoryMap API calls (Model/MemoryMap.v, C02/C03);
     csr_hw n    the elaborated hardware: each decoder's Cases are read off its own map in
                 window_patterns() order, each multiplexer's registers off its own resources();
     creach h a  routing read off the hardware only: first matching Case pattern of each decoder
                 (Lib/CsrPattern.v, bit by bit), the subordinate sees addr[:addr_width], the
                 multiplexer's Case(chunk_addr) list; result = (register id, chunk index).
   Domain (`csr_dom`): explicit window addresses are multiples of the window's size 2^addr_width
   (design note N2); everything else is whatever the constructors accept (`csr_map n = Ok m`,
   `csr_hw n = Ok h`), and all_resources() does not raise (`all_resources m = Ok l`, as in C03). *)
From Coq Require Import ZArith List Bool Lia.
From Soc Require Import Lib.Res Lib.Bits Model.MemoryMap Model.Hierarchy
  Proofs.LookupWf Proofs.HierMap Proofs.HierCsr.
Import ListNotations.
Open Scope Z_scope.

(* ---- rung 1: CSR-only trees, any depth ---- *)

(* reach_iff_decode: an address selects chunk `off` of register `id` in the hardware iff the root map
   decodes the address to `id` and reports it `off` addresses above that register's start *)
Theorem C01_csr_reach_iff_decode : forall n m h l, csr_dom n ->
  csr_map n = Ok m -> csr_hw n = Ok h -> all_resources m = Ok l ->
  forall a, 0 <= a < 2 ^ csr_aw n ->
  forall id off, creach h a = Some (id, off) <->
    decode_address m a = Some id /\
    exists i, In i l /\ i_res i = id /\ i_start i <= a < i_end i /\ off = a - i_start i.
Proof. exact csr_reach_iff_decode. Qed.
Print Assumptions C01_csr_reach_iff_decode.

(* the same with find_resource(), every register object occurring once in the tree *)
Theorem C01_csr_reach_iff_find : forall n m h l, csr_dom n ->
  csr_map n = Ok m -> csr_hw n = Ok h -> all_resources m = Ok l -> NoDup (map i_res l) ->
  forall a, 0 <= a < 2 ^ csr_aw n ->
  forall id off, creach h a = Some (id, off) <->
    decode_address m a = Some id /\ exists i, find_resource m id = Ok i /\ off = a - i_start i.
Proof. exact csr_reach_iff_find. Qed.
Print Assumptions C01_csr_reach_iff_find.

(* an address selects nothing in the hardware iff the map leaves it unassigned *)
Theorem C01_csr_unassigned_iff_unreached : forall n m h l, csr_dom n ->
  csr_map n = Ok m -> csr_hw n = Ok h -> all_resources m = Ok l ->
  forall a, 0 <= a < 2 ^ csr_aw n -> (decode_address m a = None <-> creach h a = None).
Proof. exact csr_unassigned_iff_unreached. Qed.
Print Assumptions C01_csr_unassigned_iff_unreached.

(* the maps the constructors build are well-formed trees (C03's invariant), of the node's widths *)
Theorem C01_csr_map_wellformed : forall n m, csr_dom n -> csr_map n = Ok m ->
  wf_tree m /\ m_aw m = csr_aw n /\ m_dw m = csr_dw n /\ 0 < csr_aw n.
Proof. intros n m Hd. exact (csr_map_good n Hd m). Qed.
Print Assumptions C01_csr_map_wellformed.

(* ---- non-vacuity: a 5-bit decoder (alignment 1) over an anonymous 2-bit multiplexer (a two-chunk
   12-bit register at 0 and an 8-bit one at the explicit address 3) and, after align_to(4), a named
   3-bit decoder whose named window at the explicit address 4 holds a 1-bit multiplexer ---- *)
Definition ex_reg id w nm size addr :=
  MAdd {| l_id := id; l_width := w; l_rd := true; l_wr := true; l_name := NStr nm;
          l_size := VInt size; l_addr := addr; l_align := VNone |}.
Definition ex_mux0 := MuxLeaf 2 8 0 [ex_reg 0 12 10 2 VNone; ex_reg 1 8 11 1 (VInt 3)] None.
Definition ex_mux1 := MuxLeaf 1 8 0 [ex_reg 2 8 12 1 VNone] (Some 0).
Definition ex_inner :=
  CsrDec 3 8 0 [({| o_aligns := []; o_name := Some (NStr 20); o_addr := VInt 4 |}, ex_mux1)].
Definition ex_tree :=
  CsrDec 5 8 1 [({| o_aligns := []; o_name := None; o_addr := VNone |}, ex_mux0);
                ({| o_aligns := [4]; o_name := Some (NStr 21); o_addr := VNone |}, ex_inner)].
Definition ex_addrs := map Z.of_nat (seq 0 32).

Example C01_nonvacuous_dom : csr_dom ex_tree.
Proof.
  cbn [csr_dom ex_tree ex_inner ex_mux0 ex_mux1 o_addr csr_aw].
  repeat split; intros z H; try discriminate. injection H as <-. reflexivity.
Qed.

Example C01_nonvacuous :
  exists m h l, csr_map ex_tree = Ok m /\ csr_hw ex_tree = Ok h /\ all_resources m = Ok l /\
    map (fun i => (i_res i, i_start i, i_end i)) l = [(0, 0, 2); (1, 3, 4); (2, 20, 21)] /\
    NoDup (map i_res l) /\
    map (decode_address m) ex_addrs =
      [Some 0; Some 0; None; Some 1] ++ repeat None 16 ++ [Some 2] ++ repeat None 11 /\
    map (creach h) ex_addrs =
      [Some (0, 0); Some (0, 1); None; Some (1, 0)] ++ repeat None 16 ++ [Some (2, 0)] ++ repeat None 11.
Proof.
  destruct (csr_map ex_tree) as [m|] eqn:Em; [|vm_compute in Em; discriminate].
  destruct (csr_hw ex_tree) as [h|] eqn:Eh; [|vm_compute in Eh; discriminate].
  destruct (all_resources m) as [l|] eqn:El;
    [|vm_compute in Em; injection Em as <-; vm_compute in El; discriminate].
  exists m, h, l. vm_compute in Em. injection Em as <-. vm_compute in Eh. injection Eh as <-.
  vm_compute in El. injection El as <-.
  split; [reflexivity|]. split; [reflexivity|]. split; [reflexivity|]. split; [reflexivity|].
  split; [|split; vm_compute; reflexivity].
  cbn. repeat constructor; cbn; intuition discriminate.
Qed.
