(* C01 — The memory map tells the truth about the hardware, end to end.
   Statements only; proofs in Proofs/HierMap.v (the maps of a hierarchy), Proofs/HierCsr.v (CSR trees).

   Reading guide (Model/Hierarchy.v).  A hierarchy is syntax: `csrnode` = csr.Multiplexer over
   registers (with the add_resource()/align_to() calls made on its map) | csr.Decoder over csrnodes
   (with the align_to()/add() calls).  Two readings of it:
     csr_map n   the memory map, built by the SAME MemoryMap API calls (Model/MemoryMap.v, C02/C03);
     csr_hw n    the elaborated hardware: each decoder's Cases are read off its own map in
                 window_patterns() order, each multiplexer's registers off its own resources();
     creach h a  routing read off the hardware only: first matching Case pattern of each decoder
                 (Lib/CsrPattern.v, bit by bit), the subordinate sees addr[:addr_width], the
                 multiplexer's Case(chunk_addr) list; result = (register id, chunk index).
   Domain (`csr_dom`): explicit window addresses are multiples of the window's size 2^addr_width
   (design note N2); everything else is whatever the constructors accept (`csr_map n = Ok m`,
   `csr_hw n = Ok h`), and all_resources() does not raise (`all_resources m = Ok l`, as in C03). *)
From Coq Require Import ZArith List Bool Lia.
From Soc Require Import Lib.Res Lib.Bits Model.MemoryMap Model.Hierarchy Model.MuxSpec
  Proofs.LookupWf Proofs.HierMap Proofs.HierCsr Proofs.HierInert Proofs.HierWf.
From Soc Require Model.CsrDecoder Model.Mux.
Import ListNotations.
Open Scope Z_scope.

(* ---- rung 1: CSR-only trees, any depth ---- *)

(* reach_iff_decode: an address selects chunk `off` of register `id` in the hardware iff the root map
   decodes the address to `id` and reports it `off` addresses above that register's start *)
Theorem C01_csr_reach_iff_decode : forall n m h l, csr_dom n ->
  csr_map n = Ok m -> csr_hw n = Ok h -> all_resources m = Ok l ->
  forall a, 0 <= a < 2 ^ csr_aw n ->
  forall id off, creach h a = Some (id, off) <->
    decode_address m a = Some id /\
    exists i, In i l /\ i_res i = id /\ i_start i <= a < i_end i /\ off = a - i_start i.
Proof. exact csr_reach_iff_decode. Qed.
Print Assumptions C01_csr_reach_iff_decode.

(* the same with find_resource(), every register object occurring once in the tree *)
Theorem C01_csr_reach_iff_find : forall n m h l, csr_dom n ->
  csr_map n = Ok m -> csr_hw n = Ok h -> all_resources m = Ok l -> NoDup (map i_res l) ->
  forall a, 0 <= a < 2 ^ csr_aw n ->
  forall id off, creach h a = Some (id, off) <->
    decode_address m a = Some id /\ exists i, find_resource m id = Ok i /\ off = a - i_start i.
Proof. exact csr_reach_iff_find. Qed.
Print Assumptions C01_csr_reach_iff_find.

(* an address selects nothing in the hardware iff the map leaves it unassigned *)
Theorem C01_csr_unassigned_iff_unreached : forall n m h l, csr_dom n ->
  csr_map n = Ok m -> csr_hw n = Ok h -> all_resources m = Ok l ->
  forall a, 0 <= a < 2 ^ csr_aw n -> (decode_address m a = None <-> creach h a = None).
Proof. exact csr_unassigned_iff_unreached. Qed.
Print Assumptions C01_csr_unassigned_iff_unreached.

(* the maps the constructors build are well-formed trees (C03's invariant), of the node's widths *)
Theorem C01_csr_map_wellformed : forall n m, csr_dom n -> csr_map n = Ok m ->
  wf_tree m /\ m_aw m = csr_aw n /\ m_dw m = csr_dw n /\ 0 < csr_aw n.
Proof. intros n m Hd. exact (csr_map_good n Hd m). Qed.
Print Assumptions C01_csr_map_wellformed.

(* unassigned_inert, on the cycle-exact machine (composition of Model/CsrDecoder.v and Model/Mux.v over the
   tree; `c_leaves` = the element ports of every register in the cycle whose root bus carries `b`, `c_next` =
   the registered state after that cycle, `c_rdata` = the root bus r_data, a function of the state).
   From ANY state, with ANY strobes and data on the bus and any register values: an access to an address the
   root map leaves unassigned raises no register's r_stb in that cycle, no register's w_stb in the following
   cycle (w_stb is registered; whatever that cycle's own inputs rv', b'), and the root reads zero in the
   following cycle.  csr_widths: no element has a negative width. *)
Theorem C01_csr_unassigned_inert : forall n m h l, csr_dom n -> csr_widths n ->
  csr_map n = Ok m -> csr_hw n = Ok h -> all_resources m = Ok l ->
  forall s rv b, 0 <= CsrDecoder.addr b < 2 ^ csr_aw n -> decode_address m (CsrDecoder.addr b) = None ->
  (forall lo, In lo (c_leaves h s rv b) -> lo_rstb lo = false) /\
  (forall rv' b' lo, In lo (c_leaves h (c_next h s rv b) rv' b') -> lo_wstb lo = false) /\
  c_rdata h (c_next h s rv b) = 0.
Proof. exact csr_unassigned_inert. Qed.
Print Assumptions C01_csr_unassigned_inert.

(* the same for a cycle without strobes, at every address *)
Theorem C01_csr_idle_inert : forall n h, csr_dom n -> csr_widths n -> csr_hw n = Ok h ->
  forall s rv b, CsrDecoder.r_stb b = false -> CsrDecoder.w_stb b = false ->
  (forall lo, In lo (c_leaves h s rv b) -> lo_rstb lo = false) /\
  (forall rv' b' lo, In lo (c_leaves h (c_next h s rv b) rv' b') -> lo_wstb lo = false) /\
  c_rdata h (c_next h s rv b) = 0.
Proof. exact csr_idle_inert. Qed.
Print Assumptions C01_csr_idle_inert.

(* every multiplexer configuration of the elaborated tree meets the premise of C04/C05 (ascending disjoint
   registers, admissible shadow sizes), one id per register: the theorems about single multiplexers apply
   to every multiplexer of every hierarchy *)
Theorem C01_csr_hw_wellformed : forall n h, csr_dom n -> csr_widths n -> csr_hw n = Ok h -> hw_wf h.
Proof. intros n h Hd Hw. exact (csr_hw_wf n Hd Hw h). Qed.
Print Assumptions C01_csr_hw_wellformed.

(* ---- non-vacuity: a 5-bit decoder (alignment 1) over an anonymous 2-bit multiplexer (a two-chunk
   12-bit register at 0 and an 8-bit one at the explicit address 3) and, after align_to(4), a named
   3-bit decoder whose named window at the explicit address 4 holds a 1-bit multiplexer ---- *)
Definition ex_reg id w nm size addr :=
  MAdd {| l_id := id; l_width := w; l_rd := true; l_wr := true; l_name := NStr nm;
          l_size := VInt size; l_addr := addr; l_align := VNone |}.
Definition ex_mux0 := MuxLeaf 2 8 0 [ex_reg 0 12 10 2 VNone; ex_reg 1 8 11 1 (VInt 3)] None.
Definition ex_mux1 := MuxLeaf 1 8 0 [ex_reg 2 8 12 1 VNone] (Some 0).
Definition ex_inner :=
  CsrDec 3 8 0 [({| o_aligns := []; o_name := Some (NStr 20); o_addr := VInt 4 |}, ex_mux1)].
Definition ex_tree :=
  CsrDec 5 8 1 [({| o_aligns := []; o_name := None; o_addr := VNone |}, ex_mux0);
                ({| o_aligns := [4]; o_name := Some (NStr 21); o_addr := VNone |}, ex_inner)].
Definition ex_addrs := map Z.of_nat (seq 0 32).

Example C01_nonvacuous_dom : csr_dom ex_tree.
Proof.
  cbn [csr_dom ex_tree ex_inner ex_mux0 ex_mux1 o_addr csr_aw].
  repeat split; intros z H; try discriminate. injection H as <-. reflexivity.
Qed.

Example C01_nonvacuous_widths : csr_widths ex_tree.
Proof. cbn. unfold ops_widths. repeat split; repeat constructor; cbn; lia. Qed.

(* the machine: a read strobe at address 20 (register 2 behind two windows), then at the unassigned
   address 21; element ports as (id, r_stb, w_stb) and the root r_data, register 2 holding 0x5A *)
Example C01_nonvacuous_machine :
  exists h, csr_hw ex_tree = Ok h /\
    map (fun o : Z * list lobs => (fst o, map (fun lo => (lo_id lo, lo_rstb lo, lo_wstb lo)) (snd o)))
        (csr_run h (cinit h)
           [({| CsrDecoder.addr := 20; CsrDecoder.r_stb := true; CsrDecoder.w_stb := false; CsrDecoder.w_data := 0 |}, [0; 0; 90]);
            ({| CsrDecoder.addr := 21; CsrDecoder.r_stb := true; CsrDecoder.w_stb := true; CsrDecoder.w_data := 7 |}, [0; 0; 90]);
            ({| CsrDecoder.addr := 0; CsrDecoder.r_stb := false; CsrDecoder.w_stb := false; CsrDecoder.w_data := 0 |}, [0; 0; 90])]) =
    [(0, [(0, false, false); (1, false, false); (2, true, false)]);
     (90, [(0, false, false); (1, false, false); (2, false, false)]);
     (0, [(0, false, false); (1, false, false); (2, false, false)])].
Proof.
  destruct (csr_hw ex_tree) as [h|] eqn:Eh; [|vm_compute in Eh; discriminate].
  exists h. split; [reflexivity|]. vm_compute in Eh. injection Eh as <-. vm_compute. reflexivity.
Qed.

Example C01_nonvacuous :
  exists m h l, csr_map ex_tree = Ok m /\ csr_hw ex_tree = Ok h /\ all_resources m = Ok l /\
    map (fun i => (i_res i, i_start i, i_end i)) l = [(0, 0, 2); (1, 3, 4); (2, 20, 21)] /\
    NoDup (map i_res l) /\
    map (decode_address m) ex_addrs =
      [Some 0; Some 0; None; Some 1] ++ repeat None 16 ++ [Some 2] ++ repeat None 11 /\
    map (creach h) ex_addrs =
      [Some (0, 0); Some (0, 1); None; Some (1, 0)] ++ repeat None 16 ++ [Some (2, 0)] ++ repeat None 11.
Proof.
  destruct (csr_map ex_tree) as [m|] eqn:Em; [|vm_compute in Em; discriminate].
  destruct (csr_hw ex_tree) as [h|] eqn:Eh; [|vm_compute in Eh; discriminate].
  destruct (all_resources m) as [l|] eqn:El;
    [|vm_compute in Em; injection Em as <-; vm_compute in El; discriminate].
  exists m, h, l. vm_compute in Em. injection Em as <-. vm_compute in Eh. injection Eh as <-.
  vm_compute in El. injection El as <-.
  split; [reflexivity|]. split; [reflexivity|]. split; [reflexivity|]. split; [reflexivity|].
  split; [|split; vm_compute; reflexivity].
  cbn. repeat constructor; cbn; intuition discriminate.
Qed.
