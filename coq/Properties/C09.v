(* C09 — Wishbone arbiter is round-robin fair.  Statements only; proofs in Proofs/Arbiter.v. *)
From Coq Require Import ZArith List Bool Lia.
From Soc Require Import Lib.Bits Model.Arbiter Proofs.Arbiter.
Import ListNotations.

(* The nested If-chain emitted per grant value ("later assignment wins") computes the first
   requester strictly after the owner in cyclic order, for every number of initiators. *)
Theorem C09_chain_is_round_robin : forall n rq g, (g < n)%nat -> chain n rq g = rr_next n rq g.
Proof. exact chain_is_round_robin. Qed.
Print Assumptions C09_chain_is_round_robin.

(* What "first requester after the owner in cyclic order" means, spelled out. *)
Theorem C09_rr_next_spec : forall n rq g, (g < n)%nat ->
  let j := rr_next n rq g in
  (j < n)%nat /\
  ((j = g /\ forall x, (x < n)%nat -> x <> g -> rq x = false) \/
   (g < j /\ rq j = true /\ forall x, (g < x < j)%nat -> rq x = false) \/
   (j < g /\ rq j = true /\ (forall x, (g < x < n)%nat -> rq x = false) /\
             forall x, (x < j)%nat -> rq x = false))%nat.
Proof. exact rr_next_spec. Qed.
Print Assumptions C09_rr_next_spec.

(* Exact next-owner function on every transition out of a reachable state with the bus released. *)
Theorem C09_next_owner_exact : forall c is i, (0 < nintr c)%nat ->
  bus_busy c (state_after c 0 is) i = false ->
  next c (state_after c 0 is) i = rr_next (nintr c) (req i) (state_after c 0 is).
Proof.
  intros c is i H Hb. apply next_owner_exact; auto. apply grant_in_range; auto.
Qed.
Print Assumptions C09_next_owner_exact.

(* No starvation: from any reachable state, along any continuation during which initiator k keeps
   requesting and is never the owner, the bus is released fewer than dist <= N-1 times.  Hence k owns
   the bus after at most N-1 releases by other owners, whatever the others request. *)
Theorem C09_bounded_wait : forall c k is0 is,
  (k < nintr c)%nat ->
  (forall i, In i is -> req i k = true) ->
  never_granted c (state_after c 0 is0) is k = true ->
  (releases c (state_after c 0 is0) is < dist (nintr c) (state_after c 0 is0) k)%nat /\
  (dist (nintr c) (state_after c 0 is0) k <= nintr c - 1)%nat.
Proof.
  intros c k is0 is Hk Hr Hn.
  assert (Hg : (state_after c 0 is0 < nintr c)%nat) by (apply grant_in_range; lia).
  split; [apply bounded_wait; auto|].
  pose proof (dist_lt (nintr c) _ k Hg Hk). lia.
Qed.
Print Assumptions C09_bounded_wait.

(* The same, read positively ("an initiator that keeps requesting is served after at most N-1 other grants"):
   along any continuation of a reachable state during which k keeps requesting and the bus is released at least
   N-1 times, k is the owner after some prefix of it. *)
Theorem C09_served_within_N_minus_1_releases : forall c k is0 is,
  (k < nintr c)%nat ->
  (forall i, In i is -> req i k = true) ->
  (nintr c - 1 <= releases c (state_after c 0 is0) is)%nat ->
  exists t, (t <= length is)%nat /\ state_after c (state_after c 0 is0) (firstn t is) = k.
Proof.
  intros c k is0 is Hk Hr Hn. apply served_within; auto. apply grant_in_range; lia.
Qed.
Print Assumptions C09_served_within_N_minus_1_releases.

(* Sharper, and per initiator: k is the owner before more than dist(owner, k) releases have happened, i.e. only the
   initiators strictly between the current owner and k in cyclic order can be served before k, each at most once,
   whatever anybody requests. *)
Theorem C09_served_by_cyclic_distance : forall c k is0 is,
  (k < nintr c)%nat ->
  (forall i, In i is -> req i k = true) ->
  (dist (nintr c) (state_after c 0 is0) k <= releases c (state_after c 0 is0) is)%nat ->
  exists t, (t <= length is)%nat /\ state_after c (state_after c 0 is0) (firstn t is) = k /\
            (releases c (state_after c 0 is0) (firstn t is) <= dist (nintr c) (state_after c 0 is0) k)%nat.
Proof.
  intros c k is0 is Hk Hr Hn. apply served_by_release; auto. apply grant_in_range; lia.
Qed.
Print Assumptions C09_served_by_cyclic_distance.

(* Ownership changes only on an edge at which the bus is not held, and only to an initiator that is requesting at that
   edge: nobody is ever handed a bus it did not ask for, whatever the state and the requests. *)
Theorem C09_grant_moves_only_to_requesters : forall c is i, (0 < nintr c)%nat ->
  next c (state_after c 0 is) i <> state_after c 0 is ->
  bus_busy c (state_after c 0 is) i = false /\
  req i (next c (state_after c 0 is) i) = true /\
  (next c (state_after c 0 is) i < nintr c)%nat.
Proof.
  intros c is i H Hne. apply grant_moves_only_to_requesters; auto. apply grant_in_range; auto.
Qed.
Print Assumptions C09_grant_moves_only_to_requesters.

(* ---- non-vacuity ---- *)
Definition ft : feat :=
  {| f_err := false; f_rty := false; f_stall := false; f_lock := false; f_cti := false; f_bte := false |}.
Definition cfg3 : cfg :=
  {| c_aw := 1; c_dw := 8; c_g := 8; c_feat := ft;
     c_intrs := [ {| i_aw := 1; i_dw := 8; i_g := 8; i_feat := ft |};
                  {| i_aw := 1; i_dw := 8; i_g := 8; i_feat := ft |};
                  {| i_aw := 1; i_dw := 8; i_g := 8; i_feat := ft |} ] |}.
Definition rq (c : bool) : iin :=
  {| cyc := c; stb := c; we := false; adr := 0; dat_w := 0; sel := 0; lock := false; cti := 0; bte := 0 |}.
Definition rsp : bin := {| ack := false; err := false; rty := false; stall := false; dat_r := 0 |}.
(* owner 0 holds the bus for a cycle, releases; 1 and 2 both request: 1 is granted, then 2 *)
Definition tr : list inp :=
  [ {| in_i := [rq true; rq true; rq true]; in_b := rsp |};
    {| in_i := [rq false; rq true; rq true]; in_b := rsp |} ].
Example C09_nonvacuous :
  never_granted cfg3 0 tr 2 = true /\ releases cfg3 0 tr = 1%nat /\ dist 3 0 2 = 2%nat /\
  state_after cfg3 0 tr = 1%nat /\
  state_after cfg3 0 (tr ++ [ {| in_i := [rq true; rq false; rq true]; in_b := rsp |} ]) = 2%nat.
Proof. vm_compute. auto. Qed.

(* the premises of the positive reading are met by that trace extended by one release: 2 = N-1 releases, and
   initiator 2 owns the bus after 3 cycles *)
Example C09_served_nonvacuous :
  let tr3 := tr ++ [ {| in_i := [rq true; rq false; rq true]; in_b := rsp |} ] in
  releases cfg3 0 tr3 = 2%nat /\ forallb (fun i => req i 2%nat) tr3 = true /\
  state_after cfg3 0 (firstn 3 tr3) = 2%nat.
Proof. vm_compute. auto. Qed.
