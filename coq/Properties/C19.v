(* C19 — every accepted component elaborates, terminates, and does so repeatably.

   PARTIAL BY NATURE (DESIGN.md §5 C19, §8).  What is proved here, over ALL register layouts / names /
   parameters: the stateful and recursive logic that elaboration depends on —
     (i)   repeated elaboration of one csr.Multiplexer instance is idempotent (F1),
     (ii)  _Shadow.prepare() terminates for every layout and sharing limit (F2),
     (iii) submodule names are defined for every MemoryMap.Name and never collide (F3, F11-F13),
     (iv)  parameters the modelled constructors accept make the partial operations used by
           elaborate() defined (exact_log2 of validated ratios, Case-pattern length = address width
           incl. addr_width = 0 — F6 —, fan-out ratios >= 1),
     (v)   the assert statements of memory.py / csr/bus.py are unreachable (C02, C18, C05 restated).
   The code as it WAS before the repairs is kept as `_orig` models with `_refuted` theorems.
   What is NOT proved and is decided by the differential sweep of engine `elab` alone: that each real
   constructor refuses with ValueError/TypeError only, that Fragment.get() and the RTLIL back end raise
   nothing for every component class, that three elaborations give identical RTLIL and leave the
   metadata untouched, and that each returns within the time limit (Python-level termination of
   Amaranth itself is not modelled).  Not expressible in the models (listed honestly): Shape.cast /
   Signal() acceptance of shape-likes and inits, lib.memory port bookkeeping (F5), FieldPort view
   iteration (F7), wiring.connect().
   Statements only; proofs live in Proofs/Elab.v, Proofs/MuxPrepare.v and the files named below. *)
From Coq Require Import ZArith List Bool Lia.
From Soc Require Import Lib.Bits Lib.Res Lib.Pattern Model.Mux Model.MuxSpec Model.Elab
                        Proofs.MuxPrepare Proofs.Elab.
From Soc Require Lib.PyList Model.MemoryMap Model.MemSpec Proofs.MemWorld Proofs.Namespace.
From Soc Require Model.WbCsrBridge Proofs.WbCsrBridge Model.Sram Proofs.Sram Model.CsrDecoder Proofs.CsrDecoder
                 Model.WbDecoder Model.Arbiter.
Import ListNotations.
Open Scope Z_scope.

(* ------------------------------------------------------------------ (i) repeated elaboration *)

(* For every register list (any layout: unaligned, padded, overlapping, empty), every sharing limit
   and every k: the first elaboration succeeds; elaborating the resulting instance again returns the
   same instance and the same chunk tables; hence k+1 elaborations succeed, end in the state the
   first one left, and emit the same tables every time. *)
Theorem C19_elaborate_idempotent : forall regs ov k, exists i e,
  elaborate_now (new_inst ov) regs = Ok (i, e) /\
  elaborate_now i regs = Ok (i, e) /\
  elab_n_now (S k) (new_inst ov) regs = Ok (i, repeat e (S k)).
Proof. exact elaborate_idempotent. Qed.
Print Assumptions C19_elaborate_idempotent.

(* what is emitted: the chunk tables of the C04/C05 model at admissible (power-of-two, large enough)
   shadow sizes — the `assert` of _Shadow.add on a prepared shadow and the fuel bound are never hit *)
Theorem C19_elaborate_emits : forall regs ov i e, elaborate_now (new_inst ov) regs = Ok (i, e) ->
  exists Sr Sw, size_ok Sr (ranges_of r_rd regs []) /\ size_ok Sw (ranges_of r_wr regs []) /\
    sh_size (i_r i) = Sr /\ sh_size (i_w i) = Sw /\
    map fst (e_r e) = table Sr (ranges_of r_rd regs []) /\
    map fst (e_w e) = table Sw (ranges_of r_wr regs []).
Proof. exact elaborate_emits. Qed.
Print Assumptions C19_elaborate_emits.

(* F1, the code as it was: whenever a first elaboration succeeded and the multiplexer has at least one
   readable or writable register, the second elaboration fails (AttributeError on the frozenset) *)
Theorem C19_elaborate_twice_orig_refuted : forall fuel regs ov i e,
  elaborate_orig fuel (new_inst ov) regs = Ok (i, e) ->
  (exists r, In r regs /\ (r_rd r || r_wr r) = true) ->
  elaborate_orig fuel i regs = Err OtherError.
Proof. exact elaborate_twice_orig_refuted. Qed.
Print Assumptions C19_elaborate_twice_orig_refuted.

(* ------------------------------------------------------------------ (ii) prepare() terminates *)

(* the doubling loop as it is now returns within its fuel from every admissible starting size, for
   every range set and every sharing limit (no layout premise at all) *)
Theorem C19_prepare_terminates : forall ov l S, size_ok S l ->
  exists S', prepare (prepare_fuel l) S ov l = Some S' /\ size_ok S' l.
Proof. exact prepare_fuel_enough. Qed.
Print Assumptions C19_prepare_terminates.

Theorem C19_shadow_size_total : forall ov regs, exists S, shadow_size ov regs = Some S /\ size_ok S regs.
Proof. exact shadow_size_total. Qed.
Print Assumptions C19_shadow_size_total.

(* F2, the loop as it was: if, at a size that already covers every start address, some chunk is over
   the limit, no amount of fuel (recursion depth) suffices *)
Theorem C19_prepare_orig_diverges : forall ov l fuel s, 0 <= s -> covered s l ->
  unbalanced (2 ^ s) ov l = true -> prepare_loop_orig fuel (2 ^ s) ov l = None.
Proof. intros ov l fuel s. exact (prepare_orig_diverges ov l fuel s). Qed.
Print Assumptions C19_prepare_orig_diverges.

(* ... with the witness layout {[2,3), [3,5)}, shadow_overlaps = 0 *)
Theorem C19_prepare_orig_diverges_refuted : forall fuel,
  prepare_loop_orig fuel 2 0 f2_regs = None /\
  elaborate_orig fuel (new_inst (Some 0)) f2_regs = Err OtherError.
Proof. exact prepare_orig_diverges_refuted. Qed.
Print Assumptions C19_prepare_orig_diverges_refuted.

(* ------------------------------------------------------------------ (iii) submodule names *)

(* F3: "__".join(str(part) for part in name) is defined for every name, integer parts included *)
Theorem C19_submodule_name_total : forall n, exists s, join_name n = Ok s.
Proof. exact submodule_name_total. Qed.
Print Assumptions C19_submodule_name_total.

Theorem C19_join_name_orig_refuted : forall n k, In (PInt k) n -> join_name_orig n = Err TypeError.
Proof. exact join_name_orig_refuted. Qed.
Print Assumptions C19_join_name_orig_refuted.

(* F11-F13 (+ the repair of the repair, 823f054): whatever the register names are, csr.Bridge.elaborate's
   suffix loop terminates, the multiplexer and EVERY register get a named submodule of their own, and the
   names handed to `m.submodules[...]` are pairwise distinct — Amaranth's "Submodule named ... already
   exists" NameError cannot occur and no register is left out of the design *)
Theorem C19_bridge_submodules_ok : forall names, exists r,
  bridge_submodules names = Ok r /\ names_accepted [] r = true /\ length r = S (length names) /\
  Forall (fun o => o <> None) r.
Proof. exact bridge_submodules_ok. Qed.
Print Assumptions C19_bridge_submodules_ok.

(* decimal rendering of indices and suffixes is injective (what makes joined_1, joined_2, ... distinct) *)
Theorem C19_str_of_nat_injective : forall n m, 0 <= n -> 0 <= m -> str_of_nat n = str_of_nat m -> n = m.
Proof. exact str_of_nat_inj. Qed.
Print Assumptions C19_str_of_nat_injective.

(* csr.Register.elaborate (a4c349c): a field whose joined path is already taken (or is empty) becomes an
   anonymous submodule; the names that ARE used are pairwise distinct; one submodule per field *)
Theorem C19_register_submodules_ok : forall paths, exists r,
  register_submodules paths = Ok r /\ names_accepted [] r = true /\ length r = length paths.
Proof. exact register_submodules_ok. Qed.
Print Assumptions C19_register_submodules_ok.

(* ------------------------------------------------------------------ (iv) accepted => constructible *)

(* wishbone.Decoder (F6): every Case pattern has exactly addr_width characters, for every geometry
   (gbits >= 0 always holds, see below) including addr_width = 0 *)
Theorem C19_wbdec_pattern_fits : forall c s, 0 <= WbDecoder.c_aw c -> 0 <= WbDecoder.w_aw (WbDecoder.s_win s) ->
  Z.of_nat (length (WbDecoder.sub_pattern c s)) = WbDecoder.c_aw c.
Proof. intros c s Ha Hw. exact (wbdec_pattern_fits c s Ha Hw (wbdec_gbits_nonneg _)). Qed.
Print Assumptions C19_wbdec_pattern_fits.

Theorem C19_wbdec_pattern_orig_refuted : exists aw_map w_aw start,
  aw_map = Z.max 1 (0 + 0) /\ length (window_pattern aw_map w_aw start) <> 0%nat.
Proof. exact wbdec_pattern_orig_refuted. Qed.
Print Assumptions C19_wbdec_pattern_orig_refuted.

(* csr.Decoder: a window the memory map can hold gives a Case pattern of the bus address width *)
Theorem C19_csrdec_pattern_fits : forall aw w, Soc.Proofs.CsrDecoder.wf_sub aw w ->
  Z.of_nat (length (CsrDecoder.sub_pattern aw w)) = aw.
Proof. exact Soc.Proofs.CsrDecoder.pattern_len_ok. Qed.
Print Assumptions C19_csrdec_pattern_fits.

(* WishboneCSRBridge: accepted arguments have a power-of-two ratio 2^r (so exact_log2(ratio),
   Signal(range(len(sel) + 1)) and cycle[:exact_log2(len(sel))] are defined), 0 <= r <= 3, r <= addr_width *)
Theorem C19_wbcsr_constructible : forall k g, 1 <= WbCsrBridge.k_caw k ->
  WbCsrBridge.construct k = WbCsrBridge.Ok g ->
  let dw := match WbCsrBridge.k_dw k with None => WbCsrBridge.k_cdw k | Some d => d end in
  0 <= WbCsrBridge.g_r g <= 3 /\ dw = WbCsrBridge.k_cdw k * 2 ^ WbCsrBridge.g_r g /\
  WbCsrBridge.g_r g <= WbCsrBridge.k_caw k.
Proof.
  intros k g H1 H2 dw. destruct (Soc.Proofs.WbCsrBridge.construct_ok k g H1 H2) as (_ & _ & A & B & C & _).
  exact (conj A (conj B C)).
Qed.
Print Assumptions C19_wbcsr_constructible.

(* WishboneSRAM: accepted arguments give a power-of-two depth 2^addr_width (exact_log2(depth) is
   defined), a power-of-two size 2^map_addr_width with map_addr_width > 0, legal widths, and an
   initial image of exactly `depth` rows *)
Theorem C19_sram_constructible : forall sz d gr wr init ge rows0,
  Sram.construct sz d gr wr init = Sram.Ok (ge, rows0) ->
  Soc.Proofs.Sram.wf ge /\ Soc.Proofs.Sram.rows_ok ge rows0.
Proof. exact Soc.Proofs.Sram.construct_wf. Qed.
Print Assumptions C19_sram_constructible.

(* wishbone.Arbiter: every accepted initiator has the bus's address and data width and a select
   fan-out ratio >= 1 *)
Theorem C19_arbiter_constructible : forall c ic, 0 < Arbiter.c_g c ->
  Arbiter.first_refused c 0 (Arbiter.c_intrs c) = None -> In ic (Arbiter.c_intrs c) ->
  1 <= Arbiter.i_ratio c ic /\ Arbiter.i_aw ic = Arbiter.c_aw c /\ Arbiter.i_dw ic = Arbiter.c_dw c.
Proof. exact arbiter_ratio_defined. Qed.
Print Assumptions C19_arbiter_constructible.

(* ------------------------------------------------------------------ (v) asserts unreachable *)

Module Asserts.
  Import Soc.Lib.PyList Soc.Model.MemoryMap Soc.Model.MemSpec Soc.Proofs.MemWorld Soc.Proofs.Namespace.

  (* memory.py: in every world reachable through the API every call returns or raises ValueError /
     TypeError — the asserts of _RangeMap.insert and _Namespace.is_available and the IndexError of
     the namespace loop are dead (OtherError marks the excluded self-window call, DESIGN §6 N3) *)
  Theorem C19_memory_map_no_internal_error : forall w o, reachable w ->
    match snd (wstep w o) with
    | RRes (Err e) => e = ValueError \/ e = TypeError
    | RWin (Err e) => e = ValueError \/ e = TypeError \/
                      (e = OtherError /\ exists mi nm a s, o = OWin mi (Some mi) nm a s)
    | RAlign (Err e) => e = ValueError
    | RNew (Err e) => e = ValueError
    | _ => True
    end.
  Proof. exact no_internal_error. Qed.
  Print Assumptions C19_memory_map_no_internal_error.

  Theorem C19_namespace_loop_in_range : forall a b, a <> [] -> b <> [] ->
    conflicts a b = Ok (name_conflictb a b).
  Proof. exact conflicts_spec. Qed.
  Print Assumptions C19_namespace_loop_in_range.
End Asserts.

(* ------------------------------------------------------------------ non-vacuity *)

(* the F2 layout under the current code: sizes 4 / 4, chunks {2, 3}, three elaborations alike *)
Example C19_elaborate_nonvacuous :
  match elab_n_now 3 (new_inst (Some 0)) f2_regs with
  | Ok (i, es) => sh_size (i_r i) = 4 /\ sh_size (i_w i) = 4 /\
                  map (fun e => map fst (e_r e)) es = [[2; 3]; [2; 3]; [2; 3]] /\
                  map (fun e => map (fun c => length (snd c)) (e_r e)) es = [[2; 1]; [2; 1]; [2; 1]]%nat
  | Err _ => False
  end.
Proof. vm_compute. auto. Qed.

(* an unaligned, padded layout with the default limit; read-only and write-only registers *)
Definition ex_regs : list reg :=
  [ {| r_start := 1; r_stop := 4; r_width := 20; r_rd := true; r_wr := false |};
    {| r_start := 5; r_stop := 6; r_width := 3; r_rd := true; r_wr := true |};
    {| r_start := 9; r_stop := 14; r_width := 40; r_rd := false; r_wr := true |} ].
Example C19_elaborate_nonvacuous2 :
  match elab_n_now 2 (new_inst None) ex_regs with
  | Ok (i, es) => sh_size (i_r i) = 4 /\ sh_size (i_w i) = 8 /\ length es = 2%nat /\
                  sh_ov (i_r i) = Some 2 /\
                  map fst (e_w (hd {| e_r := []; e_w := [] |} es)) = [5; 1; 2; 3; 4]
  | Err _ => False
  end.
Proof. vm_compute. auto. Qed.

(* hypotheses of the divergence theorem are met by the witness *)
Example C19_prepare_orig_nonvacuous :
  covered 2 f2_regs /\ unbalanced (2 ^ 2) 0 f2_regs = true /\ unbalanced 2 0 f2_regs = true /\
  prepare (prepare_fuel f2_regs) 2 0 f2_regs = Some 4.
Proof. split; [exact f2_covered|]. vm_compute. auto. Qed.

(* names: "a__0", ("a","0"), "mux", ("k", 10)  ->  mux, a__0, a__0_1, mux_1, k__10;
   the same list under the naming before 6ea0aed is refused by Amaranth (NameError); under 6ea0aed the
   two colliding registers were anonymous (and, Register being iterable, not added at all) *)
Definition ex_names : list (list part) :=
  [ [PStr [97; 95; 95; 48]]; [PStr [97]; PStr [48]]; [PStr [109; 117; 120]]; [PStr [107]; PInt 10] ].
Example C19_names_nonvacuous :
  bridge_submodules ex_names =
    Ok [Some [109; 117; 120]; Some [97; 95; 95; 48]; Some [97; 95; 95; 48; 95; 49];
        Some [109; 117; 120; 95; 49]; Some [107; 95; 95; 49; 48]] /\
  bridge_submodules_v2 ex_names =
    Ok [Some [109; 117; 120]; Some [97; 95; 95; 48]; None; None; Some [107; 95; 95; 49; 48]] /\
  (match assign_names_v1 ex_names with Ok l => names_accepted [mux_name] l = false | Err _ => False end) /\
  join_name_orig [PStr [107]; PInt 10] = Err TypeError /\
  register_submodules [[]; [PStr [97]; PInt 0]; [PStr [97; 95; 95; 48]]] = Ok [None; Some [97; 95; 95; 48]; None] /\
  str_of_int 1205 = [49; 50; 48; 53] /\ str_of_int 0 = [48] /\ str_of_int (-7) = [45; 55].
Proof. vm_compute. repeat split. Qed.

(* a zero-width decoder address: the window pattern '-' is cut to the empty pattern *)
Example C19_wbdec_nonvacuous :
  let g := {| WbDecoder.g_aw := 0; WbDecoder.g_dw := 32; WbDecoder.g_g := 32;
              WbDecoder.g_feat := {| WbDecoder.f_err := false; WbDecoder.f_rty := false; WbDecoder.f_stall := false;
                                     WbDecoder.f_lock := false; WbDecoder.f_cti := false; WbDecoder.f_bte := false |} |} in
  let s := {| WbDecoder.s_geom := g; WbDecoder.s_sparse := false;
              WbDecoder.s_win := {| WbDecoder.w_start := 0; WbDecoder.w_stop := 2; WbDecoder.w_ratio := 1; WbDecoder.w_aw := 1 |} |} in
  let c := {| WbDecoder.c_geom := g; WbDecoder.c_subs := [s] |} in
  WbDecoder.sub_pattern c s = [] /\ WbDecoder.map_aw g = 1 /\
  window_pattern 1 1 0 = [PD].
Proof. vm_compute. auto. Qed.
