(* C08 — Wishbone arbiter: one owner at a time, isolated, never pre-empted mid-cycle.
   Statements only; proofs live in Proofs/Arbiter.v. *)
From Coq Require Import ZArith List Bool Lia.
From Soc Require Import Lib.Bits Model.Arbiter Proofs.Arbiter.
Import ListNotations.

(* Every reachable grant value names an existing initiator (also when their number is not a
   power of two), for every input trace. *)
Theorem C08_owner_exists : forall c is, (0 < nintr c)%nat -> (state_after c 0 is < nintr c)%nat.
Proof. intros c is H. exact (grant_in_range c is 0%nat H). Qed.
Print Assumptions C08_owner_exists.

(* The shared bus carries exactly the owner's request: address, data, fanned-out select, control,
   and the optional signals (default 0 = no lock / CLASSIC / LINEAR when either side lacks them). *)
Theorem C08_owner_drives_bus : forall c g i ic ii,
  nth_error (c_intrs c) g = Some ic -> nth_error (in_i i) g = Some ii ->
  out_b (out c g i) =
    {| o_adr := adr ii; o_dat_w := dat_w ii; o_sel := fanout (i_nsel ic) (i_ratio c ic) (sel ii);
       o_we := we ii; o_stb := stb ii; o_cyc := cyc ii;
       o_lock := f_lock (c_feat c) && f_lock (i_feat ic) && lock ii;
       o_cti := if f_cti (c_feat c) && f_cti (i_feat ic) then cti ii else 0%Z;
       o_bte := if f_bte (c_feat c) && f_bte (i_feat ic) then bte ii else 0%Z |}.
Proof. intros c g i ic ii H1 H2. simpl. unfold bus_out, owner. rewrite H1, H2. reflexivity. Qed.
Print Assumptions C08_owner_drives_bus.

(* Only the owner sees the target's responses; everybody else sees none and a stall (if it has a
   stall input).  Without a stall line on the shared bus the owner's stall is ~ack. *)
Theorem C08_responses_isolated : forall c g i k ic,
  nth_error (c_intrs c) k = Some ic ->
  nth_error (out_i (out c g i)) k =
    Some (if Nat.eqb k g
          then {| r_ack := ack (in_b i);
                  r_err := f_err (i_feat ic) && f_err (c_feat c) && err (in_b i);
                  r_rty := f_rty (i_feat ic) && f_rty (c_feat c) && rty (in_b i);
                  r_stall := f_stall (i_feat ic) &&
                             (if f_stall (c_feat c) then stall (in_b i) else negb (ack (in_b i)));
                  r_dat_r := dat_r (in_b i) |}
          else {| r_ack := false; r_err := false; r_rty := false;
                  r_stall := f_stall (i_feat ic); r_dat_r := dat_r (in_b i) |}).
Proof.
  intros c g i k ic H. simpl. rewrite (intr_outs_nth c g (in_b i) _ 0 k ic H). simpl.
  unfold intr_out. destruct (Nat.eqb k g); simpl; [reflexivity|]. rewrite andb_true_r. reflexivity.
Qed.
Print Assumptions C08_responses_isolated.

Theorem C08_one_response_port_per_initiator : forall c g i,
  length (out_i (out c g i)) = nintr c.
Proof. intros. simpl. apply intr_outs_length. Qed.
Print Assumptions C08_one_response_port_per_initiator.

(* "in progress" = owner's cyc, and (when the arbiter has LOCK) its lock or stb *)
Theorem C08_busy_is_owner_cycle : forall c g i ic ii,
  nth_error (c_intrs c) g = Some ic -> nth_error (in_i i) g = Some ii ->
  bus_busy c g i =
    if f_lock (c_feat c) then cyc ii && ((f_lock (i_feat ic) && lock ii) || stb ii) else cyc ii.
Proof.
  intros c g i ic ii H1 H2. unfold bus_busy, bus_out, owner. rewrite H1, H2. simpl.
  destruct (f_lock (c_feat c)); reflexivity.
Qed.
Print Assumptions C08_busy_is_owner_cycle.

(* Ownership never changes while the owner's bus cycle is in progress — in every reachable state,
   whatever all initiators and the target do. *)
Theorem C08_no_preemption : forall c is i,
  bus_busy c (state_after c 0 is) i = true ->
  next c (state_after c 0 is) i = state_after c 0 is.
Proof. intros c is i. exact (no_preemption c _ i). Qed.
Print Assumptions C08_no_preemption.

(* ---- non-vacuity: three initiators (not a power of two), LOCK on the arbiter ---- *)
Definition ex_feat (l : bool) : feat :=
  {| f_err := false; f_rty := false; f_stall := true; f_lock := l; f_cti := false; f_bte := false |}.
Definition ex_cfg : cfg :=
  {| c_aw := 4; c_dw := 32; c_g := 8; c_feat := ex_feat true;
     c_intrs := [ {| i_aw := 4; i_dw := 32; i_g := 32; i_feat := ex_feat true |};
                  {| i_aw := 4; i_dw := 32; i_g := 16; i_feat := ex_feat false |};
                  {| i_aw := 4; i_dw := 32; i_g := 8; i_feat := ex_feat true |} ] |}.
Definition rq (c s l : bool) : iin :=
  {| cyc := c; stb := s; we := false; adr := 5; dat_w := 7; sel := 1; lock := l; cti := 0; bte := 0 |}.
Definition rsp : bin := {| ack := true; err := false; rty := false; stall := false; dat_r := 9 |}.
Definition ex_trace : list inp :=
  [ {| in_i := [rq false false false; rq true true false; rq true true false]; in_b := rsp |};
    {| in_i := [rq true false false; rq true true false; rq true true false]; in_b := rsp |} ].
Example C08_nonvacuous :
  first_refused ex_cfg 0 (c_intrs ex_cfg) = None /\
  state_after ex_cfg 0 ex_trace = 1%nat /\
  bus_busy ex_cfg 1 {| in_i := [rq true true false; rq true true false; rq true true false]; in_b := rsp |} = true /\
  o_sel (out_b (out ex_cfg 1 {| in_i := [rq true true false; rq true true false; rq true true false]; in_b := rsp |})) = 3%Z.
Proof. vm_compute. auto. Qed.
