(* C16 — GPIO pins follow their mode table, inputs are delayed exactly, pins independent.
   Statements only; vocabulary in Model/GpioSpec.v, proofs in Proofs/Gpio.v (element level, all traces),
   Proofs/GpioCtor.v (constructor and layout) and Proofs/GpioBus.v (the peripheral on every bus trace, and
   protocol-following transactions through the C04/C05 multiplexer theorems). *)
From Coq Require Import ZArith List Bool Lia.
From Soc Require Import Lib.Bits Lib.Res.
From Soc Require Import Model.Mux Model.MuxSpec Model.Gpio Model.GpioSpec.
From Soc Require Import Proofs.Gpio Proofs.GpioCtor Proofs.GpioSpan Proofs.GpioBus Proofs.GpioRegs.
From Soc Require Model.RegPack Model.GpioBuilder Proofs.GpioLayoutTie.
Import ListNotations.
Open Scope Z_scope.

(* ================================================================== element level: ALL traces *)

(* For every pin count, synchroniser depth and element-level input history (strobes and data words arbitrary in
   every cycle), every pin's mode is one of the four documented values and its (o, oe, alt_mode bit) is the
   documented function of its own mode and output bit. *)
Theorem C16_mode_table : forall n stages es j ps,
  nth_error (core_after (core_init n stages) es) j = Some ps ->
  0 <= ps_mode ps < 4 /\
  nth_error (core_out (core_after (core_init n stages) es)) j = Some (documented (ps_mode ps) (ps_out ps)).
Proof. exact mode_table. Qed.
Print Assumptions C16_mode_table.

(* the table itself, spelled out *)
Theorem C16_documented_table : forall data,
  documented 0 data = {| po_o := data;  po_oe := false;     po_alt := false |} /\    (* input-only: disabled *)
  documented 1 data = {| po_o := data;  po_oe := true;      po_alt := false |} /\    (* push-pull: driven *)
  documented 2 data = {| po_o := false; po_oe := negb data; po_alt := false |} /\    (* open-drain: low only while the bit is 0 *)
  documented 3 data = {| po_o := data;  po_oe := false;     po_alt := true |}.       (* alternate: disabled, flag raised *)
Proof. intros; repeat split. Qed.
Print Assumptions C16_documented_table.

(* the alternate-mode flag is raised in alternate mode and only then *)
Theorem C16_alt_iff : forall mode data, 0 <= mode < 4 -> (po_alt (documented mode data) = true <-> mode = 3).
Proof. exact alt_iff. Qed.
Print Assumptions C16_alt_iff.

(* Input field of pin j in the cycle after the history es, the pins being at e now: the pin's level exactly
   `stages` cycles ago (this very cycle for stages = 0), and the reset value 0 during the first `stages` cycles. *)
Theorem C16_input_delay : forall n stages es e j ps, (j < n)%nat ->
  nth_error (core_after (core_init n stages) es) j = Some ps ->
  pin_input ps (Z.testbit (e_pins e) (Z.of_nat j)) =
  if (stages <=? length es)%nat then level (es ++ [e]) j (length es - stages) else false.
Proof. exact input_delay. Qed.
Print Assumptions C16_input_delay.

(* One clock of pin j's output bit from ANY core state: set/clear code 01 sets, 10 clears, and both beat an Output
   write arriving in the same cycle; 00 and 11 (and no SetClr strobe) leave the bit to the Output write, if any. *)
Theorem C16_setclr_code : forall s e j ps, nth_error s j = Some ps ->
  exists ps', nth_error (core_next s e) j = Some ps' /\
  ps_out ps' =
    if e_sc_wstb e && (sc_code e j =? 1) then true
    else if e_sc_wstb e && (sc_code e j =? 2) then false
    else if e_out_wstb e then Z.testbit (e_out_wdata e) (Z.of_nat j)
    else ps_out ps.
Proof. exact setclr_code. Qed.
Print Assumptions C16_setclr_code.

(* The Output field action itself (Peripheral.Output instantiated alone, set / clr inputs free): exactly one of
   set / clr decides and beats a register write in the same cycle; neither or both leave the bit to the write, if
   any; each field sees its own bits only.  Inside the peripheral the same function steps the pin (pin_next_out). *)
Theorem C16_output_field_priority : forall s i j b, nth_error s j = Some b ->
  nth_error (oreg_next s i) j =
  Some (let st := Z.testbit (q_set i) (Z.of_nat j) in
        let cl := Z.testbit (q_clr i) (Z.of_nat j) in
        if st && negb cl then true
        else if cl && negb st then false
        else if q_wstb i then Z.testbit (q_wdata i) (Z.of_nat j)
        else b).
Proof. exact output_field_priority. Qed.
Print Assumptions C16_output_field_priority.

Theorem C16_pin_uses_output_field : forall ps pi,
  ps_out (pin_next ps pi) = outbit_next (ps_out ps) (out_set pi) (out_clr pi) (pi_out_wstb pi) (pi_out_wdata pi).
Proof. exact pin_next_out. Qed.
Print Assumptions C16_pin_uses_output_field.

(* One clock of pin j's mode from any core state: a Mode write delivers the pin's own two bits. *)
Theorem C16_mode_step : forall s e j ps, nth_error s j = Some ps ->
  exists ps', nth_error (core_next s e) j = Some ps' /\
  ps_mode ps' = if e_mode_wstb e then slice (2 * Z.of_nat j) 2 (e_mode_wdata e) else ps_mode ps.
Proof. exact mode_step. Qed.
Print Assumptions C16_mode_step.

(* Independence.  Pin j's next state is a function of its own state and its own slices of the element-level
   inputs (its pin level, bits [2j,2j+2) of Mode.w_data, bit j of Output.w_data, bits 2j and 2j+1 of SetClr.w_data,
   the strobes) ... *)
Theorem C16_pin_next_local : forall s e j,
  nth_error (core_next s e) j = option_map (fun ps => pin_next ps (pin_slice e j)) (nth_error s j).
Proof. exact pin_next_local. Qed.
Print Assumptions C16_pin_next_local.

(* ... hence two histories that agree on pin j's slices — whatever they do to all other pins' fields — take pin j
   through the same states and give it the same o / oe / alt_mode bit, from any pair of core states agreeing on pin j. *)
Theorem C16_pins_independent : forall s1 s2 es1 es2 j,
  nth_error s1 j = nth_error s2 j -> agree_on j es1 es2 ->
  nth_error (core_after s1 es1) j = nth_error (core_after s2 es2) j /\
  nth_error (core_out (core_after s1 es1)) j = nth_error (core_out (core_after s2 es2)) j.
Proof. exact pins_independent. Qed.
Print Assumptions C16_pins_independent.

(* ================================================================== the registers are C11 registers *)
(* The fan-out used above (pin j's fields at bits [2j,2j+2) of Mode, bit j of Input / Output, bits 2j / 2j+1 of
   SetClr; r_data = concatenation of the field values) is not an assumption of the GPIO model: it is what the C11
   model of csr.Register (flatten + elaborate, Model/RegPack.v) yields for the field collections the four register
   classes hand to csr.Register, for every pin count. *)
Theorem C16_mode_register_is_C11 : forall s el r_stb,
  fst (RegPack.reg_out (mode_tree (length s)) (mode_ein el r_stb) (map ps_mode s)) = mode_val s /\
  forall k, (k < length s)%nat ->
    nth_error (snd (RegPack.reg_out (mode_tree (length s)) (mode_ein el r_stb) (map ps_mode s))) k =
    Some {| RegPack.p_r_stb := r_stb; RegPack.p_w_stb := pi_mode_wstb (pin_slice el k);
            RegPack.p_w_data := pi_mode_wdata (pin_slice el k) |}.
Proof. exact mode_register_tie. Qed.
Print Assumptions C16_mode_register_is_C11.

Theorem C16_input_register_is_C11 : forall s pins e,
  fst (RegPack.reg_out (input_tree (length s)) e (map Z.b2z (input_bits_from 0 s pins))) = input_val s pins.
Proof. exact input_register_tie. Qed.
Print Assumptions C16_input_register_is_C11.

Theorem C16_output_register_is_C11 : forall s el r_stb,
  fst (RegPack.reg_out (output_tree (length s)) (out_ein el r_stb) (map (fun ps => Z.b2z (ps_out ps)) s)) = output_val s /\
  forall k, (k < length s)%nat ->
    nth_error (snd (RegPack.reg_out (output_tree (length s)) (out_ein el r_stb) (map (fun ps => Z.b2z (ps_out ps)) s))) k =
    Some {| RegPack.p_r_stb := r_stb; RegPack.p_w_stb := pi_out_wstb (pin_slice el k);
            RegPack.p_w_data := Z.b2z (pi_out_wdata (pin_slice el k)) |}.
Proof. exact output_register_tie. Qed.
Print Assumptions C16_output_register_is_C11.

Theorem C16_setclr_register_is_C11 : forall n el,
  let ro := RegPack.reg_out (setclr_tree n) (sc_ein el) (repeat 0 (2 * n)) in
  fst ro = 0 /\
  forall k, (k < n)%nat ->
    nth_error (snd ro) (2 * k) =
      Some {| RegPack.p_r_stb := false; RegPack.p_w_stb := pi_set_wstb (pin_slice el k);
              RegPack.p_w_data := Z.b2z (pi_set_wdata (pin_slice el k)) |} /\
    nth_error (snd ro) (2 * k + 1) =
      Some {| RegPack.p_r_stb := false; RegPack.p_w_stb := pi_clr_wstb (pin_slice el k);
              RegPack.p_w_data := Z.b2z (pi_clr_wdata (pin_slice el k)) |}.
Proof. exact setclr_register_tie. Qed.
Print Assumptions C16_setclr_register_is_C11.

(* and csr.Register.__init__ (C11 model) accepts the four collections with the element widths the layout uses *)
Theorem C16_register_classes_accepted : forall n, (0 < n)%nat ->
  RegPack.reg_core (mode_tree n) RegPack.ERW = RegPack.Ok (2 * Z.of_nat n) /\
  RegPack.reg_core (input_tree n) RegPack.ER = RegPack.Ok (Z.of_nat n) /\
  RegPack.reg_core (output_tree n) RegPack.ERW = RegPack.Ok (Z.of_nat n) /\
  RegPack.reg_core (setclr_tree n) RegPack.EW = RegPack.Ok (2 * Z.of_nat n).
Proof. exact register_classes_accepted. Qed.
Print Assumptions C16_register_classes_accepted.

(* ================================================================== constructor and bus geometry *)

(* TypeError exactly for a pin count / address width / data width that is not a positive int or a depth that is
   not a non-negative int; ValueError exactly when the data width is not a multiple of the 8-bit granularity or
   the documented layout (four registers, each at the next multiple of its power-of-two size) leaves
   [0, 2**addr_width); no other failure; accepted otherwise. *)
Theorem C16_ctor_rejects_iff : forall p,
  (ctor p = Err TypeError <-> types_ok p = false) /\
  (ctor p = Err ValueError <-> types_ok p = true /\ (zof (p_dw p) mod 8 <> 0 \/ fits p = false)) /\
  ((exists c, ctor p = Ok c) <-> types_ok p = true /\ zof (p_dw p) mod 8 = 0 /\ fits p = true) /\
  (forall e, ctor p = Err e -> e = TypeError \/ e = ValueError).
Proof. exact ctor_rejects_iff. Qed.
Print Assumptions C16_ctor_rejects_iff.

(* "fits" in closed form: the four registers span 4Q addresses when the 2n-bit registers need the same power-of-two
   size Q as the n-bit ones, 3P when they need P = 2Q; the smallest accepted addr_width is the log2 of that, rounded up *)
Theorem C16_fits_closed_form : forall p, types_ok p = true ->
  fits p = (span (zof (p_dw p)) (zof (p_pins p)) <=? 2 ^ zof (p_aw p)).
Proof. exact fits_closed_form. Qed.
Print Assumptions C16_fits_closed_form.

Theorem C16_layout_closed_form : forall dw n, 0 < dw -> 0 < n ->
  let Q := nsize dw n in let P := nsize dw (2 * n) in
  map (fun r => (r_start r, r_stop r)) (natural dw 0 (reg_specs n)) =
  [(0, P); (P, P + Q); (P + Q, P + 2 * Q); (span dw n - P, span dw n)].
Proof. exact layout_closed_form. Qed.
Print Assumptions C16_layout_closed_form.

(* the builder's placement loop IS the documented layout (never a silently moved or shrunk register) *)
Theorem C16_place_spec : forall aw dw, 0 < dw -> forall specs cur, Forall (fun s => 0 <= fst s) specs ->
  place aw dw cur specs =
  if forallb (fun r => r_stop r <=? 2 ^ aw) (natural dw cur specs)
  then Ok (natural dw cur specs) else Err ValueError.
Proof. exact place_spec. Qed.
Print Assumptions C16_place_spec.

(* ... and it is the C02 memory-map model's layout: for every geometry, driving that model the way
   csr.Builder.as_memory_map drives MemoryMap (add_resource with addr=None, size=reg_size,
   alignment=ceil_log2(reg_size) per register) yields the same ranges, or the same ValueError *)
Theorem C16_layout_is_memory_map_layout : forall aw dw n, 0 < aw -> 0 < dw -> 0 < n ->
  GpioBuilder.via_memory_map aw dw n = GpioBuilder.via_place aw dw n.
Proof. exact GpioLayoutTie.layout_models_agree_all. Qed.
Print Assumptions C16_layout_is_memory_map_layout.

(* An accepted peripheral has the documented layout, unmoved, under an admissible multiplexer. *)
Theorem C16_ctor_ok : forall p c, ctor p = Ok c ->
  types_ok p = true /\ zof (p_dw p) mod 8 = 0 /\ fits p = true /\
  wf_cfg (g_mux c) /\ c_regs (g_mux c) = layout_of p /\ c_dw (g_mux c) = zof (p_dw p) /\
  g_pins c = Z.to_nat (zof (p_pins p)) /\ g_stages c = Z.to_nat (zof (p_stages p)).
Proof. exact ctor_ok. Qed.
Print Assumptions C16_ctor_ok.

(* ... i.e. Mode, Input, Output, SetClr in ascending, disjoint address ranges, 2n / n / n / 2n bits wide,
   rw / r / rw / w. *)
Theorem C16_ctor_accepted : forall p c, ctor p = Ok c ->
  exists r0 r1 r2 r3, accepted c (zof (p_pins p)) r0 r1 r2 r3.
Proof. exact ctor_accepted. Qed.
Print Assumptions C16_ctor_accepted.

(* ================================================================== the peripheral: ALL bus traces *)

(* Mode table at the pins, whatever the bus and the pins did (protocol-following or not). *)
Theorem C16_periph_mode_table : forall c bs b j ps,
  nth_error (s_core (state_after c (init c) bs)) j = Some ps ->
  0 <= ps_mode ps < 4 /\
  nth_error (o_pins (out c (state_after c (init c) bs) b)) j = Some (documented (ps_mode ps) (ps_out ps)).
Proof. exact periph_mode_table. Qed.
Print Assumptions C16_periph_mode_table.

(* the same by trace position, with the alternate-mode flag: cycle t of the observable trace (`run`) shows `out` of
   the state before cycle t; pin j's triple there is the documented function of its mode and output bit in that
   cycle, and its alt_mode bit is up iff the mode is ALTERNATE *)
Theorem C16_run_nth : forall c bs t b, nth_error bs t = Some b ->
  nth_error (run c (init c) bs) t = Some (out c (at_time c bs t) b).
Proof. exact run_nth. Qed.
Print Assumptions C16_run_nth.

Theorem C16_periph_mode_table_at : forall c bs t b j ps, pin_at c bs t j = Some ps ->
  nth_error (o_pins (out c (at_time c bs t) b)) j = Some (documented (ps_mode ps) (ps_out ps)) /\
  (po_alt (documented (ps_mode ps) (ps_out ps)) = true <-> ps_mode ps = 3).
Proof. exact periph_mode_table_at. Qed.
Print Assumptions C16_periph_mode_table_at.

Theorem C16_periph_pins_length : forall c bs b, length (o_pins (out c (state_after c (init c) bs) b)) = g_pins c.
Proof. exact periph_pins_length. Qed.
Print Assumptions C16_periph_pins_length.

(* Bit j of what the Input register presents to the multiplexer in the cycle after bs: pin j's level exactly
   input_stages cycles earlier; 0 during the first input_stages cycles. *)
Theorem C16_periph_input_delay : forall c bs b j, (j < g_pins c)%nat ->
  Z.testbit (input_val (s_core (state_after c (init c) bs)) (b_pins b)) (Z.of_nat j) =
  if (g_stages c <=? length bs)%nat then blevel (bs ++ [b]) j (length bs - g_stages c) else false.
Proof. exact periph_input_delay. Qed.
Print Assumptions C16_periph_input_delay.

(* Inside the peripheral pin j still steps on its own slices only. *)
Theorem C16_periph_pin_local : forall c bs t j b, nth_error bs t = Some b ->
  pin_at c bs (S t) j =
  option_map (fun ps => pin_next ps (pin_slice (elem_of c (at_time c bs t) b) j)) (pin_at c bs t j).
Proof. exact pin_at_S. Qed.
Print Assumptions C16_periph_pin_local.

(* Out of reset every pin is input-only with output bit 0 ... *)
Theorem C16_periph_reset : forall c bs j ps, pin_at c bs 0 j = Some ps -> ps_mode ps = 0 /\ ps_out ps = false.
Proof. exact periph_reset. Qed.
Print Assumptions C16_periph_reset.

(* ... and any cycle that does not write the last address of Mode, Output or SetClr (idle, reads, other chunks, the
   read-only Input register, unmapped addresses) leaves every pin's mode and output bit alone. *)
Theorem C16_periph_hold : forall c n r0 r1 r2 r3 bs t bt b1 j ps, accepted c n r0 r1 r2 r3 ->
  nth_error bs t = Some bt -> nth_error bs (S t) = Some b1 ->
  (b_wstb bt = false \/
   (b_addr bt <> r_stop r0 - 1 /\ b_addr bt <> r_stop r2 - 1 /\ b_addr bt <> r_stop r3 - 1)) ->
  pin_at c bs (S t) j = Some ps ->
  exists ps', pin_at c bs (S (S t)) j = Some ps' /\ ps_mode ps' = ps_mode ps /\ ps_out ps' = ps_out ps.
Proof. exact periph_hold. Qed.
Print Assumptions C16_periph_hold.

(* ================================================================== protocol-following bus transactions *)
(* `write_completes c bs k r t tj dj` is the premise of C05_write_atomic on the peripheral's bus trace (register
   number k completed at cycle t; tj/dj = cycle and data of the latest write to each data chunk; no other
   writable register written meanwhile; reads, idle cycles, aborted earlier attempts are all allowed);
   `written c r dj` is the concatenation of those chunks (C05_assemble_is_concatenation).  Registers spanning
   several chunks (2*pin_count > data_width) are covered: nothing below assumes reg_len = 1. *)

Theorem C16_bus_mode_write : forall c n r0 r1 r2 r3 bs t tj dj b1 j, accepted c n r0 r1 r2 r3 ->
  write_completes c bs 0 r0 t tj dj -> nth_error bs (S t) = Some b1 -> (j < g_pins c)%nat ->
  exists ps ps', pin_at c bs (S t) j = Some ps /\ pin_at c bs (S (S t)) j = Some ps' /\
    ps_mode ps' = slice (2 * Z.of_nat j) 2 (written c r0 dj) /\ ps_out ps' = ps_out ps.
Proof. exact bus_mode_write. Qed.
Print Assumptions C16_bus_mode_write.

Theorem C16_bus_output_write : forall c n r0 r1 r2 r3 bs t tj dj b1 j, accepted c n r0 r1 r2 r3 ->
  write_completes c bs 2 r2 t tj dj -> nth_error bs (S t) = Some b1 -> (j < g_pins c)%nat ->
  exists ps ps', pin_at c bs (S t) j = Some ps /\ pin_at c bs (S (S t)) j = Some ps' /\
    ps_out ps' = Z.testbit (written c r2 dj) (Z.of_nat j) /\ ps_mode ps' = ps_mode ps.
Proof. exact bus_output_write. Qed.
Print Assumptions C16_bus_output_write.

(* writing SetClr sets, clears or leaves each output bit according to the pin's own two-bit code; a pin whose
   code is 00 or 11 is not disturbed, whatever the other pins' codes are; no mode changes *)
Theorem C16_bus_setclr_write : forall c n r0 r1 r2 r3 bs t tj dj b1 j, accepted c n r0 r1 r2 r3 ->
  write_completes c bs 3 r3 t tj dj -> nth_error bs (S t) = Some b1 -> (j < g_pins c)%nat ->
  exists ps ps', pin_at c bs (S t) j = Some ps /\ pin_at c bs (S (S t)) j = Some ps' /\
    ps_out ps' = (let code := slice (2 * Z.of_nat j) 2 (written c r3 dj) in
                  if code =? 1 then true else if code =? 2 then false else ps_out ps) /\
    ps_mode ps' = ps_mode ps.
Proof. exact bus_setclr_write. Qed.
Print Assumptions C16_bus_setclr_write.

(* `read_follows c bs r t0 t j` is the premise of C04_read_atomic on the bus trace (chunk j of r read at t, its first
   chunk at t0 <= t, no first-chunk read of a readable register in between). *)
Theorem C16_bus_read : forall c bs k r t0 t j b', wf_cfg (g_mux c) ->
  nth_error (c_regs (g_mux c)) k = Some r -> r_rd r = true ->
  read_follows c bs r t0 t j ->
  o_rdata (out c (at_time c bs (S t)) b') =
  word (c_dw (g_mux c)) (r_width r) j (trunc (r_width r) (reg_value c bs t0 k)).
Proof. exact bus_read. Qed.
Print Assumptions C16_bus_read.

(* the Input register read over the bus: bit i of chunk j is pin (j*dw + i)'s level input_stages cycles before
   the FIRST chunk was read (a snapshot, also across several chunks), 0 during the first input_stages cycles *)
Theorem C16_bus_input_read : forall c n r0 r1 r2 r3 bs t0 t j i b', accepted c n r0 r1 r2 r3 ->
  read_follows c bs r1 t0 t j -> 0 <= i < c_dw (g_mux c) -> j * c_dw (g_mux c) + i < n ->
  Z.testbit (o_rdata (out c (at_time c bs (S t)) b')) i =
  if (g_stages c <=? t0)%nat then blevel bs (Z.to_nat (j * c_dw (g_mux c) + i)) (t0 - g_stages c) else false.
Proof. exact bus_input_read. Qed.
Print Assumptions C16_bus_input_read.

Theorem C16_bus_mode_read : forall c n r0 r1 r2 r3 bs t0 t j b' b0, accepted c n r0 r1 r2 r3 ->
  read_follows c bs r0 t0 t j -> nth_error bs t0 = Some b0 ->
  o_rdata (out c (at_time c bs (S t)) b') =
  word (c_dw (g_mux c)) (2 * n) j (trunc (2 * n) (mode_val (s_core (at_time c bs t0)))).
Proof. exact bus_mode_read. Qed.
Print Assumptions C16_bus_mode_read.

Theorem C16_bus_output_read : forall c n r0 r1 r2 r3 bs t0 t j b' b0, accepted c n r0 r1 r2 r3 ->
  read_follows c bs r2 t0 t j -> nth_error bs t0 = Some b0 ->
  o_rdata (out c (at_time c bs (S t)) b') =
  word (c_dw (g_mux c)) n j (trunc n (output_val (s_core (at_time c bs t0)))).
Proof. exact bus_output_read. Qed.
Print Assumptions C16_bus_output_read.

(* the register contents read above are the pins' own fields, pin j at bits [2j, 2j+2) resp. bit j *)
Theorem C16_mode_val_field : forall s j ps, nth_error s j = Some ps -> 0 <= ps_mode ps < 4 ->
  slice (2 * Z.of_nat j) 2 (mode_val s) = ps_mode ps.
Proof. exact mode_val_field. Qed.
Print Assumptions C16_mode_val_field.

Theorem C16_output_val_bit : forall s j ps, nth_error s j = Some ps ->
  Z.testbit (output_val s) (Z.of_nat j) = ps_out ps.
Proof. exact output_val_bit. Qed.
Print Assumptions C16_output_val_bit.

Theorem C16_word_testbit : forall dw width j v i, 0 < dw -> 0 <= j -> 0 <= i < dw -> j * dw + i < width ->
  Z.testbit (word dw width j (trunc width v)) i = Z.testbit v (j * dw + i).
Proof. exact word_testbit. Qed.
Print Assumptions C16_word_testbit.

(* ================================================================== non-vacuity *)

(* 5 pins on an 8-bit bus: Mode and SetClr (10 bits) span two chunks each; 2 synchroniser stages. *)
Definition ex_p := {| p_pins := VInt 5; p_aw := VInt 3; p_dw := VInt 8; p_stages := VInt 2 |}.
Definition ex_r0 := {| r_start := 0; r_stop := 2; r_width := 10; r_rd := true; r_wr := true |}.    (* Mode *)
Definition ex_r1 := {| r_start := 2; r_stop := 3; r_width := 5; r_rd := true; r_wr := false |}.    (* Input *)
Definition ex_r2 := {| r_start := 3; r_stop := 4; r_width := 5; r_rd := true; r_wr := true |}.     (* Output *)
Definition ex_r3 := {| r_start := 4; r_stop := 6; r_width := 10; r_rd := false; r_wr := true |}.   (* SetClr *)
Definition ex_c : cfg :=
  {| g_pins := 5; g_stages := 2; g_aw := 3; g_dw := 8;
     g_mux := {| c_dw := 8; c_regs := [ex_r0; ex_r1; ex_r2; ex_r3]; c_Sr := 2; c_Sw := 2 |} |}.

Example C16_ctor_nonvacuous :
  ctor ex_p = Ok ex_c /\
  (* one address bit less: refused with ValueError; no pins / a negative depth / a non-int width: TypeError;
     a 12-bit bus: ValueError (granularity 8) *)
  ctor {| p_pins := VInt 5; p_aw := VInt 2; p_dw := VInt 8; p_stages := VInt 2 |} = Err ValueError /\
  ctor {| p_pins := VInt 0; p_aw := VInt 3; p_dw := VInt 8; p_stages := VInt 2 |} = Err TypeError /\
  ctor {| p_pins := VInt 5; p_aw := VInt 3; p_dw := VInt 8; p_stages := VInt (-1) |} = Err TypeError /\
  ctor {| p_pins := VInt 5; p_aw := VBad; p_dw := VInt 8; p_stages := VNone |} = Err TypeError /\
  ctor {| p_pins := VInt 5; p_aw := VInt 3; p_dw := VInt 12; p_stages := VInt 2 |} = Err ValueError /\
  (* 20 pins on 8 bits: Mode [0,8) holds 40 bits in 5 chunks + 3 padding; Input [8,12); Output [12,16); SetClr [16,24) *)
  map (fun r => (r_start r, r_stop r))
      (layout_of {| p_pins := VInt 20; p_aw := VInt 5; p_dw := VInt 8; p_stages := VInt 0 |}) =
    [(0, 8); (8, 12); (12, 16); (16, 24)] /\
  (* spans: 20 pins / 8 bits: P = 8 = 2Q -> 24; 5 pins / 8 bits: P = 2 = 2Q -> 6; 4 pins / 8 bits: P = Q = 1 -> 4 *)
  span 8 20 = 24 /\ span 8 5 = 6 /\ span 8 4 = 4 /\
  (* the C02 memory-map model, driven as the builder drives it, places them identically and refuses identically *)
  GpioBuilder.via_memory_map 5 8 20 = Ok [(0, 8); (8, 12); (12, 16); (16, 24)] /\
  GpioBuilder.via_memory_map 4 8 20 = Err ValueError.
Proof. vm_compute. repeat split; reflexivity. Qed.

Example ex_accepted : accepted ex_c 5 ex_r0 ex_r1 ex_r2 ex_r3.
Proof.
  destruct C16_ctor_nonvacuous as (E & _). destruct (C16_ctor_ok _ _ E) as (_ & _ & _ & Hwf & _).
  constructor; try reflexivity; try exact Hwf; cbn; lia.
Qed.

Definition ex_w a d p := {| b_addr := a; b_rstb := false; b_wstb := true; b_wdata := d; b_pins := p |}.
Definition ex_rd a p := {| b_addr := a; b_rstb := true; b_wstb := false; b_wdata := 0; b_pins := p |}.
Definition ex_idle p := {| b_addr := 7; b_rstb := false; b_wstb := false; b_wdata := 255; b_pins := p |}.

(* cycles 0-1: Mode <- 0x1E4 in two chunks (pin k gets mode k for k = 0..3, pin 4 push-pull); cycle 2: Output <- 10101;
   cycles 4 and 6: SetClr <- 0x261 in two chunks with an Input read in between (codes: pin 0 set, pin 1 none,
   pin 2 clear, pin 3 set, pin 4 clear); Input reads at cycles 5 and 8; the pin levels change every cycle *)
Definition ex_bs : list bus_in :=
  [ex_w 0 0xE4 1; ex_w 1 0x01 2; ex_w 3 0x15 4; ex_idle 8; ex_w 4 0x61 16; ex_rd 2 31; ex_w 5 0x02 0; ex_idle 0;
   ex_rd 2 0; ex_idle 0].

Definition ex_show (o : outp) := (o_rdata o, map (fun p => (po_o p, po_oe p, po_alt p)) (o_pins o)).

Example C16_run_nonvacuous :
  let tr := map ex_show (run ex_c (init ex_c) ex_bs) in
  (* cycle 3, two cycles after the Mode write completed: input-only, push-pull, open-drain (driving low), alternate, push-pull *)
  nth 3 tr (0, []) = (0, [(false, false, false); (false, true, false); (false, true, false); (false, false, true); (false, true, false)]) /\
  (* cycle 4, two cycles after the Output write: bits 1,0,1,0,1 — the open-drain pin 2 lets go, pin 3 shows its bit but stays disabled *)
  nth 4 tr (0, []) = (0, [(true, false, false); (false, true, false); (false, false, false); (false, false, true); (true, true, false)]) /\
  (* cycle 6: the Input read of cycle 5 returns the pin levels of cycle 3 (= 8), not those of cycles 4 or 5 (16, 31) *)
  fst (nth 6 tr (0, [])) = 8 /\
  (* cycle 8, two cycles after the SetClr write completed: pin 0 stays set, pin 1 untouched, pin 2 cleared (drives low again),
     pin 3 set, pin 4 cleared *)
  nth 8 tr (0, []) = (0, [(true, false, false); (false, true, false); (false, true, false); (true, false, true); (false, true, false)]).
Proof. vm_compute. repeat split; reflexivity. Qed.

Ltac ex_nat_split u n :=
  match n with
  | O => idtac
  | S ?n' => destruct u as [|u]; [|ex_nat_split u n']
  end.
Ltac ex_nat_cases u := ex_nat_split u 11%nat; try (exfalso; lia).

(* the premise of the write theorems holds for the two-chunk Mode write completed at cycle 1 ... *)
Definition ex_tj0 (j : Z) : nat := if j =? 0 then 0%nat else 1%nat.
Definition ex_dj0 (j : Z) : Z := if j =? 0 then 0xE4 else 0x01.

Example C16_mode_write_premise : write_completes ex_c ex_bs 0 ex_r0 1 ex_tj0 ex_dj0.
Proof.
  split; [|split].
  - exists (ex_w 1 0x01 2). repeat split.
  - intros j Hj _. assert (Ej : j = 0 \/ j = 1) by (unfold reg_len in Hj; cbn in Hj; lia).
    destruct Ej as [-> | ->]; (split; [cbn; lia|split]).
    + exists (ex_w 0 0xE4 1). repeat split.
    + intros u b Hu Hb. cbn in Hu. ex_nat_cases u. cbn in Hb. injection Hb as <-. cbn. intros [_ H]. discriminate.
    + exists (ex_w 1 0x01 2). repeat split.
    + intros u b Hu. cbn in Hu. lia.
  - intros j u Hj _ Hu (b & k' & r' & Hb & Hk' & Hne & Hwr & Hws & Ha).
    assert (Ej : j = 0 \/ j = 1) by (unfold reg_len in Hj; cbn in Hj; lia).
    destruct Ej as [-> | ->]; cbn in Hu; [|lia].
    ex_nat_cases u. cbn in Hb. injection Hb as <-. cbn in Ha.
    destruct k' as [|[|[|[|k']]]]; cbn in Hk'; try congruence; try (injection Hk' as <-; cbn in Ha; lia).
    destruct k'; discriminate.
Qed.

(* ... so every pin has its two bits of 0x1E4 at cycle 3: modes 0, 1, 2, 3, 1 *)
Example C16_mode_write_instance :
  map (fun j => slice (2 * Z.of_nat j) 2 (written ex_c ex_r0 ex_dj0)) [0; 1; 2; 3; 4]%nat = [0; 1; 2; 3; 1] /\
  map (fun j => option_map ps_mode (pin_at ex_c ex_bs 3 j)) [0; 1; 2; 3; 4]%nat = [Some 0; Some 1; Some 2; Some 3; Some 1].
Proof. vm_compute. split; reflexivity. Qed.

(* the two-chunk SetClr write completed at cycle 6, with an Input read (cycle 5) between its chunks *)
Definition ex_tj3 (j : Z) : nat := if j =? 0 then 4%nat else 6%nat.
Definition ex_dj3 (j : Z) : Z := if j =? 0 then 0x61 else 0x02.

Example C16_setclr_write_premise : write_completes ex_c ex_bs 3 ex_r3 6 ex_tj3 ex_dj3.
Proof.
  split; [|split].
  - exists (ex_w 5 0x02 0). repeat split.
  - intros j Hj _. assert (Ej : j = 0 \/ j = 1) by (unfold reg_len in Hj; cbn in Hj; lia).
    destruct Ej as [-> | ->]; (split; [cbn; lia|split]).
    + exists (ex_w 4 0x61 16). repeat split.
    + intros u b Hu Hb. cbn in Hu. ex_nat_cases u; cbn in Hb; injection Hb as <-; cbn; intros [H1 H2]; discriminate.
    + exists (ex_w 5 0x02 0). repeat split.
    + intros u b Hu. cbn in Hu. lia.
  - intros j u Hj _ Hu (b & k' & r' & Hb & Hk' & Hne & Hwr & Hws & Ha).
    assert (Ej : j = 0 \/ j = 1) by (unfold reg_len in Hj; cbn in Hj; lia).
    destruct Ej as [-> | ->]; cbn in Hu; [|lia].
    ex_nat_cases u; cbn in Hb; injection Hb as <-; cbn in Hws; try discriminate; cbn in Ha.
    destruct k' as [|[|[|[|k']]]]; cbn in Hk'; try congruence; try (injection Hk' as <-; cbn in Ha, Hwr; try discriminate; lia).
    destruct k'; discriminate.
Qed.

Example C16_setclr_write_instance :
  map (fun j => slice (2 * Z.of_nat j) 2 (written ex_c ex_r3 ex_dj3)) [0; 1; 2; 3; 4]%nat = [1; 0; 2; 1; 2] /\
  map (fun j => option_map ps_out (pin_at ex_c ex_bs 7 j)) [0; 1; 2; 3; 4]%nat = [Some true; Some false; Some true; Some false; Some true] /\
  map (fun j => option_map ps_out (pin_at ex_c ex_bs 8 j)) [0; 1; 2; 3; 4]%nat = [Some true; Some false; Some false; Some true; Some false].
Proof. vm_compute. repeat split; reflexivity. Qed.

(* the premise of the read theorems holds for the Input read at cycle 5 (t0 = t = 5, chunk 0) *)
Example C16_input_read_premise : read_follows ex_c ex_bs ex_r1 5 5 0.
Proof.
  split; [exists (ex_rd 2 31); repeat split|]. split; [lia|]. split; [intros u Hu; lia|].
  split; [exists (ex_rd 2 31); repeat split|]. unfold reg_len. cbn. lia.
Qed.

(* and the theorem's conclusion: bit 3 alone is up one cycle later, because pin 3 alone was high at cycle 5 - 2 *)
Example C16_input_read_instance :
  map (fun i => Z.testbit (o_rdata (out ex_c (at_time ex_c ex_bs 6) (ex_idle 0))) i) [0; 1; 2; 3; 4] =
    [false; false; false; true; false] /\
  map (fun j => blevel ex_bs j 3) [0; 1; 2; 3; 4]%nat = [false; false; false; true; false].
Proof. vm_compute. split; reflexivity. Qed.

(* set (pin 0) and clear (pin 1) arriving together with a register write of the opposite values: set / clear win;
   pin 2 gets both (11) and pin 3 neither (00): the write decides *)
Example C16_priority_nonvacuous :
  oreg_next [false; true; false; true] {| q_wstb := true; q_wdata := 0x6; q_set := 0x5; q_clr := 0x6 |} =
    [true; false; true; false].
Proof. reflexivity. Qed.

(* 3 pins: the C11 model of the Mode register over modes [1;2;3] reads 0b111001 and hands pin 1 bits [2,4) of w_data;
   the SetClr register hands pin 2 its set bit (bit 4) and clr bit (bit 5) *)
Example C16_registers_nonvacuous :
  let el := {| e_mode_wstb := true; e_mode_wdata := 0x2D; e_out_wstb := false; e_out_wdata := 0;
               e_sc_wstb := true; e_sc_wdata := 0x1B; e_pins := 0 |} in
  let s := map (fun m => {| ps_mode := m; ps_out := false; ps_ffs := [] |}) [1; 2; 3] in
  RegPack.reg_out (mode_tree 3) (mode_ein el false) (map ps_mode s) =
    (57, [ {| RegPack.p_r_stb := false; RegPack.p_w_stb := true; RegPack.p_w_data := 1 |};
           {| RegPack.p_r_stb := false; RegPack.p_w_stb := true; RegPack.p_w_data := 3 |};
           {| RegPack.p_r_stb := false; RegPack.p_w_stb := true; RegPack.p_w_data := 2 |} ]) /\
  map RegPack.p_w_data (snd (RegPack.reg_out (setclr_tree 3) (sc_ein el) (repeat 0 6))) = [1; 1; 0; 1; 1; 0] /\
  (pi_set_wdata (pin_slice el 2), pi_clr_wdata (pin_slice el 2)) = (true, false).
Proof. vm_compute. repeat split; reflexivity. Qed.

(* independence: two element-level histories that differ in every other pin's bits agree on pin 1's slices *)
Definition ex_e1 := {| e_mode_wstb := true; e_mode_wdata := 0x1E4; e_out_wstb := false; e_out_wdata := 0;
                       e_sc_wstb := false; e_sc_wdata := 0; e_pins := 2 |}.
Definition ex_e2 := {| e_mode_wstb := true; e_mode_wdata := 0x2B7; e_out_wstb := false; e_out_wdata := 0x1D;
                       e_sc_wstb := false; e_sc_wdata := 0x3F3; e_pins := 0x1E |}.
Example C16_independent_nonvacuous :
  agree_on 1 [ex_e1] [ex_e2] /\ ~ agree_on 0 [ex_e1] [ex_e2] /\
  nth_error (core_out (core_after (core_init 5 2) [ex_e1])) 1 =
  nth_error (core_out (core_after (core_init 5 2) [ex_e2])) 1.
Proof.
  split; [reflexivity|]. split; [intros H; vm_compute in H; discriminate|]. reflexivity.
Qed.
