(* C13 — Event monitor never loses an event and reports exactly enabled-and-pending; bit k belongs
   to the source the event map numbers k; numbers are dense, stable and assigned in order of first
   addition.  Statements only; proofs live in Proofs/Event.v.

   Vocabulary (Model/Event.v, Proofs/Event.v):
     after h            the EventMap object after the call history h (any mix of add / index /
                        freeze / size / sources calls, any arguments), starting from EventMap()
     added h            identities of the Source objects passed to add() before the first freeze()
     monitor_cfg m md   the Monitor built over map m, object id having trigger mode (md id):
                        its sources in m.sources() order
     state_after c (init c) is   the monitor's registers after the input trace is, from reset
     prev_in is id      object id's input line in the last cycle of is (low if is is empty)
     wf_cfg c           the k-th source of c carries number k   (proved for every monitor_cfg)
     st_ok c s          s has one edge-register slot per source (proved for every reachable state) *)
From Coq Require Import ZArith List Bool Lia.
From Soc Require Import Model.Event Proofs.Event.
Import ListNotations.

(* ========================================================================================== *)
(* EventMap: every history of calls                                                            *)
(* ========================================================================================== *)

(* sources() yields the numbers 0, 1, ..., size-1 in this order: dense, no gaps, index order;
   identities are pairwise distinct. *)
Theorem C13_index_dense : forall h,
  map snd (em_sources (after h)) = seq 0 (em_size (after h)) /\
  NoDup (map fst (em_sources (after h))).
Proof. intros h. exact (wf_after h). Qed.
Print Assumptions C13_index_dense.

(* index(src) = k exactly when the k-th entry of sources() is (src, k); every k < size is the
   number of some source, and of only one. *)
Theorem C13_index_is_position : forall h id k,
  em_index (after h) (Src id) = inl k <-> nth_error (em_sources (after h)) k = Some (id, k).
Proof. intros h id k. exact (index_iff_nth (after h) id k (wf_after h)). Qed.
Print Assumptions C13_index_is_position.

Theorem C13_index_bijective : forall h,
  (forall id k, em_index (after h) (Src id) = inl k -> (k < em_size (after h))%nat) /\
  (forall k, (k < em_size (after h))%nat -> exists id, em_index (after h) (Src id) = inl k) /\
  (forall id id' k, em_index (after h) (Src id) = inl k -> em_index (after h) (Src id') = inl k ->
                    id = id').
Proof.
  intros h. split; [|split].
  - intros id k. exact (index_lt_size (after h) id k (wf_after h)).
  - intros k. exact (every_number_used (after h) k (wf_after h)).
  - intros id id' k. exact (index_injective (after h) id id' k (wf_after h)).
Qed.
Print Assumptions C13_index_bijective.

(* Once a source has a number, no continuation of the history changes it. *)
Theorem C13_index_stable : forall h h' id k,
  em_index (after h) (Src id) = inl k -> em_index (after (h ++ h')) (Src id) = inl k.
Proof.
  intros h h' id k H. unfold after. rewrite after_from_app. apply index_stable_from, H.
Qed.
Print Assumptions C13_index_stable.

(* The number of a source is the number of distinct sources added before its first addition
   (whatever else was called in between, repeats included), and stays so for ever after.
   size is the number of distinct sources added; a source never added has no number (KeyError). *)
Theorem C13_index_first_add : forall h1 id h2,
  ~ In OFreeze h1 -> ~ In id (added h1) ->
  em_index (after (h1 ++ OAdd (Src id) :: h2)) (Src id) = inl (length (nodup Z.eq_dec (added h1))).
Proof. exact first_add_index. Qed.
Print Assumptions C13_index_first_add.

Theorem C13_size_counts_distinct_adds : forall h,
  em_size (after h) = length (nodup Z.eq_dec (added h)).
Proof. exact size_is_distinct_added. Qed.
Print Assumptions C13_size_counts_distinct_adds.

Theorem C13_index_unknown_raises : forall h id,
  ~ In id (added h) -> em_index (after h) (Src id) = inr KeyError.
Proof. exact never_added_keyerror. Qed.
Print Assumptions C13_index_unknown_raises.

(* After freeze() (explicit, or the one Monitor's constructor performs) every add raises
   ValueError — whatever the argument — and no later call changes sources() or un-freezes. *)
Theorem C13_frozen_nothing_changes : forall h h',
  em_frozen (after (h ++ [OFreeze])) = true /\
  (em_frozen (after h) = true ->
     (forall a, step (after h) (OAdd a) = (after h, RErr ValueError)) /\
     em_sources (after (h ++ h')) = em_sources (after h) /\
     em_frozen (after (h ++ h')) = true).
Proof.
  intros h h'. split.
  - unfold after. rewrite after_from_app. reflexivity.
  - intros Hf. split; [|unfold after; rewrite after_from_app; apply frozen_from, Hf].
    intros a. simpl. rewrite (frozen_add_raises _ a Hf). reflexivity.
Qed.
Print Assumptions C13_frozen_nothing_changes.

(* Arguments that are not event.Source objects: index raises TypeError; add raises TypeError on a
   map that is not frozen (the frozen test comes first); neither changes the map. *)
Theorem C13_non_source_rejected : forall m,
  step m (OIndex NotSrc) = (m, RErr TypeError) /\
  (em_frozen m = false -> step m (OAdd NotSrc) = (m, RErr TypeError)).
Proof.
  intros m. split; [reflexivity|]. intros Hf. simpl. unfold em_add. rewrite Hf. reflexivity.
Qed.
Print Assumptions C13_non_source_rejected.

(* The headline conjunction. *)
Theorem C13_index_dense_stable_first_add : forall h,
  map snd (em_sources (after h)) = seq 0 (em_size (after h)) /\
  (forall id k, em_index (after h) (Src id) = inl k <-> nth_error (em_sources (after h)) k = Some (id, k)) /\
  (forall h' id k, em_index (after h) (Src id) = inl k -> em_index (after (h ++ h')) (Src id) = inl k) /\
  (forall h1 id h2, h = h1 ++ OAdd (Src id) :: h2 -> ~ In OFreeze h1 -> ~ In id (added h1) ->
     em_index (after h) (Src id) = inl (length (nodup Z.eq_dec (added h1)))) /\
  (em_frozen (after h) = true -> forall a h',
     step (after h) (OAdd a) = (after h, RErr ValueError) /\
     em_sources (after (h ++ h')) = em_sources (after h)).
Proof.
  intros h. split; [apply C13_index_dense|]. split; [apply C13_index_is_position|].
  split; [intros h'; apply C13_index_stable|]. split.
  - intros h1 id h2 ->. apply C13_index_first_add.
  - intros Hf a h'. destruct (C13_frozen_nothing_changes h h') as [_ H].
    destruct (H Hf) as (H1 & H2 & _). auto.
Qed.
Print Assumptions C13_index_dense_stable_first_add.

(* ========================================================================================== *)
(* Monitor: every number of sources, every mode assignment, every trace                        *)
(* ========================================================================================== *)

(* What the k-th row of `run` is: the outputs in the state reached by the first t inputs. *)
Theorem C13_run_is_out_of_reached_state : forall c is t i,
  nth_error is t = Some i ->
  nth_error (run c (init c) is) t = Some (out c (state_after c (init c) (firstn t is)) i).
Proof. intros c is t i. exact (run_nth c is (init c) t i). Qed.
Print Assumptions C13_run_is_out_of_reached_state.

(* trg follows the trigger mode; edge modes compare with the previous cycle's input, which counts
   as low before the first cycle. *)
Theorem C13_trg_follows_mode : forall c is i k sub,
  nth_error c k = Some sub ->
  nth_error (o_trg (out c (state_after c (init c) is) i)) k =
    Some (match s_mode sub with
          | Level => in_i i (s_id sub)
          | Rise => negb (prev_in is (s_id sub)) && in_i i (s_id sub)
          | Fall => prev_in is (s_id sub) && negb (in_i i (s_id sub))
          end) /\
  prev_in [] (s_id sub) = false /\
  forall is' j, prev_in (is' ++ [j]) (s_id sub) = in_i j (s_id sub).
Proof.
  intros c is i k sub Hn. split; [|split].
  - rewrite (trg_reach c is i k sub Hn). unfold trg_of. destruct (s_mode sub); reflexivity.
  - reflexivity.
  - intros is' j. apply prev_in_snoc.
Qed.
Print Assumptions C13_trg_follows_mode.

(* pending'_k = trg_k || (pending_k && ~clear_k), in every state (reachable or not) with one edge
   register per source; bits beyond the sources never change. *)
Theorem C13_pending_step : forall c s i k sub,
  wf_cfg c -> st_ok c s -> nth_error c k = Some sub ->
  exists tk, nth_error (o_trg (out c s i)) k = Some tk /\
    Z.testbit (st_pending (next c s i)) (Z.of_nat k) =
    tk || (Z.testbit (st_pending s) (Z.of_nat k) && negb (Z.testbit (in_clear i) (Z.of_nat k))).
Proof. exact pending_step_lemma. Qed.
Print Assumptions C13_pending_step.

Theorem C13_reachable_states_ok : forall c is, wf_cfg c ->
  st_ok c (state_after c (init c) is) /\
  (0 <= st_pending (state_after c (init c) is))%Z /\
  forall k, (length c <= k)%nat -> Z.testbit (st_pending (state_after c (init c) is)) (Z.of_nat k) = false.
Proof. intros c is Hw. destruct (reach_ok c is Hw) as [H1 [H2 H3]]. auto. Qed.
Print Assumptions C13_reachable_states_ok.

(* No event is lost: if source k triggers in some cycle — whatever clear is in that cycle — its
   pending bit is set in the next cycle and in every later cycle up to which clear_k was not
   written (is1 ranges over all continuations, so over every such interval). *)
Theorem C13_no_event_lost : forall c k sub is0 i is1,
  wf_cfg c -> nth_error c k = Some sub ->
  nth_error (o_trg (out c (state_after c (init c) is0) i)) k = Some true ->
  (forall j, In j is1 -> Z.testbit (in_clear j) (Z.of_nat k) = false) ->
  Z.testbit (st_pending (state_after c (init c) (is0 ++ i :: is1))) (Z.of_nat k) = true.
Proof. exact no_event_lost_lemma. Qed.
Print Assumptions C13_no_event_lost.

(* src.i is high exactly when some event is both enabled and pending. *)
Theorem C13_irq_iff_enabled_pending : forall c is i, wf_cfg c ->
  (o_irq (out c (state_after c (init c) is) i) = true <->
   exists k, (k < length c)%nat /\ Z.testbit (in_enable i) (Z.of_nat k) = true /\
             Z.testbit (o_pending (out c (state_after c (init c) is) i)) (Z.of_nat k) = true).
Proof. exact irq_reach. Qed.
Print Assumptions C13_irq_iff_enabled_pending.

(* The two halves meet: for the monitor built over the map reached by ANY call history, with ANY
   mode assignment, the source the map numbers k is the monitor's k-th source (and conversely),
   there are exactly size of them, and bit k of pending obeys the step equation with THAT object's
   input line and mode — on every trace. *)
Theorem C13_bit_k_is_source_k : forall h md,
  let c := monitor_cfg (after h) md in
  wf_cfg c /\ length c = em_size (after h) /\
  (forall id k, em_index (after h) (Src id) = inl k <->
                nth_error c k = Some {| s_id := id; s_idx := k; s_mode := md id |}) /\
  (forall id k is i, em_index (after h) (Src id) = inl k ->
     let s := state_after c (init c) is in
     Z.testbit (st_pending (next c s i)) (Z.of_nat k) =
       trg_of (md id) (prev_in is id) (in_i i id) ||
       (Z.testbit (st_pending s) (Z.of_nat k) && negb (Z.testbit (in_clear i) (Z.of_nat k)))).
Proof.
  intros h md c. split; [apply wf_monitor_cfg, wf_after|]. split; [apply map_length|]. split.
  - intros id k. split; [apply monitor_cfg_nth, wf_after|].
    intros H. apply (monitor_cfg_nth_inv _ _ _ _ (wf_after h)) in H. simpl in H. tauto.
  - intros id k is i H. exact (bit_k_lemma h md id k is i H).
Qed.
Print Assumptions C13_bit_k_is_source_k.

(* Calls made after the Monitor's constructor froze the map cannot change what elaborate() sees. *)
Theorem C13_monitor_sources_fixed_at_construction : forall h h2 md,
  monitor_cfg (after_from (em_freeze (after h)) h2) md = monitor_cfg (after h) md.
Proof. exact monitor_cfg_frozen. Qed.
Print Assumptions C13_monitor_sources_fixed_at_construction.

(* ========================================================================================== *)
(* non-vacuity                                                                                 *)
(* ========================================================================================== *)

(* objects 7, 3, 9 added in this order with a repeat of 7, a non-Source add, queries in between,
   freeze, then two refused adds *)
Definition ex_h : list op :=
  [OAdd (Src 7); OIndex (Src 3); OAdd (Src 3); OAdd (Src 7); OAdd NotSrc; OSize; OAdd (Src 9);
   OFreeze; OAdd (Src 5); OAdd (Src 3); OSources].
Definition ex_md (id : Z) : mode := if (id =? 7)%Z then Rise else if (id =? 3)%Z then Level else Fall.
Definition ex_c : mcfg := monitor_cfg (after ex_h) ex_md.
Definition ex_in (i7 i3 i9 : bool) (en cl : Z) : minp :=
  {| in_i := fun id => if (id =? 7)%Z then i7 else if (id =? 3)%Z then i3 else i9;
     in_enable := en; in_clear := cl |}.
(* cycle 0: 7 rises, 9 high; cycle 1: 9 falls, 3 level-high;
   cycle 2: 7 rises again in the very cycle clear[0] is written, clear[1] written alone;
   cycle 3: nothing *)
Definition ex_tr : list minp :=
  [ex_in true false true 7 0; ex_in false true false 7 0; ex_in true false false 4 3;
   ex_in true false false 2 0].

Example C13_nonvacuous :
  snd (run_ops em_empty ex_h) =
    [RNone; RErr KeyError; RNone; RNone; RErr TypeError; RInt 2; RNone; RNone;
     RErr ValueError; RErr ValueError; RList [(7%Z, 0%nat); (3%Z, 1%nat); (9%Z, 2%nat)]] /\
  ~ In OFreeze [OAdd (Src 7); OIndex (Src 3); OAdd (Src 3); OAdd (Src 7); OAdd NotSrc; OSize] /\
  added [OAdd (Src 7); OIndex (Src 3); OAdd (Src 3); OAdd (Src 7); OAdd NotSrc; OSize] = [7%Z; 3%Z; 7%Z] /\
  em_index (after ex_h) (Src 9) = inl 2%nat /\ em_frozen (after ex_h) = true /\
  map s_id ex_c = [7%Z; 3%Z; 9%Z] /\ map s_mode ex_c = [Rise; Level; Fall] /\
  map (fun o => (o_trg o, o_pending o, o_irq o)) (run ex_c (init ex_c) ex_tr) =
    [([true; false; false], 0%Z, false);
     ([false; true; true], 1%Z, true);
     ([true; false; false], 7%Z, true);     (* trigger and clear of bit 0 coincide ... *)
     ([false; false; false], 5%Z, false)]   (* ... bit 0 survives, bit 1 is cleared *)
  /\ nth_error (o_trg (out ex_c (state_after ex_c (init ex_c) (firstn 2 ex_tr)) (nth 2 ex_tr (ex_in false false false 0 0)))) 0 = Some true
  /\ Z.testbit (in_clear (nth 2 ex_tr (ex_in false false false 0 0))) 0 = true.
Proof. vm_compute. repeat split; auto. intros [H|[H|[H|[H|[H|[H|[]]]]]]]; discriminate. Qed.
