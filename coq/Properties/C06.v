(* C06 — CSR decoder routes each access to exactly one subordinate, transparently.
   Statements only; definitions of the vocabulary (in_span, wf_sub, span_disj, route, leaves, in_leaf,
   leaf_ok, wf_tree) and all proofs live in Proofs/CsrDecoder.v and Lib/CsrPattern.v.

   Reading guide.  A decoder with `aw` address bits is given its windows `ws` (subordinate address
   width, start, stop) in ascending address order.  `dec_down aw ws i` is what every subordinate port
   sees in the cycle in which the decoder's own bus carries `i`; `dec_up rs` is the decoder's r_data
   when the subordinates return `rs`.  Trees: `tree_down t i` lists what every LEAF port sees
   (depth-first = ascending address order), `tree_up rd t` is the root's r_data when leaf `id` returns
   `rd id`.  The hypotheses `wf_sub`/`span_disj` (start a multiple of 2^aw_w, span inside [0, 2^aw),
   spans pairwise disjoint) are what the memory map establishes for the windows it accepts (C02);
   explicit addresses that are not multiples of the window size are outside the property (note N2).

   The composition with csr.Multiplexer leaves (tree_equals_flat: registers spread over a tree of decoders
   behave like the same registers on one multiplexer at the addresses the memory map reports) is the second
   half of this file; its proofs are in Proofs/CsrTreeFlat.v, CsrTreeMap.v, CsrTreeRegs.v. *)
From Coq Require Import ZArith List Bool Lia.
From Soc Require Import Lib.Bits Lib.CsrPattern Model.CsrDecoder Proofs.CsrDecoder.
Import ListNotations.
Open Scope Z_scope.

(* ---- patterns ---- *)

(* The bit-by-bit match of Case(pattern) is the arithmetic comparison of address / window size. *)
Theorem C06_pattern_arith : forall aw aw_w start a,
  0 <= aw_w <= aw -> 0 <= start < 2 ^ aw -> 0 <= a < 2 ^ aw ->
  pmatch (window_pattern aw aw_w start) a = (a / 2 ^ aw_w =? start / 2 ^ aw_w).
Proof. exact pattern_matches_div. Qed.
Print Assumptions C06_pattern_arith.

Theorem C06_pattern_matches_iff : forall aw aw_w start a,
  0 <= aw_w <= aw -> 0 <= start < 2 ^ aw -> 0 <= a < 2 ^ aw ->
  (pmatch (window_pattern aw aw_w start) a = true <->
   start / 2 ^ aw_w * 2 ^ aw_w <= a < start / 2 ^ aw_w * 2 ^ aw_w + 2 ^ aw_w).
Proof. exact pattern_matches_iff. Qed.
Print Assumptions C06_pattern_matches_iff.

Theorem C06_pattern_matches_aligned : forall aw aw_w start a,
  0 <= aw_w <= aw -> 0 <= start < 2 ^ aw -> start mod 2 ^ aw_w = 0 -> 0 <= a < 2 ^ aw ->
  (pmatch (window_pattern aw aw_w start) a = true <-> start <= a < start + 2 ^ aw_w).
Proof. exact pattern_matches_aligned. Qed.
Print Assumptions C06_pattern_matches_aligned.

(* Python's format() never prints extra digits for a window inside the address space: the pattern has
   the width of the decoder's address, so Amaranth accepts every Case (no refusal at elaboration). *)
Theorem C06_pattern_width : forall aw aw_w start,
  0 <= aw_w <= aw -> 0 <= start < 2 ^ aw -> Z.of_nat (length (window_pattern aw aw_w start)) = aw.
Proof. exact window_pattern_length. Qed.
Print Assumptions C06_pattern_width.

Theorem C06_wf_tree_elaborates : forall t, wf_tree t -> tree_elab_ok t = true.
Proof. exact (proj1 tree_elab_ok_mut). Qed.
Print Assumptions C06_wf_tree_elaborates.

(* ---- Decoder.add(): its own refusals ---- *)

Theorem C06_add_checks : forall dec_dw is_iface sub_dw,
  (add_check dec_dw is_iface sub_dw = Err TypeError <-> is_iface = false) /\
  (add_check dec_dw is_iface sub_dw = Err ValueError <-> is_iface = true /\ sub_dw <> dec_dw) /\
  (add_check dec_dw is_iface sub_dw = Ok <-> is_iface = true /\ sub_dw = dec_dw).
Proof.
  intros dw b s. unfold add_check. destruct b; simpl; destruct (Z.eqb_spec s dw); simpl;
    repeat split; intros; try discriminate; try tauto; destruct H; congruence.
Qed.
Print Assumptions C06_add_checks.

(* ---- one decoder ---- *)

(* Every subordinate gets w_data and the truncated address unconditionally.  The subordinate whose span
   contains the address gets both strobes unchanged, in the same cycle, and the address a - start (that
   is what the truncation yields); every other subordinate gets no strobe; no two spans contain the
   address, hence at most one subordinate is strobed, and none when the address is unassigned. *)
Theorem C06_route_exactly_one : forall aw ws i,
  Forall (wf_sub aw) ws -> ForallOrdPairs span_disj ws -> 0 <= addr i < 2 ^ aw ->
  length (dec_down aw ws i) = length ws /\
  (forall k w, nth_error ws k = Some w ->
     exists o, nth_error (dec_down aw ws i) k = Some o /\
       w_data o = w_data i /\ addr o = trunc (s_aw w) (addr i) /\
       (in_span w (addr i) -> r_stb o = r_stb i /\ w_stb o = w_stb i /\ addr o = addr i - s_start w) /\
       (~ in_span w (addr i) -> r_stb o = false /\ w_stb o = false)) /\
  (forall k1 k2 w1 w2, nth_error ws k1 = Some w1 -> nth_error ws k2 = Some w2 ->
     in_span w1 (addr i) -> in_span w2 (addr i) -> k1 = k2).
Proof. exact route_exactly_one. Qed.
Print Assumptions C06_route_exactly_one.

(* The same as one equation: first-match-wins over the Switch equals "each window decides alone". *)
Theorem C06_route_equation : forall aw ws i,
  Forall (wf_sub aw) ws -> ForallOrdPairs span_disj ws -> 0 <= addr i < 2 ^ aw ->
  dec_down aw ws i = map (fun w => route w i) ws.
Proof. exact dec_down_spec. Qed.
Print Assumptions C06_route_equation.

(* Hypotheses in the form the allocator delivers them: ranges (start, stop) pairwise disjoint, inside
   the address space, each containing its subordinate's span (the rest of a range is alignment padding
   and counts as unassigned). *)
Theorem C06_route_exactly_one_ranges : forall aw ws i,
  Forall (wf_range aw) ws -> ForallOrdPairs range_disj ws -> 0 <= addr i < 2 ^ aw ->
  dec_down aw ws i = map (fun w => route w i) ws /\
  (forall k1 k2 w1 w2, nth_error ws k1 = Some w1 -> nth_error ws k2 = Some w2 ->
     in_span w1 (addr i) -> in_span w2 (addr i) -> k1 = k2).
Proof.
  intros aw ws i Hw Hd Ha. destruct (ranges_give_spans aw ws Hw Hd) as (Hs & Hds).
  split; [apply dec_down_spec; assumption | apply span_unique; assumption].
Qed.
Print Assumptions C06_route_exactly_one_ranges.

(* If every subordinate that is not addressed returns 0, upstream r_data is the addressed one's; 0 when
   the address is unassigned. *)
Theorem C06_read_mux : forall ws a rs,
  ForallOrdPairs span_disj ws -> length rs = length ws ->
  (forall k w r, nth_error ws k = Some w -> nth_error rs k = Some r -> ~ in_span w a -> r = 0) ->
  (forall k w r, nth_error ws k = Some w -> nth_error rs k = Some r -> in_span w a -> dec_up rs = r) /\
  ((forall w, In w ws -> ~ in_span w a) -> dec_up rs = 0).
Proof. exact read_mux. Qed.
Print Assumptions C06_read_mux.

(* ---- decoders below decoders, any depth ---- *)

(* A single decoder is the tree of depth one (the engine runs the tree model only). *)
Theorem C06_decoder_is_depth1_tree : forall aw ws i,
  tree_down (Node aw (flat_forest ws 0)) i = dec_down aw ws i.
Proof. exact flat_tree_down. Qed.
Print Assumptions C06_decoder_is_depth1_tree.

(* The offset of a leaf is the sum of the window starts on its path: two levels, spelled out. *)
Theorem C06_two_level_offset : forall aw so eo aw' si ei law id,
  leaves (Node aw (FCons so eo (Node aw' (FCons si ei (Leaf law id) FNil)) FNil)) =
  [{| l_off := so + (si + 0); l_aw := law; l_id := id |}].
Proof. reflexivity. Qed.
Print Assumptions C06_two_level_offset.

(* route_exactly_one composed with itself along every path of a tree of decoders: leaf k sees w_data
   unchanged; the leaf whose composed span [off, off + 2^aw_leaf) contains the root address sees both
   strobes unchanged and the address a - off = a - start_outer - ... - start_inner; all other leaves see
   no strobe; composed spans are pairwise disjoint, so at most one leaf is strobed. *)
Theorem C06_tree_route : forall t i, wf_tree t -> 0 <= addr i < 2 ^ tree_aw t ->
  length (tree_down t i) = length (leaves t) /\
  (forall k l, nth_error (leaves t) k = Some l ->
     exists o, nth_error (tree_down t i) k = Some o /\
       w_data o = w_data i /\
       (in_leaf l (addr i) -> r_stb o = r_stb i /\ w_stb o = w_stb i /\ addr o = addr i - l_off l) /\
       (~ in_leaf l (addr i) -> r_stb o = false /\ w_stb o = false)) /\
  (forall k1 k2 l1 l2, nth_error (leaves t) k1 = Some l1 -> nth_error (leaves t) k2 = Some l2 ->
     in_leaf l1 (addr i) -> in_leaf l2 (addr i) -> k1 = k2).
Proof. exact tree_route_full. Qed.
Print Assumptions C06_tree_route.

(* read_mux for the whole tree *)
Theorem C06_tree_read_mux : forall rd t a, wf_tree t ->
  (forall l, In l (leaves t) -> ~ in_leaf l a -> rd (l_id l) = 0) ->
  (forall l, In l (leaves t) -> in_leaf l a -> tree_up rd t = rd (l_id l)) /\
  ((forall l, In l (leaves t) -> ~ in_leaf l a) -> tree_up rd t = 0).
Proof. exact tree_read_mux. Qed.
Print Assumptions C06_tree_read_mux.

(* without any premise: the root reads the OR of all leaves *)
Theorem C06_tree_r_data_is_or_of_leaves : forall rd t,
  tree_up rd t = dec_up (map (fun l => rd (l_id l)) (leaves t)).
Proof. exact tree_up_flat. Qed.
Print Assumptions C06_tree_r_data_is_or_of_leaves.

(* ---- non-vacuity: a 5-bit decoder (alignment 1) over a 2-bit leaf at 0, a 3-bit inner decoder at
   [8,16) with a 1-bit leaf at 2 and a 2-bit leaf at 4, and a 1-bit leaf at [24,26) ---- *)
Definition ex_inner : tree := Node 3 (FCons 2 4 (Leaf 1 1) (FCons 4 8 (Leaf 2 2) FNil)).
Definition ex_tree : tree := Node 5 (FCons 0 4 (Leaf 2 0) (FCons 8 16 ex_inner (FCons 24 26 (Leaf 1 3) FNil))).
Definition ex_rd (id : nat) : Z := match id with 2%nat => 90 | _ => 0 end.

Example C06_nonvacuous_wf : wf_tree ex_tree.
Proof.
  unfold ex_tree, ex_inner. cbn [wf_tree wf_forest subs_of]. unfold wf_sub, win_of. cbn [s_aw s_start s_stop tree_aw].
  repeat split; try lia; try reflexivity;
    repeat (constructor; try (unfold span_disj; cbn [s_aw s_start]; lia)).
Qed.

Example C06_nonvacuous :
  let i := {| addr := 13; r_stb := true; w_stb := false; w_data := 7 |} in
  map l_off (leaves ex_tree) = [0; 10; 12; 24] /\
  tree_elab_ok ex_tree = true /\
  sub_pattern 5 (win_of 8 16 ex_inner) = [Some false; Some true; None; None; None] /\
  tree_down ex_tree i =
    [ {| addr := 1; r_stb := false; w_stb := false; w_data := 7 |};
      {| addr := 1; r_stb := false; w_stb := false; w_data := 7 |};
      {| addr := 1; r_stb := true;  w_stb := false; w_data := 7 |};
      {| addr := 1; r_stb := false; w_stb := false; w_data := 7 |} ] /\
  tree_up ex_rd ex_tree = 90 /\
  (* an unassigned address: nobody is strobed *)
  map r_stb (tree_down ex_tree {| addr := 20; r_stb := true; w_stb := true; w_data := 0 |}) =
    [false; false; false; false] /\
  add_check 8 true 16 = Err ValueError.
Proof. vm_compute. repeat split; reflexivity. Qed.

(* ================================================================================================
   tree_equals_flat: decoders over csr.Multiplexer leaves (Model/Hierarchy.v) behave like one flat
   multiplexer at the addresses the root memory map reports.

   Reading guide.  `csrnode` = the hierarchy as built (C01); csr_map n / csr_hw n = its root memory map /
   its elaborated hardware; csr_run h (cinit h) tr = the cycle-exact machine on the root trace tr (per
   cycle: bus signals and element.r_data of every register), yielding per cycle the root's r_data and the
   element ports (id, r_stb, w_stb, w_data) of every register.  Domain as in C01: csr_dom (explicit window
   addresses are multiples of the window size, note N2), csr_widths (no negative element width), and
   all_resources() does not raise.
     hw_leaves aw h     the multiplexers of the tree, depth first: hl_base = sum of the window starts on the
                        path, hl_aw = address width, hl_cfg/hl_ids = configuration and register ids;
     leaf_inp L (b,rv)  what L sees when the ROOT carries b (C06_leaf_sees: strobes gated by "addr in
                        [hl_base, hl_base + 2^hl_aw)", address addr - hl_base there);
     leaf_obs/leaf_rdata L tr  the element ports / r_data of Model/Mux.v run ALONE on these inputs;
     reg_at aw h i L k r     the register reported as i is register number k of L, locally r;
     rdata_after h tr t      the root's r_data in cycle t;  last_write tr a: the last cycle of tr was a
                             write strobe at a.
   ================================================================================================ *)
From Soc Require Import Lib.Res Model.MemoryMap Model.Hierarchy Model.MuxSpec
  Proofs.HierCsr Proofs.HierWf Proofs.HierInert Proofs.CsrTreeFlat Proofs.CsrTreeMap Proofs.CsrTreeRegs.
From Soc Require Model.Mux.

(* ---- the decoder layers are transparent ---- *)

(* what a multiplexer at window offset hl_base sees of the root bus: the strobes gated by its window, the
   address minus the offset inside it (outside, the truncated address with both strobes low), w_data and
   every register value unchanged *)
Theorem C06_leaf_sees : forall L b rv,
  leaf_inp L (b, rv) =
  {| Mux.i_addr := if hl_inb L (addr b) then addr b - hl_base L else trunc (hl_aw L) (addr b);
     Mux.i_rstb := hl_inb L (addr b) && r_stb b;
     Mux.i_wstb := hl_inb L (addr b) && w_stb b;
     Mux.i_wdata := w_data b;
     Mux.i_rvals := map (fun id => nth (Z.to_nat id) rv 0) (hl_ids L) |}.
Proof. exact leaf_inp_spec. Qed.
Print Assumptions C06_leaf_sees.

(* the windows the construction gives every decoder of the tree are aligned, inside the decoder's address
   space and pairwise disjoint (the hypotheses of C06_route_exactly_one, now derived, at every level) *)
Theorem C06_tree_geometry : forall n m h, csr_dom n -> csr_map n = Ok m -> csr_hw n = Ok h -> geom (csr_aw n) h.
Proof. intros n m h Hd. exact (csr_hw_geom n Hd m h). Qed.
Print Assumptions C06_tree_geometry.

(* the windows of the multiplexers are pairwise disjoint: at most one is addressed *)
Theorem C06_tree_leaves_disjoint : forall n m h, csr_dom n -> csr_map n = Ok m -> csr_hw n = Ok h ->
  ForallOrdPairs hl_disj (hw_leaves (csr_aw n) h).
Proof.
  intros n m h Hd Hm Hh. pose proof (proj2 (proj2 (proj2 (csr_map_good n Hd m Hm)))).
  apply leaves_disjoint; [lia|exact (csr_hw_geom n Hd m h Hm Hh)].
Qed.
Print Assumptions C06_tree_leaves_disjoint.

(* tree_equals_flat, structurally: in every cycle of every trace the tree shows exactly what its multiplexers,
   each run alone on the root's input sequence as seen through its window, show: the element ports are the
   concatenation of theirs, the root's r_data is the OR of theirs *)
Theorem C06_tree_equals_flat_leaves : forall n m h, csr_dom n -> csr_map n = Ok m -> csr_hw n = Ok h ->
  forall tr, in_range (csr_aw n) tr -> forall t b rv, nth_error tr t = Some (b, rv) ->
  nth_error (csr_run h (cinit h) tr) t =
  Some (dec_up (map (fun L => leaf_rdata L (firstn t tr)) (hw_leaves (csr_aw n) h)),
        flat_map (fun L => leaf_obs L (firstn t tr) rv b) (hw_leaves (csr_aw n) h)).
Proof.
  intros n m h Hd Hm Hh. pose proof (proj2 (proj2 (proj2 (csr_map_good n Hd m Hm)))).
  apply tree_run_flat; [lia|exact (csr_hw_geom n Hd m h Hm Hh)].
Qed.
Print Assumptions C06_tree_equals_flat_leaves.

(* ---- the registers, in the root map's words ---- *)

(* all_resources() of the root map and the multiplexers of the hardware list the same registers: a register
   with leaf-local range [start, stop) in the multiplexer at offset hl_base is reported at
   [hl_base + start, hl_base + stop), and nothing else is reported *)
Theorem C06_tree_registers_reported : forall n m h l, csr_dom n ->
  csr_map n = Ok m -> csr_hw n = Ok h -> all_resources m = Ok l ->
  (forall i, In i l -> exists L k r, reg_at (csr_aw n) h i L k r) /\
  (forall L k id r, In L (hw_leaves (csr_aw n) h) -> nth_error (hl_ids L) k = Some id ->
     nth_error (Mux.c_regs (hl_cfg L)) k = Some r ->
     exists i, In i l /\ i_res i = id /\ leaf_reg L k id r /\
               i_start i = hl_base L + Mux.r_start r /\ i_end i = hl_base L + Mux.r_stop r).
Proof.
  intros n m h l Hd Hm Hh Hl. destruct (csr_reg_corr n Hd m h l Hm Hh Hl) as [H1 H2]. split; [|exact H2].
  intros i Hi. destruct (H1 i Hi) as (L & k & r & H). exists L, k, r. exact H.
Qed.
Print Assumptions C06_tree_registers_reported.

(* tree_equals_flat, per register: the element strobes of every reported register are those the FLAT
   statements (C04_r_strobe_exact, C05_w_strobe_exact) give for a register at [i_start, i_end):
   r_stb in cycle t  =  readable && root r_stb at t && root addr at t = i_start;
   w_stb in cycle t  =  writable && root w_stb at t-1 && root addr at t-1 = i_end - 1 (false in cycle 0);
   every trace, conforming or not; access mode and width (r) are fixed before the trace is chosen *)
Theorem C06_tree_equals_flat : forall n m h l, csr_dom n -> csr_widths n ->
  csr_map n = Ok m -> csr_hw n = Ok h -> all_resources m = Ok l ->
  forall i, In i l ->
  exists L k r, reg_at (csr_aw n) h i L k r /\
    forall tr, in_range (csr_aw n) tr -> forall t b rv, nth_error tr t = Some (b, rv) ->
    exists rd los lo, nth_error (csr_run h (cinit h) tr) t = Some (rd, los) /\ In lo los /\
      lo_id lo = i_res i /\
      lo_rstb lo = Mux.r_rd r && r_stb b && (addr b =? i_start i) /\
      lo_wstb lo = Mux.r_wr r && last_write (firstn t tr) (i_end i - 1).
Proof. intros n m h l Hd Hw Hm Hh Hl. exact (tree_strobes_flat n h l (tree_ok_intro n m h l Hd Hw Hm Hh Hl)). Qed.
Print Assumptions C06_tree_equals_flat.

Theorem C06_last_write_spec : forall tr t b rv a,
  last_write (firstn 0 tr) a = false /\
  (nth_error tr t = Some (b, rv) -> last_write (firstn (S t) tr) a = w_stb b && (addr b =? a)).
Proof. intros tr t b rv a. split; [reflexivity|apply last_write_S]. Qed.
Print Assumptions C06_last_write_spec.

(* ... and the tree has no other element ports: every port of every cycle is a reported register's *)
Theorem C06_tree_ports_are_registers : forall n m h l, csr_dom n -> csr_widths n ->
  csr_map n = Ok m -> csr_hw n = Ok h -> all_resources m = Ok l ->
  forall tr t b rv rd los, in_range (csr_aw n) tr -> nth_error tr t = Some (b, rv) ->
  nth_error (csr_run h (cinit h) tr) t = Some (rd, los) ->
  forall lo, In lo los ->
  exists i L k r, In i l /\ reg_at (csr_aw n) h i L k r /\ lo_id lo = i_res i /\
    lo_rstb lo = Mux.r_rd r && r_stb b && (addr b =? i_start i) /\
    lo_wstb lo = Mux.r_wr r && last_write (firstn t tr) (i_end i - 1).
Proof. intros n m h l Hd Hw Hm Hh Hl. exact (tree_ports_flat n h l (tree_ok_intro n m h l Hd Hw Hm Hh Hl)). Qed.
Print Assumptions C06_tree_ports_are_registers.

(* the root's r_data: zero in cycle 0; in cycle t+1 the r_data of the multiplexer addressed at t, zero if
   the address lies in no multiplexer's window or cycle t had no read strobe *)
Theorem C06_tree_r_data : forall n m h l, csr_dom n -> csr_widths n ->
  csr_map n = Ok m -> csr_hw n = Ok h -> all_resources m = Ok l ->
  forall tr, in_range (csr_aw n) tr ->
  rdata_after h tr 0 = 0 /\
  forall t b rv, nth_error tr t = Some (b, rv) ->
    (forall L, In L (hw_leaves (csr_aw n) h) -> hl_in L (addr b) ->
       rdata_after h tr (S t) = leaf_rdata L (firstn (S t) tr)) /\
    ((forall L, In L (hw_leaves (csr_aw n) h) -> ~ hl_in L (addr b)) -> rdata_after h tr (S t) = 0) /\
    (r_stb b = false -> rdata_after h tr (S t) = 0).
Proof. intros n m h l Hd Hw Hm Hh Hl. exact (tree_rdata_flat n h l (tree_ok_intro n m h l Hd Hw Hm Hh Hl)). Qed.
Print Assumptions C06_tree_r_data.

(* rdata_after is the r_data csr_run reports *)
Theorem C06_rdata_after_is_run : forall h tr t b rv, nth_error tr t = Some (b, rv) ->
  option_map fst (nth_error (csr_run h (cinit h) tr) t) = Some (rdata_after h tr t).
Proof. intros h tr t b rv H. rewrite (csr_run_nth h tr _ t b rv H). reflexivity. Qed.
Print Assumptions C06_rdata_after_is_run.

(* ---- bus-level corollaries: C04 / C05 for a register deep in the tree, at its ROOT addresses ---- *)

(* C04_read_atomic through any number of decoders.  Premises on the ROOT trace: a read strobe at the register's
   first reported address i_start at t0; from then to t no read strobe at the first address of any reported
   register; a read strobe at i_start + j at t.  Then the root returns, in cycle t+1, word j of the value the
   register presented AT t0 (rv0 = the register values of cycle t0, indexed by register id). *)
Theorem C06_tree_read_atomic : forall n m h l, csr_dom n -> csr_widths n ->
  csr_map n = Ok m -> csr_hw n = Ok h -> all_resources m = Ok l ->
  forall i L k r tr t0 t j b0 rv0 bt rvt,
  In i l -> reg_at (csr_aw n) h i L k r -> Mux.r_rd r = true -> in_range (csr_aw n) tr ->
  nth_error tr t0 = Some (b0, rv0) -> r_stb b0 = true -> addr b0 = i_start i ->
  (t0 <= t)%nat ->
  (forall u bu rvu i', (t0 < u <= t)%nat -> nth_error tr u = Some (bu, rvu) -> r_stb bu = true ->
                       In i' l -> addr bu <> i_start i') ->
  nth_error tr t = Some (bt, rvt) -> r_stb bt = true -> addr bt = i_start i + j ->
  0 <= j < i_end i - i_start i ->
  rdata_after h tr (S t) =
  Mux.word (csr_dw n) (Mux.r_width r) j (trunc (Mux.r_width r) (nth (Z.to_nat (i_res i)) rv0 0)).
Proof. intros n m h l Hd Hw Hm Hh Hl. exact (tree_read_atomic n h l (tree_ok_intro n m h l Hd Hw Hm Hh Hl)). Qed.
Print Assumptions C06_tree_read_atomic.

(* C05_write_atomic through any number of decoders.  Premises on the ROOT trace: a write strobe at the
   register's last reported address i_end - 1 at t; for every chunk j that carries data bits, tj j is the cycle
   of the latest write strobe at i_start + j and dj j the data written then; from the earliest of these to t,
   every write strobe that hits a reported register hits this one.  Then in cycle t+1 the register's element
   port shows w_stb and, as w_data, the concatenation of the dj (C05_assemble_is_concatenation). *)
Theorem C06_tree_write_atomic : forall n m h l, csr_dom n -> csr_widths n ->
  csr_map n = Ok m -> csr_hw n = Ok h -> all_resources m = Ok l ->
  forall i L k r tr t bt rvt (tj : Z -> nat) (dj : Z -> Z),
  In i l -> reg_at (csr_aw n) h i L k r -> Mux.r_wr r = true -> in_range (csr_aw n) tr ->
  nth_error tr t = Some (bt, rvt) -> w_stb bt = true -> addr bt = i_end i - 1 ->
  (forall j, 0 <= j < i_end i - i_start i -> j * csr_dw n < Mux.r_width r ->
     (tj j <= t)%nat /\
     (exists bj rvj, nth_error tr (tj j) = Some (bj, rvj) /\ w_stb bj = true /\ addr bj = i_start i + j /\
                     dj j = trunc (csr_dw n) (w_data bj)) /\
     (forall u bu rvu, (tj j < u <= t)%nat -> nth_error tr u = Some (bu, rvu) ->
                       ~ (w_stb bu = true /\ addr bu = i_start i + j))) ->
  (forall j u bu rvu i', 0 <= j < i_end i - i_start i -> j * csr_dw n < Mux.r_width r ->
     (tj j < u <= t)%nat -> nth_error tr u = Some (bu, rvu) -> w_stb bu = true ->
     In i' l -> i_start i' <= addr bu < i_end i' -> i_start i <= addr bu < i_end i) ->
  forall b' rv', nth_error tr (S t) = Some (b', rv') ->
  exists rd los lo, nth_error (csr_run h (cinit h) tr) (S t) = Some (rd, los) /\ In lo los /\
    lo_id lo = i_res i /\ lo_wstb lo = true /\
    lo_wdata lo = assemble (csr_dw n) (Mux.r_width r) dj (Z.to_nat (i_end i - i_start i)).
Proof. intros n m h l Hd Hw Hm Hh Hl. exact (tree_write_atomic n h l (tree_ok_intro n m h l Hd Hw Hm Hh Hl)). Qed.
Print Assumptions C06_tree_write_atomic.

(* ---- against ONE multiplexer, literally ----
   flat_reg i r = the register as a flat multiplexer would hold it (range [i_start, i_end), same width and
   access); flat_is ids tr = the root trace as that multiplexer's input sequence (same bus signals, same
   register values). *)

(* every trace: any multiplexer cF holding the register at its reported range shows, at that position, the
   strobes the tree's register shows, cycle by cycle *)
Theorem C06_tree_strobes_equal_flat_mux : forall n m h l, csr_dom n -> csr_widths n ->
  csr_map n = Ok m -> csr_hw n = Ok h -> all_resources m = Ok l ->
  forall i, In i l ->
  exists L k r, reg_at (csr_aw n) h i L k r /\
    forall cF idsF kF, nth_error (Mux.c_regs cF) kF = Some (flat_reg i r) ->
    forall tr, in_range (csr_aw n) tr -> forall t b rv, nth_error tr t = Some (b, rv) ->
    exists rd los lo, nth_error (csr_run h (cinit h) tr) t = Some (rd, los) /\ In lo los /\
      lo_id lo = i_res i /\
      nth_error (Mux.o_rstb (Mux.out cF (st_at cF (flat_is idsF tr) t) (flat_inp idsF (b, rv)))) kF
        = Some (lo_rstb lo) /\
      nth_error (Mux.o_wstb (Mux.out cF (st_at cF (flat_is idsF tr) t) (flat_inp idsF (b, rv)))) kF
        = Some (lo_wstb lo).
Proof. intros n m h l Hd Hw Hm Hh Hl. exact (tree_strobes_equal_flat n h l (tree_ok_intro n m h l Hd Hw Hm Hh Hl)). Qed.
Print Assumptions C06_tree_strobes_equal_flat_mux.

(* under the premises of C06_tree_read_atomic the root of the tree returns what a well-formed flat multiplexer
   of the same data width returns, whose registers all start at reported first addresses *)
Theorem C06_tree_read_equals_flat_mux : forall n m h l, csr_dom n -> csr_widths n ->
  csr_map n = Ok m -> csr_hw n = Ok h -> all_resources m = Ok l ->
  forall i L k r tr t0 t j b0 rv0 bt rvt cF idsF kF,
  In i l -> reg_at (csr_aw n) h i L k r -> Mux.r_rd r = true -> in_range (csr_aw n) tr ->
  nth_error tr t0 = Some (b0, rv0) -> r_stb b0 = true -> addr b0 = i_start i ->
  (t0 <= t)%nat ->
  (forall u bu rvu i', (t0 < u <= t)%nat -> nth_error tr u = Some (bu, rvu) -> r_stb bu = true ->
                       In i' l -> addr bu <> i_start i') ->
  nth_error tr t = Some (bt, rvt) -> r_stb bt = true -> addr bt = i_start i + j ->
  0 <= j < i_end i - i_start i ->
  wf_cfg cF -> Mux.c_dw cF = csr_dw n ->
  nth_error (Mux.c_regs cF) kF = Some (flat_reg i r) -> nth_error idsF kF = Some (i_res i) ->
  (forall rF, In rF (Mux.c_regs cF) -> exists i', In i' l /\ Mux.r_start rF = i_start i') ->
  rdata_after h tr (S t) = rdata_at cF (flat_is idsF tr) (S t).
Proof. intros n m h l Hd Hw Hm Hh Hl. exact (tree_read_equals_flat n h l (tree_ok_intro n m h l Hd Hw Hm Hh Hl)). Qed.
Print Assumptions C06_tree_read_equals_flat_mux.

(* under the premises of C06_tree_write_atomic the register receives, with its w_stb, the w_data it receives
   on a well-formed flat multiplexer of the same data width whose registers all occupy reported ranges *)
Theorem C06_tree_write_equals_flat_mux : forall n m h l, csr_dom n -> csr_widths n ->
  csr_map n = Ok m -> csr_hw n = Ok h -> all_resources m = Ok l ->
  forall i L k r tr t bt rvt (tj : Z -> nat) (dj : Z -> Z) cF idsF kF,
  In i l -> reg_at (csr_aw n) h i L k r -> Mux.r_wr r = true -> in_range (csr_aw n) tr ->
  nth_error tr t = Some (bt, rvt) -> w_stb bt = true -> addr bt = i_end i - 1 ->
  (forall j, 0 <= j < i_end i - i_start i -> j * csr_dw n < Mux.r_width r ->
     (tj j <= t)%nat /\
     (exists bj rvj, nth_error tr (tj j) = Some (bj, rvj) /\ w_stb bj = true /\ addr bj = i_start i + j /\
                     dj j = trunc (csr_dw n) (w_data bj)) /\
     (forall u bu rvu, (tj j < u <= t)%nat -> nth_error tr u = Some (bu, rvu) ->
                       ~ (w_stb bu = true /\ addr bu = i_start i + j))) ->
  (forall j u bu rvu i', 0 <= j < i_end i - i_start i -> j * csr_dw n < Mux.r_width r ->
     (tj j < u <= t)%nat -> nth_error tr u = Some (bu, rvu) -> w_stb bu = true ->
     In i' l -> i_start i' <= addr bu < i_end i' -> i_start i <= addr bu < i_end i) ->
  wf_cfg cF -> Mux.c_dw cF = csr_dw n -> nth_error (Mux.c_regs cF) kF = Some (flat_reg i r) ->
  (forall rF, In rF (Mux.c_regs cF) ->
     exists i', In i' l /\ Mux.r_start rF = i_start i' /\ Mux.r_stop rF = i_end i') ->
  forall b' rv', nth_error tr (S t) = Some (b', rv') ->
  exists rd los lo, nth_error (csr_run h (cinit h) tr) (S t) = Some (rd, los) /\ In lo los /\
    lo_id lo = i_res i /\ lo_wstb lo = true /\
    lo_wdata lo = Mux.elem_wdata cF (st_at cF (flat_is idsF tr) (S t)) (flat_reg i r).
Proof. intros n m h l Hd Hw Hm Hh Hl. exact (tree_write_equals_flat n h l (tree_ok_intro n m h l Hd Hw Hm Hh Hl)). Qed.
Print Assumptions C06_tree_write_equals_flat_mux.

(* ---- non-vacuity: a 5-bit decoder (alignment 1, 8 data bits) over an anonymous 2-bit multiplexer A (a
   two-chunk 12-bit register 0 at [0,2) and an 8-bit register 1 at the explicit address 3) and, after
   align_to(4), a named 3-bit decoder whose named window at the explicit address 4 holds a 1-bit multiplexer B
   with a two-chunk 12-bit register 2: reported at [20,22) = 16 + 4 + [0,2) ---- *)
Definition fx_reg id w nm size addr :=
  MAdd {| l_id := id; l_width := w; l_rd := true; l_wr := true; l_name := NStr nm;
          l_size := VInt size; l_addr := addr; l_align := VNone |}.
Definition fx_muxA := MuxLeaf 2 8 0 [fx_reg 0 12 10 2 VNone; fx_reg 1 8 11 1 (VInt 3)] None.
Definition fx_muxB := MuxLeaf 1 8 0 [fx_reg 2 12 12 2 VNone] (Some 0).
Definition fx_inner :=
  CsrDec 3 8 0 [({| o_aligns := []; o_name := Some (NStr 20); o_addr := VInt 4 |}, fx_muxB)].
Definition fx_tree :=
  CsrDec 5 8 1 [({| o_aligns := []; o_name := None; o_addr := VNone |}, fx_muxA);
                ({| o_aligns := [4]; o_name := Some (NStr 21); o_addr := VNone |}, fx_inner)].
Definition fx_bus a r w d := {| addr := a; r_stb := r; w_stb := w; w_data := d |}.
(* read both chunks of register 2 (it changes its value in between), write its two chunks with a read of
   register 0 in between, then a stray access to the unassigned address 9 *)
Definition fx_tr : btrace :=
  [ (fx_bus 20 true false 0, [0; 0; 0xABC]);
    (fx_bus 21 true false 0, [0; 0; 0x123]);
    (fx_bus 20 false true 0x34, [0; 0; 0]);
    (fx_bus 0 true false 0, [0xDEF; 0; 0]);
    (fx_bus 21 false true 0x5, [0; 0; 0]);
    (fx_bus 9 true true 0xFF, [0; 0; 0]);
    (fx_bus 0 false false 0, [0; 0; 0]) ].

Example C06_flat_nonvacuous_dom : csr_dom fx_tree /\ csr_widths fx_tree /\ in_range (csr_aw fx_tree) fx_tr.
Proof.
  split; [|split].
  - cbn [csr_dom fx_tree fx_inner fx_muxA fx_muxB o_addr csr_aw].
    repeat split; intros z H; try discriminate. injection H as <-. reflexivity.
  - cbn. unfold ops_widths. repeat split; repeat constructor; cbn; lia.
  - intros x Hx. cbn [csr_aw fx_tree]. unfold fx_tr in Hx. cbn [In] in Hx.
    repeat (destruct Hx as [<-|Hx]; [cbn; lia|]). contradiction.
Qed.

Example C06_flat_nonvacuous :
  exists m h l, csr_map fx_tree = Ok m /\ csr_hw fx_tree = Ok h /\ all_resources m = Ok l /\
    (* the root map's report, and the multiplexers of the hardware with their local register ranges *)
    map (fun i => (i_res i, i_start i, i_end i)) l = [(0, 0, 2); (1, 3, 4); (2, 20, 22)] /\
    map (fun L => (hl_base L, hl_aw L, hl_ids L,
                   map (fun r => (Mux.r_start r, Mux.r_stop r, Mux.r_width r)) (Mux.c_regs (hl_cfg L))))
        (hw_leaves 5 h) = [(0, 2, [0; 1], [(0, 2, 12); (3, 4, 8)]); (20, 1, [2], [(0, 2, 12)])] /\
    (* the machine: root r_data and (id, r_stb, w_stb, w_data) of every register, cycle by cycle *)
    map (fun o : Z * list lobs => (fst o, map (fun lo => (lo_id lo, lo_rstb lo, lo_wstb lo, lo_wdata lo)) (snd o)))
        (csr_run h (cinit h) fx_tr) =
      [(0,    [(0, false, false, 0); (1, false, false, 0); (2, true,  false, 0)]);
       (0xBC, [(0, false, false, 0); (1, false, false, 0); (2, false, false, 0)]);
       (0xA,  [(0, false, false, 0); (1, false, false, 0); (2, false, false, 0)]);
       (0,    [(0, true,  false, 0); (1, false, false, 0); (2, false, false, 0x34)]);
       (0xEF, [(0, false, false, 0); (1, false, false, 0); (2, false, false, 0x34)]);
       (0,    [(0, false, false, 0); (1, false, false, 0); (2, false, true,  0x534)]);
       (0,    [(0, false, false, 0); (1, false, false, 0); (2, false, false, 0x534)])] /\
    (* the same from the multiplexers run alone on the routed traces (C06_tree_equals_flat_leaves, cycle 5) *)
    (dec_up (map (fun L => leaf_rdata L (firstn 5 fx_tr)) (hw_leaves 5 h)),
     map (fun lo => (lo_id lo, lo_rstb lo, lo_wstb lo, lo_wdata lo))
         (flat_map (fun L => leaf_obs L (firstn 5 fx_tr) [0; 0; 0] (fx_bus 9 true true 0xFF)) (hw_leaves 5 h))) =
      (0, [(0, false, false, 0); (1, false, false, 0); (2, false, true, 0x534)]) /\
    (* both sides of C06_tree_read_atomic (t0 = 0, t = 1, j = 1) and of C06_tree_write_atomic (t = 4) *)
    rdata_after h fx_tr 2 = 0xA /\ Mux.word 8 12 1 (trunc 12 (nth 2 [0; 0; 0xABC] 0)) = 0xA /\
    assemble 8 12 (fun j => if j =? 0 then 0x34 else 0x5) 2 = 0x534.
Proof.
  destruct (csr_map fx_tree) as [m|] eqn:Em; [|vm_compute in Em; discriminate].
  destruct (csr_hw fx_tree) as [h|] eqn:Eh; [|vm_compute in Eh; discriminate].
  destruct (all_resources m) as [l|] eqn:El;
    [|vm_compute in Em; injection Em as <-; vm_compute in El; discriminate].
  exists m, h, l. vm_compute in Em. injection Em as <-. vm_compute in Eh. injection Eh as <-.
  vm_compute in El. injection El as <-.
  split; [reflexivity|]. split; [reflexivity|]. split; [reflexivity|].
  vm_compute. repeat split; reflexivity.
Qed.

(* every premise of C06_tree_read_atomic and of C06_tree_write_atomic holds on this trace for register 2, two
   decoder levels down: the theorems are applied, not recomputed *)
Ltac fx_setup m h l Em Eh El Em' Eh' El' :=
  destruct (csr_map fx_tree) as [m|] eqn:Em; [|vm_compute in Em; discriminate];
  destruct (csr_hw fx_tree) as [h|] eqn:Eh; [|vm_compute in Eh; discriminate];
  destruct (all_resources m) as [l|] eqn:El;
    [|vm_compute in Em; injection Em as <-; vm_compute in El; discriminate];
  pose proof Em as Em'; pose proof Eh as Eh'; pose proof El as El';
  vm_compute in Em; injection Em as <-; vm_compute in Eh; injection Eh as <-;
  vm_compute in El; injection El as <-.

Ltac fx_pick_reg h L r :=
  let v := eval vm_compute in (hw_leaves 5 h) in
  match v with [_; ?LB] => pose (L := LB) end;
  let w := eval vm_compute in (Mux.c_regs (hl_cfg L)) in
  match w with [?r0] => pose (r := r0) end.

Example C06_tree_read_atomic_instance :
  exists m h l, csr_map fx_tree = Ok m /\ csr_hw fx_tree = Ok h /\ all_resources m = Ok l /\
    rdata_after h fx_tr 2 = Mux.word 8 12 1 (trunc 12 0xABC).
Proof.
  destruct C06_flat_nonvacuous_dom as (Hd & Hw & Hrange).
  fx_setup m h l Em Eh El Em' Eh' El'.
  eexists _, _, _. split; [exact Em'|]. split; [exact Eh'|]. split; [exact El'|].
  match type of El' with _ = Ok [_; _; ?i2] => pose (i := i2) end.
  match type of Eh' with _ = Ok ?hh => fx_pick_reg hh L r end.
  match type of El' with _ = Ok ?ll => assert (Hi : In i ll) by (right; right; left; reflexivity) end.
  match type of Eh' with _ = Ok ?hh => assert (Hreg : reg_at (csr_aw fx_tree) hh i L 0%nat r) end.
  { split; [vm_compute; right; left; reflexivity|]. split.
    - repeat split; try (vm_compute; reflexivity); vm_compute; intro; discriminate.
    - split; vm_compute; reflexivity. }
  refine (C06_tree_read_atomic fx_tree _ _ _ Hd Hw Em' Eh' El' i L 0%nat r fx_tr 0%nat 1%nat 1 _ _ _ _
            Hi Hreg eq_refl Hrange eq_refl eq_refl eq_refl (le_S _ _ (le_n _)) _ eq_refl eq_refl eq_refl _).
  - intros u bu rvu i' Hu Hn Hs Hi'. assert (u = 1)%nat by lia. subst u. cbn in Hn. injection Hn as <- <-.
    cbn [In] in Hi'. destruct Hi' as [<-|[<-|[<-|[]]]]; cbn; lia.
  - cbn. lia.
Qed.

Definition fx_tj (j : Z) : nat := if j =? 0 then 2%nat else 4%nat.
Definition fx_dj (j : Z) : Z := if j =? 0 then 0x34 else 0x5.

Example C06_tree_write_atomic_instance :
  exists m h l, csr_map fx_tree = Ok m /\ csr_hw fx_tree = Ok h /\ all_resources m = Ok l /\
    exists rd los lo, nth_error (csr_run h (cinit h) fx_tr) 5 = Some (rd, los) /\ In lo los /\
      lo_id lo = 2 /\ lo_wstb lo = true /\ lo_wdata lo = assemble 8 12 fx_dj 2 /\ assemble 8 12 fx_dj 2 = 0x534.
Proof.
  destruct C06_flat_nonvacuous_dom as (Hd & Hw & Hrange).
  fx_setup m h l Em Eh El Em' Eh' El'.
  eexists _, _, _. split; [exact Em'|]. split; [exact Eh'|]. split; [exact El'|].
  match type of El' with _ = Ok [_; _; ?i2] => pose (i := i2) end.
  match type of Eh' with _ = Ok ?hh => fx_pick_reg hh L r end.
  match type of El' with _ = Ok ?ll => assert (Hi : In i ll) by (right; right; left; reflexivity) end.
  match type of Eh' with _ = Ok ?hh => assert (Hreg : reg_at (csr_aw fx_tree) hh i L 0%nat r) end.
  { split; [vm_compute; right; left; reflexivity|]. split.
    - repeat split; try (vm_compute; reflexivity); vm_compute; intro; discriminate.
    - split; vm_compute; reflexivity. }
  destruct (C06_tree_write_atomic fx_tree _ _ _ Hd Hw Em' Eh' El' i L 0%nat r fx_tr 4%nat _ _ fx_tj fx_dj
              Hi Hreg eq_refl Hrange eq_refl eq_refl eq_refl) with (b' := fx_bus 9 true true 0xFF) (rv' := [0; 0; 0])
    as (rd & los & lo & H1 & H2 & H3 & H4 & H5).
  - intros j Hj _. cbn [i i_start i_end] in Hj. assert (Ej : j = 0 \/ j = 1) by lia.
    destruct Ej as [-> | ->]; (split; [cbn; lia|split]).
    + eexists _, _. split; [reflexivity|]. vm_compute. auto.
    + intros u bu rvu Hu Hn. cbn in Hu. assert (Eu : (u = 3 \/ u = 4)%nat) by lia.
      destruct Eu as [-> | ->]; cbn in Hn; injection Hn as <- <-; cbn; intros [? ?]; discriminate.
    + eexists _, _. split; [reflexivity|]. vm_compute. auto.
    + intros u bu rvu Hu. cbn in Hu. lia.
  - intros j u bu rvu i' Hj _ Hu Hn Hs Hi' Hin. cbn [i i_start i_end] in Hj |- *.
    assert (Ej : j = 0 \/ j = 1) by lia. destruct Ej as [-> | ->]; cbn in Hu; [|lia].
    assert (Eu : (u = 3 \/ u = 4)%nat) by lia.
    destruct Eu as [-> | ->]; cbn in Hn; injection Hn as <- <-; cbn in Hs |- *; [discriminate|lia].
  - reflexivity.
  - exists rd, los, lo. repeat split; auto.
Qed.

(* the same three registers on ONE multiplexer at the reported ranges, driven by the same trace: r_data and
   both strobes coincide with the tree's in every cycle of this (protocol-conforming) trace, and so does w_data
   wherever w_stb is up.  Where w_stb is low, w_data is NOT the same (last conjunct): on the flat multiplexer
   registers 0 and 2 share write-shadow chunks, so register 0's idle w_data shows the bytes written to register
   2, which the separate multiplexers of the tree never mix.  Port-for-port equality of idle w_data is therefore
   false; the theorems above claim w_data only together with w_stb. *)
Definition fx_flat_regs : list Mux.reg :=
  [ {| Mux.r_start := 0;  Mux.r_stop := 2;  Mux.r_width := 12; Mux.r_rd := true; Mux.r_wr := true |};
    {| Mux.r_start := 3;  Mux.r_stop := 4;  Mux.r_width := 8;  Mux.r_rd := true; Mux.r_wr := true |};
    {| Mux.r_start := 20; Mux.r_stop := 22; Mux.r_width := 12; Mux.r_rd := true; Mux.r_wr := true |} ].
Definition fx_strobed (ws : list bool) (ds : list Z) : list Z :=
  map (fun p : bool * Z => if fst p then snd p else 0) (combine ws ds).

Example C06_flat_mux_nonvacuous :
  exists cF h, Mux.mk_cfg 8 fx_flat_regs None = Some cF /\ csr_hw fx_tree = Ok h /\
    map (fun o => (Mux.o_rdata o, Mux.o_rstb o, Mux.o_wstb o, fx_strobed (Mux.o_wstb o) (Mux.o_wdata o)))
        (Mux.run cF (Mux.init cF) (flat_is [0; 1; 2] fx_tr)) =
    map (fun o : Z * list lobs => (fst o, map lo_rstb (snd o), map lo_wstb (snd o),
                                   fx_strobed (map lo_wstb (snd o)) (map lo_wdata (snd o))))
        (csr_run h (cinit h) fx_tr) /\
    map Mux.o_wdata (Mux.run cF (Mux.init cF) (flat_is [0; 1; 2] fx_tr)) =
      [[0; 0; 0]; [0; 0; 0]; [0; 0; 0]; [0x34; 0; 0x34]; [0x34; 0; 0x34]; [0x534; 5; 0x534]; [0x534; 5; 0x534]] /\
    map (fun o : Z * list lobs => map lo_wdata (snd o)) (csr_run h (cinit h) fx_tr) =
      [[0; 0; 0]; [0; 0; 0]; [0; 0; 0]; [0; 0; 0x34]; [0; 0; 0x34]; [0; 0; 0x534]; [0; 0; 0x534]].
Proof.
  destruct (Mux.mk_cfg 8 fx_flat_regs None) as [cF|] eqn:Ec; [|vm_compute in Ec; discriminate].
  destruct (csr_hw fx_tree) as [h|] eqn:Eh; [|vm_compute in Eh; discriminate].
  exists cF, h. split; [reflexivity|]. split; [reflexivity|].
  vm_compute in Ec. injection Ec as <-. vm_compute in Eh. injection Eh as <-. vm_compute. repeat split; reflexivity.
Qed.
