(* C06 — CSR decoder routes each access to exactly one subordinate, transparently.
   Statements only; definitions of the vocabulary (in_span, wf_sub, span_disj, route, leaves, in_leaf,
   leaf_ok, wf_tree) and all proofs live in Proofs/CsrDecoder.v and Lib/CsrPattern.v.

   Reading guide.  A decoder with `aw` address bits is given its windows `ws` (subordinate address
   width, start, stop) in ascending address order.  `dec_down aw ws i` is what every subordinate port
   sees in the cycle in which the decoder's own bus carries `i`; `dec_up rs` is the decoder's r_data
   when the subordinates return `rs`.  Trees: `tree_down t i` lists what every LEAF port sees
   (depth-first = ascending address order), `tree_up rd t` is the root's r_data when leaf `id` returns
   `rd id`.  The hypotheses `wf_sub`/`span_disj` (start a multiple of 2^aw_w, span inside [0, 2^aw),
   spans pairwise disjoint) are what the memory map establishes for the windows it accepts (C02);
   explicit addresses that are not multiples of the window size are outside the property (note N2).

   Not proved here (other component): tree_equals_flat, the composition with csr.Multiplexer leaves. *)
From Coq Require Import ZArith List Bool Lia.
From Soc Require Import Lib.Bits Lib.CsrPattern Model.CsrDecoder Proofs.CsrDecoder.
Import ListNotations.
Open Scope Z_scope.

(* ---- patterns ---- *)

(* The bit-by-bit match of Case(pattern) is the arithmetic comparison of address / window size. *)
Theorem C06_pattern_arith : forall aw aw_w start a,
  0 <= aw_w <= aw -> 0 <= start < 2 ^ aw -> 0 <= a < 2 ^ aw ->
  pmatch (window_pattern aw aw_w start) a = (a / 2 ^ aw_w =? start / 2 ^ aw_w).
Proof. exact pattern_matches_div. Qed.
Print Assumptions C06_pattern_arith.

Theorem C06_pattern_matches_iff : forall aw aw_w start a,
  0 <= aw_w <= aw -> 0 <= start < 2 ^ aw -> 0 <= a < 2 ^ aw ->
  (pmatch (window_pattern aw aw_w start) a = true <->
   start / 2 ^ aw_w * 2 ^ aw_w <= a < start / 2 ^ aw_w * 2 ^ aw_w + 2 ^ aw_w).
Proof. exact pattern_matches_iff. Qed.
Print Assumptions C06_pattern_matches_iff.

Theorem C06_pattern_matches_aligned : forall aw aw_w start a,
  0 <= aw_w <= aw -> 0 <= start < 2 ^ aw -> start mod 2 ^ aw_w = 0 -> 0 <= a < 2 ^ aw ->
  (pmatch (window_pattern aw aw_w start) a = true <-> start <= a < start + 2 ^ aw_w).
Proof. exact pattern_matches_aligned. Qed.
Print Assumptions C06_pattern_matches_aligned.

(* Python's format() never prints extra digits for a window inside the address space: the pattern has
   the width of the decoder's address, so Amaranth accepts every Case (no refusal at elaboration). *)
Theorem C06_pattern_width : forall aw aw_w start,
  0 <= aw_w <= aw -> 0 <= start < 2 ^ aw -> Z.of_nat (length (window_pattern aw aw_w start)) = aw.
Proof. exact window_pattern_length. Qed.
Print Assumptions C06_pattern_width.

Theorem C06_wf_tree_elaborates : forall t, wf_tree t -> tree_elab_ok t = true.
Proof. exact (proj1 tree_elab_ok_mut). Qed.
Print Assumptions C06_wf_tree_elaborates.

(* ---- Decoder.add(): its own refusals ---- *)

Theorem C06_add_checks : forall dec_dw is_iface sub_dw,
  (add_check dec_dw is_iface sub_dw = Err TypeError <-> is_iface = false) /\
  (add_check dec_dw is_iface sub_dw = Err ValueError <-> is_iface = true /\ sub_dw <> dec_dw) /\
  (add_check dec_dw is_iface sub_dw = Ok <-> is_iface = true /\ sub_dw = dec_dw).
Proof.
  intros dw b s. unfold add_check. destruct b; simpl; destruct (Z.eqb_spec s dw); simpl;
    repeat split; intros; try discriminate; try tauto; destruct H; congruence.
Qed.
Print Assumptions C06_add_checks.

(* ---- one decoder ---- *)

(* Every subordinate gets w_data and the truncated address unconditionally.  The subordinate whose span
   contains the address gets both strobes unchanged, in the same cycle, and the address a - start (that
   is what the truncation yields); every other subordinate gets no strobe; no two spans contain the
   address, hence at most one subordinate is strobed, and none when the address is unassigned. *)
Theorem C06_route_exactly_one : forall aw ws i,
  Forall (wf_sub aw) ws -> ForallOrdPairs span_disj ws -> 0 <= addr i < 2 ^ aw ->
  length (dec_down aw ws i) = length ws /\
  (forall k w, nth_error ws k = Some w ->
     exists o, nth_error (dec_down aw ws i) k = Some o /\
       w_data o = w_data i /\ addr o = trunc (s_aw w) (addr i) /\
       (in_span w (addr i) -> r_stb o = r_stb i /\ w_stb o = w_stb i /\ addr o = addr i - s_start w) /\
       (~ in_span w (addr i) -> r_stb o = false /\ w_stb o = false)) /\
  (forall k1 k2 w1 w2, nth_error ws k1 = Some w1 -> nth_error ws k2 = Some w2 ->
     in_span w1 (addr i) -> in_span w2 (addr i) -> k1 = k2).
Proof. exact route_exactly_one. Qed.
Print Assumptions C06_route_exactly_one.

(* The same as one equation: first-match-wins over the Switch equals "each window decides alone". *)
Theorem C06_route_equation : forall aw ws i,
  Forall (wf_sub aw) ws -> ForallOrdPairs span_disj ws -> 0 <= addr i < 2 ^ aw ->
  dec_down aw ws i = map (fun w => route w i) ws.
Proof. exact dec_down_spec. Qed.
Print Assumptions C06_route_equation.

(* Hypotheses in the form the allocator delivers them: ranges (start, stop) pairwise disjoint, inside
   the address space, each containing its subordinate's span (the rest of a range is alignment padding
   and counts as unassigned). *)
Theorem C06_route_exactly_one_ranges : forall aw ws i,
  Forall (wf_range aw) ws -> ForallOrdPairs range_disj ws -> 0 <= addr i < 2 ^ aw ->
  dec_down aw ws i = map (fun w => route w i) ws /\
  (forall k1 k2 w1 w2, nth_error ws k1 = Some w1 -> nth_error ws k2 = Some w2 ->
     in_span w1 (addr i) -> in_span w2 (addr i) -> k1 = k2).
Proof.
  intros aw ws i Hw Hd Ha. destruct (ranges_give_spans aw ws Hw Hd) as (Hs & Hds).
  split; [apply dec_down_spec; assumption | apply span_unique; assumption].
Qed.
Print Assumptions C06_route_exactly_one_ranges.

(* If every subordinate that is not addressed returns 0, upstream r_data is the addressed one's; 0 when
   the address is unassigned. *)
Theorem C06_read_mux : forall ws a rs,
  ForallOrdPairs span_disj ws -> length rs = length ws ->
  (forall k w r, nth_error ws k = Some w -> nth_error rs k = Some r -> ~ in_span w a -> r = 0) ->
  (forall k w r, nth_error ws k = Some w -> nth_error rs k = Some r -> in_span w a -> dec_up rs = r) /\
  ((forall w, In w ws -> ~ in_span w a) -> dec_up rs = 0).
Proof. exact read_mux. Qed.
Print Assumptions C06_read_mux.

(* ---- decoders below decoders, any depth ---- *)

(* A single decoder is the tree of depth one (the engine runs the tree model only). *)
Theorem C06_decoder_is_depth1_tree : forall aw ws i,
  tree_down (Node aw (flat_forest ws 0)) i = dec_down aw ws i.
Proof. exact flat_tree_down. Qed.
Print Assumptions C06_decoder_is_depth1_tree.

(* The offset of a leaf is the sum of the window starts on its path: two levels, spelled out. *)
Theorem C06_two_level_offset : forall aw so eo aw' si ei law id,
  leaves (Node aw (FCons so eo (Node aw' (FCons si ei (Leaf law id) FNil)) FNil)) =
  [{| l_off := so + (si + 0); l_aw := law; l_id := id |}].
Proof. reflexivity. Qed.
Print Assumptions C06_two_level_offset.

(* route_exactly_one composed with itself along every path of a tree of decoders: leaf k sees w_data
   unchanged; the leaf whose composed span [off, off + 2^aw_leaf) contains the root address sees both
   strobes unchanged and the address a - off = a - start_outer - ... - start_inner; all other leaves see
   no strobe; composed spans are pairwise disjoint, so at most one leaf is strobed. *)
Theorem C06_tree_route : forall t i, wf_tree t -> 0 <= addr i < 2 ^ tree_aw t ->
  length (tree_down t i) = length (leaves t) /\
  (forall k l, nth_error (leaves t) k = Some l ->
     exists o, nth_error (tree_down t i) k = Some o /\
       w_data o = w_data i /\
       (in_leaf l (addr i) -> r_stb o = r_stb i /\ w_stb o = w_stb i /\ addr o = addr i - l_off l) /\
       (~ in_leaf l (addr i) -> r_stb o = false /\ w_stb o = false)) /\
  (forall k1 k2 l1 l2, nth_error (leaves t) k1 = Some l1 -> nth_error (leaves t) k2 = Some l2 ->
     in_leaf l1 (addr i) -> in_leaf l2 (addr i) -> k1 = k2).
Proof. exact tree_route_full. Qed.
Print Assumptions C06_tree_route.

(* read_mux for the whole tree *)
Theorem C06_tree_read_mux : forall rd t a, wf_tree t ->
  (forall l, In l (leaves t) -> ~ in_leaf l a -> rd (l_id l) = 0) ->
  (forall l, In l (leaves t) -> in_leaf l a -> tree_up rd t = rd (l_id l)) /\
  ((forall l, In l (leaves t) -> ~ in_leaf l a) -> tree_up rd t = 0).
Proof. exact tree_read_mux. Qed.
Print Assumptions C06_tree_read_mux.

(* without any premise: the root reads the OR of all leaves *)
Theorem C06_tree_r_data_is_or_of_leaves : forall rd t,
  tree_up rd t = dec_up (map (fun l => rd (l_id l)) (leaves t)).
Proof. exact tree_up_flat. Qed.
Print Assumptions C06_tree_r_data_is_or_of_leaves.

(* ---- non-vacuity: a 5-bit decoder (alignment 1) over a 2-bit leaf at 0, a 3-bit inner decoder at
   [8,16) with a 1-bit leaf at 2 and a 2-bit leaf at 4, and a 1-bit leaf at [24,26) ---- *)
Definition ex_inner : tree := Node 3 (FCons 2 4 (Leaf 1 1) (FCons 4 8 (Leaf 2 2) FNil)).
Definition ex_tree : tree := Node 5 (FCons 0 4 (Leaf 2 0) (FCons 8 16 ex_inner (FCons 24 26 (Leaf 1 3) FNil))).
Definition ex_rd (id : nat) : Z := match id with 2%nat => 90 | _ => 0 end.

Example C06_nonvacuous_wf : wf_tree ex_tree.
Proof.
  unfold ex_tree, ex_inner. cbn [wf_tree wf_forest subs_of]. unfold wf_sub, win_of. cbn [s_aw s_start s_stop tree_aw].
  repeat split; try lia; try reflexivity;
    repeat (constructor; try (unfold span_disj; cbn [s_aw s_start]; lia)).
Qed.

Example C06_nonvacuous :
  let i := {| addr := 13; r_stb := true; w_stb := false; w_data := 7 |} in
  map l_off (leaves ex_tree) = [0; 10; 12; 24] /\
  tree_elab_ok ex_tree = true /\
  sub_pattern 5 (win_of 8 16 ex_inner) = [Some false; Some true; None; None; None] /\
  tree_down ex_tree i =
    [ {| addr := 1; r_stb := false; w_stb := false; w_data := 7 |};
      {| addr := 1; r_stb := false; w_stb := false; w_data := 7 |};
      {| addr := 1; r_stb := true;  w_stb := false; w_data := 7 |};
      {| addr := 1; r_stb := false; w_stb := false; w_data := 7 |} ] /\
  tree_up ex_rd ex_tree = 90 /\
  (* an unassigned address: nobody is strobed *)
  map r_stb (tree_down ex_tree {| addr := 20; r_stb := true; w_stb := true; w_data := 0 |}) =
    [false; false; false; false] /\
  add_check 8 true 16 = Err ValueError.
Proof. vm_compute. repeat split; reflexivity. Qed.
