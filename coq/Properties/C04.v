(* C04 — CSR multiplexer reads are atomic snapshots and side-effect exact.
   Statements only; proofs in Proofs/MuxBasic.v, Proofs/MuxRead.v. *)
From Coq Require Import ZArith List Bool Lia.
From Soc Require Import Lib.Bits Model.Mux Model.MuxSpec Proofs.MuxBasic Proofs.MuxRead.
Import ListNotations.
Open Scope Z_scope.

(* A register sees its read strobe in exactly those cycles in which its first chunk is being read:
   every layout, every state, every input (conforming or not). *)
Theorem C04_r_strobe_exact : forall c s i k r, nth_error (c_regs c) k = Some r ->
  nth_error (o_rstb (out c s i)) k = Some (r_rd r && i_rstb i && (i_addr i =? r_start r)).
Proof. exact r_strobe_exact. Qed.
Print Assumptions C04_r_strobe_exact.

(* bus.r_data is zero out of reset. *)
Theorem C04_r_data_zero_at_reset : forall c, bus_rdata c (init c) = 0.
Proof. exact bus_rdata_init. Qed.
Print Assumptions C04_r_data_zero_at_reset.

(* bus.r_data is zero in every cycle that does not follow a read strobe inside a readable register:
   every well-formed configuration, EVERY input history (conforming or not). *)
Theorem C04_r_data_zero_when_idle : forall c is i, wf_cfg c ->
  (i_rstb i = false \/
   forall r, In r (c_regs c) -> r_rd r = true -> ~ (r_start r <= i_addr i < r_stop r)) ->
  bus_rdata c (next c (state_after c (init c) is) i) = 0.
Proof. exact r_data_zero_when_idle. Qed.
Print Assumptions C04_r_data_zero_when_idle.

(* Atomic snapshot.  If the first chunk of readable register number k was read at cycle t0 and no first
   chunk of any readable register has been read since, then a read of chunk j of that register at cycle
   t >= t0 returns, one cycle later, word j of the value the register presented AT t0 - whatever the
   register presents afterwards and whatever else happens in between (writes, idle cycles, reads of
   other chunks of any register, unmapped accesses).  The right-hand side mentions neither the shadow
   size nor the chunk sharing. *)
Theorem C04_read_atomic : forall c is t0 t k r j i0 it, wf_cfg c ->
  nth_error (c_regs c) k = Some r -> r_rd r = true ->
  nth_error is t0 = Some i0 -> i_rstb i0 = true -> i_addr i0 = r_start r ->
  (t0 <= t)%nat ->
  (forall u, (t0 < u <= t)%nat -> ~ any_first_read c is u) ->
  nth_error is t = Some it -> i_rstb it = true -> i_addr it = r_start r + j -> 0 <= j < reg_len r ->
  rdata_at c is (S t) = word (c_dw c) (r_width r) j (rval_at is t0 k (r_width r)).
Proof. exact read_atomic. Qed.
Print Assumptions C04_read_atomic.

(* Zero when idle, by trace position: bus.r_data is zero in cycle 0 and in every cycle whose predecessor
   is not a read strobe inside a readable register - ALL input sequences. *)
Theorem C04_r_data_zero_trace : forall c is t, wf_cfg c -> (t <= length is)%nat ->
  (forall t' i, t = S t' -> nth_error is t' = Some i ->
     i_rstb i = false \/
     forall r, In r (c_regs c) -> r_rd r = true -> ~ (r_start r <= i_addr i < r_stop r)) ->
  rdata_at c is t = 0.
Proof. exact r_data_zero_trace. Qed.
Print Assumptions C04_r_data_zero_trace.

(* The shadow size, hence the sharing limit (shadow_overlaps) it was computed from, is unobservable on
   the read path: two admissible configurations of the same layout return the same data under the
   premises of C04_read_atomic. *)
Theorem C04_read_size_independent : forall c1 c2 is t0 t k r j i0 it, wf_cfg c1 -> wf_cfg c2 ->
  c_dw c1 = c_dw c2 -> c_regs c1 = c_regs c2 ->
  nth_error (c_regs c1) k = Some r -> r_rd r = true ->
  nth_error is t0 = Some i0 -> i_rstb i0 = true -> i_addr i0 = r_start r ->
  (t0 <= t)%nat ->
  (forall u, (t0 < u <= t)%nat -> ~ any_first_read c1 is u) ->
  nth_error is t = Some it -> i_rstb it = true -> i_addr it = r_start r + j -> 0 <= j < reg_len r ->
  rdata_at c1 is (S t) = rdata_at c2 is (S t).
Proof. exact read_size_independent. Qed.
Print Assumptions C04_read_size_independent.

(* ---- non-vacuity: an unaligned layout whose registers share read chunks, and a 3-chunk read of
   register 2 (= [5,8), 20 bits) during which every register changes its value, another register's
   non-first chunk is read, a write and an unmapped read occur. *)
Definition ex_regs : list reg :=
  [ {| r_start := 2; r_stop := 3; r_width := 8;  r_rd := true; r_wr := true |};
    {| r_start := 3; r_stop := 5; r_width := 12; r_rd := true; r_wr := true |};
    {| r_start := 5; r_stop := 8; r_width := 20; r_rd := true; r_wr := false |} ].
Definition ex_c : cfg := {| c_dw := 8; c_regs := ex_regs; c_Sr := 4; c_Sw := 2 |}.
Definition ex_c8 : cfg := {| c_dw := 8; c_regs := ex_regs; c_Sr := 8; c_Sw := 2 |}.
Definition ex_rd (a : Z) (vs : list Z) : inp :=
  {| i_addr := a; i_rstb := true; i_wstb := false; i_wdata := 0; i_rvals := vs |}.
Definition ex_is : list inp :=
  [ ex_rd 5 [0x11; 0x222; 0xABCDE];      (* t0 = 0: first chunk of register 2 *)
    ex_rd 4 [0x33; 0x444; 0x12345];      (* second chunk of register 1, which shares read chunk 2 *)
    ex_rd 6 [0x55; 0x666; 0x6789A];      (* second chunk of register 2 *)
    {| i_addr := 2; i_rstb := false; i_wstb := true; i_wdata := 0xFF; i_rvals := [0; 0; 0] |};
    ex_rd 7 [1; 2; 3];                   (* third chunk of register 2 *)
    ex_rd 9 [1; 2; 3] ].                 (* unmapped *)

Example C04_nonvacuous :
  mk_cfg 8 ex_regs None = Some ex_c /\
  (* the three registers occupy 6 addresses but only 3 read chunks: chunk 2 is shared by all three *)
  map (fun r => map (decode (c_Sr ex_c) r) (addrs r)) ex_regs = [[2]; [3; 2]; [1; 2; 3]] /\
  table (c_Sr ex_c) (rregs ex_c) = [2; 3; 1] /\
  (* bus.r_data in cycles 0..6: words 0xDE, 0xBC, 0xA of the value 0xABCDE presented at cycle 0 *)
  map (rdata_at ex_c ex_is) [0; 1; 2; 3; 4; 5; 6]%nat = [0; 0xDE; 0xBC; 0xBC; 0; 0xA; 0] /\
  map (fun j => word 8 20 j (rval_at ex_is 0 2 20)) [0; 1; 2] = [0xDE; 0xBC; 0xA] /\
  (* with sharing limit 1 the read shadow has 8 entries; the protocol-conforming reads agree, and only
     the non-conforming read at cycle 1 (a second chunk whose first chunk was never read) tells them apart *)
  mk_cfg 8 ex_regs (Some 1) = Some ex_c8 /\
  map (rdata_at ex_c8 ex_is) [0; 1; 2; 3; 4; 5; 6]%nat = [0; 0xDE; 0; 0xBC; 0; 0xA; 0].
Proof. vm_compute. repeat split; reflexivity. Qed.

Example C04_ex_wf : wf_cfg ex_c.
Proof.
  split; [reflexivity|]. split; [cbn; lia|].
  split; [exists 2|exists 1]; (split; [reflexivity|]); (split; [lia|]);
    cbn [rregs wregs ex_c c_regs ex_regs filter r_rd r_wr In]; intros r H;
    repeat (destruct H as [<-|H]; [vm_compute; discriminate|]); contradiction.
Qed.

(* every premise of C04_read_atomic holds for the last chunk (j = 2, read at cycle 4) of this trace *)
Example C04_read_atomic_instance : rdata_at ex_c ex_is 5 = 0xA.
Proof.
  rewrite (C04_read_atomic ex_c ex_is 0 4 2
             {| r_start := 5; r_stop := 8; r_width := 20; r_rd := true; r_wr := false |} 2
             (ex_rd 5 [0x11; 0x222; 0xABCDE]) (ex_rd 7 [1; 2; 3]) C04_ex_wf);
    try reflexivity; try lia; try (cbv [reg_len r_start r_stop]; lia).
  intros u Hu (i & r & Hn & Hin & Hrd & Hs & Ha).
  assert (Hc : (u = 1 \/ u = 2 \/ u = 3 \/ u = 4)%nat) by lia.
  destruct Hc as [-> | [-> | [-> | ->]]]; cbn in Hn; injection Hn as <-; cbn in Hs, Ha; try discriminate;
    repeat (destruct Hin as [<-|Hin]; [cbn in Ha; discriminate|]); contradiction.
Qed.
