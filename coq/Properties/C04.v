(* C04 — CSR multiplexer reads are atomic snapshots and side-effect exact.
   Statements only; proofs in Proofs/MuxBasic.v, Proofs/MuxRead.v. *)
From Coq Require Import ZArith List Bool Lia.
From Soc Require Import Lib.Bits Model.Mux Proofs.MuxBasic.
Import ListNotations.
Open Scope Z_scope.

(* A register sees its read strobe in exactly those cycles in which its first chunk is being read:
   every layout, every state, every input (conforming or not). *)
Theorem C04_r_strobe_exact : forall c s i k r, nth_error (c_regs c) k = Some r ->
  nth_error (o_rstb (out c s i)) k = Some (r_rd r && i_rstb i && (i_addr i =? r_start r)).
Proof. exact r_strobe_exact. Qed.
Print Assumptions C04_r_strobe_exact.
