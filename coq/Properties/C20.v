(* C20 — ports have the direction their role implies; signatures round-trip.
   Statements only; proofs live in Proofs/Wiring.v.  There is no trace here: every theorem
   quantifies over all parameter tuples (all widths as Z, all 64 feature subsets as six booleans,
   all access and trigger modes).  What ties the model to /repo is engine `wiring`. *)
From Coq Require Import ZArith List Bool Lia.
From Soc Require Import Lib.Bits Model.Wiring Proofs.Wiring.
Import ListNotations.
Open Scope Z_scope.

(* ---- == between signatures ------------------------------------------------------------------ *)

(* The coded __eq__ of the six signature classes holds exactly when both operands are of the same
   class and every defining parameter (widths / cast shape, access mode, granularity, feature set,
   trigger mode) is equal. *)
Theorem C20_sig_eqb_iff_params_equal : forall a b : sig, sig_eqb a b = true <-> a = b.
Proof. exact sig_eqb_iff_params_equal. Qed.
Print Assumptions C20_sig_eqb_iff_params_equal.

(* == is symmetric (Python calls a.__eq__(b); b.__eq__(a) gives the same answer). *)
Theorem C20_sig_eqb_symmetric : forall a b : sig, sig_eqb a b = sig_eqb b a.
Proof. exact sig_eqb_sym. Qed.
Print Assumptions C20_sig_eqb_symmetric.

(* Observation recorded with the property (not required by it): against a flipped operand the coded
   comparisons do not look at the flip, so a signature compares equal to its own flip(). *)
Theorem C20_eq_ignores_flip : forall a b : sigv,
  sigv_eqb a (flip b) = sigv_eqb a b /\ sigv_eqb (flip a) b = sigv_eqb a b /\
  sigv_eqb (flip a) (flip b) = sigv_eqb a b.
Proof. exact sigv_eqb_ignores_flip. Qed.
Print Assumptions C20_eq_ignores_flip.

(* ---- create() ------------------------------------------------------------------------------- *)

(* For every argument tuple a constructor accepts, create() succeeds and the created interface's
   signature equals the original (both ways round) and has the same members. *)
Theorem C20_create_roundtrip : forall (args : sigargs) (s : sig),
  construct args = Ok s ->
  exists s', create s = Ok s' /\ sig_eqb s s' = true /\ sig_eqb s' s = true /\ members s' = members s.
Proof. exact create_roundtrip. Qed.
Print Assumptions C20_create_roundtrip.

(* ---- members follow the parameters ---------------------------------------------------------- *)

(* No member name occurs twice, for every signature of every class. *)
Theorem C20_member_names_unique : forall s : sig, NoDup (map m_path (members s)).
Proof. exact member_names_unique. Qed.
Print Assumptions C20_member_names_unique.

(* csr.Signature: exactly addr / r_data / r_stb / w_data / w_stb, with the two widths. *)
Theorem C20_csr_members : forall (p : csr_params) (n : mname),
  lookup n (members (SCsr p)) =
  match n with
  | Naddr => Some (mem Naddr FOut (c_addr_width p))
  | Nr_data => Some (mem Nr_data FIn (c_data_width p))
  | Nr_stb => Some (mem Nr_stb FOut 1)
  | Nw_data => Some (mem Nw_data FOut (c_data_width p))
  | Nw_stb => Some (mem Nw_stb FOut 1)
  | _ => None
  end.
Proof. exact csr_members. Qed.
Print Assumptions C20_csr_members.

(* csr.Element.Signature: the read pair exists iff the access mode is readable, the write pair iff
   writable; data members have the register width. *)
Theorem C20_element_members : forall (p : elem_params) (n : mname),
  lookup n (members (SElem p)) =
  match n with
  | Nr_data => if readable (e_access p) then Some (mem Nr_data FIn (e_width p)) else None
  | Nr_stb => if readable (e_access p) then Some (mem Nr_stb FOut 1) else None
  | Nw_data => if writable (e_access p) then Some (mem Nw_data FOut (e_width p)) else None
  | Nw_stb => if writable (e_access p) then Some (mem Nw_stb FOut 1) else None
  | _ => None
  end.
Proof. exact elem_members. Qed.
Print Assumptions C20_element_members.

(* csr.FieldPort.Signature: all four members whatever the access mode; data members carry the
   cast shape (width and signedness). *)
Theorem C20_fieldport_members : forall (p : field_params) (n : mname),
  lookup n (members (SField p)) =
  match n with
  | Nr_data => Some (mem_s Nr_data FIn (fp_width p) (fp_signed p))
  | Nr_stb => Some (mem Nr_stb FOut 1)
  | Nw_data => Some (mem_s Nw_data FOut (fp_width p) (fp_signed p))
  | Nw_stb => Some (mem Nw_stb FOut 1)
  | _ => None
  end.
Proof. exact field_members. Qed.
Print Assumptions C20_fieldport_members.

(* wishbone.Signature: eight mandatory members; each optional member exists iff its feature is in
   the set (all 64 subsets); sel has data_width / granularity bits, cti 3 and bte 2. *)
Theorem C20_wishbone_members : forall (p : wb_params) (n : mname),
  lookup n (members (SWb p)) =
  let f := w_features p in
  match n with
  | Nadr => Some (mem Nadr FOut (w_addr_width p))
  | Ndat_w => Some (mem Ndat_w FOut (w_data_width p))
  | Ndat_r => Some (mem Ndat_r FIn (w_data_width p))
  | Nsel => Some (mem Nsel FOut (w_data_width p / w_granularity p))
  | Ncyc => Some (mem Ncyc FOut 1)
  | Nstb => Some (mem Nstb FOut 1)
  | Nwe => Some (mem Nwe FOut 1)
  | Nack => Some (mem Nack FIn 1)
  | Nerr => if ft_err f then Some (mem Nerr FIn 1) else None
  | Nrty => if ft_rty f then Some (mem Nrty FIn 1) else None
  | Nstall => if ft_stall f then Some (mem Nstall FIn 1) else None
  | Nlock => if ft_lock f then Some (mem Nlock FOut 1) else None
  | Ncti => if ft_cti f then Some (mem Ncti FOut 3) else None
  | Nbte => if ft_bte f then Some (mem Nbte FOut 2) else None
  | _ => None
  end.
Proof. exact wb_members. Qed.
Print Assumptions C20_wishbone_members.

Theorem C20_wishbone_member_count : forall p : wb_params,
  length (members (SWb p)) = (8 + feature_count (w_features p))%nat.
Proof. exact wb_member_count. Qed.
Print Assumptions C20_wishbone_member_count.

(* Guard for the division above: an accepted wishbone signature has a positive granularity that
   divides the data width, so sel is a positive, exact number of granules (not a totalised x / 0). *)
Theorem C20_wishbone_sel_width : forall aw dw g f bd s,
  construct (AWb aw dw g f bd) = Ok s ->
  exists p, s = SWb p /\ 0 < w_granularity p /\ 1 <= w_data_width p / w_granularity p /\
            w_data_width p = (w_data_width p / w_granularity p) * w_granularity p.
Proof. exact wb_sel_width. Qed.
Print Assumptions C20_wishbone_sel_width.

(* The attributes of an accepted wishbone signature are the arguments, with granularity=None
   normalised to the data width (so Signature(dw) == Signature(dw, granularity=dw)). *)
Theorem C20_wishbone_accepts : forall aw dw g f bd s,
  construct (AWb aw dw g f bd) = Ok s ->
  let g' := match g with Some x => x | None => dw end in
  0 <= aw /\ wb_width_ok dw = true /\ wb_width_ok g' = true /\ g' <= dw /\ bd = false /\
  s = SWb {| w_addr_width := aw; w_data_width := dw; w_granularity := g'; w_features := f |}.
Proof. exact construct_wb_accepts. Qed.
Print Assumptions C20_wishbone_accepts.

Theorem C20_source_members : forall (t : trigger) (n : mname),
  lookup n (members (SSrc t)) =
  match n with Ni => Some (mem Ni FOut 1) | Ntrg => Some (mem Ntrg FIn 1) | _ => None end.
Proof. exact src_members. Qed.
Print Assumptions C20_source_members.

Theorem C20_pin_members : forall n : mname,
  lookup n (members SPin) =
  match n with Ni => Some (mem Ni FIn 1) | No => Some (mem No FOut 1) | Noe => Some (mem Noe FOut 1) | _ => None end.
Proof. exact pin_members. Qed.
Print Assumptions C20_pin_members.

(* ---- ports ---------------------------------------------------------------------------------- *)

(* `connectable` (every member meets a member of the same path and shape and the opposite flow)
   implies that none of connect()'s checks fires. *)
Theorem C20_connectable_connects : forall a b : list member,
  connectable a b -> connect_check a b = ConnOk.
Proof. exact connectable_connects. Qed.
Print Assumptions C20_connectable_connects.

(* For every component class and every parameter combination its constructor accepts, every
   modelled port (k = 0 the bus; k = 1 EventMonitor.src / a GPIO pin) has the flow its role implies
   (Out only for the arbiter's bus, src and the pins), is declared with an unflipped standard
   signature s, and is connectable with the complementary standard interface of the same
   parameters: an initiator-side interface `members s` for a target port, a target-side (flipped)
   one for an initiator port. *)
Theorem C20_target_ports_connect : forall (c : comp) (ps : list port) (k : nat) (p : port),
  ports c = Ok ps -> nth_error ps k = Some p ->
  p_flow p = role c k /\ fst (p_sig p) = false /\
  match p_flow p with
  | FIn => connectable (members (snd (p_sig p))) (as_seen_outside p) /\
           connect_check (members (snd (p_sig p))) (as_seen_outside p) = ConnOk
  | FOut => connectable (as_seen_outside p) (flip_members (members (snd (p_sig p)))) /\
            connect_check (as_seen_outside p) (flip_members (members (snd (p_sig p)))) = ConnOk
  end.
Proof.
  intros c ps k p H Hk. destruct (ports_well_declared c ps k p H Hk) as [Hw Hr].
  pose proof (well_declared_connects p Hw) as Hc. destruct Hw as [Hu Hw].
  destruct (p_flow p); auto.
Qed.
Print Assumptions C20_target_ports_connect.

(* Which signature each bus port carries, from the constructor arguments (the derived widths of the
   event monitor, the Wishbone-CSR bridge and the SRAM included). *)
Theorem C20_port_signatures :
  (forall aw dw p, mux_bus aw dw = Ok p ->
     p = IN (base (SCsr {| c_addr_width := aw; c_data_width := dw |}))) /\
  (forall aw dw p, csrdec_bus aw dw = Ok p ->
     p = IN (base (SCsr {| c_addr_width := aw; c_data_width := dw |}))) /\
  (forall aw dw p, bridge_bus aw dw = Ok p ->
     p = IN (base (SCsr {| c_addr_width := aw; c_data_width := dw |}))) /\
  (forall n dw al t ps, evmon_ports n dw al t = Ok ps ->
     exists t', t = Some t' /\
     ps = [ IN (flip (signature_of_port
                        (IN (base (SCsr {| c_addr_width := evmon_addr_width n dw al; c_data_width := dw |})))));
            OUT (signature_of_port (OUT (base (SSrc t')))) ]) /\
  (forall pins aw dw ps, gpio_ports pins aw dw = Ok ps ->
     ps = [ IN (base (SCsr {| c_addr_width := aw; c_data_width := dw |})); OUT (base SPin) ]) /\
  (forall caw cdw dw p, wbcsr_bus caw cdw dw = Ok p ->
     let d := match dw with Some d => d | None => cdw end in
     is_pow2 (d / cdw) = true /\ Z.log2 (d / cdw) <= caw /\
     p = IN (base (SWb {| w_addr_width := Z.max 0 (caw - Z.log2 (d / cdw)); w_data_width := d;
                          w_granularity := cdw; w_features := no_features |}))) /\
  (forall size dw g p, sram_bus size dw g = Ok p ->
     let g' := match g with Some x => x | None => dw end in
     is_pow2 size = true /\ 0 < Z.log2 size /\ dw <= size * g' /\
     p = IN (base (SWb {| w_addr_width := Z.log2 (size * g' / dw); w_data_width := dw;
                          w_granularity := g'; w_features := no_features |}))) /\
  (forall aw dw g f bd p, wbdec_bus aw dw g f bd = Ok p ->
     p = IN (base (SWb {| w_addr_width := aw; w_data_width := dw;
                          w_granularity := match g with Some x => x | None => dw end; w_features := f |}))) /\
  (forall aw dw g f bd p, arb_bus aw dw g f bd = Ok p ->
     p = OUT (base (SWb {| w_addr_width := aw; w_data_width := dw;
                           w_granularity := match g with Some x => x | None => dw end; w_features := f |}))).
Proof.
  repeat split.
  - exact mux_bus_ok. - exact csrdec_bus_ok. - exact bridge_bus_ok. - exact evmon_ports_ok.
  - exact gpio_ports_ok.
  - apply (wbcsr_bus_ok caw cdw dw p H). - apply (wbcsr_bus_ok caw cdw dw p H). - apply (wbcsr_bus_ok caw cdw dw p H).
  - apply (sram_bus_ok size dw g p H). - apply (sram_bus_ok size dw g p H). - apply (sram_bus_ok size dw g p H).
  - apply (sram_bus_ok size dw g p H).
  - exact wbdec_bus_ok. - exact arb_bus_ok.
Qed.
Print Assumptions C20_port_signatures.

(* The arbiter's output against a target: an SRAM of the same geometry, and a decoder with the same
   parameters. *)
Theorem C20_arbiter_output_connects_to_sram : forall aw dw g f bd size pa ps,
  arb_bus aw dw (Some g) f bd = Ok pa -> sram_bus size dw (Some g) = Ok ps ->
  f = no_features -> Z.log2 (size * g / dw) = aw ->
  connectable (as_seen_outside pa) (as_seen_outside ps).
Proof. exact arbiter_to_sram. Qed.
Print Assumptions C20_arbiter_output_connects_to_sram.

Theorem C20_arbiter_output_connects_to_decoder : forall aw dw g f bd pa pd,
  arb_bus aw dw g f bd = Ok pa -> wbdec_bus aw dw g f bd = Ok pd ->
  connectable (as_seen_outside pa) (as_seen_outside pd).
Proof. exact arbiter_to_decoder. Qed.
Print Assumptions C20_arbiter_output_connects_to_decoder.

(* Why a port declared `In(<signature of an inner In port>)` is wrong (the repaired F4): the inner
   port's signature is already flipped, In() flips it again, and the port comes out with the members
   of the plain signature, i.e. initiator-shaped; an initiator then meets a second driver on every
   output.  Declaring `In(<that signature>.flip())` — what EventMonitor.bus now does — gives the
   target shape. *)
Theorem C20_double_flip_is_initiator : forall s : sig,
  let inner := IN (base s) in
  as_seen_outside (IN (signature_of_port inner)) = members s /\
  as_seen_outside (IN (flip (signature_of_port inner))) = flip_members (members s) /\
  ~ connectable (members s) (as_seen_outside (IN (signature_of_port inner))) /\
  connect_check (members s) (as_seen_outside (IN (signature_of_port inner))) = ConnSeveralOut /\
  connectable (members s) (as_seen_outside (IN (flip (signature_of_port inner)))).
Proof. exact double_flip_is_initiator. Qed.
Print Assumptions C20_double_flip_is_initiator.

(* ---- non-vacuity: a wishbone signature with three features, and components that accept -------- *)
Definition ex_feat : features :=
  {| ft_err := true; ft_rty := false; ft_stall := true; ft_lock := false; ft_cti := true; ft_bte := false |}.
Definition ex_wb : sig :=
  SWb {| w_addr_width := 30; w_data_width := 32; w_granularity := 8; w_features := ex_feat |}.
Example C20_nonvacuous :
  construct (AWb 30 32 (Some 8) ex_feat false) = Ok ex_wb /\
  create ex_wb = Ok ex_wb /\
  length (members ex_wb) = 11%nat /\
  lookup Nsel (members ex_wb) = Some (mem Nsel FOut 4) /\
  lookup Ncti (members ex_wb) = Some (mem Ncti FOut 3) /\
  lookup Nrty (members ex_wb) = None /\
  sig_eqb ex_wb (SWb {| w_addr_width := 30; w_data_width := 32; w_granularity := 16; w_features := ex_feat |}) = false /\
  ports (CWbDec 30 32 (Some 8) ex_feat false) = Ok [IN (base ex_wb)] /\
  connect_check (members ex_wb) (as_seen_outside (IN (base ex_wb))) = ConnOk /\
  connect_check (members ex_wb) (members ex_wb) = ConnSeveralOut /\
  ports (CArb 30 32 (Some 8) ex_feat false) = Ok [OUT (base ex_wb)] /\
  (* an event monitor over 9 sources on an 8-bit bus: 2 chunks per register, 2 address bits *)
  ports (CEvMon 9 8 0 (Some TRise)) =
    Ok [IN (base (SCsr {| c_addr_width := 2; c_data_width := 8 |})); OUT (base (SSrc TRise))] /\
  (* a 32-bit bridge onto an 8-bit CSR bus with 10 address bits; a 1 KiB SRAM *)
  ports (CWbCsr 10 8 (Some 32)) =
    Ok [IN (base (SWb {| w_addr_width := 8; w_data_width := 32; w_granularity := 8; w_features := no_features |}))] /\
  ports (CSram 1024 32 (Some 8)) =
    Ok [IN (base (SWb {| w_addr_width := 8; w_data_width := 32; w_granularity := 8; w_features := no_features |}))] /\
  ports (CGpio 4 4 8) = Ok [IN (base (SCsr {| c_addr_width := 4; c_data_width := 8 |})); OUT (base SPin)].
Proof. vm_compute. repeat split. Qed.
