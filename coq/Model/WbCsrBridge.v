(* Structure-mirroring model of csr.wishbone.WishboneCSRBridge (amaranth_soc/csr/wishbone.py):
   the constructor arithmetic and its ValueErrors (lines 40-67) and elaborate() (lines 73-105).
   No proofs here. *)
From Coq Require Import ZArith List Bool.
From Soc Require Import Lib.Bits.
Import ListNotations.
Open Scope Z_scope.

(* ------------------------------------------------------------------------------------------ *)
(* Constructor                                                                                *)
(* ------------------------------------------------------------------------------------------ *)

Inductive exn := ValueError | TypeError.
Inductive res (X : Type) := Ok (x : X) | Err (e : exn).
Arguments Ok {X} x.
Arguments Err {X} e.

(* `x in (8, 16, 32, 64)` *)
Definition legal_w (w : Z) : bool := (w =? 8) || (w =? 16) || (w =? 32) || (w =? 64).

(* int.bit_length() for a non-negative argument *)
Definition bit_length (z : Z) : Z := if z <=? 0 then 0 else Z.log2 z + 1.

(* amaranth.utils.exact_log2: `if n <= 0 or (n & (n - 1)): raise ValueError`,
   `return (n - 1).bit_length()`;  None = ValueError *)
Definition exact_log2 (n : Z) : option Z :=
  if (n <=? 0) || negb (Z.land n (n - 1) =? 0) then None else Some (bit_length (n - 1)).

(* arguments: the csr.Interface's addr_width / data_width (an existing csr.Interface has both
   positive, csr/bus.py:165-168) and the `data_width` keyword (None = default) *)
Record kcfg := { k_caw : Z; k_cdw : Z; k_dw : option Z }.

(* what the constructed bridge publishes *)
Record geom := {
  g_r : Z;            (* exact_log2(ratio) *)
  g_wb_aw : Z;        (* wb_bus.addr_width *)
  g_wb_dw : Z;        (* wb_bus.data_width *)
  g_gran : Z;         (* wb_bus.granularity *)
  g_mm_aw : Z;        (* wb_bus.memory_map.addr_width *)
  g_mm_dw : Z;        (* wb_bus.memory_map.data_width *)
  g_win_start : Z;    (* the CSR map published as the only window: [start, stop), ratio *)
  g_win_stop : Z;
  g_win_ratio : Z
}.

Definition construct (k : kcfg) : res geom :=
  (* wishbone.py:48 *)
  if negb (legal_w (k_cdw k)) then Err ValueError else
  (* :51-52 *)
  let data_width := match k_dw k with None => k_cdw k | Some d => d end in
  (* :54  (the divisor was validated just above) *)
  let ratio := data_width / k_cdw k in
  (* :55 exact_log2(ratio) raises ValueError *)
  match exact_log2 ratio with
  | None => Err ValueError
  | Some r =>
      let wb_aw := Z.max 0 (k_caw k - r) in
      (* wishbone.Signature.__init__ (wishbone/bus.py:100-108) *)
      if wb_aw <? 0 then Err TypeError else
      if negb (legal_w data_width) then Err ValueError else
      if negb (legal_w (k_cdw k)) then Err ValueError else
      if k_cdw k >? data_width then Err ValueError else
      (* wb_bus.memory_map = MemoryMap(addr_width=csr aw, data_width=csr dw): the setter
         (wishbone/bus.py:244-253) *)
      if negb (k_cdw k =? k_cdw k) then Err ValueError else
      match exact_log2 (data_width / k_cdw k) with
      | None => Err ValueError
      | Some gbits =>
          if negb (k_caw k =? Z.max 1 (wb_aw + gbits)) then Err ValueError else
          (* :65 add_window(csr_bus.memory_map) into the fresh map of identical geometry: same data
             width (ratio 1), size 2**addr_width, placed at 0 (MemoryMap is the C02 model's business;
             the observation below is compared with windows() of the real object) *)
          Ok {| g_r := r; g_wb_aw := wb_aw; g_wb_dw := data_width; g_gran := k_cdw k;
                g_mm_aw := k_caw k; g_mm_dw := k_cdw k;
                g_win_start := 0; g_win_stop := 2 ^ k_caw k; g_win_ratio := 1 |}
      end
  end.

(* ------------------------------------------------------------------------------------------ *)
(* elaborate()                                                                                *)
(* ------------------------------------------------------------------------------------------ *)

(* hardware configuration: len(wb_bus.sel) = 2^r, CSR address width, granule (= CSR data) width *)
Record cfg := { c_r : Z; c_caw : Z; c_g : Z }.

Definition cfg_of (k : kcfg) (g : geom) : cfg := {| c_r := g_r g; c_caw := k_caw k; c_g := g_gran g |}.

Definition ratio (c : cfg) : Z := 2 ^ c_r c.
(* cycle = Signal(range(ratio + 1)): bits_for(2^r) = r + 1 bits *)
Definition cycle_w (c : cfg) : Z := c_r c + 1.

Record inp := { cyc : bool; stb : bool; we : bool; adr : Z; sel : Z; dat_w : Z; r_data : Z }.
Record st := { cycle : Z; ack : bool; dat_r : Z }.
Record outp := { o_ack : bool; o_dat_r : Z;
                 o_addr : Z; o_r_stb : bool; o_w_stb : bool; o_w_data : Z }.

Definition init : st := {| cycle := 0; ack := false; dat_r := 0 |}.

(* Switch(cycle) with `Case(index)` for index = k, k+1, ..., k+n-1 in program order: the first
   matching case, None = Default *)
Fixpoint first_case (n : nat) (k : Z) (v : Z) : option Z :=
  match n with
  | O => None
  | S n' => if v =? k then Some k else first_case n' (k + 1) v
  end.
Definition switch_cycle (c : cfg) (s : st) : option Z := first_case (Z.to_nat (ratio c)) 0 (cycle s).

(* segment(index) = slice(index * granularity, (index + 1) * granularity) *)
Definition lane (c : cfg) (index : Z) (z : Z) : Z := slice (index * c_g c) (c_g c) z.
Definition set_lane (c : cfg) (index : Z) (z v : Z) : Z := set_slice (index * c_g c) (c_g c) z v.

(* combinational outputs.  csr_bus.addr = Cat(cycle[:r], wb_bus.adr) assigned to a c_caw-bit signal
   (truncating).  wb_bus.adr has max(0, caw - r) bits; the truncation to caw bits makes any higher
   bit of `adr` irrelevant, so it is not truncated separately here. *)
Definition out (c : cfg) (s : st) (i : inp) : outp :=
  let addr := trunc (c_caw c) (trunc (c_r c) (cycle s) + adr i * 2 ^ c_r c) in
  (* r_stb, w_stb, w_data: init 0 unless assigned in the active Case *)
  let '(rs, ws, wd) :=
    if cyc i && stb i then
      match switch_cycle c s with
      | Some index =>
          let sel_index := Z.testbit (sel i) index in
          (sel_index && negb (we i), sel_index && we i, lane c index (dat_w i))
      | None => (false, false, 0)
      end
    else (false, false, 0) in
  {| o_ack := ack s; o_dat_r := dat_r s;
     o_addr := addr; o_r_stb := rs; o_w_stb := ws; o_w_data := wd |}.

(* registered state: the assignments in program order, every right-hand side reads the CURRENT
   state `s`, later assignments to the same signal win *)
Definition next (c : cfg) (s : st) (i : inp) : st :=
  (* with m.If(wb_bus.cyc & wb_bus.stb): with m.Switch(cycle): *)
  let n1 :=
    if cyc i && stb i then
      match switch_cycle c s with
      | Some index =>
          let d := if 0 <? index
                   then set_lane c (index - 1) (dat_r s) (r_data i)     (* dat_r[segment(index-1)] *)
                   else dat_r s in
          {| cycle := trunc (cycle_w c) (index + 1); ack := ack s; dat_r := d |}
      | None =>
          (* Default: `index` is the leaked loop variable = ratio - 1 *)
          {| cycle := cycle s; ack := true;
             dat_r := set_lane c (ratio c - 1) (dat_r s) (r_data i) |}
      end
    else s in
  (* with m.If(wb_bus.ack): *)
  if ack s then {| cycle := 0; ack := false; dat_r := dat_r n1 |} else n1.

Fixpoint run (c : cfg) (s : st) (is : list inp) : list outp :=
  match is with
  | [] => []
  | i :: is' => out c s i :: run c (next c s i) is'
  end.

Fixpoint state_after (c : cfg) (s : st) (is : list inp) : st :=
  match is with
  | [] => s
  | i :: is' => state_after c (next c s i) is'
  end.

(* the same machine over an infinite input trace *)
Fixpoint state_at (c : cfg) (tr : nat -> inp) (t : nat) : st :=
  match t with
  | O => init
  | S t' => next c (state_at c tr t') (tr t')
  end.
Definition out_at (c : cfg) (tr : nat -> inp) (t : nat) : outp := out c (state_at c tr t) (tr t).
