(* Structure-mirroring model of csr.Decoder (amaranth_soc/csr/bus.py:615-701): add() and elaborate().
   The placement of windows is the memory map's business (modelled elsewhere): a decoder is given, per
   subordinate, the subordinate's address width and the window range add() returned, in ascending
   address order (the order of MemoryMap.window_patterns()).  No proofs here. *)
From Coq Require Import ZArith List Bool.
From Soc Require Import Lib.Bits Lib.CsrPattern.
Import ListNotations.
Open Scope Z_scope.

(* ---------- Decoder.add(): the checks made before MemoryMap.add_window() is called ---------- *)

Inductive exn := TypeError | ValueError.
Inductive res := Ok | Err (e : exn).

(* is_iface: the object (unflipped if it is a FlippedInterface) is a csr.Interface *)
Definition add_check (dec_dw : Z) (is_iface : bool) (sub_dw : Z) : res :=
  if negb is_iface then Err TypeError
  else if negb (sub_dw =? dec_dw) then Err ValueError
  else Ok.

(* ---------- one decoder ---------- *)

(* a window: the subordinate's addr_width and the range (start, stop) returned by add() *)
Record sub := { s_aw : Z; s_start : Z; s_stop : Z }.

(* what a CSR bus carries from initiator to target in one cycle *)
Record bus := { addr : Z; r_stb : bool; w_stb : bool; w_data : Z }.

Definition sub_pattern (aw : Z) (w : sub) : pattern := window_pattern aw (s_aw w) (s_start w).

(* Case(sub_pat) is accepted by Amaranth only if len(sub_pat) == len(bus.addr) *)
Definition elab_ok (aw : Z) (ws : list sub) : bool :=
  forallb (fun w => Z.of_nat (length (sub_pattern aw w)) =? aw) ws.

(* Signals of one subordinate.  Outside any Case:  sub.addr = bus.addr[:sub.addr_width] (the slice is
   clipped to the bus address, then zero-extended), sub.w_data = bus.w_data.  Inside Case(sub_pat):
   the strobes; when the Case is not taken they keep their reset value 0. *)
Definition sub_drive (aw : Z) (w : sub) (en : bool) (i : bus) : bus :=
  {| addr := trunc (Z.min (s_aw w) aw) (addr i);
     r_stb := en && r_stb i;
     w_stb := en && w_stb i;
     w_data := w_data i |}.

(* Switch(bus.addr): Cases in window order, the FIRST matching Case is taken (found = an earlier
   Case already matched). *)
Fixpoint dec_down_from (aw : Z) (found : bool) (ws : list sub) (i : bus) : list bus :=
  match ws with
  | [] => []
  | w :: ws' =>
      let m := pmatch (sub_pattern aw w) (addr i) in
      sub_drive aw w (negb found && m) i :: dec_down_from aw (found || m) ws' i
  end.

Definition dec_down (aw : Z) (ws : list sub) (i : bus) : list bus := dec_down_from aw false ws i.

(* r_data_fanin = 0; r_data_fanin |= sub.r_data (in window order); bus.r_data = r_data_fanin *)
Definition dec_up (rs : list Z) : Z := fold_left Z.lor rs 0.

(* ---------- a tree of decoders ---------- *)
(* outer.add(inner.bus): the outer decoder drives the inner decoder's bus signals, the inner decoder's
   r_data is what the outer one ORs.  Leaves are opaque subordinate ports; `id` names the leaf so that
   its r_data can be looked up in the cycle's inputs. *)

Inductive tree :=
| Leaf (aw : Z) (id : nat)
| Node (aw : Z) (f : forest)
with forest :=
| FNil
| FCons (start stop : Z) (t : tree) (f : forest).

Definition tree_aw (t : tree) : Z := match t with Leaf aw _ => aw | Node aw _ => aw end.

Definition win_of (start stop : Z) (t : tree) : sub :=
  {| s_aw := tree_aw t; s_start := start; s_stop := stop |}.

Fixpoint subs_of (f : forest) : list sub :=
  match f with
  | FNil => []
  | FCons s e t f' => win_of s e t :: subs_of f'
  end.

(* initiator-to-target direction: what every leaf port sees, leaves in depth-first order *)
Fixpoint tree_down (t : tree) (i : bus) : list bus :=
  match t with
  | Leaf _ _ => [i]
  | Node aw f => forest_down aw false f i
  end
with forest_down (aw : Z) (found : bool) (f : forest) (i : bus) : list bus :=
  match f with
  | FNil => []
  | FCons s e t f' =>
      let w := win_of s e t in
      let m := pmatch (sub_pattern aw w) (addr i) in
      tree_down t (sub_drive aw w (negb found && m) i) ++ forest_down aw (found || m) f' i
  end.

(* target-to-initiator direction: r_data of the bus at the root of t, given each leaf's r_data *)
Fixpoint tree_up (rd : nat -> Z) (t : tree) : Z :=
  match t with
  | Leaf _ id => rd id
  | Node _ f => dec_up (forest_up rd f)
  end
with forest_up (rd : nat -> Z) (f : forest) : list Z :=
  match f with
  | FNil => []
  | FCons _ _ t f' => tree_up rd t :: forest_up rd f'
  end.

(* every decoder of the tree elaborates *)
Fixpoint tree_elab_ok (t : tree) : bool :=
  match t with
  | Leaf _ _ => true
  | Node aw f => elab_ok aw (subs_of f) && forest_elab_ok f
  end
with forest_elab_ok (f : forest) : bool :=
  match f with
  | FNil => true
  | FCons _ _ t f' => tree_elab_ok t && forest_elab_ok f'
  end.

Fixpoint leaf_ids (t : tree) : list nat :=
  match t with
  | Leaf _ id => [id]
  | Node _ f => forest_leaf_ids f
  end
with forest_leaf_ids (f : forest) : list nat :=
  match f with
  | FNil => []
  | FCons _ _ t f' => leaf_ids t ++ forest_leaf_ids f'
  end.
