(* C19 — what elaboration keeps between calls, and the partial operations it relies on.

   (i)   csr.Multiplexer keeps two _Shadow objects created in __init__ (csr/bus.py:505-508) and mutates
         them in elaborate() (:525-536): a small state machine over `elaborate` calls.  Both the code as
         it is now (add() returns early on a prepared shadow, fix d7cdb42; prepare() stops doubling once
         the size covers every start address, fix 666626d) and the code as it was (`_orig`) are modelled.
   (ii)  _Shadow.prepare(): the doubling loop, with and without the `can_grow` guard.
   (iii) the submodule names of csr.Bridge.elaborate / csr.Register.elaborate (csr/reg.py:538-566,
         :791-806): "__".join over name parts, as it was ("__".join(reg_name)), after fix 7474077
         (str() of each part), after fixes 6ea0aed / a4c349c (a name already taken -> anonymous; still so
         for the fields of a Register) and after fix 823f054 (Bridge: a taken name gets a numeric suffix).
   (iv)  the acceptance rule of Multiplexer._check_memory_map (:515-523).
   The hash, the chunk table keys and the fuelled doubling loop are those of Model/Mux.v.
   No proofs here. *)
From Coq Require Import ZArith List Bool.
From Soc Require Import Lib.Bits Lib.Res Model.Mux.
Import ListNotations.
Open Scope Z_scope.

(* ------------------------------------------------------------------------------------------ *)
(* (i) the _Shadow objects                                                                      *)
(* ------------------------------------------------------------------------------------------ *)

(* Python compares range objects by (start, stop) here (step is always 1, ranges are non-empty) *)
Definition rng_eqb (a b : reg) : bool := (r_start a =? r_start b) && (r_stop a =? r_stop b).
Definition rng_ltb (a b : reg) : bool :=
  (r_start a <? r_start b) || ((r_start a =? r_start b) && (r_stop a <? r_stop b)).

(* `self._ranges`: a set() until prepare() succeeds, a frozenset afterwards.  The only observations
   the code makes of the set are `in`, len() and sorted(..., key=(start, stop, step)); it is kept here
   as the duplicate-free list in that order, so that sorted(set) is the list itself. *)
Inductive rset := Mutable (l : list reg) | Frozen (l : list reg).

Fixpoint set_add (r : reg) (l : list reg) : list reg :=
  match l with
  | [] => [r]
  | x :: l' => if rng_eqb r x then l else if rng_ltb r x then r :: l else x :: set_add r l'
  end.

Definition set_mem (r : reg) (l : list reg) : bool := existsb (rng_eqb r) l.

(* a chunk table: offset |-> registers using the chunk, offsets in creation (dict) order *)
Definition ctable := list (Z * list reg).

Record shadow := { sh_ranges : rset; sh_size : Z; sh_ov : option Z; sh_chunks : option ctable }.

(* _Shadow.__init__ *)
Definition new_shadow (ov : option Z) : shadow :=
  {| sh_ranges := Mutable []; sh_size := 1; sh_ov := ov; sh_chunks := None |}.

Definition add_to (sh : shadow) (l : list reg) (r : reg) : shadow :=
  {| sh_ranges := Mutable (set_add r l); sh_size := Z.max (sh_size sh) (reg_size r);
     sh_ov := sh_ov sh; sh_chunks := sh_chunks sh |}.

(* _Shadow.add as it is now (:342-349): a prepared shadow only checks that the range is known *)
Definition add_now (sh : shadow) (r : reg) : res shadow :=
  match sh_ranges sh with
  | Frozen l => if set_mem r l then Ok sh else Err AssertionError
  | Mutable l => Ok (add_to sh l r)
  end.

(* _Shadow.add as it was: `self._ranges.add(reg_range)` on a frozenset is an AttributeError *)
Definition add_orig (sh : shadow) (r : reg) : res shadow :=
  match sh_ranges sh with
  | Frozen _ => Err OtherError
  | Mutable l => Ok (add_to sh l r)
  end.

(* registers[chunk_offset] of a balanced round: for every offset, in first-touch order, the ranges
   (in sorted order) one of whose addresses decodes to it *)
Definition chunk_table (S : Z) (l : list reg) : ctable :=
  map (fun o => (o, filter (fun r => touches S r o) l)) (table S l).

Definition effective_ov (sh : shadow) (l : list reg) : Z :=
  match sh_ov sh with Some v => v | None => Z.of_nat (length l) end.

Definition freeze (sh : shadow) (l : list reg) (S : Z) : shadow :=
  {| sh_ranges := Frozen l; sh_size := S; sh_ov := Some (effective_ov sh l);
     sh_chunks := Some (chunk_table S l) |}.

(* _Shadow.prepare as it is now (:403-449).  Running out of fuel stands for the RecursionError of an
   unbounded recursion; Proofs/Elab.v shows it cannot happen. *)
Definition prepare_now (sh : shadow) : res shadow :=
  match sh_ranges sh with
  | Frozen _ => Ok sh
  | Mutable l =>
      match prepare (prepare_fuel l) (sh_size sh) (effective_ov sh l) l with
      | Some sz => Ok (freeze sh l sz)
      | None => Err OtherError
      end
  end.

(* (ii) the doubling loop as it was: no `can_grow`, so it doubles whenever some chunk is over the limit *)
Fixpoint prepare_loop_orig (fuel : nat) (S ov : Z) (l : list reg) : option Z :=
  match fuel with
  | O => None
  | Datatypes.S f => if unbalanced S ov l then prepare_loop_orig f (2 * S) ov l else Some S
  end.

(* `fuel` = the recursion depth Python allows *)
Definition prepare_orig (fuel : nat) (sh : shadow) : res shadow :=
  match sh_ranges sh with
  | Frozen _ => Ok sh
  | Mutable l =>
      match prepare_loop_orig fuel (sh_size sh) (effective_ov sh l) l with
      | Some sz => Ok (freeze sh l sz)
      | None => Err OtherError
      end
  end.

(* ------------------------------------------------------------------------------------------ *)
(* the multiplexer instance and its elaborate()                                                 *)
(* ------------------------------------------------------------------------------------------ *)

Record inst := { i_r : shadow; i_w : shadow }.

(* Multiplexer.__init__ (:505-508) *)
Definition new_inst (ov : option Z) : inst := {| i_r := new_shadow ov; i_w := new_shadow ov |}.

(* what one elaboration builds its hardware from: the read and the write chunk table *)
Record emitted := { e_r : ctable; e_w : ctable }.

Section Elaborate.
  Variable add : shadow -> reg -> res shadow.
  Variable prep : shadow -> res shadow.

  (* for reg, _, (start, end) in memory_map.resources(): ... (:527-532) *)
  Fixpoint add_all (rs ws : shadow) (regs : list reg) : res (shadow * shadow) :=
    match regs with
    | [] => Ok (rs, ws)
    | r :: regs' =>
        match (if r_rd r then add rs r else Ok rs) with
        | Err e => Err e
        | Ok rs' =>
            match (if r_wr r then add ws r else Ok ws) with
            | Err e => Err e
            | Ok ws' => add_all rs' ws' regs'
            end
        end
    end.

  Definition elaborate (i : inst) (regs : list reg) : res (inst * emitted) :=
    match add_all (i_r i) (i_w i) regs with
    | Err e => Err e
    | Ok (rs, ws) =>
        match prep rs with
        | Err e => Err e
        | Ok rs' =>
            match prep ws with
            | Err e => Err e
            | Ok ws' =>
                (* `for chunk_offset, chunk in self._r_shadow.chunks()` *)
                match sh_chunks rs', sh_chunks ws' with
                | Some tr, Some tw => Ok ({| i_r := rs'; i_w := ws' |}, {| e_r := tr; e_w := tw |})
                | _, _ => Err OtherError
                end
            end
        end
    end.

  (* k successive elaborations of one instance *)
  Fixpoint elab_n (k : nat) (i : inst) (regs : list reg) : res (inst * list emitted) :=
    match k with
    | O => Ok (i, [])
    | Datatypes.S k' =>
        match elaborate i regs with
        | Err e => Err e
        | Ok (i', e) =>
            match elab_n k' i' regs with
            | Err x => Err x
            | Ok (i'', es) => Ok (i'', e :: es)
            end
        end
    end.
End Elaborate.

Definition elaborate_now := elaborate add_now prepare_now.
Definition elaborate_orig (fuel : nat) := elaborate add_orig (prepare_orig fuel).
Definition elab_n_now := elab_n add_now prepare_now.

(* (iv) Multiplexer._check_memory_map (:515-523), in statement order.  3 = the AttributeError that
   tests/test_csr_bus.py pins for a resource without a proper `element` member. *)
Definition mux_check (is_map has_windows bad_resource : bool) : Z :=
  if negb is_map then 2 (* TypeError *)
  else if has_windows then 1 (* ValueError *)
  else if bad_resource then 3
  else 0.

(* ------------------------------------------------------------------------------------------ *)
(* (iii) submodule names                                                                        *)
(* ------------------------------------------------------------------------------------------ *)

(* a str is the list of its code points *)
Definition str := list Z.
Inductive part := PStr (s : str) | PInt (n : Z).

(* Python str(n) for an int: decimal digits, most significant first, '-' for a negative number.
   digits_lsd lists them least significant first; the fuel (one round per binary digit) is more than
   the number of decimal digits. *)
Fixpoint digits_lsd (fuel : nat) (n : Z) : str :=
  match fuel with
  | O => []
  | Datatypes.S f => (48 + n mod 10) :: (if n <? 10 then [] else digits_lsd f (n / 10))
  end.
Definition str_of_nat (n : Z) : str := rev (digits_lsd (Datatypes.S (Z.to_nat (Z.log2 n))) n).
Definition str_of_int (n : Z) : str := if n <? 0 then 45 :: str_of_nat (- n) else str_of_nat n.

Definition sep : str := [95; 95].   (* "__" *)

(* an element handed to str.join: a str, or something else *)
Inductive pyval := VStr (s : str) | VOther.

(* "__".join(iterable): TypeError unless every element is a str *)
Fixpoint py_join (l : list pyval) : res str :=
  match l with
  | [] => Ok []
  | [VStr s] => Ok s
  | VStr s :: l' => match py_join l' with Ok t => Ok (s ++ sep ++ t) | Err e => Err e end
  | VOther :: _ => Err TypeError
  end.

Definition as_is (p : part) : pyval := match p with PStr s => VStr s | PInt _ => VOther end.
Definition str_part (p : part) : pyval := match p with PStr s => VStr s | PInt n => VStr (str_of_int n) end.

(* "__".join(reg_name)  — as it was *)
Definition join_name_orig (n : list part) : res str := py_join (map as_is n).
(* "__".join(str(part) for part in reg_name)  — as it is *)
Definition join_name (n : list part) : res str := py_join (map str_part n).

Fixpoint str_eqb (a b : str) : bool :=
  match a, b with
  | [], [] => true
  | x :: a', y :: b' => (x =? y) && str_eqb a' b'
  | _, _ => false
  end.
Definition str_mem (s : str) (l : list str) : bool := existsb (str_eqb s) l.

(* the loop of Bridge.elaborate / Register.elaborate as it is now: a joined name that is already taken
   (or, for Register, the empty path) gives an anonymous submodule (None) *)
Fixpoint assign_names (anon_empty : bool) (seen : list str) (names : list (list part)) : res (list (option str)) :=
  match names with
  | [] => Ok []
  | n :: rest =>
      match join_name n with
      | Err e => Err e
      | Ok s =>
          if str_mem s seen || (anon_empty && match n with [] => true | _ => false end)
          then match assign_names anon_empty seen rest with Ok r => Ok (None :: r) | Err e => Err e end
          else match assign_names anon_empty (s :: seen) rest with Ok r => Ok (Some s :: r) | Err e => Err e end
      end
  end.

Definition mux_name : str := [109; 117; 120].   (* "mux" *)

(* the `while submodule_name in submodule_names` loop of Bridge.elaborate (fix 823f054): joined,
   joined_1, joined_2, ... until one is free.  `fuel` more candidates may be tried after `cand`;
   with fuel = number of taken names the loop cannot run dry (Proofs/Elab.v). *)
Fixpoint pick_name (fuel : nat) (seen : list str) (joined : str) (suffix : Z) (cand : str) : res str :=
  if str_mem cand seen then
    match fuel with
    | O => Err OtherError
    | Datatypes.S f => pick_name f seen joined (suffix + 1) (joined ++ 95 :: str_of_int (suffix + 1))
    end
  else Ok cand.

(* one named submodule per register; every assigned name (suffixed or not) becomes taken *)
Fixpoint bridge_names (seen : list str) (names : list (list part)) : res (list (option str)) :=
  match names with
  | [] => Ok []
  | n :: rest =>
      match join_name n with
      | Err e => Err e
      | Ok j =>
          match pick_name (length seen) seen j 0 j with
          | Err e => Err e
          | Ok s => match bridge_names (s :: seen) rest with Ok r => Ok (Some s :: r) | Err e => Err e end
          end
      end
  end.

(* m.submodules.mux = ...; then one submodule per register *)
Definition bridge_submodules (names : list (list part)) : res (list (option str)) :=
  match bridge_names [mux_name] names with
  | Ok r => Ok (Some mux_name :: r)
  | Err e => Err e
  end.

(* the first repair of the collision (6ea0aed): a register whose name is taken was added with
   `m.submodules += reg` — kept because csr.Register.elaborate still does this for its fields *)
Definition bridge_submodules_v2 (names : list (list part)) : res (list (option str)) :=
  match assign_names false [mux_name] names with
  | Ok r => Ok (Some mux_name :: r)
  | Err e => Err e
  end.

Definition register_submodules (paths : list (list part)) : res (list (option str)) :=
  assign_names true [] paths.

(* Amaranth's Module refuses `m.submodules[name] = x` when the name is already taken (NameError) *)
Fixpoint names_accepted (seen : list str) (l : list (option str)) : bool :=
  match l with
  | [] => true
  | None :: l' => names_accepted seen l'
  | Some s :: l' => negb (str_mem s seen) && names_accepted (s :: seen) l'
  end.

(* the naming before fixes 6ea0aed / a4c349c: every register gets its joined name *)
Fixpoint assign_names_v1 (names : list (list part)) : res (list (option str)) :=
  match names with
  | [] => Ok []
  | n :: rest =>
      match join_name n, assign_names_v1 rest with
      | Ok s, Ok r => Ok (Some s :: r)
      | Err e, _ => Err e
      | _, Err e => Err e
      end
  end.
