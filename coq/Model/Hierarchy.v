(* Bus hierarchies assembled from the toolkit's parts (C01):
     csr tree   = csr.Multiplexer over registers | csr.Decoder over csr trees
     wb node    = WishboneSRAM | WishboneCSRBridge over a csr tree
     root       = a csr tree, or a wishbone.Decoder over wb nodes.

   Three readings of one hierarchy, each built from the models of the parts:
     *_map    the memory map, built with the SAME MemoryMap.add_resource / add_window / align_to calls
              (Model/MemoryMap.v) that the real constructors make, in the same order;
     *_hw     the elaborated hardware: every decoder's Case list is read off ITS memory map
              (window_patterns(): windows in ascending order), every multiplexer's register list off
              ITS memory map (resources()), as elaborate() does; the synchronous machine is the
              composition of Model/Mux.v, CsrDecoder.v, WbCsrBridge.v, Sram.v, WbDecoder.v;
     *reach   routing only, from the hardware reading: which leaf and which chunk / granule of it an
              address selects (decoder Case patterns first-match, bridge address Cat(cycle, adr),
              multiplexer chunk Cases, SRAM row and lane).
   No proofs here. *)
From Coq Require Import ZArith List Bool.
From Soc Require Import Lib.Res Lib.PyList Lib.Bits Model.MemoryMap.
From Soc Require Lib.CsrPattern Lib.Pattern Model.Mux Model.CsrDecoder Model.WbDecoder
                 Model.WbCsrBridge Model.Sram.
Import ListNotations.
Open Scope Z_scope.

(* ------------------------------------------------------------------ syntax *)

(* a register: its identity, its csr.Element (width, access), and the add_resource() arguments *)
Record rleaf := { l_id : Z; l_width : Z; l_rd : bool; l_wr : bool;
                  l_name : rawname; l_size : pyint; l_addr : pyint; l_align : pyint }.

(* calls made on a multiplexer's memory map, in order *)
Inductive mop := MAdd (r : rleaf) | MAlign (a : Z).

(* one Decoder.add(): the align_to() calls made since the previous add, then name= and addr= *)
Record wopt := { o_aligns : list Z; o_name : option rawname; o_addr : pyint }.

Inductive csrnode :=
| MuxLeaf (aw dw al : Z) (ops : list mop) (ov : option Z)      (* csr.Multiplexer(map, shadow_overlaps=ov) *)
| CsrDec (aw dw al : Z) (subs : list (wopt * csrnode)).        (* csr.Decoder(addr_width, data_width, alignment) *)

Inductive wbnode :=
| SramLeaf (id size dw gran : Z) (wr : bool) (init : list Z)    (* WishboneSRAM(size, data_width, granularity, writable, init) *)
| BridgeNode (dw : Z) (nm : option rawname) (c : csrnode).     (* WishboneCSRBridge(csr_bus, data_width=dw, name=nm) *)

(* wishbone.Decoder(addr_width, data_width, granularity, alignment); add(sub, name, addr, sparse) *)
Record wbroot := { wr_aw : Z; wr_dw : Z; wr_gran : Z; wr_al : Z;
                   wr_subs : list (wopt * bool * wbnode) }.

Inductive root := RootCsr (c : csrnode) | RootWb (w : wbroot).

Definition csr_aw (c : csrnode) : Z := match c with MuxLeaf aw _ _ _ _ => aw | CsrDec aw _ _ _ => aw end.
Definition csr_dw (c : csrnode) : Z := match c with MuxLeaf _ dw _ _ _ => dw | CsrDec _ dw _ _ => dw end.

(* ------------------------------------------------------------------ memory maps *)

Fixpoint do_aligns (m : mmap) (l : list Z) : res mmap :=
  match l with
  | [] => Ok m
  | a :: l' => let! '(m', _) := align_to m (VInt a) in do_aligns m' l'
  end.

Fixpoint mux_ops (m : mmap) (ops : list mop) : res mmap :=
  match ops with
  | [] => Ok m
  | MAdd r :: ops' =>
      let! '(m', _) := add_resource m (l_id r) true (l_name r) (l_size r) (l_addr r) (l_align r) in
      mux_ops m' ops'
  | MAlign a :: ops' => let! '(m', _) := align_to m (VInt a) in mux_ops m' ops'
  end.

Definition mux_map (aw dw al : Z) (ops : list mop) : res mmap :=
  let! m := new_map (VInt aw) (VInt dw) (VInt al) in mux_ops m ops.

(* the add() calls of a decoder; window number k is the k-th added (its identity in the parent) *)
Fixpoint add_windows (m : mmap) (k : Z) (l : list (wopt * option bool * mmap)) : res mmap :=
  match l with
  | [] => Ok m
  | (o, sp, w) :: l' =>
      let! m1 := do_aligns m (o_aligns o) in
      let! '(m2, _) := add_window m1 k w (o_name o) (o_addr o) sp in
      add_windows m2 (k + 1) l'
  end.

Fixpoint csr_map (n : csrnode) : res mmap :=
  match n with
  | MuxLeaf aw dw al ops _ => mux_map aw dw al ops
  | CsrDec aw dw al subs =>
      let! kids :=
        (fix go (l : list (wopt * csrnode)) : res (list (wopt * option bool * mmap)) :=
           match l with
           | [] => Ok []
           | (o, c) :: l' => let! w := csr_map c in let! r := go l' in Ok ((o, None, w) :: r)
           end) subs in
      let! m := new_map (VInt aw) (VInt dw) (VInt al) in
      add_windows m 0 kids
  end.

(* the interned atom of the string "mem" (WishboneSRAM names its resource ("mem",)) *)
Definition mem_atom : Z := 1.

Definition wb_map (n : wbnode) : res mmap :=
  match n with
  | SramLeaf id size dw gran wr init =>
      let! m := new_map (VInt (Z.log2 size)) (VInt gran) (VInt 0) in
      let! '(m', _) := add_resource m id true (NTuple [RStr mem_atom]) (VInt size) VNone VNone in
      Ok m'
  | BridgeNode dw nm c =>
      let! w := csr_map c in
      let! m := new_map (VInt (m_aw w)) (VInt (m_dw w)) (VInt 0) in
      let! '(m', _) := add_window m 0 w nm VNone None in
      Ok m'
  end.

Definition wbroot_gbits (r : wbroot) : Z := Z.log2 (wr_dw r / wr_gran r).
Definition wbroot_map_aw (r : wbroot) : Z := Z.max 1 (wr_aw r + wbroot_gbits r).

Fixpoint wb_kids (l : list (wopt * bool * wbnode)) : res (list (wopt * option bool * mmap)) :=
  match l with
  | [] => Ok []
  | (o, sp, n) :: l' => let! w := wb_map n in let! r := wb_kids l' in Ok ((o, Some sp, w) :: r)
  end.

Definition wbroot_map (r : wbroot) : res mmap :=
  let! kids := wb_kids (wr_subs r) in
  let! m := new_map (VInt (wbroot_map_aw r)) (VInt (wr_gran r)) (VInt (wr_al r)) in
  add_windows m 0 kids.

Definition root_map (r : root) : res mmap :=
  match r with RootCsr c => csr_map c | RootWb w => wbroot_map w end.

(* ------------------------------------------------------------------ elaborated hardware: CSR side *)

Inductive chw :=
| HMux (c : Mux.cfg) (ids : list Z)                        (* ids of c_regs, same order *)
| HDec (aw : Z) (subs : list (CsrDecoder.sub * chw)).     (* Cases in window_patterns() order *)

Fixpoint find_leaf (id : Z) (ops : list mop) : option rleaf :=
  match ops with
  | [] => None
  | MAdd r :: ops' => if l_id r =? id then Some r else find_leaf id ops'
  | MAlign _ :: ops' => find_leaf id ops'
  end.

(* Multiplexer.elaborate(): for reg, _, (start, end) in memory_map.resources() *)
Definition mux_regs (m : mmap) (ops : list mop) : list (Z * Mux.reg) :=
  flat_map (fun x : Z * name * Z * Z =>
              let '(id, _, s, e) := x in
              match find_leaf id ops with
              | Some r => [(id, {| Mux.r_start := s; Mux.r_stop := e; Mux.r_width := l_width r;
                                   Mux.r_rd := l_rd r; Mux.r_wr := l_wr r |})]
              | None => []
              end) (resources m).

(* Decoder.elaborate(): for sub_map, sub_pat in memory_map.window_patterns(): sub = self._subs[sub_map];
   kids = (addr_width of the k-th added subordinate, its hardware) *)
Definition dec_subs {H} (ranges : list entry) (kids : list (Z * H)) : list (CsrDecoder.sub * H) :=
  flat_map (fun x => match e_asg x with
                     | AW id =>
                         match nth_error kids (Z.to_nat id) with
                         | Some (caw, h) =>
                             [({| CsrDecoder.s_aw := caw; CsrDecoder.s_start := e_start x;
                                  CsrDecoder.s_stop := e_stop x |}, h)]
                         | None => []
                         end
                     | AR _ => []
                     end) ranges.

Fixpoint csr_hw (n : csrnode) : res chw :=
  match n with
  | MuxLeaf aw dw al ops ov =>
      let! m := mux_map aw dw al ops in
      let rs := mux_regs m ops in
      match Mux.mk_cfg dw (map snd rs) ov with
      | Some c => Ok (HMux c (map fst rs))
      | None => Err OtherError
      end
  | CsrDec aw dw al subs =>
      let! m := csr_map (CsrDec aw dw al subs) in
      let! kids :=
        (fix go (l : list (wopt * csrnode)) : res (list (Z * chw)) :=
           match l with
           | [] => Ok []
           | (_, c) :: l' => let! h := csr_hw c in let! r := go l' in Ok ((csr_aw c, h) :: r)
           end) subs in
      Ok (HDec aw (dec_subs (m_ranges m) kids))
  end.

(* ---- the machine ---- *)

Inductive cst := SMux (s : Mux.st) | SDec (l : list cst).

Fixpoint cinit (h : chw) : cst :=
  match h with
  | HMux c _ => SMux (Mux.init c)
  | HDec _ subs => SDec (map (fun p : CsrDecoder.sub * chw => cinit (snd p)) subs)
  end.

(* what a register's element port shows *)
Record lobs := { lo_id : Z; lo_rstb : bool; lo_wstb : bool; lo_wdata : Z }.

(* rvals: element.r_data of every register of the hierarchy, indexed by register id *)
Definition mux_inp (ids rvals : list Z) (b : CsrDecoder.bus) : Mux.inp :=
  {| Mux.i_addr := CsrDecoder.addr b; Mux.i_rstb := CsrDecoder.r_stb b; Mux.i_wstb := CsrDecoder.w_stb b;
     Mux.i_wdata := CsrDecoder.w_data b;
     Mux.i_rvals := map (fun id => nth (Z.to_nat id) rvals 0) ids |}.

Fixpoint mux_leaves (ids : list Z) (rs ws : list bool) (wd : list Z) : list lobs :=
  match ids, rs, ws, wd with
  | id :: ids', r :: rs', w :: ws', d :: wd' =>
      {| lo_id := id; lo_rstb := r; lo_wstb := w; lo_wdata := d |} :: mux_leaves ids' rs' ws' wd'
  | _, _, _, _ => []
  end.

(* bus.r_data of the node: a function of the registered state only *)
Fixpoint c_rdata (h : chw) (s : cst) : Z :=
  match h, s with
  | HMux c _, SMux ms => Mux.bus_rdata c ms
  | HDec _ subs, SDec ss =>
      CsrDecoder.dec_up
        ((fix go (subs : list (CsrDecoder.sub * chw)) (ss : list cst) : list Z :=
            match subs, ss with
            | (_, ch) :: subs', s1 :: ss' => c_rdata ch s1 :: go subs' ss'
            | _, _ => []
            end) subs ss)
  | _, _ => 0
  end.

(* element ports of every register below the node, in Case order, in the cycle whose bus carries b *)
Fixpoint c_leaves (h : chw) (s : cst) (rvals : list Z) (b : CsrDecoder.bus) : list lobs :=
  match h, s with
  | HMux c ids, SMux ms =>
      let o := Mux.out c ms (mux_inp ids rvals b) in
      mux_leaves ids (Mux.o_rstb o) (Mux.o_wstb o) (Mux.o_wdata o)
  | HDec aw subs, SDec ss =>
      (fix go (found : bool) (subs : list (CsrDecoder.sub * chw)) (ss : list cst) : list lobs :=
         match subs, ss with
         | (w, ch) :: subs', s1 :: ss' =>
             let m := CsrPattern.pmatch (CsrDecoder.sub_pattern aw w) (CsrDecoder.addr b) in
             c_leaves ch s1 rvals (CsrDecoder.sub_drive aw w (negb found && m) b)
               ++ go (found || m) subs' ss'
         | _, _ => []
         end) false subs ss
  | _, _ => []
  end.

Fixpoint c_next (h : chw) (s : cst) (rvals : list Z) (b : CsrDecoder.bus) : cst :=
  match h, s with
  | HMux c ids, SMux ms => SMux (Mux.next c ms (mux_inp ids rvals b))
  | HDec aw subs, SDec ss =>
      SDec ((fix go (found : bool) (subs : list (CsrDecoder.sub * chw)) (ss : list cst) : list cst :=
               match subs, ss with
               | (w, ch) :: subs', s1 :: ss' =>
                   let m := CsrPattern.pmatch (CsrDecoder.sub_pattern aw w) (CsrDecoder.addr b) in
                   c_next ch s1 rvals (CsrDecoder.sub_drive aw w (negb found && m) b)
                     :: go (found || m) subs' ss'
               | _, _ => []
               end) false subs ss)
  | _, _ => s
  end.

(* ---- routing ---- *)

(* Multiplexer: Case(chunk_addr) for every address of every register *)
Fixpoint mux_reach (regs : list Mux.reg) (ids : list Z) (a : Z) : option (Z * Z) :=
  match regs, ids with
  | r :: regs', id :: ids' =>
      if existsb (Z.eqb a) (Mux.addrs r) then Some (id, a - Mux.r_start r) else mux_reach regs' ids' a
  | _, _ => None
  end.

(* Decoder: first matching Case; the subordinate sees bus.addr[:sub.addr_width] *)
Fixpoint creach (h : chw) (a : Z) : option (Z * Z) :=
  match h with
  | HMux c ids => mux_reach (Mux.c_regs c) ids a
  | HDec aw subs =>
      (fix go (subs : list (CsrDecoder.sub * chw)) : option (Z * Z) :=
         match subs with
         | [] => None
         | (w, ch) :: subs' =>
             if CsrPattern.pmatch (CsrDecoder.sub_pattern aw w) a
             then creach ch (trunc (Z.min (CsrDecoder.s_aw w) aw) a)
             else go subs'
         end) subs
  end.

(* ------------------------------------------------------------------ elaborated hardware: Wishbone side *)

Inductive whw :=
| HSram (id : Z) (g : Sram.geom) (rows0 : list Z)
| HBridge (c : WbCsrBridge.cfg) (h : chw).

(* subordinates in add() order, as WbDecoder.cfg lists them *)
Record wbhw := { wh_cfg : WbDecoder.cfg; wh_subs : list whw }.

Definition nofeat : WbDecoder.feat :=
  {| WbDecoder.f_err := false; WbDecoder.f_rty := false; WbDecoder.f_stall := false;
     WbDecoder.f_lock := false; WbDecoder.f_cti := false; WbDecoder.f_bte := false |}.

(* the subordinate's Wishbone interface and its hardware *)
Definition wb_hw (n : wbnode) : res (WbDecoder.geom * whw) :=
  match n with
  | SramLeaf id size dw gran wr init =>
      match Sram.construct (Sram.VInt size) (Sram.VInt dw) (Sram.VInt gran) wr init with
      | Sram.Ok (g, rows0) =>
          Ok ({| WbDecoder.g_aw := Sram.g_aw g; WbDecoder.g_dw := Sram.g_dw g;
                 WbDecoder.g_g := Sram.g_gran g; WbDecoder.g_feat := nofeat |}, HSram id g rows0)
      | Sram.Err _ => Err ValueError
      end
  | BridgeNode dw nm c =>
      let! h := csr_hw c in
      let k := {| WbCsrBridge.k_caw := csr_aw c; WbCsrBridge.k_cdw := csr_dw c; WbCsrBridge.k_dw := Some dw |} in
      match WbCsrBridge.construct k with
      | WbCsrBridge.Ok g =>
          Ok ({| WbDecoder.g_aw := WbCsrBridge.g_wb_aw g; WbDecoder.g_dw := WbCsrBridge.g_wb_dw g;
                 WbDecoder.g_g := WbCsrBridge.g_gran g; WbDecoder.g_feat := nofeat |},
              HBridge (WbCsrBridge.cfg_of k g) h)
      | WbCsrBridge.Err _ => Err ValueError
      end
  end.

(* what add() number k returned, read off the decoder's memory map *)
Definition win_of (m : mmap) (k : Z) : option WbDecoder.window :=
  match find_win k (m_wins m) with
  | Some (w, c) => Some {| WbDecoder.w_start := w_start w; WbDecoder.w_stop := w_stop w;
                           WbDecoder.w_ratio := w_step w; WbDecoder.w_aw := m_aw c |}
  | None => None
  end.

Fixpoint wb_subs (m : mmap) (k : Z) (l : list (wopt * bool * wbnode))
  : res (list (WbDecoder.sub * whw)) :=
  match l with
  | [] => Ok []
  | (_, sp, n) :: l' =>
      let! '(g, h) := wb_hw n in
      match win_of m k with
      | Some w =>
          let! r := wb_subs m (k + 1) l' in
          Ok (({| WbDecoder.s_geom := g; WbDecoder.s_sparse := sp; WbDecoder.s_win := w |}, h) :: r)
      | None => Err AssertionError
      end
  end.

Definition wbroot_hw (r : wbroot) : res wbhw :=
  let! m := wbroot_map r in
  let! l := wb_subs m 0 (wr_subs r) in
  Ok {| wh_cfg := {| WbDecoder.c_geom := {| WbDecoder.g_aw := wr_aw r; WbDecoder.g_dw := wr_dw r;
                                           WbDecoder.g_g := wr_gran r; WbDecoder.g_feat := nofeat |};
                     WbDecoder.c_subs := map fst l |};
        wh_subs := map snd l |}.

(* ---- the machine ---- *)

Inductive wst := SSram (s : Sram.state) | SBridge (b : WbCsrBridge.st) (c : cst).

Definition winit (h : whw) : wst :=
  match h with
  | HSram _ g rows0 => SSram (Sram.init_state rows0)
  | HBridge _ ch => SBridge WbCsrBridge.init (cinit ch)
  end.

Definition wresp (s : wst) : WbDecoder.sresp :=
  match s with
  | SSram ss => {| WbDecoder.ack := Sram.ack ss; WbDecoder.err := false; WbDecoder.rty := false;
                   WbDecoder.stall := false; WbDecoder.dat_r := Sram.latch ss |}
  | SBridge b _ => {| WbDecoder.ack := WbCsrBridge.ack b; WbDecoder.err := false; WbDecoder.rty := false;
                      WbDecoder.stall := false; WbDecoder.dat_r := WbCsrBridge.dat_r b |}
  end.

Definition bridge_inp (h : chw) (cs : cst) (o : WbDecoder.sout) : WbCsrBridge.inp :=
  {| WbCsrBridge.cyc := WbDecoder.o_cyc o; WbCsrBridge.stb := WbDecoder.o_stb o;
     WbCsrBridge.we := WbDecoder.o_we o; WbCsrBridge.adr := WbDecoder.o_adr o;
     WbCsrBridge.sel := WbDecoder.o_sel o; WbCsrBridge.dat_w := WbDecoder.o_dat_w o;
     WbCsrBridge.r_data := c_rdata h cs |}.

Definition csr_bus_of (bo : WbCsrBridge.outp) : CsrDecoder.bus :=
  {| CsrDecoder.addr := WbCsrBridge.o_addr bo; CsrDecoder.r_stb := WbCsrBridge.o_r_stb bo;
     CsrDecoder.w_stb := WbCsrBridge.o_w_stb bo; CsrDecoder.w_data := WbCsrBridge.o_w_data bo |}.

Definition sram_inp (o : WbDecoder.sout) : Sram.inp :=
  {| Sram.cyc := WbDecoder.o_cyc o; Sram.stb := WbDecoder.o_stb o; Sram.we := WbDecoder.o_we o;
     Sram.adr := WbDecoder.o_adr o; Sram.sel := WbDecoder.o_sel o; Sram.dat_w := WbDecoder.o_dat_w o |}.

(* element ports below one subordinate *)
Definition w_leaves (h : whw) (s : wst) (rvals : list Z) (o : WbDecoder.sout) : list lobs :=
  match h, s with
  | HBridge bc ch, SBridge b cs =>
      c_leaves ch cs rvals (csr_bus_of (WbCsrBridge.out bc b (bridge_inp ch cs o)))
  | _, _ => []
  end.

Definition w_next (h : whw) (s : wst) (rvals : list Z) (o : WbDecoder.sout) : wst :=
  match h, s with
  | HSram _ g _, SSram ss => SSram (Sram.next g ss (sram_inp o))
  | HBridge bc ch, SBridge b cs =>
      let i := bridge_inp ch cs o in
      SBridge (WbCsrBridge.next bc b i) (c_next ch cs rvals (csr_bus_of (WbCsrBridge.out bc b i)))
  | _, _ => s
  end.

(* (id, cyc seen by the SRAM, its rows) *)
Definition w_srams (h : whw) (s : wst) (o : WbDecoder.sout) : list (Z * bool * list Z) :=
  match h, s with
  | HSram id _ _, SSram ss => [(id, WbDecoder.o_cyc o, Sram.rows ss)]
  | _, _ => []
  end.

Record wobs := { wo_ack : bool; wo_dat_r : Z; wo_leaves : list lobs; wo_srams : list (Z * bool * list Z) }.

Fixpoint map3 {X Y Z' R} (f : X -> Y -> Z' -> R) (l1 : list X) (l2 : list Y) (l3 : list Z') : list R :=
  match l1, l2, l3 with
  | x :: l1', y :: l2', z :: l3' => f x y z :: map3 f l1' l2' l3'
  | _, _, _ => []
  end.

Definition wb_dec_out (h : wbhw) (ss : list wst) (q : WbDecoder.breq) : WbDecoder.outp :=
  WbDecoder.out (wh_cfg h) {| WbDecoder.in_b := q; WbDecoder.in_s := map wresp ss |}.

Definition wb_out (h : wbhw) (ss : list wst) (q : WbDecoder.breq) (rvals : list Z) : wobs :=
  let o := wb_dec_out h ss q in
  {| wo_ack := WbDecoder.r_ack (WbDecoder.out_b o);
     wo_dat_r := WbDecoder.r_dat_r (WbDecoder.out_b o);
     wo_leaves := concat (map3 (fun hh s so => w_leaves hh s rvals so) (wh_subs h) ss (WbDecoder.out_s o));
     wo_srams := concat (map3 (fun hh s so => w_srams hh s so) (wh_subs h) ss (WbDecoder.out_s o)) |}.

Definition wb_next (h : wbhw) (ss : list wst) (q : WbDecoder.breq) (rvals : list Z) : list wst :=
  map3 (fun hh s so => w_next hh s rvals so) (wh_subs h) ss (WbDecoder.out_s (wb_dec_out h ss q)).

Fixpoint wb_run (h : wbhw) (ss : list wst) (tr : list (WbDecoder.breq * list Z)) : list wobs :=
  match tr with
  | [] => []
  | (q, rv) :: tr' => wb_out h ss q rv :: wb_run h (wb_next h ss q rv) tr'
  end.

Fixpoint csr_run (h : chw) (s : cst) (tr : list (CsrDecoder.bus * list Z)) : list (Z * list lobs) :=
  match tr with
  | [] => []
  | (b, rv) :: tr' => (c_rdata h s, c_leaves h s rv b) :: csr_run h (c_next h s rv b) tr'
  end.

(* ---- routing ---- *)

(* `ga` is an address of the decoder's memory map (granularity units): word ga / 2^gbits, lane
   ga mod 2^gbits, driven with sel = 1 << lane.  Defined for ratio-1 windows (dense between equal
   granularities, or sparse): the subordinate sees the word address truncated to its own width and
   the select lines cut to its own count. *)
Definition wreach (h : wbhw) (ga : Z) : option (Z * Z) :=
  let c := wh_cfg h in
  let gb := WbDecoder.gbits (WbDecoder.c_geom c) in
  let adr := ga / 2 ^ gb in
  let lane := ga mod 2 ^ gb in
  match WbDecoder.selected c adr with
  | None => None
  | Some j =>
      match nth_error (WbDecoder.c_subs c) j, nth_error (wh_subs h) j with
      | Some s, Some hh =>
          let adr' := trunc (WbDecoder.s_aw s) (Z.shiftl adr (Z.log2 (WbDecoder.w_ratio (WbDecoder.s_win s)))) in
          if lane <? WbDecoder.s_dw s / WbDecoder.s_g s then
            match hh with
            | HSram id g _ => Some (id, trunc (Sram.g_aw g) adr' * Sram.nsel g + lane)
            | HBridge bc ch =>
                creach ch (trunc (WbCsrBridge.c_caw bc)
                                 (trunc (WbCsrBridge.c_r bc) lane + adr' * 2 ^ WbCsrBridge.c_r bc))
            end
          else None
      | _, _ => None
      end
  end.

Inductive rhw := RHCsr (h : chw) | RHWb (h : wbhw).

Definition root_hw (r : root) : res rhw :=
  match r with
  | RootCsr c => let! h := csr_hw c in Ok (RHCsr h)
  | RootWb w => let! h := wbroot_hw w in Ok (RHWb h)
  end.

Definition reach (h : rhw) (a : Z) : option (Z * Z) :=
  match h with RHCsr c => creach c a | RHWb w => wreach w a end.
