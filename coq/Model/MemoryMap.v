(* Structure-mirroring model of amaranth_soc/memory.py: _RangeMap, _Namespace, MemoryMap.
   Statement order of every method follows the code: all validation first, then mutation. *)
From Coq Require Import ZArith List Bool.
From Soc Require Import Lib.Res Lib.PyList.
Import ListNotations.
Open Scope Z_scope.

(* ------------------------------------------------------------------ names *)

Inductive part := PStr (atom : Z) | PInt (n : Z).
Definition name := list part.

Definition part_eqb (a b : part) : bool :=
  match a, b with
  | PStr x, PStr y => x =? y
  | PInt x, PInt y => x =? y
  | _, _ => false
  end.

(* raw Python value given as a name *)
Inductive rawpart := RStr (atom : Z) | RInt (n : Z) | ROther.
Inductive rawname := NStr (atom : Z) | NTuple (l : list rawpart) | NOther.

(* atom 0 is the empty string *)
Definition valid_part (p : rawpart) : res part :=
  match p with
  | RStr a => if a =? 0 then Err TypeError else Ok (PStr a)
  | RInt n => if n >=? 0 then Ok (PInt n) else Err TypeError
  | ROther => Err TypeError
  end.

(* MemoryMap.Name.__new__ *)
Definition mk_name (r : rawname) : res name :=
  match r with
  | NOther => Err TypeError
  | NStr a => mapR valid_part [RStr a]
  | NTuple [] => Err TypeError
  | NTuple l => mapR valid_part l
  end.

(* ------------------------------------------------------------------ _Namespace *)

(* the loop `for part_idx, part in enumerate(name)` of is_available, against one reserved name;
   true = conflict.  `rest` is reserved_name[part_idx:], `k` is min(len)-1-part_idx as a nat
   countdown is avoided: the code's test is part_idx == min(len(name), len(reserved)) - 1 *)
Fixpoint conflict_loop (idx : Z) (minlen : Z) (nm rs : list part) : res bool :=
  match nm with
  | [] => Ok false
  | p :: nm' =>
      match rs with
      | [] => Err OtherError                         (* IndexError: reserved_name[part_idx] *)
      | r :: rs' =>
          if negb (part_eqb p r) then Ok false
          else if idx =? minlen - 1 then Ok true
          else conflict_loop (idx + 1) minlen nm' rs'
      end
  end.

Definition conflicts (nm rs : name) : res bool :=
  conflict_loop 0 (Z.min (Z.of_nat (length nm)) (Z.of_nat (length rs))) nm rs.

Definition name_eqb (a b : name) : bool :=
  (Nat.eqb (length a) (length b)) && forallb (fun '(x, y) => part_eqb x y) (combine a b).

Definition name_in (n : name) (l : list name) : bool := existsb (name_eqb n) l.

(* one queried name against the assigned names and the later queried names
   (`self._assignments.keys() | set(names[name_idx + 1:])`) *)
Fixpoint check_reserved (assigned : list name) (nm : name) (reserved : list name) : res bool :=
  match reserved with
  | [] => Ok false
  | r :: reserved' =>
      let! c := conflicts nm r in
      if c then
        (* assert reserved_name in self._assignments *)
        if name_in r assigned
        then (let! c' := check_reserved assigned nm reserved' in Ok true)
        else Err AssertionError
      else check_reserved assigned nm reserved'
  end.

Fixpoint is_available (assigned : list name) (queries : list name) : res bool :=
  match queries with
  | [] => Ok true
  | nm :: rest =>
      let! c := check_reserved assigned nm (assigned ++ rest) in
      let! r := is_available assigned rest in
      Ok (negb c && r)
  end.

(* ------------------------------------------------------------------ _RangeMap *)

Inductive assign := AR (id : Z) | AW (id : Z).
Record entry := { e_start : Z; e_stop : Z; e_step : Z; e_asg : assign }.

Definition starts (l : list entry) := map e_start l.
Definition stops (l : list entry) := map e_stop l.

Definition rm_overlaps (l : list entry) (s e : Z) : list entry :=
  let a := bisect_right (stops l) s in
  let b := bisect_left (starts l) e in
  firstn (b - a) (skipn a l).

Definition rm_insert (l : list entry) (x : entry) : res (list entry) :=
  match rm_overlaps l (e_start x) (e_stop x) with
  | _ :: _ => Err AssertionError
  | [] =>
      let a := bisect_right (starts l) (e_start x) in
      let b := bisect_left (stops l) (e_stop x) in
      if Nat.eqb a b then Ok (insert_at a x l) else Err AssertionError
  end.

Definition rm_get (l : list entry) (p : Z) : option entry :=
  match nth_error l (bisect_right (stops l) p) with
  | Some x => if (e_start x <=? p) && (p <? e_stop x) then Some x else None
  | None => None
  end.

(* ------------------------------------------------------------------ MemoryMap *)

Record resent := { r_id : Z; r_name : name; r_start : Z; r_stop : Z }.
Record winent := { w_id : Z; w_name : option name; w_start : Z; w_stop : Z; w_step : Z }.

Inductive mmap := MM (aw dw al : Z) (ranges : list entry) (ress : list resent)
                     (wins : list (winent * mmap)) (names : list name) (next : Z) (frozen : bool).

Definition m_aw m := match m with MM a _ _ _ _ _ _ _ _ => a end.
Definition m_dw m := match m with MM _ d _ _ _ _ _ _ _ => d end.
Definition m_al m := match m with MM _ _ a _ _ _ _ _ _ => a end.
Definition m_ranges m := match m with MM _ _ _ r _ _ _ _ _ => r end.
Definition m_ress m := match m with MM _ _ _ _ r _ _ _ _ => r end.
Definition m_wins m := match m with MM _ _ _ _ _ w _ _ _ => w end.
Definition m_names m := match m with MM _ _ _ _ _ _ n _ _ => n end.
Definition m_next m := match m with MM _ _ _ _ _ _ _ n _ => n end.
Definition m_frozen m := match m with MM _ _ _ _ _ _ _ _ f => f end.

Definition set_next (m : mmap) (n : Z) : mmap :=
  match m with MM a d l r rs w ns _ f => MM a d l r rs w ns n f end.
Definition set_frozen (m : mmap) : mmap :=
  match m with MM a d l r rs w ns n _ => MM a d l r rs w ns n true end.

Definition posint (v : pyint) : bool := match v with VInt z => 0 <? z | _ => false end.
Definition nonneg (v : pyint) : bool := match v with VInt z => 0 <=? z | _ => false end.
Definition zof (v : pyint) : Z := match v with VInt z => z | _ => 0 end.

(* MemoryMap.__init__ *)
Definition new_map (aw dw al : pyint) : res mmap :=
  let! _ := check (posint aw) ValueError in
  let! _ := check (posint dw) ValueError in
  let! _ := check (nonneg al) ValueError in
  Ok (MM (zof aw) (zof dw) (zof al) [] [] [] [] 0 false).

(* MemoryMap._align_up *)
Definition align_up (value alignment : Z) : Z :=
  if negb (value mod (Z.shiftl 1 alignment) =? 0)
  then value + ((Z.shiftl 1 alignment) - value mod (Z.shiftl 1 alignment))
  else value.

(* MemoryMap.align_to *)
Definition align_to (m : mmap) (a : pyint) : res (mmap * Z) :=
  let! _ := check (nonneg a) ValueError in
  let n := align_up (m_next m) (Z.max (zof a) (m_al m)) in
  Ok (set_next m n, n).

(* MemoryMap._compute_addr_range; returns (start, stop) *)
Definition compute_addr_range (m : mmap) (addr size : pyint) (alignment : Z) : res (Z * Z) :=
  let! a :=
    match addr with
    | VNone => Ok (align_up (m_next m) alignment)
    | _ =>
        let! _ := check (nonneg addr) ValueError in
        let! _ := check (zof addr mod (Z.shiftl 1 (m_al m)) =? 0) ValueError in
        Ok (zof addr)
    end in
  let! _ := check (nonneg size) ValueError in
  let sz := align_up (Z.max (zof size) 1) alignment in
  let! _ := check (negb ((a >? Z.shiftl 1 (m_aw m)) || (a + sz >? Z.shiftl 1 (m_aw m)))) ValueError in
  match rm_overlaps (m_ranges m) a (a + sz) with
  | _ :: _ => Err ValueError
  | [] => Ok (a, a + sz)
  end.

Definition has_res (m : mmap) (id : Z) : bool := existsb (fun r => r_id r =? id) (m_ress m).
Definition has_win (m : mmap) (id : Z) : bool := existsb (fun '(w, _) => w_id w =? id) (m_wins m).

(* MemoryMap.add_resource; is_comp = isinstance(resource, wiring.Component) *)
Definition add_resource (m : mmap) (id : Z) (is_comp : bool) (nm : rawname)
                        (size addr alignment : pyint) : res (mmap * (Z * Z)) :=
  let! _ := check (negb (m_frozen m)) ValueError in
  let! _ := check is_comp TypeError in
  let! _ := check (negb (has_res m id)) ValueError in
  let! n := mk_name nm in
  let! av := is_available (m_names m) [n] in
  let! _ := check av ValueError in
  let! al :=
    match alignment with
    | VNone => Ok (m_al m)
    | _ => let! _ := check (nonneg alignment) ValueError in Ok (Z.max (zof alignment) (m_al m))
    end in
  let! '(s, e) := compute_addr_range m addr size al in
  let! rs := rm_insert (m_ranges m) {| e_start := s; e_stop := e; e_step := 1; e_asg := AR id |} in
  match m with
  | MM a d l _ ress wins names _ f =>
      Ok (MM a d l rs (ress ++ [{| r_id := id; r_name := n; r_start := s; r_stop := e |}])
             wins (names ++ [n]) e f, (s, e))
  end.

(* MemoryMap.add_window; `w` is the window map (already looked up by the caller), `wid` its identity *)
Definition add_window (m : mmap) (wid : Z) (w : mmap) (nm : option rawname)
                      (addr : pyint) (sparse : option bool) : res (mmap * (Z * Z * Z)) :=
  let! _ := check (negb (m_frozen m)) ValueError in
  let! _ := check (negb (has_win m wid)) ValueError in
  let! _ := check (negb (m_dw w >? m_dw m)) ValueError in
  let sp := match sparse with Some true => true | _ => false end in
  let! _ :=
    if negb (m_dw w =? m_dw m) then
      let! _ := check (match sparse with None => false | _ => true end) ValueError in
      check (negb (negb sp && negb (m_dw m mod m_dw w =? 0))) ValueError
    else Ok tt in
  let! n := match nm with None => Ok None | Some r => let! x := mk_name r in Ok (Some x) end in
  let queries := match n with None => m_names w | Some x => [x] end in
  let! av := is_available (m_names m) queries in
  let! _ := check av ValueError in
  let ratio := if negb sp then m_dw m / m_dw w else 1 in
  let! _ := check (Z.land ratio (ratio - 1) =? 0) ValueError in
  let! _ := check (negb (ratio >? Z.shiftl 1 (m_al w))) ValueError in
  let size := Z.shiftl 1 (m_aw w) / ratio in
  let al := Z.max (m_al m) (m_aw w / ratio) in
  let! '(s, e) := compute_addr_range m addr (VInt size) al in
  let w' := set_frozen w in
  let! rs := rm_insert (m_ranges m) {| e_start := s; e_stop := e; e_step := ratio; e_asg := AW wid |} in
  match m with
  | MM a d l _ ress wins names _ f =>
      Ok (MM a d l rs ress
             (wins ++ [({| w_id := wid; w_name := n; w_start := s; w_stop := e; w_step := ratio |}, w')])
             (names ++ queries) e f, (s, e, ratio))
  end.

(* ------------------------------------------------------------------ queries *)

Fixpoint find_res (id : Z) (l : list resent) : option resent :=
  match l with [] => None | r :: l' => if r_id r =? id then Some r else find_res id l' end.

Fixpoint find_win {X} (id : Z) (l : list (winent * X)) : option (winent * X) :=
  match l with [] => None | (w, x) :: l' => if w_id w =? id then Some (w, x) else find_win id l' end.

(* resources(): (id, name, start, stop) in ascending address order *)
Definition resources (m : mmap) : list (Z * name * Z * Z) :=
  flat_map (fun x => match e_asg x with
                     | AR id => match find_res id (m_ress m) with
                                | Some r => [(id, r_name r, e_start x, e_stop x)]
                                | None => [] end
                     | AW _ => [] end) (m_ranges m).

(* windows(): (id, name, start, stop, ratio) *)
Definition windows (m : mmap) : list (Z * option name * Z * Z * Z) :=
  flat_map (fun x => match e_asg x with
                     | AW id => match find_win id (m_wins m) with
                                | Some (w, _) => [(id, w_name w, e_start x, e_stop x, e_step x)]
                                | None => [] end
                     | AR _ => [] end) (m_ranges m).

(* binary digits, MSB first, at least `minw` of them: f"{v:0{minw}b}" for v >= 0 *)
Fixpoint bits_lsb (n : nat) (v : Z) : list Z :=
  match n with O => [] | S n' => (v mod 2) :: bits_lsb n' (v / 2) end.
Definition fmt_bin (v minw : Z) : list Z :=
  let w := Z.max minw (if v =? 0 then 1 else Z.log2 v + 1) in
  rev (bits_lsb (Z.to_nat w) v).

(* window_patterns(): pattern as a list, MSB first, 0/1 constant bits and 2 for '-' *)
Definition window_patterns (m : mmap) : list (Z * list Z * Z) :=
  flat_map (fun x => match e_asg x with
                     | AW id => match find_win id (m_wins m) with
                                | Some (w, child) =>
                                    let const_bits := m_aw m - m_aw child in
                                    let const_pat := if const_bits >? 0
                                                     then fmt_bin (Z.shiftr (e_start x) (m_aw child)) const_bits
                                                     else [] in
                                    [(id, const_pat ++ repeat 2 (Z.to_nat (m_aw child)), e_step x)]
                                | None => [] end
                     | AR _ => [] end) (m_ranges m).

Record info := { i_res : Z; i_path : list name; i_start : Z; i_end : Z; i_width : Z }.

(* ResourceInfo.__init__ validation (TypeError) *)
Definition mk_info (id : Z) (path : list name) (s e w : Z) : res info :=
  let! _ := check (negb (Nat.eqb (length path) 0)) TypeError in
  let! _ := check (0 <=? s) TypeError in
  let! _ := check (s <? e) TypeError in
  let! _ := check (0 <=? w) TypeError in
  Ok {| i_res := id; i_path := path; i_start := s; i_end := e; i_width := w |}.

(* MemoryMap._translate(resource_info, window, window_name, window_range) *)
Definition translate (i : info) (wdw : Z) (wname : option name) (wstart wstep : Z) : res info :=
  let! _ := check ((i_end i - i_start i) mod wstep =? 0) AssertionError in
  let! _ := check (i_start i mod wstep =? 0) AssertionError in
  let! _ := check ((wstep =? 1) || (i_width i =? wdw)) AssertionError in
  let path := match wname with None => i_path i | Some n => n :: i_path i end in
  let size := (i_end i - i_start i) / wstep in
  let start := i_start i / wstep + wstart in
  let width := i_width i * wstep in
  mk_info (i_res i) path start (start + size) width.

Fixpoint concatR {X} (l : list (res (list X))) : res (list X) :=
  match l with
  | [] => Ok []
  | Ok x :: l' => match concatR l' with Ok r => Ok (x ++ r) | Err e => Err e end
  | Err e :: _ => Err e
  end.

(* all_resources() as the list it yields, or the first exception raised while iterating *)
Fixpoint all_resources (m : mmap) : res (list info) :=
  match m with
  | MM aw dw al ranges ress wins names next frozen =>
      let kids := map (fun wc : winent * mmap => (fst wc, m_dw (snd wc), all_resources (snd wc))) wins in
      concatR (map (fun x =>
        match e_asg x with
        | AR id =>
            match find_res id ress with
            | Some r => let! i := mk_info id [r_name r] (e_start x) (e_stop x) dw in Ok [i]
            | None => Err AssertionError
            end
        | AW id =>
            match find (fun k => w_id (fst (fst k)) =? id) kids with
            | Some (w, cdw, sub) =>
                let! l := sub in
                mapR (fun i => translate i cdw (w_name w) (e_start x) (e_step x)) l
            | None => Err AssertionError
            end
        end) ranges)
  end.

(* find_resource(): own resources, then each window in insertion order; KeyError is caught and the
   search goes on, any other exception propagates *)
Fixpoint find_resource (m : mmap) (id : Z) : res info :=
  match m with
  | MM aw dw al ranges ress wins names next frozen =>
      match find_res id ress with
      | Some r => mk_info id [r_name r] (r_start r) (r_stop r) dw
      | None =>
          (fix go (l : list (winent * mmap)) : res info :=
             match l with
             | [] => Err KeyError
             | (w, c) :: l' =>
                 match find_resource c id with
                 | Ok i => translate i (m_dw c) (w_name w) (w_start w) (w_step w)
                 | Err KeyError => go l'
                 | Err e => Err e
                 end
             end) wins
      end
  end.

(* decode_address() *)
Fixpoint decode_address (m : mmap) (a : Z) : option Z :=
  match m with
  | MM aw dw al ranges ress wins names next frozen =>
      let kids := map (fun wc : winent * mmap => (fst wc, fun a' => decode_address (snd wc) a')) wins in
      match rm_get ranges a with
      | None => None
      | Some x =>
          match e_asg x with
          | AR id => Some id
          | AW id =>
              match find (fun k => w_id (fst k) =? id) kids with
              | Some (w, dec) => dec ((a - w_start w) * w_step w)
              | None => None
              end
          end
      end
  end.

(* ------------------------------------------------------------------ histories on a world of maps *)

(* Maps are referred to by their index of creation; a window argument is `None` when the caller
   passes something that is not a MemoryMap. *)
Inductive op :=
| ONew (aw dw al : pyint)
| ORes (m : nat) (id : Z) (is_comp : bool) (nm : rawname) (size addr alignment : pyint)
| OWin (m : nat) (w : option nat) (nm : option rawname) (addr : pyint) (sparse : option bool)
| OAlign (m : nat) (a : pyint)
| OFreeze (m : nat).

Inductive result :=
| RNew (r : res nat)
| RRes (r : res (Z * Z))
| RWin (r : res (Z * Z * Z))
| RAlign (r : res Z)
| RUnit
| RBadIndex.                 (* the harness referred to a map that does not exist: never generated *)

Fixpoint set_nth {X} (n : nat) (x : X) (l : list X) : list X :=
  match n, l with
  | _, [] => []
  | O, _ :: l' => x :: l'
  | S n', y :: l' => y :: set_nth n' x l'
  end.

Definition world := list mmap.

Definition wstep (w : world) (o : op) : world * result :=
  match o with
  | ONew aw dw al =>
      match new_map aw dw al with
      | Ok m => (w ++ [m], RNew (Ok (length w)))
      | Err e => (w, RNew (Err e))
      end
  | ORes mi id comp nm size addr al =>
      match nth_error w mi with
      | Some m =>
          match add_resource m id comp nm size addr al with
          | Ok (m', r) => (set_nth mi m' w, RRes (Ok r))
          | Err e => (w, RRes (Err e))
          end
      | None => (w, RBadIndex)
      end
  | OWin mi wo nm addr sparse =>
      match nth_error w mi with
      | Some m =>
          match wo with
          | None => (w, RWin (Err TypeError))                 (* not a MemoryMap *)
          | Some wi =>
              if Nat.eqb wi mi then (w, RWin (Err OtherError))  (* a map as a window of itself: out of domain *)
              else
              match nth_error w wi with
              | Some wm =>
                  match add_window m (Z.of_nat wi) wm nm addr sparse with
                  | Ok (m', r) => (set_nth wi (set_frozen wm) (set_nth mi m' w), RWin (Ok r))
                  | Err e => (w, RWin (Err e))
                  end
              | None => (w, RBadIndex)
              end
          end
      | None => (w, RBadIndex)
      end
  | OAlign mi a =>
      match nth_error w mi with
      | Some m =>
          match align_to m a with
          | Ok (m', n) => (set_nth mi m' w, RAlign (Ok n))
          | Err e => (w, RAlign (Err e))
          end
      | None => (w, RBadIndex)
      end
  | OFreeze mi =>
      match nth_error w mi with
      | Some m => (set_nth mi (set_frozen m) w, RUnit)
      | None => (w, RBadIndex)
      end
  end.

Definition world_after (ops : list op) : world := fold_left (fun w o => fst (wstep w o)) ops [].

Fixpoint results_from (w : world) (ops : list op) : list result :=
  match ops with
  | [] => []
  | o :: ops' => snd (wstep w o) :: results_from (fst (wstep w o)) ops'
  end.
