(* Structure-mirroring model of csr.Builder (amaranth_soc/csr/reg.py:568-749) on top of the memory-map
   model (Model/MemoryMap.v).  Statement order of every method follows the code. *)
From Coq Require Import ZArith List Bool.
From Soc Require Import Lib.Res Lib.Bits Lib.PyList Model.MemoryMap.
Import ListNotations.
Open Scope Z_scope.

(* a Python value passed where a `str` is expected; atom 0 is the empty string *)
Inductive rawstr := SStr (atom : Z) | SOther.

(* the `reg` argument of Builder.add: a csr.Register (object identity, element.width) or anything else *)
Inductive regarg := RReg (id width : Z) | RNotReg.

(* one value of self._registers: (reg, scope_stack + (name,), offset); the key id(reg) is b_id *)
Record breg := { b_id : Z; b_width : Z; b_name : list part; b_off : option Z }.

Record builder := { bd_aw : Z; bd_dw : Z; bd_gran : Z;
                    bd_regs : list breg;            (* dict, insertion order *)
                    bd_stack : list part;           (* _scope_stack *)
                    bd_frozen : bool }.

Definition set_regs (b : builder) (l : list breg) : builder :=
  {| bd_aw := bd_aw b; bd_dw := bd_dw b; bd_gran := bd_gran b; bd_regs := l;
     bd_stack := bd_stack b; bd_frozen := bd_frozen b |}.
Definition set_stack (b : builder) (s : list part) : builder :=
  {| bd_aw := bd_aw b; bd_dw := bd_dw b; bd_gran := bd_gran b; bd_regs := bd_regs b;
     bd_stack := s; bd_frozen := bd_frozen b |}.

(* Builder.__init__ *)
Definition new_builder (aw dw g : pyint) : res builder :=
  let! _ := check (posint aw) TypeError in
  let! _ := check (posint dw) TypeError in
  let! _ := check (posint g) TypeError in
  let! _ := check (zof dw =? (zof dw / zof g) * zof g) ValueError in
  Ok {| bd_aw := zof aw; bd_dw := zof dw; bd_gran := zof g;
        bd_regs := []; bd_stack := []; bd_frozen := false |}.

(* Builder.freeze *)
Definition bfreeze (b : builder) : builder :=
  {| bd_aw := bd_aw b; bd_dw := bd_dw b; bd_gran := bd_gran b; bd_regs := bd_regs b;
     bd_stack := bd_stack b; bd_frozen := true |}.

(* isinstance(name, str) and name *)
Definition valid_str (s : rawstr) : bool := match s with SStr a => negb (a =? 0) | SOther => false end.
Definition atom_of (s : rawstr) : Z := match s with SStr a => a | SOther => 0 end.

Definition has_reg (b : builder) (id : Z) : bool := existsb (fun x => b_id x =? id) (bd_regs b).

(* Builder.add *)
Definition badd (b : builder) (nm : rawstr) (r : regarg) (off : pyint) : res builder :=
  match r with
  | RNotReg => Err TypeError
  | RReg id w =>
      let! _ := check (negb (bd_frozen b)) ValueError in
      let! _ := check (valid_str nm) TypeError in
      let! o :=
        match off with
        | VNone => Ok None
        | _ =>
            let! _ := check (nonneg off) TypeError in
            let ratio := bd_dw b / bd_gran b in
            let! _ := check (zof off mod ratio =? 0) ValueError in
            Ok (Some (zof off))
        end in
      let! _ := check (negb (has_reg b id)) ValueError in
      Ok (set_regs b (bd_regs b ++ [{| b_id := id; b_width := w;
                                       b_name := bd_stack b ++ [PStr (atom_of nm)];
                                       b_off := o |}]))
  end.

(* the argument of a `with builder.Cluster(name)` / `with builder.Index(index)` block *)
Inductive scopearg := KCluster (nm : rawstr) | KIndex (idx : pyint).

(* the code before `yield`: validate, push *)
Definition enter_scope (b : builder) (k : scopearg) : res (builder * part) :=
  match k with
  | KCluster nm =>
      let! _ := check (valid_str nm) TypeError in
      Ok (set_stack b (bd_stack b ++ [PStr (atom_of nm)]), PStr (atom_of nm))
  | KIndex idx =>
      let! _ := check (nonneg idx) TypeError in
      Ok (set_stack b (bd_stack b ++ [PInt (zof idx)]), PInt (zof idx))
  end.

(* the `finally:` clause: assert self._scope_stack.pop() == name.  The pop happens before the
   comparison; popping an empty list is an IndexError (OtherError). *)
Definition exit_scope (b : builder) (p : part) : builder * res unit :=
  match bd_stack b with
  | [] => (b, Err OtherError)
  | x :: l =>
      (set_stack b (removelast (x :: l)),
       if part_eqb (last (x :: l) p) p then Ok tt else Err AssertionError)
  end.

Definition raw_of_part (p : part) : rawpart := match p with PStr a => RStr a | PInt n => RInt n end.

Definition reg_addr (b : builder) (r : breg) : pyint :=
  match b_off r with
  | Some o => VInt ((o * bd_gran b) / bd_dw b)
  | None => VNone
  end.
Definition reg_size (b : builder) (r : breg) : Z := (b_width r + bd_dw b - 1) / bd_dw b.

(* the loop of as_memory_map *)
Fixpoint add_regs (b : builder) (m : mmap) (l : list breg) : res mmap :=
  match l with
  | [] => Ok m
  | r :: l' =>
      let! '(m', _) := add_resource m (b_id r) true (NTuple (map raw_of_part (b_name r)))
                                    (VInt (reg_size b r)) (reg_addr b r)
                                    (VInt (ceil_log2 (reg_size b r))) in
      add_regs b m' l'
  end.

(* Builder.as_memory_map: the builder is frozen first, whatever happens afterwards *)
Definition as_memory_map (b : builder) : builder * res mmap :=
  let b' := bfreeze b in
  (b', let! m := new_map (VInt (bd_aw b')) (VInt (bd_dw b')) (VInt 0) in
       let! m' := add_regs b' m (bd_regs b') in
       Ok (set_frozen m')).

(* ------------------------------------------------------------------ histories *)

Inductive bop :=
| BAdd (nm : rawstr) (r : regarg) (off : pyint)
| BScope (k : scopearg) (body : list bop)        (* with b.Cluster(..) / b.Index(..): body *)
| BFreeze
| BAsMap.

(* what the caller sees of each call; every call inside a with-block is observed (and any exception
   caught) individually, so a block always runs to its end *)
Inductive bobs :=
| OAdd (r : res unit)
| OScope (enter : res unit) (body : list bobs) (leave : res unit)
| OFrz
| OMap (r : res mmap).

Fixpoint run_op (b : builder) (o : bop) : builder * bobs :=
  match o with
  | BAdd nm r off =>
      match badd b nm r off with
      | Ok b' => (b', OAdd (Ok tt))
      | Err e => (b, OAdd (Err e))
      end
  | BScope k body =>
      match enter_scope b k with
      | Err e => (b, OScope (Err e) [] (Ok tt))          (* the block is not entered *)
      | Ok (b1, p) =>
          let '(b2, obs) :=
            (fix go (b : builder) (l : list bop) : builder * list bobs :=
               match l with
               | [] => (b, [])
               | o' :: l' => let '(b', x) := run_op b o' in
                             let '(b'', xs) := go b' l' in (b'', x :: xs)
               end) b1 body in
          let '(b3, ex) := exit_scope b2 p in
          (b3, OScope (Ok tt) obs ex)
      end
  | BFreeze => (bfreeze b, OFrz)
  | BAsMap => let '(b', r) := as_memory_map b in (b', OMap r)
  end.

Fixpoint run_ops (b : builder) (l : list bop) : builder * list bobs :=
  match l with
  | [] => (b, [])
  | o :: l' => let '(b', x) := run_op b o in
               let '(b'', xs) := run_ops b' l' in (b'', x :: xs)
  end.
