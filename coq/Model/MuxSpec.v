(* Specification vocabulary for C04/C05: well-formed layouts and configurations, positions in a trace. *)
From Coq Require Import ZArith List Bool.
From Soc Require Import Lib.Bits Model.Mux.
Import ListNotations.
Open Scope Z_scope.

(* registers as a memory map reports them: ascending, pairwise disjoint, non-empty, widths >= 0 *)
Fixpoint layout_from (lo : Z) (regs : list reg) : Prop :=
  match regs with
  | [] => True
  | r :: regs' => lo <= r_start r /\ r_start r < r_stop r /\ 0 <= r_width r /\ layout_from (r_stop r) regs'
  end.
Definition wf_layout (regs : list reg) : Prop := layout_from 0 regs.

(* a shadow size is admissible for a set of registers if it is a power of two at least as large as
   every register's (power-of-two) size *)
Definition size_ok (S : Z) (regs : list reg) : Prop :=
  exists s, S = 2 ^ s /\ 0 <= s /\ forall r, In r regs -> ceil_log2 (reg_len r) <= s.

Definition wf_cfg (c : cfg) : Prop :=
  0 < c_dw c /\ wf_layout (c_regs c) /\ size_ok (c_Sr c) (rregs c) /\ size_ok (c_Sw c) (wregs c).

(* the machine state before cycle t of the trace, and the bus read data visible in cycle t *)
Definition st_at (c : cfg) (is : list inp) (t : nat) : st := state_after c (init c) (firstn t is).
Definition rdata_at (c : cfg) (is : list inp) (t : nat) : Z := bus_rdata c (st_at c is t).

(* cycle u of the trace is a read strobe at the first address of some readable register *)
Definition any_first_read (c : cfg) (is : list inp) (u : nat) : Prop :=
  exists i r, nth_error is u = Some i /\ In r (c_regs c) /\ r_rd r = true /\
              i_rstb i = true /\ i_addr i = r_start r.

(* cycle u is a write strobe hitting writable register number k' other than k *)
Definition other_write (c : cfg) (is : list inp) (k : nat) (u : nat) : Prop :=
  exists i k' r', nth_error is u = Some i /\ nth_error (c_regs c) k' = Some r' /\ k' <> k /\
                  r_wr r' = true /\ i_wstb i = true /\ r_start r' <= i_addr i < r_stop r'.

(* value of register number k presented at cycle t0 (element.r_data), as a width-bit pattern *)
Definition rval_at (is : list inp) (t0 k : nat) (width : Z) : Z :=
  match nth_error is t0 with
  | Some i => trunc width (nth k (i_rvals i) 0)
  | None => 0
  end.

(* what a completed write must deliver: chunk j (those that carry data bits) from the write at time tj j *)
Fixpoint assemble (dw width : Z) (data : Z -> Z) (n : nat) : Z :=
  match n with
  | O => 0
  | S n' =>
      let j := Z.of_nat n' in
      let lo := j * dw in
      let hi := Z.min width ((j + 1) * dw) in
      assemble dw width data n' + (if hi <=? lo then 0 else trunc (hi - lo) (data j) * 2 ^ lo)
  end.
