(* Specification vocabulary for the memory-map properties (C02, C03, C18): user-level notions that do
   not mention the implementation's data structures. *)
From Coq Require Import ZArith List Bool.
From Soc Require Import Lib.Res Lib.PyList Model.MemoryMap.
Import ListNotations.
Open Scope Z_scope.

(* worlds that some finite history of API calls produces, starting from nothing *)
Definition reachable (w : world) : Prop := exists ops, w = world_after ops.

(* names: equal, prefix of, or extension of *)
Definition prefix (a b : name) : Prop := exists c, b = a ++ c.
Definition name_conflict (a b : name) : Prop := prefix a b \/ prefix b a.

Fixpoint prefixb (a b : name) : bool :=
  match a, b with
  | [], _ => true
  | _ :: _, [] => false
  | x :: a', y :: b' => part_eqb x y && prefixb a' b'
  end.
Definition name_conflictb (a b : name) : bool := prefixb a b || prefixb b a.

(* r is the least multiple of k that is >= v *)
Definition least_multiple_ge (k v r : Z) : Prop :=
  r mod k = 0 /\ v <= r /\ forall r', r' mod k = 0 -> v <= r' -> r <= r'.

(* a list of (start, stop) pairs in ascending order, pairwise disjoint, each non-empty *)
Fixpoint ascending (lo : Z) (l : list (Z * Z)) : Prop :=
  match l with
  | [] => True
  | (s, e) :: l' => lo <= s /\ s < e /\ ascending e l'
  end.

Definition is_err {X} (r : res X) : bool := match r with Err _ => true | Ok _ => false end.
Definition result_failed (r : result) : bool :=
  match r with
  | RNew r => is_err r | RRes r => is_err r | RWin r => is_err r | RAlign r => is_err r
  | RUnit => false | RBadIndex => true
  end.

(* number of resources in the tree rooted at m *)
Fixpoint tree_count (m : mmap) : nat :=
  match m with
  | MM _ _ _ _ ress wins _ _ _ =>
      (length ress + fold_right (fun wc acc => tree_count (snd wc) + acc) 0 wins)%nat
  end.
