(* Structure-mirroring model of amaranth_soc/event.py:
     part 1  EventMap  (add / index / sources / size / freeze, event.py:102-177) — pure Python API;
     part 2  Monitor.elaborate (event.py:214-238) — synchronous machine.
   The monitor model takes its sources in EventMap.sources() order, as the code does. *)
From Coq Require Import ZArith List Bool.
Import ListNotations.
Open Scope Z_scope.

(* ------------------------------------------------------------------------------------------ *)
(* Part 1: EventMap                                                                            *)
(* ------------------------------------------------------------------------------------------ *)

Inductive exn := ValueError | TypeError | KeyError.

(* An argument handed to add()/index(): a Source object (identity = integer chosen by the
   harness, standing for Python's id(src)) or anything that is not an event.Source. *)
Inductive arg := Src (id : Z) | NotSrc.

(* self._sources: dict id -> (src, index), insertion ordered  =  association list;  self._frozen *)
Record emap := { em_srcs : list (Z * nat); em_frozen : bool }.

Definition em_empty : emap := {| em_srcs := []; em_frozen := false |}.

Fixpoint lookup (id : Z) (l : list (Z * nat)) : option nat :=
  match l with
  | [] => None
  | (i, k) :: l' => if i =? id then Some k else lookup id l'
  end.

Definition em_size (m : emap) : nat := length (em_srcs m).

Definition em_freeze (m : emap) : emap := {| em_srcs := em_srcs m; em_frozen := true |}.

(* add(): frozen is checked FIRST (ValueError), then the isinstance test (TypeError),
   then `if id(src) not in self._sources: self._sources[id(src)] = src, self.size` *)
Definition em_add (m : emap) (a : arg) : emap * option exn :=
  if em_frozen m then (m, Some ValueError)
  else match a with
       | NotSrc => (m, Some TypeError)
       | Src id =>
           match lookup id (em_srcs m) with
           | Some _ => (m, None)
           | None => ({| em_srcs := em_srcs m ++ [(id, em_size m)]; em_frozen := em_frozen m |}, None)
           end
       end.

(* index(): isinstance test (TypeError), then the dict lookup (KeyError) *)
Definition em_index (m : emap) (a : arg) : nat + exn :=
  match a with
  | NotSrc => inr TypeError
  | Src id => match lookup id (em_srcs m) with
              | Some k => inl k
              | None => inr KeyError
              end
  end.

(* sources(): `yield from self._sources.values()` — (src, index) in insertion order *)
Definition em_sources (m : emap) : list (Z * nat) := em_srcs m.

Inductive op := OAdd (a : arg) | OIndex (a : arg) | OFreeze | OSize | OSources.

Inductive result := RNone | RInt (n : nat) | RList (l : list (Z * nat)) | RErr (e : exn).

Definition step (m : emap) (o : op) : emap * result :=
  match o with
  | OAdd a => let (m', e) := em_add m a in
              (m', match e with Some x => RErr x | None => RNone end)
  | OIndex a => (m, match em_index m a with inl k => RInt k | inr x => RErr x end)
  | OFreeze => (em_freeze m, RNone)
  | OSize => (m, RInt (em_size m))
  | OSources => (m, RList (em_sources m))
  end.

(* a call history: final object state and the result of every call *)
Fixpoint run_ops (m : emap) (h : list op) : emap * list result :=
  match h with
  | [] => (m, [])
  | o :: h' => let (m1, r) := step m o in
               let (m2, rs) := run_ops m1 h' in (m2, r :: rs)
  end.

Fixpoint after_from (m : emap) (h : list op) : emap :=
  match h with
  | [] => m
  | o :: h' => after_from (fst (step m o)) h'
  end.

Definition after (h : list op) : emap := after_from em_empty h.

(* ------------------------------------------------------------------------------------------ *)
(* Part 2: Monitor                                                                             *)
(* ------------------------------------------------------------------------------------------ *)

Inductive mode := Level | Rise | Fall.

(* one entry of `for sub, index in self.src.event_map.sources()` together with sub.trigger *)
Record msrc := { s_id : Z; s_idx : nat; s_mode : mode }.

(* configuration = the entries in sources() order; width of enable/pending/clear = their number *)
Definition mcfg := list msrc.

Definition monitor_cfg (m : emap) (md : Z -> mode) : mcfg :=
  map (fun p => {| s_id := fst p; s_idx := snd p; s_mode := md (fst p) |}) (em_sources m).

Definition width (c : mcfg) : nat := length c.

(* state: sub_i_r per source in sources() order (the register exists for edge modes only; a level
   source has none and the model keeps false there), and the pending register *)
Record mstate := { st_prev : list bool; st_pending : Z }.

(* inputs of one cycle: every source's `i` (looked up by the source's identity), enable, clear *)
Record minp := { in_i : Z -> bool; in_enable : Z; in_clear : Z }.

Record mout := { o_trg : list bool; o_pending : Z; o_irq : bool }.

Definition init (c : mcfg) : mstate := {| st_prev := map (fun _ => false) c; st_pending := 0 |}.

(* the comb assignment to sub.trg, by trigger mode *)
Definition trg_of (md : mode) (prev i : bool) : bool :=
  match md with
  | Level => i
  | Rise => negb prev && i
  | Fall => prev && negb i
  end.

Definition trg1 (i : minp) (sp : msrc * bool) : bool :=
  trg_of (s_mode (fst sp)) (snd sp) (in_i i (s_id (fst sp))).

Definition trgs (c : mcfg) (s : mstate) (i : minp) : list bool :=
  map (trg1 i) (combine c (st_prev s)).

(* m.d.sync += sub_i_r.eq(sub.i), only `if sub.trigger != LEVEL` *)
Definition prev1 (i : minp) (sub : msrc) : bool :=
  match s_mode sub with
  | Level => false
  | _ => in_i i (s_id sub)
  end.

(* with m.If(sub.trg): pending[index] = 1 / with m.Elif(clear[index]): pending[index] = 0.
   One such statement per source in program order; a later assignment to the same bit would win. *)
Definition pend1 (i : minp) (acc : Z) (sp : msrc * bool) : Z :=
  let k := Z.of_nat (s_idx (fst sp)) in
  if trg1 i sp then Z.setbit acc k
  else if Z.testbit (in_clear i) k then Z.clearbit acc k
  else acc.

Definition next_pending (c : mcfg) (s : mstate) (i : minp) : Z :=
  fold_left (pend1 i) (combine c (st_prev s)) (st_pending s).

(* src.i = (enable & pending).any() *)
Definition irq (enable pending : Z) : bool := negb (Z.land enable pending =? 0).

Definition out (c : mcfg) (s : mstate) (i : minp) : mout :=
  {| o_trg := trgs c s i; o_pending := st_pending s; o_irq := irq (in_enable i) (st_pending s) |}.

Definition next (c : mcfg) (s : mstate) (i : minp) : mstate :=
  {| st_prev := map (prev1 i) c; st_pending := next_pending c s i |}.

Fixpoint run (c : mcfg) (s : mstate) (is : list minp) : list mout :=
  match is with
  | [] => []
  | i :: is' => out c s i :: run c (next c s i) is'
  end.

Fixpoint state_after (c : mcfg) (s : mstate) (is : list minp) : mstate :=
  match is with
  | [] => s
  | i :: is' => state_after c (next c s i) is'
  end.
