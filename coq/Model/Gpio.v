(* Structure-mirroring model of gpio.Peripheral (amaranth_soc/gpio.py), as the composition of
     - Peripheral.__init__ (gpio.py:267-290): argument validation, csr.Builder(addr_width, data_width)
       (csr/reg.py:594-604), the four registers Mode / Input / Output / SetClr and
       Builder.as_memory_map (csr/reg.py:737-749) placing them through MemoryMap.add_resource with
       alignment = ceil_log2(size) on implicit addresses (memory.py:276-292);
     - csr.Bridge = csr.Multiplexer over that map (Model/Mux.v, reused as is) + the registers;
     - csr.Register.elaborate (csr/reg.py:538-565): every field port receives the element strobes and
       its own slice of element.w_data, element.r_data is the concatenation of the field values;
     - the field actions: action.RW for Mode (Model/Actions.v, reused), action.R for Input,
       Output._FieldAction (gpio.py:176-189) for Output, action.W for SetClr.pin[n].set/clr;
     - Peripheral.elaborate (gpio.py:313-357): synchroniser chain, set/clr decode, per-mode Switch.
   No proofs here. *)
From Coq Require Import ZArith List Bool.
From Soc Require Import Lib.Bits Lib.Res.
From Soc Require Model.MemoryMap Model.Actions Model.Mux.
Import ListNotations.
Open Scope Z_scope.

(* ------------------------------------------------------------------ constructor *)

(* Peripheral(pin_count=, addr_width=, data_width=, input_stages=): each may be an int, None, or
   something that is not an int at all *)
Record params := { p_pins : pyint; p_aw : pyint; p_dw : pyint; p_stages : pyint }.

Definition posint (v : pyint) : bool := match v with VInt z => 0 <? z | _ => false end.
Definition nonneg (v : pyint) : bool := match v with VInt z => 0 <=? z | _ => false end.
Definition zof (v : pyint) : Z := match v with VInt z => z | _ => 0 end.

(* element width and (readable, writable) of Mode, Input, Output, SetClr, in the order they are added:
   pin_count fields of 2 bits (PinMode) / 1 bit / 1 bit / 2 x 1 bit {set, clr} *)
Definition reg_specs (n : Z) : list (Z * (bool * bool)) :=
  [ (2 * n, (true, true)); (n, (true, false)); (n, (true, true)); (2 * n, (false, true)) ].

(* Builder.as_memory_map: for each register, in insertion order,
     reg_size = (width + data_width - 1) // data_width
     add_resource(reg, addr=None, size=reg_size, alignment=ceil_log2(reg_size))
   and _compute_addr_range: addr = align_up(next_addr, alignment); size = align_up(max(size,1), alignment);
   ValueError when addr > 2**aw or addr + size > 2**aw.  (Implicit addresses only grow, so the
   overlap test cannot fire; the four names are distinct strings, so the namespace test cannot.) *)
Fixpoint place (aw dw cur : Z) (specs : list (Z * (bool * bool))) : res (list Mux.reg) :=
  match specs with
  | [] => Ok []
  | (w, (rd, wr)) :: specs' =>
      let reg_size := (w + dw - 1) / dw in
      let al := ceil_log2 reg_size in
      let a := MemoryMap.align_up cur al in
      let sz := MemoryMap.align_up (Z.max reg_size 1) al in
      if (a >? Z.shiftl 1 aw) || (a + sz >? Z.shiftl 1 aw) then Err ValueError
      else match place aw dw (a + sz) specs' with
           | Ok l => Ok ({| Mux.r_start := a; Mux.r_stop := a + sz; Mux.r_width := w;
                            Mux.r_rd := rd; Mux.r_wr := wr |} :: l)
           | Err e => Err e
           end
  end.

Record cfg := { g_pins : nat;          (* pin_count *)
                g_stages : nat;        (* input_stages *)
                g_aw : Z; g_dw : Z;
                g_mux : Mux.cfg }.     (* the Bridge's multiplexer: data width, the four registers, shadow sizes *)

Definition ctor (p : params) : res cfg :=
  if negb (posint (p_pins p)) then Err TypeError            (* gpio.py:268 *)
  else if negb (nonneg (p_stages p)) then Err TypeError     (* gpio.py:270 *)
  else if negb (posint (p_aw p)) then Err TypeError         (* csr/reg.py:595 *)
  else if negb (posint (p_dw p)) then Err TypeError         (* csr/reg.py:597 *)
  else
    let dw := zof (p_dw p) in
    if negb (dw =? (dw / 8) * 8) then Err ValueError        (* csr/reg.py:602, granularity = 8 *)
    else
      match place (zof (p_aw p)) dw 0 (reg_specs (zof (p_pins p))) with
      | Err e => Err e
      | Ok regs =>
          match Mux.mk_cfg dw regs None with                (* csr.Bridge: Multiplexer(memory_map) *)
          | Some mc => Ok {| g_pins := Z.to_nat (zof (p_pins p)); g_stages := Z.to_nat (zof (p_stages p));
                             g_aw := zof (p_aw p); g_dw := dw; g_mux := mc |}
          | None => Err OtherError                          (* unreachable: Proofs/Gpio.v, ctor_never_other *)
          end
      end.

(* ------------------------------------------------------------------ one pin *)

(* state of pin n: its Mode field storage, its Output field storage, its synchroniser flops
   pin_<n>_i_sync_ff_0 .. ff_<stages-1> (stage 0 first) *)
Record pin_st := { ps_mode : Z; ps_out : bool; ps_ffs : list bool }.

(* everything pin n's logic reads in one cycle: pin.i and the ports of its own five fields *)
Record pin_in := { pi_i : bool;
                   pi_mode_wstb : bool; pi_mode_wdata : Z;       (* Mode.f.pin[n].port *)
                   pi_out_wstb : bool;  pi_out_wdata : bool;     (* Output.f.pin[n].port *)
                   pi_set_wstb : bool;  pi_set_wdata : bool;     (* SetClr.f.pin[n].set (action.W: w_stb, w_data) *)
                   pi_clr_wstb : bool;  pi_clr_wdata : bool }.   (* SetClr.f.pin[n].clr *)

(* gpio.py:320-327: stage 0 samples pin.i, stage k samples stage k-1; the Input field reads the last
   stage, or pin.i itself when there is no stage *)
Definition sync_out (ffs : list bool) (i : bool) : bool := last ffs i.
Definition sync_next (ffs : list bool) (i : bool) : list bool :=
  match ffs with [] => [] | _ :: _ => i :: removelast ffs end.

(* gpio.py:329-332: two independent comb Ifs; an undriven comb signal reads its reset value 0 *)
Definition out_set (pi : pin_in) : bool := if pi_set_wstb pi && pi_set_wdata pi then true else false.
Definition out_clr (pi : pin_in) : bool := if pi_clr_wstb pi && pi_clr_wdata pi then true else false.

(* Output._FieldAction.elaborate, gpio.py:179-182:
     If(set != clr): storage.eq(set)   Elif(port.w_stb): storage.eq(port.w_data) *)
Definition outbit_next (storage set clr w_stb w_data : bool) : bool :=
  if xorb set clr then set else if w_stb then w_data else storage.

(* Mode.f.pin[n] = csr.Field(action.RW, PinMode): a 2-bit RW action with reset value 0 *)
Definition mode_cfg : Actions.cfg := {| Actions.c_kind := Actions.KRW; Actions.c_w := 2; Actions.c_init := 0 |}.
Definition mode_next (storage : Z) (w_stb : bool) (w_data : Z) : Z :=
  Actions.next mode_cfg storage
    {| Actions.p_r_stb := false; Actions.p_w_stb := w_stb; Actions.p_w_data := w_data;
       Actions.in_r_data := 0; Actions.in_set := 0; Actions.in_clear := 0 |}.

Definition pin_init (stages : nat) : pin_st :=
  {| ps_mode := Actions.init_state mode_cfg; ps_out := false; ps_ffs := repeat false stages |}.

Definition pin_next (s : pin_st) (pi : pin_in) : pin_st :=
  {| ps_mode := mode_next (ps_mode s) (pi_mode_wstb pi) (pi_mode_wdata pi);
     ps_out := outbit_next (ps_out s) (out_set pi) (out_clr pi) (pi_out_wstb pi) (pi_out_wdata pi);
     ps_ffs := sync_next (ps_ffs s) (pi_i pi) |}.

(* gpio.py:334-355: Switch over the Mode field, first matching Case; pin.o, pin.oe and alt_mode[n]
   are comb signals with reset value 0 *)
Record pin_out := { po_o : bool; po_oe : bool; po_alt : bool }.
Definition pin_outputs (mode : Z) (data : bool) : pin_out :=
  if mode =? 0 then {| po_o := data; po_oe := false; po_alt := false |}              (* INPUT_ONLY *)
  else if mode =? 1 then {| po_o := data; po_oe := true; po_alt := false |}          (* PUSH_PULL *)
  else if mode =? 2 then {| po_o := false; po_oe := negb data; po_alt := false |}    (* OPEN_DRAIN *)
  else if mode =? 3 then {| po_o := data; po_oe := false; po_alt := true |}          (* ALTERNATE *)
  else {| po_o := false; po_oe := false; po_alt := false |}.

(* what the Input field of the pin presents this cycle (action.R: port.r_data = r_data) *)
Definition pin_input (s : pin_st) (i : bool) : bool := sync_out (ps_ffs s) i.

(* ------------------------------------------------------------------ the registers (element level) *)

(* element-side view of one cycle: the write strobes and data the multiplexer presents to the three
   writable registers, and the pin levels (bit n = pins[n].i) *)
Record elem_in := { e_mode_wstb : bool; e_mode_wdata : Z;
                    e_out_wstb : bool;  e_out_wdata : Z;
                    e_sc_wstb : bool;   e_sc_wdata : Z;
                    e_pins : Z }.

(* Register.elaborate: field number n of Mode sits at bits [2n, 2n+2), of Output at bit n, and
   SetClr.pin[n] = {set, clr} flattens to set at bit 2n, clr at bit 2n+1; every writable field port
   gets element.w_stb *)
Definition pin_slice (e : elem_in) (n : nat) : pin_in :=
  let k := Z.of_nat n in
  {| pi_i := Z.testbit (e_pins e) k;
     pi_mode_wstb := e_mode_wstb e; pi_mode_wdata := slice (2 * k) 2 (e_mode_wdata e);
     pi_out_wstb := e_out_wstb e;   pi_out_wdata := Z.testbit (e_out_wdata e) k;
     pi_set_wstb := e_sc_wstb e;    pi_set_wdata := Z.testbit (e_sc_wdata e) (2 * k);
     pi_clr_wstb := e_sc_wstb e;    pi_clr_wdata := Z.testbit (e_sc_wdata e) (2 * k + 1) |}.

Definition core_st := list pin_st.      (* pin 0 first *)

Definition core_init (n stages : nat) : core_st := repeat (pin_init stages) n.

(* the `for n, pin in enumerate(self.pins)` loop; k = index of the head of the list *)
Fixpoint core_next_from (k : nat) (s : core_st) (e : elem_in) : core_st :=
  match s with
  | [] => []
  | ps :: s' => pin_next ps (pin_slice e k) :: core_next_from (S k) s' e
  end.
Definition core_next (s : core_st) (e : elem_in) : core_st := core_next_from 0 s e.

(* element.r_data of a register whose fields all have width w: field 0 in the low bits *)
Fixpoint pack (w : Z) (vals : list Z) : Z :=
  match vals with
  | [] => 0
  | v :: vs => trunc w v + 2 ^ w * pack w vs
  end.

Fixpoint input_bits_from (k : nat) (s : core_st) (pins : Z) : list bool :=
  match s with
  | [] => []
  | ps :: s' => pin_input ps (Z.testbit pins (Z.of_nat k)) :: input_bits_from (S k) s' pins
  end.

Definition mode_val (s : core_st) : Z := pack 2 (map ps_mode s).
Definition input_val (s : core_st) (pins : Z) : Z := pack 1 (map Z.b2z (input_bits_from 0 s pins)).
Definition output_val (s : core_st) : Z := pack 1 (map (fun ps => Z.b2z (ps_out ps)) s).

(* ------------------------------------------------------------------ the peripheral *)

Record bus_in := { b_addr : Z; b_rstb : bool; b_wstb : bool; b_wdata : Z;   (* csr bus *)
                   b_pins : Z }.                                           (* bit n = pins[n].i *)

Record st := { s_mux : Mux.st; s_core : core_st }.

Definition init (c : cfg) : st :=
  {| s_mux := Mux.init (g_mux c); s_core := core_init (g_pins c) (g_stages c) |}.

(* what the bridge's multiplexer sees: the bus, and element.r_data of Mode, Input, Output (SetClr is
   write-only) *)
Definition mux_in (s : st) (b : bus_in) : Mux.inp :=
  {| Mux.i_addr := b_addr b; Mux.i_rstb := b_rstb b; Mux.i_wstb := b_wstb b; Mux.i_wdata := b_wdata b;
     Mux.i_rvals := [mode_val (s_core s); input_val (s_core s) (b_pins b); output_val (s_core s); 0] |}.

(* registers 0..3 of the multiplexer are Mode, Input, Output, SetClr *)
Definition elem_of (c : cfg) (s : st) (b : bus_in) : elem_in :=
  let mo := Mux.out (g_mux c) (s_mux s) (mux_in s b) in
  {| e_mode_wstb := nth 0 (Mux.o_wstb mo) false; e_mode_wdata := nth 0 (Mux.o_wdata mo) 0;
     e_out_wstb := nth 2 (Mux.o_wstb mo) false;  e_out_wdata := nth 2 (Mux.o_wdata mo) 0;
     e_sc_wstb := nth 3 (Mux.o_wstb mo) false;   e_sc_wdata := nth 3 (Mux.o_wdata mo) 0;
     e_pins := b_pins b |}.

Definition next (c : cfg) (s : st) (b : bus_in) : st :=
  {| s_mux := Mux.next (g_mux c) (s_mux s) (mux_in s b);
     s_core := core_next (s_core s) (elem_of c s b) |}.

Record outp := { o_rdata : Z; o_pins : list pin_out }.

Definition core_out (s : core_st) : list pin_out := map (fun ps => pin_outputs (ps_mode ps) (ps_out ps)) s.

Definition out (c : cfg) (s : st) (b : bus_in) : outp :=
  {| o_rdata := Mux.bus_rdata (g_mux c) (s_mux s); o_pins := core_out (s_core s) |}.

Fixpoint run (c : cfg) (s : st) (bs : list bus_in) : list outp :=
  match bs with
  | [] => []
  | b :: bs' => out c s b :: run c (next c s b) bs'
  end.

Fixpoint state_after (c : cfg) (s : st) (bs : list bus_in) : st :=
  match bs with
  | [] => s
  | b :: bs' => state_after c (next c s b) bs'
  end.

(* the element-level core on its own (no bus): used by the all-traces theorems *)
Fixpoint core_after (s : core_st) (es : list elem_in) : core_st :=
  match es with
  | [] => s
  | e :: es' => core_after (core_next s e) es'
  end.

(* ------------------------------------------------------------------ the Output register on its own *)

(* Peripheral.Output(pin_count) instantiated by itself: the register's element is driven directly and every
   field's set / clr inputs are free (inside the peripheral they come from SetClr; there, the multiplexer never
   raises SetClr's and Output's write strobes in the same cycle, so this is the only place where the priority
   of Output._FieldAction's If / Elif shows).  Bit k of q_set / q_clr = f.pin[k].set / .clr. *)
Record oreg_in := { q_wstb : bool; q_wdata : Z; q_set : Z; q_clr : Z }.

Fixpoint oreg_next_from (k : nat) (s : list bool) (i : oreg_in) : list bool :=
  match s with
  | [] => []
  | b :: s' =>
      outbit_next b (Z.testbit (q_set i) (Z.of_nat k)) (Z.testbit (q_clr i) (Z.of_nat k))
                  (q_wstb i) (Z.testbit (q_wdata i) (Z.of_nat k))
        :: oreg_next_from (S k) s' i
  end.
Definition oreg_next (s : list bool) (i : oreg_in) : list bool := oreg_next_from 0 s i.

(* element.r_data (also each field's `data`) *)
Definition oreg_val (s : list bool) : Z := pack 1 (map Z.b2z s).

Fixpoint oreg_run (s : list bool) (is : list oreg_in) : list (Z * list bool) :=
  match is with
  | [] => []
  | i :: is' => (oreg_val s, s) :: oreg_run (oreg_next s i) is'
  end.
