(* C20 — signatures, port declarations and wiring.connect.

   Mirrors
     amaranth_soc/csr/bus.py      Element.Signature (43-102), Signature (166-212),
                                  Multiplexer.__init__ (505-514), Decoder.__init__ (638-642)
     amaranth_soc/csr/reg.py      FieldPort.Signature (56-99), Bridge.__init__ (774-790)
     amaranth_soc/wishbone/bus.py Signature (104-180), Decoder.__init__ (283-292), Arbiter.__init__ (414-417)
     amaranth_soc/event.py        Source.Signature (31-58), Monitor.__init__ (203-212)
     amaranth_soc/csr/event.py    EventMonitor.__init__ (54-77)
     amaranth_soc/gpio.py         PinSignature (43-67), Peripheral.__init__ (260-281)
     amaranth_soc/csr/wishbone.py WishboneCSRBridge.__init__ (40-59)
     amaranth_soc/wishbone/sram.py WishboneSRAM.__init__ (43-75)
   and, from Amaranth 0.5.10 (used as given), amaranth/lib/wiring.py: Signature.flip / FlippedSignature,
   Member.signature of an In member, Component attribute creation, and the checks of connect().
   No proofs here. *)
From Coq Require Import ZArith List Bool.
From Soc Require Import Lib.Bits.
Import ListNotations.
Open Scope Z_scope.

(* ---------------------------------------------------------------- flows, names, members *)

Inductive flow := FIn | FOut.
Definition flip_flow (f : flow) : flow := match f with FIn => FOut | FOut => FIn end.

(* Every member name used by the modelled signature classes.  The constructors are listed in
   Python's string order (code point order, '_' < 'a'), which is the order connect() walks
   `sorted(signature.members.flatten())` in; name_code is that rank. *)
Inductive mname :=
  Nack | Naddr | Nadr | Nbte | Ncti | Ncyc | Ndat_r | Ndat_w | Nerr | Ni | Nlock | No | Noe
| Nr_data | Nr_stb | Nrty | Nsel | Nstall | Nstb | Ntrg | Nw_data | Nw_stb | Nwe.

Definition name_code (n : mname) : Z :=
  match n with
  | Nack => 0 | Naddr => 1 | Nadr => 2 | Nbte => 3 | Ncti => 4 | Ncyc => 5 | Ndat_r => 6
  | Ndat_w => 7 | Nerr => 8 | Ni => 9 | Nlock => 10 | No => 11 | Noe => 12 | Nr_data => 13
  | Nr_stb => 14 | Nrty => 15 | Nsel => 16 | Nstall => 17 | Nstb => 18 | Ntrg => 19
  | Nw_data => 20 | Nw_stb => 21 | Nwe => 22
  end.

Definition path := list mname.

(* one flattened port member: (path, flow, Shape.cast(shape).width, Shape.cast(shape).signed) *)
Record member := { m_path : path; m_flow : flow; m_width : Z; m_signed : bool }.

Definition mem (n : mname) (f : flow) (w : Z) : member :=
  {| m_path := [n]; m_flow := f; m_width := w; m_signed := false |}.
Definition mem_s (n : mname) (f : flow) (w : Z) (s : bool) : member :=
  {| m_path := [n]; m_flow := f; m_width := w; m_signed := s |}.

Definition flip_member (m : member) : member :=
  {| m_path := m_path m; m_flow := flip_flow (m_flow m); m_width := m_width m; m_signed := m_signed m |}.
Definition flip_members (l : list member) : list member := map flip_member l.

(* ---------------------------------------------------------------- Python results *)

Inductive exn := ValueError | TypeError.
Inductive res (X : Type) := Ok (x : X) | Err (e : exn).
Arguments Ok {X} x.
Arguments Err {X} e.

Definition bind {X Y} (r : res X) (k : X -> res Y) : res Y :=
  match r with Ok x => k x | Err e => Err e end.
Notation "'let?' x := e 'in' k" := (bind e (fun x => k)) (at level 200, x pattern, e at level 100, k at level 200).

(* ---------------------------------------------------------------- parameters of the signature classes *)

Inductive access := AccR | AccW | AccRW.                 (* csr.Element.Access *)
Inductive faccess := FAccR | FAccW | FAccRW | FAccNC.    (* csr.FieldPort.Access *)
Inductive trigger := TLevel | TRise | TFall.             (* event.Source.Trigger *)

Definition readable (a : access) : bool := match a with AccR | AccRW => true | AccW => false end.
Definition writable (a : access) : bool := match a with AccW | AccRW => true | AccR => false end.

(* wishbone.Feature as a set: one boolean per enumeration value *)
Record features := { ft_err : bool; ft_rty : bool; ft_stall : bool; ft_lock : bool; ft_cti : bool; ft_bte : bool }.
Definition no_features : features :=
  {| ft_err := false; ft_rty := false; ft_stall := false; ft_lock := false; ft_cti := false; ft_bte := false |}.

Record csr_params := { c_addr_width : Z; c_data_width : Z }.
Record elem_params := { e_width : Z; e_access : access }.
Record field_params := { fp_width : Z; fp_signed : bool; fp_access : faccess }.   (* shape = Shape.cast(arg) *)
Record wb_params := { w_addr_width : Z; w_data_width : Z; w_granularity : Z; w_features : features }.

(* A signature object = its class and the attributes its constructor stored. *)
Inductive sig :=
| SCsr (p : csr_params)        (* csr.Signature *)
| SElem (p : elem_params)      (* csr.Element.Signature *)
| SField (p : field_params)    (* csr.FieldPort.Signature *)
| SWb (p : wb_params)          (* wishbone.Signature *)
| SSrc (t : trigger)           (* event.Source.Signature *)
| SPin.                        (* gpio.PinSignature *)

(* ---------------------------------------------------------------- members, in insertion order *)

Definition opt (b : bool) (l : list member) : list member := if b then l else [].

(* widths of the two enum-shaped members: CycleType has shape 3 bits, BurstTypeExt 2 bits *)
Definition cti_width : Z := 3.
Definition bte_width : Z := 2.

Definition members (s : sig) : list member :=
  match s with
  | SCsr p =>
      [ mem Naddr FOut (c_addr_width p); mem Nr_data FIn (c_data_width p); mem Nr_stb FOut 1;
        mem Nw_data FOut (c_data_width p); mem Nw_stb FOut 1 ]
  | SElem p =>
      opt (readable (e_access p)) [ mem Nr_data FIn (e_width p); mem Nr_stb FOut 1 ] ++
      opt (writable (e_access p)) [ mem Nw_data FOut (e_width p); mem Nw_stb FOut 1 ]
  | SField p =>
      [ mem_s Nr_data FIn (fp_width p) (fp_signed p); mem Nr_stb FOut 1;
        mem_s Nw_data FOut (fp_width p) (fp_signed p); mem Nw_stb FOut 1 ]
  | SWb p =>
      let f := w_features p in
      [ mem Nadr FOut (w_addr_width p); mem Ndat_w FOut (w_data_width p); mem Ndat_r FIn (w_data_width p);
        mem Nsel FOut (w_data_width p / w_granularity p);
        mem Ncyc FOut 1; mem Nstb FOut 1; mem Nwe FOut 1; mem Nack FIn 1 ] ++
      opt (ft_err f) [ mem Nerr FIn 1 ] ++ opt (ft_rty f) [ mem Nrty FIn 1 ] ++
      opt (ft_stall f) [ mem Nstall FIn 1 ] ++ opt (ft_lock f) [ mem Nlock FOut 1 ] ++
      opt (ft_cti f) [ mem Ncti FOut cti_width ] ++ opt (ft_bte f) [ mem Nbte FOut bte_width ]
  | SSrc _ => [ mem Ni FOut 1; mem Ntrg FIn 1 ]
  | SPin => [ mem Ni FIn 1; mem No FOut 1; mem Noe FOut 1 ]
  end.

(* ---------------------------------------------------------------- constructors (validation order as coded) *)

Definition wb_width_ok (w : Z) : bool := (w =? 8) || (w =? 16) || (w =? 32) || (w =? 64).

(* csr.Signature(addr_width=, data_width=) *)
Definition mk_csr (aw dw : Z) : res sig :=
  if aw <=? 0 then Err TypeError
  else if dw <=? 0 then Err TypeError
  else Ok (SCsr {| c_addr_width := aw; c_data_width := dw |}).

(* csr.Element.Signature(width, access); access = None stands for a value Element.Access() rejects *)
Definition mk_elem (w : Z) (a : option access) : res sig :=
  if w <? 0 then Err TypeError
  else match a with
       | None => Err ValueError
       | Some a' => Ok (SElem {| e_width := w; e_access := a' |})
       end.

(* What the caller passed as `shape`:
   an int, any other shape-like object together with what Amaranth's Shape.cast makes of it
   (Shape, range, enum ...; Shape.cast is used as given), or an object that is not shape-like. *)
Inductive shapelike := SLInt (n : Z) | SLCast (w : Z) (s : bool) | SLBad.

(* csr.FieldPort.Signature(shape, access) *)
Definition mk_field (sl : shapelike) (a : option faccess) : res sig :=
  match (match sl with
         | SLInt n => if n <? 0 then None else Some (n, false)   (* isinstance(-1, ShapeLike) is False *)
         | SLCast w s => Some (w, s)
         | SLBad => None
         end) with
  | None => Err TypeError
  | Some (w, s) =>
      match a with
      | None => Err ValueError
      | Some a' => Ok (SField {| fp_width := w; fp_signed := s; fp_access := a' |})
      end
  end.

(* wishbone.Signature(addr_width=, data_width=, granularity=None, features=...);
   bad_feature: the iterable contains something Feature() rejects *)
Definition mk_wb (aw dw : Z) (gran : option Z) (f : features) (bad_feature : bool) : res sig :=
  let g := match gran with None => dw | Some g => g end in
  if aw <? 0 then Err TypeError
  else if negb (wb_width_ok dw) then Err ValueError
  else if negb (wb_width_ok g) then Err ValueError
  else if dw <? g then Err ValueError
  else if bad_feature then Err ValueError
  else Ok (SWb {| w_addr_width := aw; w_data_width := dw; w_granularity := g; w_features := f |}).

(* event.Source.Signature(trigger=) *)
Definition mk_src (t : option trigger) : res sig :=
  match t with None => Err ValueError | Some t' => Ok (SSrc t') end.

(* gpio.PinSignature() *)
Definition mk_pin : res sig := Ok SPin.

Inductive sigargs :=
| ACsr (aw dw : Z) | AElem (w : Z) (a : option access) | AField (sl : shapelike) (a : option faccess)
| AWb (aw dw : Z) (g : option Z) (f : features) (bad : bool) | ASrc (t : option trigger) | APin.

Definition construct (a : sigargs) : res sig :=
  match a with
  | ACsr aw dw => mk_csr aw dw
  | AElem w a => mk_elem w a
  | AField sl a => mk_field sl a
  | AWb aw dw g f bad => mk_wb aw dw g f bad
  | ASrc t => mk_src t
  | APin => mk_pin
  end.

(* ---------------------------------------------------------------- create(): the signature of the created interface *)

Definition create (s : sig) : res sig :=
  match s with
  | SCsr p => mk_csr (c_addr_width p) (c_data_width p)                (* Interface(addr_width=, data_width=) *)
  | SElem p => mk_elem (e_width p) (Some (e_access p))                (* Element(width, access) *)
  | SField _ => Ok s                                                  (* FieldPort(self): same object *)
  | SWb p => mk_wb (w_addr_width p) (w_data_width p) (Some (w_granularity p)) (w_features p) false
  | SSrc t => mk_src (Some t)                                         (* Source(trigger=self.trigger) *)
  | SPin => Ok s                                                      (* inherited: PureInterface(self) *)
  end.

(* ---------------------------------------------------------------- __eq__ as coded *)

Definition access_eqb (a b : access) : bool :=
  match a, b with AccR, AccR | AccW, AccW | AccRW, AccRW => true | _, _ => false end.
Definition faccess_eqb (a b : faccess) : bool :=
  match a, b with FAccR, FAccR | FAccW, FAccW | FAccRW, FAccRW | FAccNC, FAccNC => true | _, _ => false end.
Definition trigger_eqb (a b : trigger) : bool :=
  match a, b with TLevel, TLevel | TRise, TRise | TFall, TFall => true | _, _ => false end.
Definition features_eqb (a b : features) : bool :=
  Bool.eqb (ft_err a) (ft_err b) && Bool.eqb (ft_rty a) (ft_rty b) && Bool.eqb (ft_stall a) (ft_stall b) &&
  Bool.eqb (ft_lock a) (ft_lock b) && Bool.eqb (ft_cti a) (ft_cti b) && Bool.eqb (ft_bte a) (ft_bte b).

(* isinstance(other, <same class>) and attribute by attribute; every other pairing is False *)
Definition sig_eqb (a b : sig) : bool :=
  match a, b with
  | SCsr p, SCsr q => (c_addr_width p =? c_addr_width q) && (c_data_width p =? c_data_width q)
  | SElem p, SElem q => (e_width p =? e_width q) && access_eqb (e_access p) (e_access q)
  | SField p, SField q =>
      ((fp_width p =? fp_width q) && Bool.eqb (fp_signed p) (fp_signed q)) &&   (* Shape == Shape *)
      faccess_eqb (fp_access p) (fp_access q)
  | SWb p, SWb q =>
      (w_addr_width p =? w_addr_width q) && (w_data_width p =? w_data_width q) &&
      (w_granularity p =? w_granularity q) && features_eqb (w_features p) (w_features q)
  | SSrc t, SSrc u => trigger_eqb t u
  | SPin, SPin => true
  | _, _ => false
  end.

(* ---------------------------------------------------------------- flipped signatures *)

(* A signature value as Python sees it: `s` or `FlippedSignature(s)`; flip() of a flipped
   signature returns the original object, so one boolean is enough. *)
Definition sigv := (bool * sig)%type.
Definition base (s : sig) : sigv := (false, s).
Definition flip (v : sigv) : sigv := (negb (fst v), snd v).

Definition members_v (v : sigv) : list member :=
  if fst v then flip_members (members (snd v)) else members (snd v).

(* `a == b` on possibly flipped operands.  The overridden __eq__ methods test isinstance() (true for a
   FlippedSignature of the class, SignatureMeta.__instancecheck__) and read attributes, which a
   FlippedSignature forwards; FlippedSignature.__eq__ unflips both sides when both are flipped and
   otherwise returns NotImplemented, so Python evaluates the reflected call.  In every case the
   result is the coded comparison of the underlying signatures: the flip is not looked at. *)
Definition sigv_eqb (a b : sigv) : bool := sig_eqb (snd a) (snd b).

(* ---------------------------------------------------------------- component ports *)

(* a member `In(v)` / `Out(v)` of a component's signature *)
Record port := { p_flow : flow; p_sig : sigv }.
Definition IN (v : sigv) : port := {| p_flow := FIn; p_sig := v |}.
Definition OUT (v : sigv) : port := {| p_flow := FOut; p_sig := v |}.

(* `component.port.signature`: Member.signature of an In member is the flipped signature, and
   Component.__init__ creates the attribute from it *)
Definition signature_of_port (p : port) : sigv :=
  match p_flow p with FIn => flip (p_sig p) | FOut => p_sig p end.

(* port.signature.flatten(port): what the outside world sees *)
Definition as_seen_outside (p : port) : list member := members_v (signature_of_port p).

(* amaranth.utils.exact_log2: ValueError unless a power of two *)
Definition exact_log2 (n : Z) : res Z := if is_pow2 n then Ok (Z.log2 n) else Err ValueError.

(* csr.Multiplexer(memory_map).bus, memory_map = MemoryMap(addr_width=aw, data_width=dw) *)
Definition mux_bus (aw dw : Z) : res port :=
  let? s := mk_csr aw dw in Ok (IN (base s)).

(* csr.Decoder(addr_width=, data_width=).bus *)
Definition csrdec_bus (aw dw : Z) : res port :=
  let? s := mk_csr aw dw in Ok (IN (base s)).

(* csr.Bridge(memory_map).bus: builds its Multiplexer first, then declares its own port *)
Definition bridge_bus (aw dw : Z) : res port :=
  let? _ := mux_bus aw dw in
  let? s := mk_csr aw dw in Ok (IN (base s)).

(* event.Monitor(event_map, trigger=).src *)
Definition monitor_src (t : option trigger) : res port :=
  let? s := mk_src t in Ok (OUT (base s)).

(* csr.EventMonitor(event_map, trigger=, data_width=, alignment=), n = event_map.size:
     "src": Out(self._monitor.src.signature), "bus": In(self._mux.bus.signature.flip())   -> [bus; src] *)
Definition evmon_addr_width (n dw al : Z) : Z := 1 + Z.max (ceil_log2 ((n + dw - 1) / dw)) al.
Definition evmon_ports (n dw al : Z) (t : option trigger) : res (list port) :=
  if dw <=? 0 then Err ValueError
  else if al <? 0 then Err ValueError
  else
    let? msrc := monitor_src t in
    let? mux := mux_bus (evmon_addr_width n dw al) dw in
    Ok [ IN (flip (signature_of_port mux)); OUT (signature_of_port msrc) ].

(* gpio.Peripheral(pin_count=, addr_width=, data_width=): bus and one element of the pins array.
   csr.Builder(addr_width=, data_width=) (granularity 8) is constructed first and checks its
   arguments; that the four registers then fit (as_memory_map) is assumed. *)
Definition gpio_ports (pins aw dw : Z) : res (list port) :=
  if pins <=? 0 then Err TypeError
  else if aw <=? 0 then Err TypeError
  else if dw <=? 0 then Err TypeError
  else if negb (dw =? (dw / 8) * 8) then Err ValueError
  else
    let? s := mk_csr aw dw in
    Ok [ IN (base s); OUT (base SPin) ].

(* WishboneCSRBridge(csr_bus, data_width=None).wb_bus; csr_bus = csr.Interface(caw, cdw) with a memory map *)
Definition wbcsr_bus (caw cdw : Z) (dw : option Z) : res port :=
  if negb (wb_width_ok cdw) then Err ValueError
  else
    let d := match dw with None => cdw | Some d => d end in
    let? k := exact_log2 (d / cdw) in
    let? s := mk_wb (Z.max 0 (caw - k)) d (Some cdw) no_features false in
    (* self.wb_bus.memory_map = MemoryMap(addr_width=caw, data_width=cdw): the setter of
       wishbone.Interface.memory_map wants caw == max(1, addr_width + exact_log2(d // cdw)) *)
    if negb (caw =? Z.max 1 (Z.max 0 (caw - k) + k)) then Err ValueError
    else Ok (IN (base s)).

(* WishboneSRAM(size=, data_width=, granularity=None).wb_bus *)
Definition sram_bus (size dw : Z) (gran : option Z) : res port :=
  let g := match gran with None => dw | Some g => g end in
  if negb (is_pow2 size) then Err TypeError
  else if negb (wb_width_ok dw) then Err TypeError
  else if negb (wb_width_ok g) then Err TypeError
  else if size * g <? dw then Err ValueError
  else
    let? k := exact_log2 (size * g / dw) in
    let? s := mk_wb k dw (Some g) no_features false in
    let? ks := exact_log2 size in
    if ks <=? 0 then Err ValueError          (* MemoryMap(addr_width=exact_log2(size)) wants > 0 *)
    else Ok (IN (base s)).

(* wishbone.Decoder(addr_width=, data_width=, granularity=None, features=).bus *)
Definition wbdec_bus (aw dw : Z) (gran : option Z) (f : features) (bad : bool) : res port :=
  let g := match gran with None => dw | Some g => g end in
  let? s := mk_wb aw dw (Some g) f bad in Ok (IN (base s)).

(* wishbone.Arbiter(addr_width=, data_width=, granularity=None, features=).bus *)
Definition arb_bus (aw dw : Z) (gran : option Z) (f : features) (bad : bool) : res port :=
  let? s := mk_wb aw dw gran f bad in Ok (OUT (base s)).

Inductive comp :=
| CMux (aw dw : Z) | CCsrDec (aw dw : Z) | CBridge (aw dw : Z)
| CEvMon (n dw al : Z) (t : option trigger) | CGpio (pins aw dw : Z)
| CWbCsr (caw cdw : Z) (dw : option Z) | CSram (size dw : Z) (g : option Z)
| CWbDec (aw dw : Z) (g : option Z) (f : features) (bad : bool)
| CArb (aw dw : Z) (g : option Z) (f : features) (bad : bool).

Definition one (r : res port) : res (list port) := let? p := r in Ok [p].

(* the modelled ports of a component; the bus-facing one first *)
Definition ports (c : comp) : res (list port) :=
  match c with
  | CMux aw dw => one (mux_bus aw dw)
  | CCsrDec aw dw => one (csrdec_bus aw dw)
  | CBridge aw dw => one (bridge_bus aw dw)
  | CEvMon n dw al t => evmon_ports n dw al t
  | CGpio pins aw dw => gpio_ports pins aw dw
  | CWbCsr caw cdw dw => one (wbcsr_bus caw cdw dw)
  | CSram size dw g => one (sram_bus size dw g)
  | CWbDec aw dw g f bad => one (wbdec_bus aw dw g f bad)
  | CArb aw dw g f bad => one (arb_bus aw dw g f bad)
  end.

(* ---------------------------------------------------------------- wiring.connect(m, a, b) *)

Fixpoint path_compare (a b : path) : comparison :=
  match a, b with
  | [], [] => Eq
  | [], _ :: _ => Lt
  | _ :: _, [] => Gt
  | x :: a', y :: b' =>
      match Z.compare (name_code x) (name_code y) with
      | Eq => path_compare a' b'
      | c => c
      end
  end.
Definition path_eqb (a b : path) : bool := match path_compare a b with Eq => true | _ => false end.
Definition path_leb (a b : path) : bool := match path_compare a b with Gt => false | _ => true end.

(* sorted(signature.members.flatten()): by path (names are unique within a signature) *)
Fixpoint insert (x : member) (l : list member) : list member :=
  match l with
  | [] => [x]
  | y :: l' => if path_leb (m_path x) (m_path y) then x :: l else y :: insert x l'
  end.
Fixpoint sort (l : list member) : list member :=
  match l with [] => [] | x :: l' => insert x (sort l') end.

Inductive conn := ConnOk | ConnMissing | ConnWidth | ConnSeveralOut | ConnOnlyIn.

(* the simultaneous walk over both sorted member lists; all members are ports with default init *)
Fixpoint walk (a b : list member) (any_in any_out : bool) : conn :=
  match a, b with
  | [], [] => if any_in && negb any_out then ConnOnlyIn else ConnOk
  | x :: a', y :: b' =>
      if path_eqb (m_path x) (m_path y) then
        if negb (m_width x =? m_width y) then ConnWidth      (* signedness may differ *)
        else match m_flow x, m_flow y with
             | FOut, FOut => ConnSeveralOut
             | FIn, FIn => walk a' b' true any_out           (* nothing to connect on this path *)
             | _, _ => walk a' b' true true
             end
      else ConnMissing
  | _, _ => ConnMissing
  end.

Definition connect_check (a b : list member) : conn := walk (sort a) (sort b) false false.

(* The strict reading the property needs: every signal exists on both sides with the same shape and
   is driven by exactly one of them. *)
Definition complementary (x y : member) : Prop :=
  m_path x = m_path y /\ m_width x = m_width y /\ m_signed x = m_signed y /\ m_flow x = flip_flow (m_flow y).
Definition connectable (a b : list member) : Prop := Forall2 complementary a b.
