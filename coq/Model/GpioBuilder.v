(* csr.Builder.as_memory_map for the four GPIO registers, expressed on the C02 memory-map model (Model/MemoryMap.v):
   MemoryMap(addr_width, data_width) then, per register in insertion order,
   add_resource(reg, name=(<name>,), addr=None, size=reg_size, alignment=ceil_log2(reg_size))
   (csr/reg.py:737-749).  Resource identities 0..3, names = the distinct non-empty atoms 1..4.
   `via_place` is the same through the placement loop of Model/Gpio.v.  Definitions only. *)
From Coq Require Import ZArith List Bool.
From Soc Require Import Lib.Bits Lib.Res Model.MemoryMap.
From Soc Require Model.Gpio Model.Mux.
Import ListNotations.
Open Scope Z_scope.

Fixpoint add_all (m : mmap) (dw id : Z) (specs : list (Z * (bool * bool))) : res (list (Z * Z)) :=
  match specs with
  | [] => Ok []
  | (w, _) :: specs' =>
      let reg_size := (w + dw - 1) / dw in
      match add_resource m id true (NTuple [RStr (id + 1)]) (VInt reg_size) VNone (VInt (ceil_log2 reg_size)) with
      | Ok (m', (s, e)) =>
          match add_all m' dw (id + 1) specs' with
          | Ok l => Ok ((s, e) :: l)
          | Err x => Err x
          end
      | Err x => Err x
      end
  end.

Definition via_memory_map (aw dw n : Z) : res (list (Z * Z)) :=
  match new_map (VInt aw) (VInt dw) (VInt 0) with
  | Ok m0 => add_all m0 dw 0 (Gpio.reg_specs n)
  | Err x => Err x
  end.

Definition ranges_of (r : res (list Mux.reg)) : res (list (Z * Z)) :=
  match r with
  | Ok regs => Ok (map (fun r => (Mux.r_start r, Mux.r_stop r)) regs)
  | Err x => Err x
  end.

Definition via_place (aw dw n : Z) : res (list (Z * Z)) := ranges_of (Gpio.place aw dw 0 (Gpio.reg_specs n)).

