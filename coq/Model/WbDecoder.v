(* Structure-mirroring model of wishbone.Decoder (amaranth_soc/wishbone/bus.py:260-391):
   the ValueError rules of add() and the combinational network built by elaborate(), with the
   Case patterns computed as MemoryMap.window_patterns() does (memory.py:564-585).
   Where add_window() places a window is NOT modelled here: each added subordinate carries the
   range (start, stop, ratio) that add() returned and its memory map's address width. *)
From Coq Require Import ZArith List Bool Lia.
From Soc Require Import Lib.Bits Lib.Pattern.
Import ListNotations.
Open Scope Z_scope.

Record feat := { f_err : bool; f_rty : bool; f_stall : bool; f_lock : bool; f_cti : bool; f_bte : bool }.

(* geometry of a Wishbone interface *)
Record geom := { g_aw : Z; g_dw : Z; g_g : Z; g_feat : feat }.

(* what add() returned: range(start, stop, ratio); w_aw = sub_bus.memory_map.addr_width *)
Record window := { w_start : Z; w_stop : Z; w_ratio : Z; w_aw : Z }.

(* a subordinate that add() accepted *)
Record sub := { s_geom : geom; s_sparse : bool; s_win : window }.

(* the decoder after its add() calls; c_subs in the order of the calls *)
Record cfg := { c_geom : geom; c_subs : list sub }.

Definition s_aw (s : sub) := g_aw (s_geom s).
Definition s_dw (s : sub) := g_dw (s_geom s).
Definition s_g (s : sub) := g_g (s_geom s).
Definition s_feat (s : sub) := g_feat (s_geom s).
Definition c_aw (c : cfg) := g_aw (c_geom c).
Definition c_dw (c : cfg) := g_dw (c_geom c).
Definition c_g (c : cfg) := g_g (c_geom c).
Definition c_feat (c : cfg) := g_feat (c_geom c).

(* ---------- add(): bus.py:320-336 ---------- *)
Definition add_ok (d s : geom) (sparse : bool) : bool :=
  negb (g_g d <? g_g s) &&
  (if sparse then g_g s =? g_dw s else g_dw s =? g_dw d) &&
  implb (f_err (g_feat s)) (f_err (g_feat d)) &&
  implb (f_rty (g_feat s)) (f_rty (g_feat d)) &&
  implb (f_stall (g_feat s)) (f_stall (g_feat d)).

(* one add() call as the harness sees it: the interface, the sparse flag, and the range returned
   (None when add() raised: refused by the rules above, or the memory map could not place it) *)
Definition attempt := (geom * bool * option window)%type.

Definition add_verdicts (d : geom) (l : list attempt) : list bool :=
  map (fun '(g, sp, _) => add_ok d g sp) l.

Definition added (d : geom) (l : list attempt) : list sub :=
  flat_map (fun '(g, sp, ow) =>
              if add_ok d g sp
              then match ow with
                   | Some w => [{| s_geom := g; s_sparse := sp; s_win := w |}]
                   | None => []
                   end
              else []) l.

(* ---------- elaborate(): bus.py:342-391 ---------- *)

(* granularity bits and the width of the decoder's memory map (bus.py:289-291) *)
Definition gbits (g : geom) : Z := Z.log2 (g_dw g / g_g g).
Definition map_aw (g : geom) : Z := Z.max 1 (g_aw g + gbits g).

(* sub_pat[:self.bus.addr_width] *)
Definition sub_pattern (c : cfg) (s : sub) : list pchar :=
  firstn (Z.to_nat (c_aw c))
         (window_pattern (map_aw (c_geom c)) (w_aw (s_win s)) (w_start (s_win s))).

Definition matches (c : cfg) (s : sub) (a : Z) : bool := pmatch (sub_pattern c s) a.

(* window_patterns() iterates in ascending order of the range start: positions of c_subs, sorted *)
Fixpoint ins_idx (key : nat -> Z) (k : nat) (l : list nat) : list nat :=
  match l with
  | [] => [k]
  | x :: l' => if key k <? key x then k :: l else x :: ins_idx key k l'
  end.

Definition order (c : cfg) : list nat :=
  let key := fun k => match nth_error (c_subs c) k with Some s => w_start (s_win s) | None => 0 end in
  fold_left (fun acc k => ins_idx key k acc) (seq 0 (length (c_subs c))) [].

Definition matches_idx (c : cfg) (a : Z) (j : nat) : bool :=
  match nth_error (c_subs c) j with Some s => matches c s a | None => false end.

(* Switch(bus.adr): the first Case, in that order, whose pattern matches *)
Definition selected (c : cfg) (a : Z) : option nat := find (matches_idx c a) (order c).

Definition is_sel (sel : option nat) (j : nat) : bool :=
  match sel with Some x => Nat.eqb x j | None => false end.

Record breq := { cyc : bool; stb : bool; we : bool; adr : Z; dat_w : Z; sel : Z;
                 lock : bool; cti : Z; bte : Z }.
Record sresp := { ack : bool; err : bool; rty : bool; stall : bool; dat_r : Z }.
Record inp := { in_b : breq; in_s : list sresp }.

Record sout := { o_adr : Z; o_dat_w : Z; o_sel : Z; o_we : bool; o_stb : bool; o_cyc : bool;
                 o_lock : bool; o_cti : Z; o_bte : Z }.
Record bresp := { r_ack : bool; r_err : bool; r_rty : bool; r_stall : bool; r_dat_r : Z }.
Record outp := { out_s : list sout; out_b : bresp }.

(* request side of subordinate number j.  Everything except cyc is assigned outside the Case.
   Assignments truncate / zero-extend to the subordinate's widths.  Optional signals absent on the
   subordinate are not observable and read 0 here. *)
Definition sub_out (c : cfg) (q : breq) (sl : option nat) (j : nat) (s : sub) : sout :=
  let w := s_win s in
  {| o_adr := trunc (s_aw s) (Z.shiftl (adr q) (Z.log2 (w_ratio w)));
     o_dat_w := trunc (s_dw s) (dat_w q);
     o_sel := trunc (s_dw s / s_g s) (fanout (c_dw c / c_g c) (w_ratio w) (sel q));
     o_we := we q;
     o_stb := stb q;
     o_cyc := is_sel sl j && cyc q;
     o_lock := f_lock (s_feat s) && f_lock (c_feat c) && lock q;
     o_cti := if f_cti (s_feat s) && f_cti (c_feat c) then cti q else 0;
     o_bte := if f_bte (s_feat s) && f_bte (c_feat c) then bte q else 0 |}.

Fixpoint sub_outs (c : cfg) (q : breq) (sl : option nat) (j : nat) (l : list sub) : list sout :=
  match l with
  | [] => []
  | s :: l' => sub_out c q sl j s :: sub_outs c q sl (S j) l'
  end.

(* x_fanin |= sub_bus.x for every subordinate that has x — a Python-level OR, not inside the Case *)
Fixpoint fanin (f : sub -> sresp -> bool) (ss : list sub) (rs : list sresp) : bool :=
  match ss, rs with
  | s :: ss', r :: rs' => f s r || fanin f ss' rs'
  | _, _ => false
  end.

Definition bus_out (c : cfg) (sl : option nat) (rs : list sresp) : bresp :=
  {| r_ack := fanin (fun _ r => ack r) (c_subs c) rs;
     r_err := f_err (c_feat c) && fanin (fun s r => f_err (s_feat s) && err r) (c_subs c) rs;
     r_rty := f_rty (c_feat c) && fanin (fun s r => f_rty (s_feat s) && rty r) (c_subs c) rs;
     r_stall := f_stall (c_feat c) && fanin (fun s r => f_stall (s_feat s) && stall r) (c_subs c) rs;
     r_dat_r := match sl with
                | Some j => match nth_error rs j with
                            | Some r => trunc (c_dw c) (dat_r r)
                            | None => 0
                            end
                | None => 0
                end |}.

Definition out (c : cfg) (i : inp) : outp :=
  let sl := selected c (adr (in_b i)) in
  {| out_s := sub_outs c (in_b i) sl 0 (c_subs c); out_b := bus_out c sl (in_s i) |}.
