(* Model of csr.Multiplexer (amaranth_soc/csr/bus.py:283-604): the shadow address hash, the shadow size
   computed by _Shadow.add/prepare, and the synchronous machine emitted by elaborate(). *)
From Coq Require Import ZArith List Bool.
From Soc Require Import Lib.Bits.
Import ListNotations.
Open Scope Z_scope.

(* a register as memory_map.resources() reports it, with its element width and access *)
Record reg := { r_start : Z; r_stop : Z; r_width : Z; r_rd : bool; r_wr : bool }.

Definition reg_len (r : reg) : Z := r_stop r - r_start r.
Definition reg_size (r : reg) : Z := 2 ^ ceil_log2 (reg_len r).

(* _Shadow.decode_address: reg_range.start & self_mask & ~reg_mask | addr & reg_mask *)
Definition decode (S : Z) (r : reg) (a : Z) : Z :=
  Z.lor (Z.land (Z.land (r_start r) (S - 1)) (Z.lnot (reg_size r - 1))) (Z.land a (reg_size r - 1)).

(* _Shadow.encode_offset: reg_range.start + ((offset - reg_range.start) % reg_size) *)
Definition encode (r : reg) (o : Z) : Z := r_start r + (o - r_start r) mod reg_size r.

(* the addresses of a register: list(range(start, stop)) *)
Definition addrs (r : reg) : list Z := map (fun j => r_start r + Z.of_nat j) (seq 0 (Z.to_nat (reg_len r))).

(* all shadow offsets in the order prepare() meets them (ranges sorted by start) *)
Definition offsets (S : Z) (regs : list reg) : list Z :=
  flat_map (fun r => map (decode S r) (addrs r)) regs.

Definition occupancy (S : Z) (regs : list reg) (o : Z) : Z :=
  Z.of_nat (length (filter (fun x => x =? o) (offsets S regs))).

(* one round of prepare(): is the sharing limit exceeded somewhere, and may the shadow still grow? *)
Definition can_grow (S : Z) (regs : list reg) : bool := existsb (fun r => S <=? r_start r) regs.
Definition unbalanced (S ov : Z) (regs : list reg) : bool :=
  existsb (fun o => occupancy S regs o >? ov + 1) (offsets S regs).

Fixpoint prepare (fuel : nat) (S ov : Z) (regs : list reg) : option Z :=
  match fuel with
  | O => None                                  (* never reached: see Proofs *)
  | S f => if can_grow S regs && unbalanced S ov regs then prepare f (2 * S) ov regs else Some S
  end.

Definition init_size (regs : list reg) : Z := fold_left (fun s r => Z.max s (reg_size r)) regs 1.

(* enough rounds to pass every start address: log2 of the largest start, plus slack *)
Definition prepare_fuel (regs : list reg) : nat :=
  Z.to_nat (fold_left (fun s r => Z.max s (Z.log2_up (r_start r + 1))) regs 0 + 2).

Definition shadow_size (ov : option Z) (regs : list reg) : option Z :=
  prepare (prepare_fuel regs) (init_size regs)
          (match ov with Some v => v | None => Z.of_nat (length regs) end) regs.

(* ------------------------------------------------------------------ the machine *)

Record cfg := { c_dw : Z; c_regs : list reg; c_Sr : Z; c_Sw : Z }.

Definition rregs (c : cfg) : list reg := filter r_rd (c_regs c).
Definition wregs (c : cfg) : list reg := filter r_wr (c_regs c).

(* association lists with default 0 / false *)
Fixpoint get (l : list (Z * Z)) (k : Z) : Z :=
  match l with [] => 0 | (k', v) :: l' => if k =? k' then v else get l' k end.

(* distinct offsets in first-touch order: the keys of the chunk table *)
Fixpoint dedup (l : list Z) (seen : list Z) : list Z :=
  match l with
  | [] => []
  | x :: l' => if existsb (fun y => y =? x) seen then dedup l' seen else x :: dedup l' (x :: seen)
  end.
Definition table (S : Z) (regs : list reg) : list Z := dedup (offsets S regs) [].

(* does register r use chunk o, i.e. is o = decode(a) for one of its addresses *)
Definition touches (S : Z) (r : reg) (o : Z) : bool := existsb (fun a => decode S r a =? o) (addrs r).

Record inp := { i_addr : Z; i_rstb : bool; i_wstb : bool; i_wdata : Z; i_rvals : list Z }.
(* i_rvals: element.r_data of every register, in c_regs order (ignored for non-readable ones) *)

Record st := { s_rdata : list (Z * Z);     (* read shadow chunk data *)
               s_ren : list (Z * Z);       (* read shadow chunk r_en (0/1) *)
               s_wdata : list (Z * Z);     (* write shadow chunk data *)
               s_wstb : list bool }.       (* element.w_stb register of every register in c_regs order *)

Definition init (c : cfg) : st :=
  {| s_rdata := []; s_ren := []; s_wdata := []; s_wstb := map (fun _ => false) (c_regs c) |}.

(* reg.element.r_data.word_select(j, data_width): bits [j*dw, min(width, (j+1)*dw)) *)
Definition word (dw width j v : Z) : Z :=
  let lo := j * dw in
  let hi := Z.min width ((j + 1) * dw) in
  if hi <=? lo then 0 else slice lo (hi - lo) v.

(* element.r_stb of register r (comb): first-chunk Case *)
Definition elem_rstb (i : inp) (r : reg) : bool := r_rd r && i_rstb i && (i_addr i =? r_start r).

(* registers paired with their r_data input *)
Definition with_vals (c : cfg) (i : inp) : list (reg * Z) := combine (c_regs c) (i_rvals i ++ repeat 0 (length (c_regs c))).

(* next value of read chunk o *)
Definition rdata_next (c : cfg) (s : st) (i : inp) (o : Z) : Z :=
  match find (fun rv => r_rd (fst rv) && touches (c_Sr c) (fst rv) o && elem_rstb i (fst rv)) (with_vals c i) with
  | Some (r, v) => word (c_dw c) (r_width r) (encode r o - r_start r) (trunc (r_width r) v)
  | None => get (s_rdata s) o
  end.

Definition ren_next (c : cfg) (i : inp) (o : Z) : Z :=
  if i_rstb i && existsb (fun r => touches (c_Sr c) r o && (i_addr i =? encode r o)) (rregs c)
  then 1 else 0.

Definition wen (c : cfg) (i : inp) (o : Z) : bool :=
  i_wstb i && existsb (fun r => touches (c_Sw c) r o && (i_addr i =? encode r o)) (wregs c).

Definition wdata_next (c : cfg) (s : st) (i : inp) (o : Z) : Z :=
  if wen c i o then trunc (c_dw c) (i_wdata i) else get (s_wdata s) o.

Definition wstb_next (i : inp) (r : reg) : bool := r_wr r && i_wstb i && (i_addr i =? r_stop r - 1).

Definition next (c : cfg) (s : st) (i : inp) : st :=
  {| s_rdata := map (fun o => (o, rdata_next c s i o)) (table (c_Sr c) (rregs c));
     s_ren := map (fun o => (o, ren_next c i o)) (table (c_Sr c) (rregs c));
     s_wdata := map (fun o => (o, wdata_next c s i o)) (table (c_Sw c) (wregs c));
     s_wstb := map (wstb_next i) (c_regs c) |}.

(* bus.r_data: OR over all read chunks of (r_en ? data : 0) *)
Definition bus_rdata (c : cfg) (s : st) : Z :=
  fold_left (fun acc o => Z.lor acc (if get (s_ren s) o =? 1 then get (s_rdata s) o else 0))
            (table (c_Sr c) (rregs c)) 0.

(* element.w_data of register r: each bus word wired to its chunk, clipped to the register width *)
Definition elem_wdata (c : cfg) (s : st) (r : reg) : Z :=
  fold_left (fun acc a =>
               let j := a - r_start r in
               let lo := j * c_dw c in
               let hi := Z.min (r_width r) ((j + 1) * c_dw c) in
               if hi <=? lo then acc
               else acc + trunc (hi - lo) (get (s_wdata s) (decode (c_Sw c) r a)) * 2 ^ lo)
            (addrs r) 0.

Record outp := { o_rdata : Z; o_rstb : list bool; o_wstb : list bool; o_wdata : list Z }.

Definition out (c : cfg) (s : st) (i : inp) : outp :=
  {| o_rdata := bus_rdata c s;
     o_rstb := map (elem_rstb i) (c_regs c);
     o_wstb := s_wstb s;
     o_wdata := map (fun r => if r_wr r then elem_wdata c s r else 0) (c_regs c) |}.

Fixpoint run (c : cfg) (s : st) (is : list inp) : list outp :=
  match is with
  | [] => []
  | i :: is' => out c s i :: run c (next c s i) is'
  end.

Fixpoint state_after (c : cfg) (s : st) (is : list inp) : st :=
  match is with
  | [] => s
  | i :: is' => state_after c (next c s i) is'
  end.

(* the configuration Multiplexer(memory_map, shadow_overlaps=ov) produces for a register list *)
Definition mk_cfg (dw : Z) (regs : list reg) (ov : option Z) : option cfg :=
  match shadow_size ov (filter r_rd regs), shadow_size ov (filter r_wr regs) with
  | Some sr, Some sw => Some {| c_dw := dw; c_regs := regs; c_Sr := sr; c_Sw := sw |}
  | _, _ => None
  end.
