(* Structure-mirroring model of wishbone.WishboneSRAM (amaranth_soc/wishbone/sram.py):
   constructor validation (__init__, :43-75) and the generated hardware (elaborate, :93-118).
   No proofs here. *)
From Coq Require Import ZArith List Bool.
From Soc Require Import Lib.Bits.
Import ListNotations.
Open Scope Z_scope.

(* ---------- Python-level constructor arguments ---------- *)

(* VFloat z: a float numerically equal to the integer z (`8.0 in (8, 16, 32, 64)` is True in Python,
   `isinstance(8.0, int)` is False); VBad: anything else that is not an int (str, 4.5, list, ...) *)
Inductive pyarg := VInt (z : Z) | VFloat (z : Z) | VNone | VBad.
Inductive exn := TypeError | ValueError.
Inductive res (A : Type) := Ok (a : A) | Err (e : exn).
Arguments Ok {A} a.
Arguments Err {A} e.

(* value seen by `x in (8, 16, 32, 64)` and by arithmetic *)
Definition num (a : pyarg) : option Z :=
  match a with VInt z => Some z | VFloat z => Some z | VNone => None | VBad => None end.
Definition is_float (a : pyarg) : bool := match a with VFloat _ => true | _ => false end.

Definition width_ok (z : Z) : bool := (z =? 8) || (z =? 16) || (z =? 32) || (z =? 64).

(* geometry of an accepted SRAM *)
Record geom := {
  g_size  : Z;      (* in granules *)
  g_dw    : Z;      (* wb_bus.data_width = row width *)
  g_gran  : Z;      (* wb_bus.granularity *)
  g_wr    : bool;   (* writable *)
  g_depth : Z;      (* MemoryData depth = (size * granularity) // data_width *)
  g_aw    : Z;      (* wb_bus.addr_width = exact_log2(depth) *)
  g_mmaw  : Z       (* memory_map.addr_width = exact_log2(size); memory_map.data_width = granularity *)
}.

(* MemoryData(init=...): each value cast to unsigned(data_width), missing rows are 0 *)
Definition init_rows (dw depth : Z) (init : list Z) : list Z :=
  map (trunc dw) init ++ repeat 0 (Z.to_nat depth - length init)%nat.

(* WishboneSRAM.__init__, in statement order; the first failing check decides the exception *)
Definition construct (size dw gran : pyarg) (wr : bool) (init : list Z) : res (geom * list Z) :=
  let gran := match gran with VNone => dw | _ => gran end in                 (* :44-45 *)
  match size with
  | VInt s =>
      if negb (is_pow2 s) then Err TypeError else                              (* :47-48 *)
      match num dw with
      | None => Err TypeError                                                  (* :49-50 *)
      | Some d =>
          if negb (width_ok d) then Err TypeError else                         (* :49-50 *)
          match num gran with
          | None => Err TypeError                                              (* :51-52 *)
          | Some g =>
              if negb (width_ok g) then Err TypeError else                     (* :51-52 *)
              if s * g <? d then Err ValueError else                           (* :53-56 *)
              (* :60-61 MemoryData(depth=(size*g)//dw, shape=unsigned(dw), init): a float depth or width *)
              if is_float dw || is_float gran then Err TypeError else
              let depth := s * g / d in
              if depth <? Z.of_nat (length init) then Err ValueError else      (* too many init values *)
              if d <? g then Err ValueError else                               (* :64 wishbone.Signature *)
              let mmaw := Z.log2 s in
              if mmaw <=? 0 then Err ValueError else                           (* :73 MemoryMap(addr_width=0) *)
              Ok ({| g_size := s; g_dw := d; g_gran := g; g_wr := wr; g_depth := depth;
                     g_aw := Z.log2 depth; g_mmaw := mmaw |},
                  init_rows d depth init)
          end
      end
  | _ => Err TypeError                                                         (* :47-48 not an int *)
  end.

(* ---------- the generated hardware ---------- *)

Record inp := { cyc : bool; stb : bool; we : bool; adr : Z; sel : Z; dat_w : Z }.
Record state := { rows : list Z; ack : bool; latch : Z }.
Record outp := { o_ack : bool; o_dat_r : Z; o_mem : list Z }.

(* number of granules per row = width of sel and of the write port's en *)
Definition nsel (g : geom) : Z := g_dw g / g_gran g.

(* write port with per-granule enable: the new row is the concatenation, granule by granule, of
   the data granule where en is set and the old granule elsewhere (granules 0 .. n-1) *)
Fixpoint merge_nat (n : nat) (gr en old new : Z) : Z :=
  match n with
  | O => 0
  | S k => merge_nat k gr en old new +
           (if Z.testbit en (Z.of_nat k) then slice (Z.of_nat k * gr) gr new
            else slice (Z.of_nat k * gr) gr old) * 2 ^ (Z.of_nat k * gr)
  end.
Definition merge (g : geom) (en old new : Z) : Z :=
  merge_nat (Z.to_nat (nsel g)) (g_gran g) en old new.

Fixpoint upd (n : nat) (l : list Z) (v : Z) : list Z :=
  match l with
  | [] => []
  | x :: l' => match n with O => v :: l' | S n' => x :: upd n' l' v end
  end.

Definition init_state (rows0 : list Z) : state := {| rows := rows0; ack := false; latch := 0 |}.

(* wb_bus.ack is the register, dat_r is the read port's data register *)
Definition out (s : state) : outp := {| o_ack := ack s; o_dat_r := latch s; o_mem := rows s |}.

Definition next (g : geom) (s : state) (i : inp) : state :=
  let a := Z.to_nat (trunc (g_aw g) (adr i)) in              (* read_port.addr = write_port.addr = adr *)
  let br_ack := ack s in                                     (* with m.If(ack) *)
  let br_req := negb (ack s) && (cyc i && stb i) in          (* with m.Elif(cyc & stb) *)
  (* comb: write_port.en (init 0) and read_port.en (init 1) are only assigned inside the Elif,
     and only if writable *)
  let wr_en := if br_req && g_wr g then (if we i then sel i else 0) else 0 in
  let rd_en := if br_req && g_wr g then negb (we i) else true in
  (* sync: ack *)
  let ack' := if br_ack then false else if br_req then true else ack s in
  let old := nth a (rows s) 0 in
  {| rows  := if g_wr g then upd a (rows s) (merge g wr_en old (dat_w i)) else rows s;
     ack   := ack';
     latch := if rd_en then old else latch s |}.          (* synchronous, non-transparent read port *)

Fixpoint run (g : geom) (s : state) (tr : list inp) : list outp :=
  match tr with
  | [] => []
  | i :: tr' => out s :: run g (next g s i) tr'
  end.

Fixpoint state_after (g : geom) (s : state) (tr : list inp) : state :=
  match tr with
  | [] => s
  | i :: tr' => state_after g (next g s i) tr'
  end.
