(* Structure-mirroring model of wishbone.Arbiter.elaborate (amaranth_soc/wishbone/bus.py:444-502). *)
From Coq Require Import ZArith List Bool Lia.
From Soc Require Import Lib.Bits.
Import ListNotations.
Open Scope Z_scope.

Record feat := { f_err : bool; f_rty : bool; f_stall : bool; f_lock : bool; f_cti : bool; f_bte : bool }.

(* geometry of the arbiter's shared bus and of each initiator interface *)
Record icfg := { i_aw : Z; i_dw : Z; i_g : Z; i_feat : feat }.
Record cfg := { c_aw : Z; c_dw : Z; c_g : Z; c_feat : feat; c_intrs : list icfg }.

(* number of select bits of an initiator, and how many arbiter select lines each covers *)
Definition i_nsel (ic : icfg) : Z := i_dw ic / i_g ic.
Definition i_ratio (c : cfg) (ic : icfg) : Z := i_g ic / c_g c.

(* Arbiter.add(): the checks that raise ValueError (bus.py:429-441) *)
Definition add_ok (c : cfg) (ic : icfg) : bool :=
  (i_aw ic =? c_aw c) && negb (i_g ic <? c_g c) && (i_dw ic =? c_dw c) &&
  implb (f_err (c_feat c)) (f_err (i_feat ic)) && implb (f_rty (c_feat c)) (f_rty (i_feat ic)).

(* index of the first add() call that is refused, if any *)
Fixpoint first_refused (c : cfg) (k : nat) (l : list icfg) : option nat :=
  match l with
  | [] => None
  | ic :: l' => if add_ok c ic then first_refused c (S k) l' else Some k
  end.

Record iin := { cyc : bool; stb : bool; we : bool; adr : Z; dat_w : Z; sel : Z;
                lock : bool; cti : Z; bte : Z }.
Record bin := { ack : bool; err : bool; rty : bool; stall : bool; dat_r : Z }.
Record inp := { in_i : list iin; in_b : bin }.

Record bout := { o_adr : Z; o_dat_w : Z; o_sel : Z; o_we : bool; o_stb : bool; o_cyc : bool;
                 o_lock : bool; o_cti : Z; o_bte : Z }.
Record iout := { r_ack : bool; r_err : bool; r_rty : bool; r_stall : bool; r_dat_r : Z }.
Record outp := { out_b : bout; out_i : list iout }.

Definition idle_iin : iin :=
  {| cyc := false; stb := false; we := false; adr := 0; dat_w := 0; sel := 0;
     lock := false; cti := 0; bte := 0 |}.
Definition zero_bout : bout :=
  {| o_adr := 0; o_dat_w := 0; o_sel := 0; o_we := false; o_stb := false; o_cyc := false;
     o_lock := false; o_cti := 0; o_bte := 0 |}.

Definition nintr (c : cfg) : nat := length (c_intrs c).

(* the owner, if grant selects a Case of Switch(grant) *)
Definition owner (c : cfg) (g : nat) (i : inp) : option (icfg * iin) :=
  match nth_error (c_intrs c) g, nth_error (in_i i) g with
  | Some ic, Some ii => Some (ic, ii)
  | _, _ => None
  end.

(* shared-bus request outputs: the Case(grant) body *)
Definition bus_out (c : cfg) (g : nat) (i : inp) : bout :=
  match owner c g i with
  | None => zero_bout
  | Some (ic, ii) =>
      {| o_adr := adr ii; o_dat_w := dat_w ii;
         o_sel := fanout (i_nsel ic) (i_ratio c ic) (sel ii);
         o_we := we ii; o_stb := stb ii; o_cyc := cyc ii;
         o_lock := f_lock (c_feat c) && f_lock (i_feat ic) && lock ii;
         o_cti := if f_cti (c_feat c) && f_cti (i_feat ic) then cti ii else 0;
         o_bte := if f_bte (c_feat c) && f_bte (i_feat ic) then bte ii else 0 |}
  end.

(* responses seen by initiator k *)
Definition intr_out (c : cfg) (g : nat) (b : bin) (k : nat) (ic : icfg) : iout :=
  let own := Nat.eqb k g in
  {| r_ack := own && ack b;
     r_err := own && f_err (i_feat ic) && f_err (c_feat c) && err b;
     r_rty := own && f_rty (i_feat ic) && f_rty (c_feat c) && rty b;
     r_stall := f_stall (i_feat ic) &&
                (if own then (if f_stall (c_feat c) then stall b else negb (ack b)) else true);
     r_dat_r := dat_r b |}.

Fixpoint intr_outs (c : cfg) (g : nat) (b : bin) (k : nat) (l : list icfg) : list iout :=
  match l with
  | [] => []
  | ic :: l' => intr_out c g b k ic :: intr_outs c g b (S k) l'
  end.

Definition out (c : cfg) (g : nat) (i : inp) : outp :=
  {| out_b := bus_out c g i; out_i := intr_outs c g (in_b i) 0 (c_intrs c) |}.

(* requests[j] = intr_j.cyc *)
Definition req (i : inp) (j : nat) : bool := cyc (nth j (in_i i) idle_iin).

Definition bus_busy (c : cfg) (g : nat) (i : inp) : bool :=
  let b := bus_out c g i in
  if f_lock (c_feat c) then o_cyc b && (o_lock b || o_stb b) else o_cyc b.

(* the order in which `m.d.sync += grant.eq(j)` statements appear inside Case(g);
   later enabled assignments win *)
Definition assigns (n g : nat) : list nat := rev (seq 0 g) ++ rev (seq (S g) (n - S g)).

Definition chain (n : nat) (rq : nat -> bool) (g : nat) : nat :=
  if Nat.ltb g n
  then fold_left (fun acc j => if rq j then j else acc) (assigns n g) g
  else g.

Definition next (c : cfg) (g : nat) (i : inp) : nat :=
  if bus_busy c g i then g else chain (nintr c) (req i) g.

Fixpoint run (c : cfg) (g : nat) (is : list inp) : list outp :=
  match is with
  | [] => []
  | i :: is' => out c g i :: run c (next c g i) is'
  end.

Fixpoint state_after (c : cfg) (g : nat) (is : list inp) : nat :=
  match is with
  | [] => g
  | i :: is' => state_after c (next c g i) is'
  end.
