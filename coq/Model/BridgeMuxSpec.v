(* Composition `WishboneCSRBridge in front of a csr.Multiplexer` (C10, clause atomic_through_mux).
   No new behaviour is modelled here: the two existing machines (Model/WbCsrBridge.v, Model/Mux.v)
   are wired port to port and clocked together.

     bridge.csr_bus.addr / r_stb / w_stb / w_data  ->  multiplexer bus addr / r_stb / w_stb / w_data
     multiplexer bus r_data                        ->  bridge.csr_bus.r_data

   Both are Mealy machines.  The multiplexer's r_data in a cycle is `bus_rdata c s`, a function of its
   STATE only (Model/Mux.v, `out`), and the bridge's CSR-side outputs do not depend on csr r_data
   (Model/WbCsrBridge.v, `out` reads r_data nowhere), so the combinational loop is well-founded:
   first the multiplexer's r_data, then the bridge's outputs, then the multiplexer's inputs. *)
From Coq Require Import ZArith List Bool.
From Soc Require Import Lib.Bits Model.WbCsrBridge Model.Mux.
Import ListNotations.
Open Scope Z_scope.

Module B := Soc.Model.WbCsrBridge.
Module M := Soc.Model.Mux.

(* inputs of the composite in one cycle: the Wishbone initiator's signals, and element.r_data of
   every register (in c_regs order, as in Mux.inp) *)
Record cinp := { x_cyc : bool; x_stb : bool; x_we : bool; x_adr : Z; x_sel : Z; x_dat_w : Z;
                 x_rvals : list Z }.

(* the bridge's input record in a cycle in which the CSR bus returns rd *)
Definition wb_of (x : cinp) (rd : Z) : B.inp :=
  {| B.cyc := x_cyc x; B.stb := x_stb x; B.we := x_we x; B.adr := x_adr x; B.sel := x_sel x;
     B.dat_w := x_dat_w x; B.r_data := rd |}.

(* the multiplexer's input record: the bridge's CSR-side outputs and the registers' values *)
Definition mux_of (bo : B.outp) (x : cinp) : M.inp :=
  {| M.i_addr := B.o_addr bo; M.i_rstb := B.o_r_stb bo; M.i_wstb := B.o_w_stb bo;
     M.i_wdata := B.o_w_data bo; M.i_rvals := x_rvals x |}.

Definition cst : Type := (B.st * M.st)%type.

(* what the bridge / the multiplexer see in a cycle with composite state s and input x *)
Definition bridge_in (mc : M.cfg) (s : cst) (x : cinp) : B.inp := wb_of x (M.bus_rdata mc (snd s)).
Definition bridge_out (bc : B.cfg) (mc : M.cfg) (s : cst) (x : cinp) : B.outp :=
  B.out bc (fst s) (bridge_in mc s x).
Definition mux_in (bc : B.cfg) (mc : M.cfg) (s : cst) (x : cinp) : M.inp :=
  mux_of (bridge_out bc mc s x) x.
Definition mux_out (bc : B.cfg) (mc : M.cfg) (s : cst) (x : cinp) : M.outp :=
  M.out mc (snd s) (mux_in bc mc s x).

Definition cinit (mc : M.cfg) : cst := (B.init, M.init mc).
Definition cnext (bc : B.cfg) (mc : M.cfg) (s : cst) (x : cinp) : cst :=
  (B.next bc (fst s) (bridge_in mc s x), M.next mc (snd s) (mux_in bc mc s x)).

(* the composite over an infinite input trace, one shared clock *)
Fixpoint cstate_at (bc : B.cfg) (mc : M.cfg) (tr : nat -> cinp) (t : nat) : cst :=
  match t with
  | O => cinit mc
  | S t' => cnext bc mc (cstate_at bc mc tr t') (tr t')
  end.

(* ports in cycle t: the Wishbone side of the bridge, and the element side of the multiplexer *)
Definition wb_out_at (bc : B.cfg) (mc : M.cfg) (tr : nat -> cinp) (t : nat) : B.outp :=
  bridge_out bc mc (cstate_at bc mc tr t) (tr t).
Definition elem_out_at (bc : B.cfg) (mc : M.cfg) (tr : nat -> cinp) (t : nat) : M.outp :=
  mux_out bc mc (cstate_at bc mc tr t) (tr t).

(* finite runs, for the Examples: (Wishbone-side outputs, element-side outputs) per cycle *)
Fixpoint crun (bc : B.cfg) (mc : M.cfg) (s : cst) (xs : list cinp) : list (B.outp * M.outp) :=
  match xs with
  | [] => []
  | x :: xs' => (bridge_out bc mc s x, mux_out bc mc s x) :: crun bc mc (cnext bc mc s x) xs'
  end.

(* the Wishbone request (r_data is not an input of the composite: the dummy 0 is never read by
   req_held, which only mentions cyc stb we adr sel dat_w) *)
Definition wb_trace (tr : nat -> cinp) : nat -> B.inp := fun t => wb_of (tr t) 0.

(* the widths of the two components fit: the bridge's granule is the multiplexer's data width *)
Definition fits (bc : B.cfg) (mc : M.cfg) : Prop := B.c_g bc = M.c_dw mc.

(* Wishbone word `a` lies inside the CSR address space of the bridge (always so for a constructed
   bridge, C10_address_exact), so that no CSR address is truncated *)
Definition word_in_range (bc : B.cfg) (a : Z) : Prop := 0 <= a /\ (a + 1) * B.ratio bc <= 2 ^ B.c_caw bc.

(* register r lies entirely inside Wishbone word a *)
Definition reg_in_word (bc : B.cfg) (a : Z) (r : M.reg) : Prop :=
  a * B.ratio bc <= M.r_start r /\ M.r_stop r <= a * B.ratio bc + B.ratio bc.

(* every granule of register r is selected (sel bits of other granules of the word are arbitrary) *)
Definition reg_selected (bc : B.cfg) (a sel : Z) (r : M.reg) : Prop :=
  forall i, M.r_start r <= a * B.ratio bc + i < M.r_stop r -> Z.testbit sel i = true.
