(* Model of csr.event.EventMonitor (amaranth_soc/csr/event.py), as the COMPOSITION of the existing models:

     constructor   the two argument checks, event.Monitor's constructor checks, the address-space
                   arithmetic (reg_size, addr_width) and the two add_resource() calls on the C02 memory
                   map model (Model/MemoryMap.v); the multiplexer configuration Multiplexer(memory_map)
                   computes from memory_map.resources() (Model/Mux.v, mk_cfg);
     elaborate()   Mux  o  glue  o  Monitor:   the multiplexer machine (Model/Mux.v), the event monitor
                   machine (Model/Event.v) and the five glue statements of EventMonitor.elaborate().

   The two _EventMaskRegister objects are csr.Register components, but elaborate() never adds them as
   submodules: only their `element` ports are used, wired straight to the monitor.  So no field action
   is instantiated, and none is modelled.

   Attachment through a csr.Decoder (Model/CsrDecoder.v) is modelled too: Decoder.add(mon.bus) is an
   add_window() on the decoder's map, and per cycle the decoder drives the monitor's bus port.
   Attachment by wiring.connect() from an initiator interface is signal identity.  No proofs here. *)
From Coq Require Import ZArith List Bool.
From Soc Require Import Lib.Bits Lib.Res.
From Soc Require Model.Mux Model.Event Model.MemoryMap Model.CsrDecoder.
Import ListNotations.
Open Scope Z_scope.

(* ------------------------------------------------------------------ constructor *)

(* interned name atoms (atom 0 is the empty string in Model/MemoryMap.v) *)
Definition atom_enable : Z := 1.
Definition atom_pending : Z := 2.
(* identities of the two register objects *)
Definition id_enable : Z := 0.
Definition id_pending : Z := 1.

(* reg_size = (event_map.size + data_width - 1) // data_width *)
Definition reg_size (n dw : Z) : Z := (n + dw - 1) / dw.
(* addr_width = 1 + max(ceil_log2(reg_size), alignment) *)
Definition addr_width (n dw al : Z) : Z := 1 + Z.max (ceil_log2 (reg_size n dw)) al.

(* MemoryMap(addr_width=..., data_width=..., alignment=...) and the two add_resource() calls *)
Definition build_map (n dw al : Z) : res MemoryMap.mmap :=
  let! m0 := MemoryMap.new_map (VInt (addr_width n dw al)) (VInt dw) (VInt al) in
  let! '(m1, _) := MemoryMap.add_resource m0 id_enable true (MemoryMap.NTuple [MemoryMap.RStr atom_enable])
                                          (VInt (reg_size n dw)) VNone VNone in
  let! '(m2, _) := MemoryMap.add_resource m1 id_pending true (MemoryMap.NTuple [MemoryMap.RStr atom_pending])
                                          (VInt (reg_size n dw)) VNone VNone in
  Ok m2.

(* Multiplexer.elaborate iterates memory_map.resources(): ascending address order.  Both registers are
   _EventMaskRegister(event_map.size): element width n, access rw. *)
Definition regs_of (n : Z) (m : MemoryMap.mmap) : list Mux.reg :=
  map (fun x => match x with (_, _, s, e) =>
                  {| Mux.r_start := s; Mux.r_stop := e; Mux.r_width := n; Mux.r_rd := true; Mux.r_wr := true |} end)
      (MemoryMap.resources m).

(* position of a register object in that iteration *)
Fixpoint pos_of (id : Z) (l : list (Z * MemoryMap.name * Z * Z)) : option nat :=
  match l with
  | [] => None
  | (i, _, _, _) :: l' => if i =? id then Some O else option_map S (pos_of id l')
  end.

Record params := { p_modes : list Event.mode;      (* trigger mode of every source, in EventMap order *)
                   p_dw : pyint; p_al : pyint;     (* data_width, alignment as passed *)
                   p_trigger : Z }.                (* trigger=: 0 level, 1 rise, 2 fall, anything else invalid *)

(* the sources of an event map filled by add()ing n fresh Source objects in order: source k has number k;
   its identity (which the cycle inputs are keyed by) is k as well *)
Definition sources (modes : list Event.mode) : Event.mcfg :=
  map (fun k => {| Event.s_id := Z.of_nat k; Event.s_idx := k; Event.s_mode := nth k modes Event.Level |})
      (seq 0 (length modes)).

Record built := { b_n : Z; b_aw : Z; b_trigger : Z;
                  b_map : MemoryMap.mmap;
                  b_mux : Mux.cfg;
                  b_mon : Event.mcfg;
                  b_ken : nat; b_kpe : nat }.      (* which multiplexer register is enable / pending *)

(* EventMonitor.__init__, in statement order *)
Definition construct (p : params) : res built :=
  let! _ := check (MemoryMap.posint (p_dw p)) ValueError in
  let! _ := check (MemoryMap.nonneg (p_al p)) ValueError in
  (* event.Monitor(event_map, trigger=trigger): Source.Signature -> Source.Trigger(trigger) *)
  let! _ := check ((0 <=? p_trigger p) && (p_trigger p <? 3)) ValueError in
  let n := Z.of_nat (length (p_modes p)) in
  let dw := MemoryMap.zof (p_dw p) in
  let al := MemoryMap.zof (p_al p) in
  let! m := build_map n dw al in
  (* Multiplexer(memory_map): no windows, both resources have an Out `element` member *)
  match Mux.mk_cfg dw (regs_of n m) None,
        pos_of id_enable (MemoryMap.resources m), pos_of id_pending (MemoryMap.resources m) with
  | Some c, Some ke, Some kp =>
      Ok {| b_n := n; b_aw := addr_width n dw al; b_trigger := p_trigger p; b_map := m; b_mux := c;
            b_mon := sources (p_modes p); b_ken := ke; b_kpe := kp |}
  | _, _, _ => Err OtherError                      (* unreachable: see Proofs/CsrEvent.v *)
  end.

(* ------------------------------------------------------------------ the machine *)

Record cinp := { ci_addr : Z; ci_rstb : bool; ci_wstb : bool; ci_wdata : Z;
                 ci_src : list bool }.             (* every source's `i`, in EventMap order *)

Record cst := { c_mux : Mux.st; c_mon : Event.mstate; c_enable : Z }.

Record cout := { co_rdata : Z; co_irq : bool; co_trg : list bool }.

Definition init (b : built) : cst :=
  {| c_mux := Mux.init (b_mux b); c_mon := Event.init (b_mon b); c_enable := 0 |}.

(* m.d.comb += enable.element.r_data.eq(monitor.enable);  pending.element.r_data.eq(monitor.pending):
   the multiplexer's inputs.  i_rvals is in c_regs order. *)
Definition rvals (b : built) (s : cst) : list Z :=
  map (fun k => if Nat.eqb k (b_ken b) then c_enable s
                else if Nat.eqb k (b_kpe b) then Event.st_pending (c_mon s) else 0)
      (seq 0 (length (Mux.c_regs (b_mux b)))).

Definition mux_inp (b : built) (s : cst) (i : cinp) : Mux.inp :=
  {| Mux.i_addr := ci_addr i; Mux.i_rstb := ci_rstb i; Mux.i_wstb := ci_wstb i; Mux.i_wdata := ci_wdata i;
     Mux.i_rvals := rvals b s |}.

Definition mux_out (b : built) (s : cst) (i : cinp) : Mux.outp := Mux.out (b_mux b) (c_mux s) (mux_inp b s i).

Definition elem_wstb (o : Mux.outp) (k : nat) : bool := nth k (Mux.o_wstb o) false.
Definition elem_wdata (o : Mux.outp) (k : nat) : Z := nth k (Mux.o_wdata o) 0.

(* with m.If(pending.element.w_stb): m.d.comb += monitor.clear.eq(pending.element.w_data)   (else 0) *)
Definition clear_of (b : built) (o : Mux.outp) : Z :=
  if elem_wstb o (b_kpe b) then elem_wdata o (b_kpe b) else 0.

Definition mon_inp (b : built) (s : cst) (i : cinp) : Event.minp :=
  {| Event.in_i := fun id => nth (Z.to_nat id) (ci_src i) false;
     Event.in_enable := c_enable s;
     Event.in_clear := clear_of b (mux_out b s i) |}.

(* with m.If(enable.element.w_stb): m.d.sync += monitor.enable.eq(enable.element.w_data) *)
Definition enable_next (b : built) (s : cst) (i : cinp) : Z :=
  let o := mux_out b s i in
  if elem_wstb o (b_ken b) then elem_wdata o (b_ken b) else c_enable s.

Definition out (b : built) (s : cst) (i : cinp) : cout :=
  let mo := Event.out (b_mon b) (c_mon s) (mon_inp b s i) in
  {| co_rdata := Mux.o_rdata (mux_out b s i);
     co_irq := Event.o_irq mo;
     co_trg := Event.o_trg mo |}.

Definition next (b : built) (s : cst) (i : cinp) : cst :=
  {| c_mux := Mux.next (b_mux b) (c_mux s) (mux_inp b s i);
     c_mon := Event.next (b_mon b) (c_mon s) (mon_inp b s i);
     c_enable := enable_next b s i |}.

Fixpoint run (b : built) (s : cst) (is : list cinp) : list cout :=
  match is with
  | [] => []
  | i :: is' => out b s i :: run b (next b s i) is'
  end.

Fixpoint state_after (b : built) (s : cst) (is : list cinp) : cst :=
  match is with
  | [] => s
  | i :: is' => state_after b (next b s i) is'
  end.

(* ------------------------------------------------------------------ attachment through a csr.Decoder *)

Definition atom_window : Z := 3.

Record dparams := { d_aw : Z; d_al : Z; d_addr : pyint }.

Record attached := { a_map : MemoryMap.mmap;        (* the decoder's memory map after add() *)
                     a_aw : Z;
                     a_sub : CsrDecoder.sub }.      (* the window add() returned *)

(* csr.Decoder(addr_width=, data_width=, alignment=) then decoder.add(mon.bus, name="mon", addr=...) *)
Definition attach (b : built) (d : dparams) : res attached :=
  let dw := Mux.c_dw (b_mux b) in
  let! dm := MemoryMap.new_map (VInt (d_aw d)) (VInt dw) (VInt (d_al d)) in
  let! '(dm', (s, e, _)) := MemoryMap.add_window dm 0 (b_map b) (Some (MemoryMap.NStr atom_window))
                                                 (d_addr d) None in
  Ok {| a_map := dm'; a_aw := d_aw d;
        a_sub := {| CsrDecoder.s_aw := b_aw b; CsrDecoder.s_start := s; CsrDecoder.s_stop := e |} |}.

(* what the decoder presents on the monitor's bus port in one cycle *)
Definition through (a : attached) (i : cinp) : cinp :=
  match CsrDecoder.dec_down (a_aw a) [a_sub a]
          {| CsrDecoder.addr := ci_addr i; CsrDecoder.r_stb := ci_rstb i; CsrDecoder.w_stb := ci_wstb i;
             CsrDecoder.w_data := ci_wdata i |} with
  | [x] => {| ci_addr := CsrDecoder.addr x; ci_rstb := CsrDecoder.r_stb x; ci_wstb := CsrDecoder.w_stb x;
              ci_wdata := CsrDecoder.w_data x; ci_src := ci_src i |}
  | _ => i
  end.

(* decoder.bus.r_data = OR of the subordinates' r_data *)
Definition back (o : cout) : cout :=
  {| co_rdata := CsrDecoder.dec_up [co_rdata o]; co_irq := co_irq o; co_trg := co_trg o |}.

Definition run_attached (b : built) (a : attached) (is : list cinp) : list cout :=
  map back (run b (init b) (map (through a) is)).
