(* Specification vocabulary for the CSR-builder property (C17): the promised layout in closed form,
   what makes a layout illegal, and the lexical reading of Cluster/Index blocks.  None of these
   definitions mentions the memory map's data structures. *)
From Coq Require Import ZArith List Bool.
From Soc Require Import Lib.Res Lib.Bits Lib.PyList Model.MemoryMap Model.MemSpec Model.Builder.
Import ListNotations.
Open Scope Z_scope.

(* ------------------------------------------------------------------ builders produced by the API *)

(* csr.Register.element.width is never negative *)
Definition regarg_ok (r : regarg) : bool := match r with RReg _ w => 0 <=? w | RNotReg => true end.

Fixpoint bop_ok (o : bop) : bool :=
  match o with
  | BAdd _ r _ => regarg_ok r
  | BScope _ body => forallb bop_ok body
  | BFreeze | BAsMap => true
  end.

(* every builder some finite history of API calls produces: any constructor arguments that are
   accepted, then any tree of add / with Cluster / with Index / freeze / as_memory_map calls *)
Definition reachable_builder (b : builder) : Prop :=
  exists aw dw g b0 ops, new_builder aw dw g = Ok b0 /\ forallb bop_ok ops = true /\
                         b = fst (run_ops b0 ops).

(* ------------------------------------------------------------------ the promised layout *)

(* what resources() reports per register: (identity, name, start, end) *)
Definition pent := (Z * name * Z * Z)%type.
Definition p_id (p : pent) : Z := match p with (id, _, _, _) => id end.
Definition p_name (p : pent) : name := match p with (_, n, _, _) => n end.
Definition p_start (p : pent) : Z := match p with (_, _, s, _) => s end.
Definition p_end (p : pent) : Z := match p with (_, _, _, e) => e end.

(* number of bus words of a register: ceil(width / data_width) *)
Definition units (b : builder) (r : breg) : Z := (b_width r + bd_dw b - 1) / bd_dw b.

(* addresses it occupies: units rounded up to a power of two, at least one *)
Definition span (b : builder) (r : breg) : Z := 2 ^ ceil_log2 (Z.max (units b r) 1).

(* the first multiple of k at or after v *)
Definition next_multiple (k v : Z) : Z := k * ((v + k - 1) / k).

(* start address, given the end of the previously added register *)
Definition start_of (b : builder) (cur : Z) (r : breg) : Z :=
  match b_off r with
  | Some o => o * bd_gran b / bd_dw b
  | None => next_multiple (span b r) cur
  end.

Fixpoint place_all (b : builder) (cur : Z) (l : list breg) : list pent :=
  match l with
  | [] => []
  | r :: l' => let s := start_of b cur r in
               (b_id r, b_name r, s, s + span b r) :: place_all b (s + span b r) l'
  end.

(* the layout in insertion order *)
Definition placed (b : builder) : list pent := place_all b 0 (bd_regs b).

Definition overlap (p q : pent) : Prop := p_start p < p_end q /\ p_start q < p_end p.

(* legal = every register lies inside [0, 2^addr_width), and no register overlaps a register added
   before it or has a name that equals / is a prefix of / extends the name of one added before it *)
Definition legal (b : builder) : Prop :=
  forall before p after, placed b = before ++ p :: after ->
    p_end p <= 2 ^ bd_aw b /\
    forall q, In q before -> ~ overlap p q /\ ~ name_conflict (p_name p) (p_name q).

(* illegal = some register leaves the address space, overlaps an earlier one, or collides in name *)
Definition illegal (b : builder) : Prop :=
  exists before p after, placed b = before ++ p :: after /\
    (2 ^ bd_aw b < p_end p \/
     exists q, In q before /\ (overlap p q \/ name_conflict (p_name p) (p_name q))).

(* ------------------------------------------------------------------ lexical scopes *)

(* the name part a block contributes, if its argument is accepted *)
Definition scope_part (k : scopearg) : option part :=
  match k with
  | KCluster nm => if valid_str nm then Some (PStr (atom_of nm)) else None
  | KIndex idx => if nonneg idx then Some (PInt (zof idx)) else None
  end.

(* a call together with the blocks that lexically enclose it *)
Inductive leaf := LAdd (scope : list part) (nm : rawstr) (r : regarg) (off : pyint) | LFreeze | LAsMap.

Fixpoint flatten (scope : list part) (o : bop) : list leaf :=
  match o with
  | BAdd nm r off => [LAdd scope nm r off]
  | BScope k body =>
      match scope_part k with
      | Some p => flat_map (flatten (scope ++ [p])) body
      | None => []
      end
  | BFreeze => [LFreeze]
  | BAsMap => [LAsMap]
  end.

(* an add executed with its lexical scope as the name prefix; the builder's own stack is untouched *)
Definition leaf_step (b : builder) (l : leaf) : builder :=
  match l with
  | LAdd scope nm r off =>
      match badd (set_stack b scope) nm r off with
      | Ok b' => set_stack b' (bd_stack b)
      | Err _ => b
      end
  | LFreeze => bfreeze b
  | LAsMap => fst (as_memory_map b)
  end.

(* no `assert` of Cluster/Index fired and no pop hit an empty stack *)
Fixpoint clean (o : bobs) : bool :=
  match o with
  | OScope _ body (Ok _) => forallb clean body
  | OScope _ _ (Err _) => false
  | _ => true
  end.
