(* Structure-mirroring model of csr.Register (amaranth_soc/csr/reg.py):
   FieldActionMap / FieldActionArray construction and flatten() (reg.py:233-410),
   Register.__init__ (annotation filter, access resolution, width sum, access compatibility check,
   reg.py:461-512), Register.__iter__ (reg.py:522-536) and Register.elaborate (reg.py:538-565).
   No proofs here. *)
From Coq Require Import ZArith List Bool.
From Soc Require Import Lib.Bits.
Import ListNotations.
Open Scope Z_scope.

(* FieldPort.Access and Element.Access *)
Inductive facc := FR | FW | FRW | FNC.
Inductive racc := ER | EW | ERW.

Definition f_readable (a : facc) : bool := match a with FR | FRW => true | _ => false end.
Definition f_writable (a : facc) : bool := match a with FW | FRW => true | _ => false end.
Definition e_readable (a : racc) : bool := match a with ER | ERW => true | _ => false end.
Definition e_writable (a : racc) : bool := match a with EW | ERW => true | _ => false end.
Definition racc_eqb (a b : racc) : bool :=
  match a, b with ER, ER | EW, EW | ERW, ERW => true | _, _ => false end.

Inductive exn := ValueError | TypeError.
Inductive res (X : Type) := Ok (x : X) | Err (e : exn).
Arguments Ok {X} x.
Arguments Err {X} e.

(* What the caller hands to Register(fields=...) or writes as class annotations.
   Leaf = csr.Field(action_cls, shape, ...) whose action has a port of that width and access
   (signedness / enum-ness of the shape never reaches the packing: ports are compared as bit patterns);
   Junk = any object that is neither a Field, a dict nor a list (an `int` annotation, a string, None...);
   Map  = dict (insertion ordered, keys interned as atoms); Arr = list. *)
Inductive ftree :=
| Leaf (w : Z) (a : facc)
| Junk
| Map (l : list (Z * ftree))
| Arr (l : list ftree).

(* one instantiated field action, as seen through field.port *)
Record field := { f_w : Z; f_a : facc }.

Definition is_nil {X} (l : list X) : bool := match l with [] => true | _ => false end.

(* Python truthiness of a filter_fields() result: None and empty dict/list are falsy *)
Definition truthy (t : ftree) : bool :=
  match t with
  | Leaf _ _ => true
  | Junk => false
  | Map l => negb (is_nil l)
  | Arr l => negb (is_nil l)
  end.

(* Register.__init__.filter_fields (reg.py:463-472); Junk stands for the implicit `return None` *)
Fixpoint filter_fields (t : ftree) : ftree :=
  match t with
  | Leaf w a => Leaf w a
  | Junk => Junk
  | Map l =>
      Map ((fix go (l : list (Z * ftree)) : list (Z * ftree) :=
              match l with
              | [] => []
              | (k, x) :: l' =>
                  let y := filter_fields x in
                  if truthy y then (k, y) :: go l' else go l'
              end) l)
  | Arr l =>
      Arr ((fix go (l : list ftree) : list ftree :=
              match l with
              | [] => []
              | x :: l' =>
                  let y := filter_fields x in
                  if truthy y then y :: go l' else go l'
              end) l)
  end.

(* FieldActionMap.__init__ / FieldActionArray.__init__ / Field.create() succeed (no TypeError):
   collections are non-empty, every value is a Field, dict or list, and every Field's shape is
   shape-like (here: a non-negative width; FieldPort.Signature.__init__, reg.py:59-60). *)
Fixpoint build_ok (t : ftree) : bool :=
  match t with
  | Leaf w _ => 0 <=? w
  | Junk => false
  | Map l =>
      negb (is_nil l) &&
      (fix go (l : list (Z * ftree)) : bool :=
         match l with
         | [] => true
         | (_, x) :: l' => build_ok x && go l'
         end) l
  | Arr l =>
      negb (is_nil l) &&
      (fix go (l : list ftree) : bool :=
         match l with
         | [] => true
         | x :: l' => build_ok x && go l'
         end) l
  end.

(* Register.__iter__: a single FieldAction yields itself, collections yield flatten()
   (FieldActionMap.flatten reg.py:317-333, FieldActionArray.flatten reg.py:394-410):
   depth first, dict insertion order / list index order.  Paths are not modelled (they only name
   submodules and error messages). *)
Fixpoint flatten (t : ftree) : list field :=
  match t with
  | Leaf w a => [ {| f_w := w; f_a := a |} ]
  | Junk => []
  | Map l =>
      (fix go (l : list (Z * ftree)) : list field :=
         match l with
         | [] => []
         | (_, x) :: l' => flatten x ++ go l'
         end) l
  | Arr l =>
      (fix go (l : list ftree) : list field :=
         match l with
         | [] => []
         | x :: l' => flatten x ++ go l'
         end) l
  end.

(* the `for field_path, field in self:` loop of Register.__init__ (reg.py:499-507) *)
Fixpoint check_fields (ra : racc) (l : list field) (width : Z) : res Z :=
  match l with
  | [] => Ok width
  | f :: l' =>
      let width := width + f_w f in
      if f_readable (f_a f) && negb (e_readable ra) then Err ValueError
      else if f_writable (f_a f) && negb (e_writable ra) then Err ValueError
      else check_fields ra l' width
  end.

(* from `if isinstance(fields, dict)` to the end of Register.__init__ (reg.py:490-509);
   the last test is Element.Signature.__init__'s own width validation (csr/bus.py:54-55) *)
Definition reg_core (t : ftree) (ra : racc) : res Z :=
  if build_ok t then
    match check_fields ra (flatten t) 0 with
    | Err e => Err e
    | Ok width => if width <? 0 then Err TypeError else Ok width
    end
  else Err TypeError.

(* the whole of Register.__init__:
   annot   = Some a  iff the instance has __annotations__ (a is that dict);
   fields  = the `fields` argument (None = None);
   cls_acc = access given at class creation (__init_subclass__), inst_acc = the `access` argument.
   Returns the field collection actually used, the element access and the element width. *)
Definition reg_new (annot fields : option ftree) (cls_acc inst_acc : option racc)
  : res (ftree * racc * Z) :=
  let fields1 :=
    match annot with
    | Some a =>
        let annot_fields := filter_fields a in
        match fields with
        | None => Ok (Some annot_fields)
        | Some f => if truthy annot_fields then Err ValueError else Ok (Some f)
        end
    | None => Ok fields
    end in
  match fields1 with
  | Err e => Err e
  | Ok fields2 =>
      let access1 :=
        match inst_acc with
        | Some a =>
            match cls_acc with
            | Some c => if racc_eqb a c then Ok a else Err ValueError
            | None => Ok a
            end
        | None =>
            match cls_acc with
            | Some c => Ok c
            | None => Err ValueError
            end
        end in
      match access1 with
      | Err e => Err e
      | Ok ra =>
          match fields2 with
          | None => Err TypeError            (* "Field collection must be a dict, list, or Field" *)
          | Some t =>
              match reg_core t ra with
              | Err e => Err e
              | Ok width => Ok (t, ra, width)
              end
          end
      end
  end.

(* ---- Register.elaborate ---- *)

(* element-side inputs of one evaluation; absent members (element not readable / writable) are
   never looked at by a register that the constructor accepted *)
Record ein := { e_r_stb : bool; e_w_stb : bool; e_w_data : Z }.
(* what one field port receives *)
Record fout := { p_r_stb : bool; p_w_stb : bool; p_w_data : Z }.

(* The `for field_path, field in self:` loop of elaborate (reg.py:543-563).
   `start` is field_start, `r_data` is element.r_data as assigned so far (comb default 0; an
   assignment to a slice replaces exactly those bits: Lib.Bits.set_slice), `v` is field.port.r_data.
   Outputs of a port that no statement drives stay at their reset value 0. *)
Fixpoint elab (e : ein) (start r_data : Z) (l : list (field * Z)) : Z * list fout :=
  match l with
  | [] => (r_data, [])
  | (f, v) :: l' =>
      let field_width := f_w f in
      let r_data1 := if f_readable (f_a f) then set_slice start field_width r_data v else r_data in
      let o := {| p_r_stb := if f_readable (f_a f) then e_r_stb e else false;
                  p_w_stb := if f_writable (f_a f) then e_w_stb e else false;
                  p_w_data := if f_writable (f_a f) then slice start field_width (e_w_data e) else 0 |} in
      let (rd, os) := elab e (start + field_width) r_data1 l' in
      (rd, o :: os)
  end.

(* a register built over field collection t: element.r_data and every field port, given the
   element-side inputs and each field's port.r_data in iteration order *)
Definition reg_out (t : ftree) (e : ein) (vs : list Z) : Z * list fout :=
  elab e 0 0 (combine (flatten t) vs).

(* ---- vocabulary of the theorems ---- *)
Definition sumz (l : list Z) : Z := fold_right Z.add 0 l.
(* bit offset of field number i: the total width of the fields that come before it *)
Definition offset_of (l : list field) (i : nat) : Z := sumz (map f_w (firstn i l)).
Definition incompatible (ra : racc) (f : field) : bool :=
  (f_readable (f_a f) && negb (e_readable ra)) || (f_writable (f_a f) && negb (e_writable ra)).
