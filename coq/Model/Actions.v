(* Structure-mirroring model of the CSR field actions (amaranth_soc/csr/action.py):
   R, W, RW, RW1C, RW1S and the reserved actions (ResRAW0, ResRAWL, ResR0WA, ResR0W0).

   Storage is a Z with an explicit width w; every value is the unsigned bit pattern (signed and
   enum/flag shapes are compared as patterns).  Whole-word reads of an input are truncated to the
   width and per-bit reads only look at bit positions below the width, so the model is total over
   arbitrary Z inputs. *)
From Coq Require Import ZArith List Bool.
From Soc Require Import Lib.Bits.
Import ListNotations.
Open Scope Z_scope.

Inductive kind := KR | KW | KRW | KRW1C | KRW1S | KRes.

(* shape width, `init=` argument (any integer; Signal() keeps its low w bits) *)
Record cfg := { c_kind : kind; c_w : Z; c_init : Z }.

(* One cycle of inputs.  port.* are driven by the register; r_data / set / clear are the
   hardware-side inputs (each exists on one kind of action only and is ignored by the others). *)
Record inp := { p_r_stb : bool; p_w_stb : bool; p_w_data : Z;
                in_r_data : Z; in_set : Z; in_clear : Z }.

(* One cycle of outputs.  A member the action does not have reads 0. *)
Record outp := { o_port_r_data : Z; o_data : Z; o_r_stb : bool; o_w_stb : bool; o_w_data : Z }.

Definition zero_out : outp :=
  {| o_port_r_data := 0; o_data := 0; o_r_stb := false; o_w_stb := false; o_w_data := 0 |}.

(* Signal(shape, init=init): the reset pattern.  R, W and the reserved actions have no storage. *)
Definition has_storage (k : kind) : bool :=
  match k with KRW | KRW1C | KRW1S => true | _ => false end.

Definition init_state (c : cfg) : Z :=
  if has_storage (c_kind c) then trunc (c_w c) (c_init c) else 0.

(* ---- m.d.sync statements on single storage bits ---------------------------------------------- *)

(* `with m.If(cond): m.d.sync += storage[n].eq(v)` *)
Record stmt := { s_cond : bool; s_bit : Z; s_val : bool }.

Definition assign_bit (acc n : Z) (v : bool) : Z := if v then Z.setbit acc n else Z.clearbit acc n.

(* Independent `If` statements in program order on top of "hold": a later enabled assignment to
   the same bit overrides an earlier one. *)
Definition exec (stmts : list stmt) (hold : Z) : Z :=
  fold_left (fun acc st => if s_cond st then assign_bit acc (s_bit st) (s_val st) else acc) stmts hold.

Definition bits_of (w : Z) : list Z := map Z.of_nat (seq 0 (Z.to_nat w)).

(* action.py:159-163
     for i, storage_bit in enumerate(Value.cast(self._storage)):
         with m.If(self.port.w_stb & Value.cast(self.port.w_data)[i]): m.d.sync += storage_bit.eq(0)
         with m.If(Value.cast(self.set)[i]):                          m.d.sync += storage_bit.eq(1) *)
Definition rw1c_stmts (w : Z) (i : inp) : list stmt :=
  flat_map (fun n =>
    [ {| s_cond := p_w_stb i && Z.testbit (p_w_data i) n; s_bit := n; s_val := false |};
      {| s_cond := Z.testbit (in_set i) n; s_bit := n; s_val := true |} ])
    (bits_of w).

(* action.py:213-217
     for i, storage_bit in enumerate(Value.cast(self._storage)):
         with m.If(Value.cast(self.clear)[i]):                        m.d.sync += storage_bit.eq(0)
         with m.If(self.port.w_stb & Value.cast(self.port.w_data)[i]): m.d.sync += storage_bit.eq(1) *)
Definition rw1s_stmts (w : Z) (i : inp) : list stmt :=
  flat_map (fun n =>
    [ {| s_cond := Z.testbit (in_clear i) n; s_bit := n; s_val := false |};
      {| s_cond := p_w_stb i && Z.testbit (p_w_data i) n; s_bit := n; s_val := true |} ])
    (bits_of w).

(* ---- the machine -------------------------------------------------------------------------------- *)

Definition next (c : cfg) (s : Z) (i : inp) : Z :=
  match c_kind c with
  | KRW   => if p_w_stb i then trunc (c_w c) (p_w_data i) else s   (* action.py:108-109 *)
  | KRW1C => exec (rw1c_stmts (c_w c) i) s
  | KRW1S => exec (rw1s_stmts (c_w c) i) s
  | KR | KW | KRes => s
  end.

Definition out (c : cfg) (s : Z) (i : inp) : outp :=
  match c_kind c with
  | KR =>                                                          (* action.py:35-38 *)
      {| o_port_r_data := trunc (c_w c) (in_r_data i); o_data := 0;
         o_r_stb := p_r_stb i; o_w_stb := false; o_w_data := 0 |}
  | KW =>                                                          (* action.py:67-70 *)
      {| o_port_r_data := 0; o_data := 0;
         o_r_stb := false; o_w_stb := p_w_stb i; o_w_data := trunc (c_w c) (p_w_data i) |}
  | KRW | KRW1C | KRW1S =>                                         (* port.r_data, data := _storage *)
      {| o_port_r_data := s; o_data := s; o_r_stb := false; o_w_stb := false; o_w_data := 0 |}
  | KRes => zero_out                                               (* return Module() *)
  end.

Fixpoint run (c : cfg) (s : Z) (is : list inp) : list outp :=
  match is with
  | [] => []
  | i :: is' => out c s i :: run c (next c s i) is'
  end.

Fixpoint state_after (c : cfg) (s : Z) (is : list inp) : Z :=
  match is with
  | [] => s
  | i :: is' => state_after c (next c s i) is'
  end.

(* storage at time t (before the t-th clock edge), and the whole observation from reset *)
Definition state_at (c : cfg) (is : list inp) (t : nat) : Z :=
  state_after c (init_state c) (firstn t is).
Definition run0 (c : cfg) (is : list inp) : list outp := run c (init_state c) is.
