(* Specification vocabulary for C16 (GPIO): the documented mode table, pin levels along a trace, the documented
   register layout, trace positions of the peripheral, and the CSR protocol premises (those of C04 / C05) stated on
   the peripheral's own bus trace.  Definitions only. *)
From Coq Require Import ZArith List Bool.
From Soc Require Import Lib.Bits Lib.Res.
From Soc Require Import Model.Mux Model.MuxSpec Model.Gpio.
From Soc Require Model.RegPack.
Import ListNotations.
Open Scope Z_scope.

(* ------------------------------------------------------------------ element level *)

(* the documented mode table *)
Definition documented (mode : Z) (data : bool) : pin_out :=
  match mode with
  | 0 => {| po_o := data; po_oe := false; po_alt := false |}          (* input-only: disabled *)
  | 1 => {| po_o := data; po_oe := true; po_alt := false |}           (* push-pull: driven *)
  | 2 => {| po_o := false; po_oe := negb data; po_alt := false |}     (* open-drain: drives low only while the bit is 0 *)
  | _ => {| po_o := data; po_oe := false; po_alt := true |}           (* alternate: disabled, flag raised *)
  end.

(* pin j's level in cycle t of an element-level trace (0 beyond its end) *)
Definition level (es : list elem_in) (j : nat) (t : nat) : bool :=
  match nth_error es t with Some e => Z.testbit (e_pins e) (Z.of_nat j) | None => false end.

(* the two-bit set/clear code addressed to pin j *)
Definition sc_code (e : elem_in) (j : nat) : Z := slice (2 * Z.of_nat j) 2 (e_sc_wdata e).

(* two element-level traces give pin j the same slices: pin level, its own bits of the three write-data words, the shared strobes *)
Definition agree_on (j : nat) (es1 es2 : list elem_in) : Prop :=
  map (fun e => pin_slice e j) es1 = map (fun e => pin_slice e j) es2.


(* ------------------------------------------------------------------ the registers in the vocabulary of C11 *)

(* the `fields` argument each register class passes to csr.Register.__init__ (dict key atoms: 1 = "pin", 2 = "set",
   3 = "clr"); signedness / enum-ness of a shape never reaches the packing *)
Definition mode_tree (n : nat) : RegPack.ftree := RegPack.Map [(1, RegPack.Arr (repeat (RegPack.Leaf 2 RegPack.FRW) n))].
Definition input_tree (n : nat) : RegPack.ftree := RegPack.Map [(1, RegPack.Arr (repeat (RegPack.Leaf 1 RegPack.FR) n))].
Definition output_tree (n : nat) : RegPack.ftree := RegPack.Map [(1, RegPack.Arr (repeat (RegPack.Leaf 1 RegPack.FRW) n))].
Definition setclr_tree (n : nat) : RegPack.ftree :=
  RegPack.Map [(1, RegPack.Arr (repeat (RegPack.Map [(2, RegPack.Leaf 1 RegPack.FW); (3, RegPack.Leaf 1 RegPack.FW)]) n))].


(* element-side inputs of the Mode / Output / SetClr registers in one cycle *)
Definition mode_ein (el : elem_in) (r_stb : bool) : RegPack.ein :=
  {| RegPack.e_r_stb := r_stb; RegPack.e_w_stb := e_mode_wstb el; RegPack.e_w_data := e_mode_wdata el |}.
Definition out_ein (el : elem_in) (r_stb : bool) : RegPack.ein :=
  {| RegPack.e_r_stb := r_stb; RegPack.e_w_stb := e_out_wstb el; RegPack.e_w_data := e_out_wdata el |}.
Definition sc_ein (el : elem_in) : RegPack.ein :=
  {| RegPack.e_r_stb := false; RegPack.e_w_stb := e_sc_wstb el; RegPack.e_w_data := e_sc_wdata el |}.


(* ------------------------------------------------------------------ constructor and layout *)

(* a register of w bits on a dw-bit bus occupies the next power of two of ceil(w/dw) addresses ... *)
Definition nsize (dw w : Z) : Z := 2 ^ ceil_log2 ((w + dw - 1) / dw).
(* ... starting at the next multiple of that size *)
Definition round_up (x p : Z) : Z := ((x + p - 1) / p) * p.

Fixpoint natural (dw cur : Z) (specs : list (Z * (bool * bool))) : list reg :=
  match specs with
  | [] => []
  | (w, (rd, wr)) :: specs' =>
      let a := round_up cur (nsize dw w) in
      {| r_start := a; r_stop := a + nsize dw w; r_width := w; r_rd := rd; r_wr := wr |}
        :: natural dw (a + nsize dw w) specs'
  end.

(* closed form of the end of the block: with Q / P the power-of-two sizes of the n-bit / 2n-bit registers (P is Q or 2Q),
   Mode [0,P), Input [P,P+Q), Output [P+Q,P+2Q), SetClr at the next multiple of P: 4Q addresses when P = Q, 3P otherwise *)
Definition span (dw n : Z) : Z :=
  let Q := nsize dw n in let P := nsize dw (2 * n) in if P =? Q then 4 * Q else 3 * P.

Definition types_ok (p : params) : bool :=
  posint (p_pins p) && nonneg (p_stages p) && posint (p_aw p) && posint (p_dw p).

Definition layout_of (p : params) : list reg := natural (zof (p_dw p)) 0 (reg_specs (zof (p_pins p))).

Definition fits (p : params) : bool :=
  forallb (fun r => r_stop r <=? 2 ^ zof (p_aw p)) (layout_of p).


(* ------------------------------------------------------------------ the peripheral over a bus trace *)

(* what the bridge's multiplexer / the element-level core see while the peripheral runs over bs *)
Fixpoint mux_trace (c : cfg) (s : st) (bs : list bus_in) : list Mux.inp :=
  match bs with
  | [] => []
  | b :: bs' => mux_in s b :: mux_trace c (next c s b) bs'
  end.

Fixpoint elem_trace (c : cfg) (s : st) (bs : list bus_in) : list elem_in :=
  match bs with
  | [] => []
  | b :: bs' => elem_of c s b :: elem_trace c (next c s b) bs'
  end.

(* the peripheral's state before cycle t of the trace *)
Definition at_time (c : cfg) (bs : list bus_in) (t : nat) : st := state_after c (init c) (firstn t bs).

Definition blevel (bs : list bus_in) (j : nat) (t : nat) : bool :=
  match nth_error bs t with Some b => Z.testbit (b_pins b) (Z.of_nat j) | None => false end.


Definition pin_at (c : cfg) (bs : list bus_in) (t j : nat) : option pin_st := nth_error (s_core (at_time c bs t)) j.


Record accepted (c : cfg) (n : Z) (r0 r1 r2 r3 : reg) : Prop := {
  a_wf : wf_cfg (g_mux c);
  a_regs : c_regs (g_mux c) = [r0; r1; r2; r3];
  a_pins : g_pins c = Z.to_nat n;
  a_n : 0 < n;
  a_w0 : r_width r0 = 2 * n; a_w1 : r_width r1 = n; a_w2 : r_width r2 = n; a_w3 : r_width r3 = 2 * n;
  a_rd0 : r_rd r0 = true; a_rd1 : r_rd r1 = true; a_rd2 : r_rd r2 = true; a_rd3 : r_rd r3 = false;
  a_wr0 : r_wr r0 = true; a_wr1 : r_wr r1 = false; a_wr2 : r_wr r2 = true; a_wr3 : r_wr r3 = true;
  a_order : 0 <= r_start r0 /\ r_start r0 < r_stop r0 /\ r_stop r0 <= r_start r1 /\ r_start r1 < r_stop r1 /\
            r_stop r1 <= r_start r2 /\ r_start r2 < r_stop r2 /\ r_stop r2 <= r_start r3 /\ r_start r3 < r_stop r3
}.


(* ------------------------------------------------------------------ protocol premises on the bus trace *)

(* cycle u writes (strobe up) inside writable register number k' <> k *)
Definition bus_other_write (c : cfg) (bs : list bus_in) (k u : nat) : Prop :=
  exists b k' r', nth_error bs u = Some b /\ nth_error (c_regs (g_mux c)) k' = Some r' /\ k' <> k /\
                  r_wr r' = true /\ b_wstb b = true /\ r_start r' <= b_addr b < r_stop r'.

(* the C05 premise on the bus trace: register r (number k) is completed at cycle t, `tj j` / `dj j` are the
   cycle and data of the latest write to its chunk j, and no other writable register was written meanwhile *)
Definition write_completes (c : cfg) (bs : list bus_in) (k : nat) (r : reg) (t : nat)
           (tj : Z -> nat) (dj : Z -> Z) : Prop :=
  (exists bt, nth_error bs t = Some bt /\ b_wstb bt = true /\ b_addr bt = r_stop r - 1) /\
  (forall j, 0 <= j < reg_len r -> j * c_dw (g_mux c) < r_width r ->
     (tj j <= t)%nat /\
     (exists b, nth_error bs (tj j) = Some b /\ b_wstb b = true /\ b_addr b = r_start r + j /\
                dj j = trunc (c_dw (g_mux c)) (b_wdata b)) /\
     (forall u b, (tj j < u <= t)%nat -> nth_error bs u = Some b ->
                  ~ (b_wstb b = true /\ b_addr b = r_start r + j))) /\
  (forall j u, 0 <= j < reg_len r -> j * c_dw (g_mux c) < r_width r -> (tj j < u <= t)%nat ->
               ~ bus_other_write c bs k u).

(* the value the transaction delivers *)
Definition written (c : cfg) (r : reg) (dj : Z -> Z) : Z :=
  assemble (c_dw (g_mux c)) (r_width r) dj (Z.to_nat (reg_len r)).

Definition bus_first_read (c : cfg) (bs : list bus_in) (u : nat) : Prop :=
  exists b r, nth_error bs u = Some b /\ In r (c_regs (g_mux c)) /\ r_rd r = true /\
              b_rstb b = true /\ b_addr b = r_start r.

(* the C04 premise on the bus trace: chunk j of readable register r (number k) is read at cycle t, its first chunk
   was read at t0 <= t, and no first chunk of any readable register was read in between *)
Definition read_follows (c : cfg) (bs : list bus_in) (r : reg) (t0 t : nat) (j : Z) : Prop :=
  (exists b0, nth_error bs t0 = Some b0 /\ b_rstb b0 = true /\ b_addr b0 = r_start r) /\
  (t0 <= t)%nat /\
  (forall u, (t0 < u <= t)%nat -> ~ bus_first_read c bs u) /\
  (exists bt, nth_error bs t = Some bt /\ b_rstb bt = true /\ b_addr bt = r_start r + j) /\
  0 <= j < reg_len r.

(* value of register number k at cycle t0 as the multiplexer samples it *)
Definition reg_value (c : cfg) (bs : list bus_in) (t0 k : nat) : Z :=
  match nth_error bs t0 with
  | Some b0 => nth k (i_rvals (mux_in (at_time c bs t0) b0)) 0
  | None => 0
  end.

