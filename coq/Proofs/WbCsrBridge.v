(* Proofs about the Wishbone->CSR bridge model (C10): exact_log2 and the constructor's geometry,
   the sequencer invariant, no stray strobes, and the transfer theorem (per-granule CSR accesses,
   acknowledge timing, read-data lanes) for every ratio 2^r, every address width, every trace. *)
From Coq Require Import ZArith List Bool Lia Arith ZifyBool.
From Soc Require Import Lib.Bits Model.WbCsrBridge.
Import ListNotations.
Open Scope Z_scope.


(* ---------- powers of two ---------- *)
Lemma pow2_succ k : 0 <= k -> 2 ^ (k + 1) = 2 * 2 ^ k.
Proof. intros Hk. rewrite Z.pow_add_r by lia. change (2 ^ 1) with 2. lia. Qed.

Lemma pow2_split a b : 0 <= a -> 0 <= b -> 2 ^ (a + b) = 2 ^ a * 2 ^ b.
Proof. intros; apply Z.pow_add_r; auto. Qed.

(* ---------- exact_log2 ---------- *)
Lemma bit_length_pred_pow2 k : 0 <= k -> bit_length (2 ^ k - 1) = k.
Proof.
  intros Hk. unfold bit_length.
  destruct (Z.eq_dec k 0) as [->|Hne]; [reflexivity|].
  pose proof (pow2_pos (k - 1) ltac:(lia)) as Hp.
  assert (E : 2 ^ k = 2 * 2 ^ (k - 1)).
  { replace k with ((k - 1) + 1) at 1 by lia. apply pow2_succ; lia. }
  destruct (Z.leb_spec (2 ^ k - 1) 0) as [Hle|Hgt]; [lia|].
  rewrite (Z.log2_unique (2 ^ k - 1) (k - 1)); [lia|lia|].
  replace (Z.succ (k - 1)) with k by lia. lia.
Qed.

Lemma exact_log2_pow2 k : 0 <= k -> exact_log2 (2 ^ k) = Some k.
Proof.
  intros Hk. unfold exact_log2. pose proof (pow2_pos k Hk) as Hp.
  rewrite land_pow2m1 by lia. rewrite Z.mod_same by lia.
  destruct (Z.leb_spec (2 ^ k) 0) as [Hle|Hgt]; [lia|]. simpl.
  rewrite bit_length_pred_pow2 by lia. reflexivity.
Qed.

Lemma exact_log2_some n k : exact_log2 n = Some k -> 0 <= k /\ n = 2 ^ k.
Proof.
  unfold exact_log2. intros H.
  destruct (Z.leb_spec n 0) as [Hle|Hpos]; [discriminate|].
  destruct (Z.eqb_spec (Z.land n (n - 1)) 0) as [Hl|Hl]; [|discriminate].
  simpl in H. injection H as H.
  pose proof (Z.log2_nonneg n) as Hk0.
  pose proof (Z.log2_spec n Hpos) as [Hlo Hhi].
  assert (En : n = 2 ^ Z.log2 n).
  { destruct (Z.eq_dec n (2 ^ Z.log2 n)) as [E|Hne]; [exact E|exfalso].
    assert (Hb1 : Z.testbit n (Z.log2 n) = true) by (apply Z.bit_log2; lia).
    assert (Hl2 : Z.log2 (n - 1) = Z.log2 n).
    { apply Z.log2_unique; [lia|]. lia. }
    assert (Hb2 : Z.testbit (n - 1) (Z.log2 n) = true).
    { rewrite <- Hl2. apply Z.bit_log2. pose proof (pow2_pos (Z.log2 n) Hk0). lia. }
    assert (Hb : Z.testbit (Z.land n (n - 1)) (Z.log2 n) = true)
      by (rewrite Z.land_spec, Hb1, Hb2; reflexivity).
    rewrite Hl, Z.bits_0 in Hb. discriminate. }
  rewrite En in H. rewrite bit_length_pred_pow2 in H by lia. subst k. split; [lia|exact En].
Qed.

Lemma exact_log2_none n : exact_log2 n = None -> forall k, 0 <= k -> n <> 2 ^ k.
Proof. intros H k Hk E. subst n. rewrite exact_log2_pow2 in H by lia. discriminate. Qed.


(* ---------- fields of a bit vector ---------- *)
(* set_slice off w z v = (hi * 2^w + trunc w v) * 2^off + lo *)
Lemma set_slice_decomp off w z v : 0 <= off -> 0 <= w ->
  set_slice off w z v = (z / 2 ^ off / 2 ^ w * 2 ^ w + trunc w v) * 2 ^ off + z mod 2 ^ off.
Proof.
  intros Ho Hw. unfold set_slice, slice.
  pose proof (pow2_pos off Ho) as Hp. pose proof (pow2_pos w Hw) as Hq.
  pose proof (Z.div_mod z (2 ^ off) ltac:(lia)) as E1.
  pose proof (Z.div_mod (z / 2 ^ off) (2 ^ w) ltac:(lia)) as E2.
  set (a := z / 2 ^ off) in *. set (lo := z mod 2 ^ off) in *.
  set (hi := a / 2 ^ w) in *. set (mid := a mod 2 ^ w) in *.
  set (P := 2 ^ off) in *. set (W := 2 ^ w) in *. set (t := trunc w v).
  rewrite E1 at 1. rewrite E2. ring.
Qed.

Lemma slice_set_same off w z v : 0 <= off -> 0 <= w ->
  slice off w (set_slice off w z v) = trunc w v.
Proof.
  intros Ho Hw. rewrite set_slice_decomp by lia. unfold slice.
  pose proof (pow2_pos off Ho) as Hp. pose proof (pow2_pos w Hw) as Hq.
  rewrite Z.div_add_l by lia.
  rewrite (Z.div_small (z mod 2 ^ off)) by (apply Z.mod_pos_bound; lia).
  rewrite Z.add_0_r. rewrite Z.add_comm. rewrite Z.mod_add by lia.
  apply Z.mod_small. apply trunc_range; lia.
Qed.

(* a field entirely above the replaced one *)
Lemma slice_set_above off w z v off' w' : 0 <= off -> 0 <= w -> off + w <= off' ->
  slice off' w' (set_slice off w z v) = slice off' w' z.
Proof.
  intros Ho Hw Hle. unfold slice. f_equal.
  replace off' with (off + (w + (off' - off - w))) by lia.
  rewrite !Z.pow_add_r by lia.
  pose proof (pow2_pos off Ho) as Hp. pose proof (pow2_pos w Hw) as Hq.
  pose proof (pow2_pos (off' - off - w) ltac:(lia)) as Hd.
  rewrite <- !Z.div_div by (try apply Z.mul_pos_pos; lia).
  f_equal. rewrite set_slice_decomp by lia.
  rewrite Z.div_add_l by lia.
  rewrite (Z.div_small (z mod 2 ^ off)) by (apply Z.mod_pos_bound; lia).
  rewrite Z.add_0_r. rewrite Z.div_add_l by lia.
  rewrite (Z.div_small (trunc w v)) by (apply trunc_range; lia). lia.
Qed.

(* a field entirely below the replaced one *)
Lemma slice_set_below off w z v off' w' : 0 <= off' -> 0 <= w' -> 0 <= w -> off' + w' <= off ->
  slice off' w' (set_slice off w z v) = slice off' w' z.
Proof.
  intros Ho Hw' Hw Hle. rewrite set_slice_decomp by lia.
  assert (G : forall q lo, slice off' w' (q * 2 ^ off + lo) = slice off' w' lo).
  { intros q lo. unfold slice.
    replace off with (off' + (w' + (off - off' - w'))) by lia.
    rewrite !Z.pow_add_r by lia.
    pose proof (pow2_pos off' Ho). pose proof (pow2_pos w' Hw'). pose proof (pow2_pos (off - off' - w') ltac:(lia)).
    replace (q * (2 ^ off' * (2 ^ w' * 2 ^ (off - off' - w'))) + lo)
      with (q * 2 ^ (off - off' - w') * 2 ^ w' * 2 ^ off' + lo) by ring.
    rewrite Z.div_add_l by lia. rewrite Z.add_comm. apply Z.mod_add. lia. }
  rewrite G. rewrite (Z.div_mod z (2 ^ off)) at 2 by (pose proof (pow2_pos off ltac:(lia)); lia).
  rewrite (Z.mul_comm (2 ^ off)). rewrite G. reflexivity.
Qed.

(* ------------------------------------------------------------------------------------------ *)
(* the sequencer                                                                              *)
(* ------------------------------------------------------------------------------------------ *)

Definition wf (c : cfg) : Prop := 0 <= c_r c /\ 0 <= c_caw c /\ 0 <= c_g c.
Definition nratio (c : cfg) : nat := Z.to_nat (ratio c).
Definition idle (s : st) : Prop := cycle s = 0 /\ ack s = false.
Definition act (i : inp) : bool := cyc i && stb i.

Lemma ratio_pos c : wf c -> 0 < ratio c.
Proof. intros (Hr & _). unfold ratio. apply pow2_pos; auto. Qed.

Lemma nratio_eq c : wf c -> Z.of_nat (nratio c) = ratio c.
Proof. intros H. unfold nratio. pose proof (ratio_pos c H). lia. Qed.

Lemma first_case_spec n : forall k v,
  first_case n k v = if (k <=? v) && (v <? k + Z.of_nat n) then Some v else None.
Proof.
  induction n as [|n IH]; intros k v.
  - simpl. destruct (Z.leb_spec k v), (Z.ltb_spec v (k + 0)); simpl; auto; lia.
  - cbn [first_case]. destruct (Z.eqb_spec v k) as [->|Hne].
    + destruct (Z.leb_spec k k), (Z.ltb_spec k (k + Z.of_nat (S n))); simpl; auto; lia.
    + rewrite IH.
      destruct (Z.leb_spec (k + 1) v), (Z.ltb_spec v (k + 1 + Z.of_nat n)),
               (Z.leb_spec k v), (Z.ltb_spec v (k + Z.of_nat (S n))); simpl; auto; lia.
Qed.

(* Switch(cycle): Case(cycle) when cycle < ratio, else Default *)
Lemma switch_cycle_spec c s : wf c ->
  switch_cycle c s = if (0 <=? cycle s) && (cycle s <? ratio c) then Some (cycle s) else None.
Proof.
  intros H. unfold switch_cycle. rewrite first_case_spec.
  fold (nratio c). rewrite nratio_eq by auto. reflexivity.
Qed.

Lemma trunc_cycle c x : wf c -> 0 <= x <= ratio c -> trunc (cycle_w c) x = x.
Proof.
  intros (Hr & _) Hx. apply trunc_small. unfold cycle_w, ratio in *.
  rewrite pow2_succ by lia. lia.
Qed.

(* the three kinds of step *)
Lemma next_case c s i : wf c -> ack s = false -> act i = true -> 0 <= cycle s < ratio c ->
  next c s i = {| cycle := cycle s + 1; ack := false;
                  dat_r := if 0 <? cycle s then set_lane c (cycle s - 1) (dat_r s) (r_data i)
                           else dat_r s |}.
Proof.
  intros Hwf Ha Hact Hc. unfold next. fold (act i). rewrite Hact, Ha.
  rewrite switch_cycle_spec by auto.
  destruct (Z.leb_spec 0 (cycle s)); [|lia]. destruct (Z.ltb_spec (cycle s) (ratio c)); [|lia].
  cbn [andb]. rewrite trunc_cycle by (auto; lia). reflexivity.
Qed.

Lemma next_default c s i : wf c -> ack s = false -> act i = true -> cycle s = ratio c ->
  next c s i = {| cycle := ratio c; ack := true;
                  dat_r := set_lane c (ratio c - 1) (dat_r s) (r_data i) |}.
Proof.
  intros Hwf Ha Hact Hc. unfold next. fold (act i). rewrite Hact, Ha.
  rewrite switch_cycle_spec by auto.
  destruct (Z.ltb_spec (cycle s) (ratio c)); [lia|]. rewrite andb_false_r. rewrite Hc. reflexivity.
Qed.

Lemma next_inactive c s i : ack s = false -> act i = false -> next c s i = s.
Proof. intros Ha Hact. unfold next. fold (act i). rewrite Hact, Ha. reflexivity. Qed.

Lemma idle_stays_idle c s i : idle s -> act i = false -> next c s i = s.
Proof. intros (_ & Ha) Hact. apply next_inactive; auto. Qed.

Lemma next_ack c s i : ack s = true -> cycle (next c s i) = 0 /\ ack (next c s i) = false.
Proof. intros Ha. unfold next. rewrite Ha. split; reflexivity. Qed.

(* ---------- reachable-state invariant ---------- *)
Definition inv (c : cfg) (s : st) : Prop :=
  0 <= cycle s <= ratio c /\ (ack s = true -> cycle s = ratio c).

Lemma init_inv c : wf c -> inv c init.
Proof. intros H. pose proof (ratio_pos c H). unfold inv, init; simpl. split; [lia|discriminate]. Qed.

Lemma next_inv c s i : wf c -> inv c s -> inv c (next c s i).
Proof.
  intros Hwf (Hc & Ha). pose proof (ratio_pos c Hwf) as Hp.
  destruct (ack s) eqn:Eack.
  - destruct (next_ack c s i Eack) as (E1 & E2). unfold inv. rewrite E1, E2. split; [lia|discriminate].
  - destruct (act i) eqn:Eact.
    + destruct (Z.eq_dec (cycle s) (ratio c)) as [E|Hne].
      * rewrite next_default by auto. unfold inv; simpl. split; [lia|auto].
      * rewrite next_case by (auto; lia). unfold inv; simpl. split; [lia|discriminate].
    + rewrite next_inactive by auto. unfold inv. rewrite Eack. split; [lia|discriminate].
Qed.

Lemma state_inv c tr t : wf c -> inv c (state_at c tr t).
Proof.
  intros Hwf. induction t as [|t IH]; cbn [state_at]; [apply init_inv; auto|apply next_inv; auto].
Qed.

Lemma state_after_inv c is : forall s, wf c -> inv c s -> inv c (state_after c s is).
Proof.
  induction is as [|i is IH]; intros s Hwf Hs; cbn [state_after]; auto.
  apply IH; auto. apply next_inv; auto.
Qed.

(* the acknowledge lasts one cycle, and is caused by a request in the Default state *)
Lemma ack_one_cycle c s i : ack s = true -> ack (next c s i) = false.
Proof. intros H. apply (next_ack c s i H). Qed.

Lemma ack_cause c s i : wf c -> inv c s -> ack (next c s i) = true ->
  ack s = false /\ cyc i = true /\ stb i = true /\ cycle s = ratio c.
Proof.
  intros Hwf (Hc & Ha) H.
  destruct (ack s) eqn:Eack; [rewrite (proj2 (next_ack c s i Eack)) in H; discriminate|].
  destruct (act i) eqn:Eact.
  - destruct (Z.eq_dec (cycle s) (ratio c)) as [E|Hne].
    + unfold act in Eact. apply andb_true_iff in Eact. tauto.
    + rewrite next_case in H by (auto; lia). simpl in H. discriminate.
  - rewrite next_inactive in H by auto. congruence.
Qed.

(* ---------- combinational outputs, closed form ---------- *)
Definition in_case (c : cfg) (s : st) (i : inp) : bool :=
  act i && (0 <=? cycle s) && (cycle s <? ratio c).

Lemma out_spec c s i : wf c ->
  out c s i =
    {| o_ack := ack s; o_dat_r := dat_r s;
       o_addr := trunc (c_caw c) (trunc (c_r c) (cycle s) + adr i * ratio c);
       o_r_stb := in_case c s i && Z.testbit (sel i) (cycle s) && negb (we i);
       o_w_stb := in_case c s i && Z.testbit (sel i) (cycle s) && we i;
       o_w_data := if in_case c s i then lane c (cycle s) (dat_w i) else 0 |}.
Proof.
  intros Hwf. unfold out, in_case. fold (act i). rewrite switch_cycle_spec by auto.
  destruct (act i); cbn [andb]; [|reflexivity].
  destruct ((0 <=? cycle s) && (cycle s <? ratio c)); reflexivity.
Qed.

Lemma out_ack c s i : o_ack (out c s i) = ack s.
Proof. unfold out. destruct (cyc i && stb i); [destruct (switch_cycle c s)|]; reflexivity. Qed.

Lemma out_dat_r c s i : o_dat_r (out c s i) = dat_r s.
Proof. unfold out. destruct (cyc i && stb i); [destruct (switch_cycle c s)|]; reflexivity. Qed.

Lemma no_stray_strobe c s i : wf c ->
  o_r_stb (out c s i) = true \/ o_w_stb (out c s i) = true ->
  cyc i = true /\ stb i = true /\ 0 <= cycle s < ratio c /\ Z.testbit (sel i) (cycle s) = true.
Proof.
  intros Hwf H. rewrite out_spec in H by auto. cbn [o_r_stb o_w_stb] in H.
  unfold in_case, act in H.
  destruct (cyc i), (stb i), (Z.leb_spec 0 (cycle s)), (Z.ltb_spec (cycle s) (ratio c)),
           (Z.testbit (sel i) (cycle s)); cbn [andb] in H;
    try (destruct H; discriminate); repeat split; auto; lia.
Qed.

Lemma strobe_direction c s i : wf c ->
  (o_r_stb (out c s i) = true -> we i = false) /\ (o_w_stb (out c s i) = true -> we i = true) /\
  (o_r_stb (out c s i) && o_w_stb (out c s i) = false).
Proof.
  intros Hwf. rewrite out_spec by auto. cbn [o_r_stb o_w_stb].
  destruct (in_case c s i), (Z.testbit (sel i) (cycle s)), (we i); cbn; auto.
Qed.

(* ---------- lanes ---------- *)
Lemma lane_set_same c i z v : wf c -> 0 <= i -> lane c i (set_lane c i z v) = trunc (c_g c) v.
Proof. intros (_ & _ & Hg) Hi. unfold lane, set_lane. apply slice_set_same; try apply Z.mul_nonneg_nonneg; lia. Qed.

Lemma lane_set_other c i j z v : wf c -> 0 <= i -> 0 <= j -> i <> j ->
  lane c i (set_lane c j z v) = lane c i z.
Proof.
  intros (_ & _ & Hg) Hi Hj Hne. unfold lane, set_lane.
  destruct (Z.lt_ge_cases i j) as [Hlt|Hge].
  - assert (Hm : (i + 1) * c_g c <= j * c_g c) by (apply Z.mul_le_mono_nonneg_r; lia).
    apply slice_set_below; try apply Z.mul_nonneg_nonneg; lia.
  - assert (Hm : (j + 1) * c_g c <= i * c_g c) by (apply Z.mul_le_mono_nonneg_r; lia).
    apply slice_set_above; try apply Z.mul_nonneg_nonneg; lia.
Qed.

(* ---------- a transfer ---------- *)
(* the Wishbone request is asserted at t0 and held, unchanged, on [t0, t0+n] *)
Definition req_held (tr : nat -> inp) (t0 n : nat) : Prop :=
  cyc (tr t0) = true /\ stb (tr t0) = true /\
  forall j, (j <= n)%nat ->
    cyc (tr (t0 + j)%nat) = cyc (tr t0) /\ stb (tr (t0 + j)%nat) = stb (tr t0) /\
    we (tr (t0 + j)%nat) = we (tr t0) /\ adr (tr (t0 + j)%nat) = adr (tr t0) /\
    sel (tr (t0 + j)%nat) = sel (tr t0) /\ dat_w (tr (t0 + j)%nat) = dat_w (tr t0).

Lemma req_held_act tr t0 n j : req_held tr t0 n -> (j <= n)%nat -> act (tr (t0 + j)%nat) = true.
Proof.
  intros (Hc & Hs & H) Hj. destruct (H j Hj) as (E1 & E2 & _). unfold act. rewrite E1, E2, Hc, Hs. reflexivity.
Qed.

Section Transfer.
  Variable c : cfg.
  Variable tr : nat -> inp.
  Variable t0 : nat.
  Hypothesis Hwf : wf c.
  Hypothesis Hidle : idle (state_at c tr t0).
  Hypothesis Hreq : req_held tr t0 (nratio c).

  Notation S_ j := (state_at c tr (t0 + j)).

  Lemma S_succ j : S_ (S j) = next c (S_ j) (tr (t0 + j)%nat).
  Proof. rewrite Nat.add_succ_r. reflexivity. Qed.

  (* counter progression: granule j is presented at t0+j, nothing is acknowledged yet *)
  Lemma xfer_progress j : (j <= nratio c)%nat -> cycle (S_ j) = Z.of_nat j /\ ack (S_ j) = false.
  Proof.
    pose proof (nratio_eq c Hwf) as HR.
    induction j as [|j IH]; intros Hj.
    - rewrite Nat.add_0_r. destruct Hidle as (E1 & E2). split; [simpl; lia|auto].
    - destruct (IH ltac:(lia)) as (Ec & Ea).
      rewrite S_succ. rewrite next_case; auto; try lia.
      + simpl. split; [lia|auto].
      + apply (req_held_act tr t0 (nratio c)); auto; lia.
  Qed.

  Lemma xfer_state_R : cycle (S_ (nratio c)) = ratio c /\ ack (S_ (nratio c)) = false.
  Proof. destruct (xfer_progress (nratio c) ltac:(lia)) as (E & A). rewrite nratio_eq in E by auto. auto. Qed.

  Lemma xfer_state_R1 : cycle (S_ (nratio c + 1)) = ratio c /\ ack (S_ (nratio c + 1)) = true.
  Proof.
    destruct xfer_state_R as (E & A). rewrite Nat.add_1_r, S_succ.
    rewrite next_default; auto. apply (req_held_act tr t0 (nratio c)); auto.
  Qed.

  (* whatever the initiator does in the acknowledge cycle *)
  Lemma xfer_state_R2 : idle (S_ (nratio c + 2)).
  Proof.
    destruct xfer_state_R1 as (_ & A).
    replace (nratio c + 2)%nat with (S (nratio c + 1)) by lia. rewrite S_succ.
    apply next_ack; auto.
  Qed.

  (* registered read data: lane i is loaded at the end of cycle t0+i+1 and not touched again *)
  Lemma xfer_dat_r_step j : (1 <= j <= nratio c)%nat ->
    dat_r (S_ (S j)) = set_lane c (Z.of_nat j - 1) (dat_r (S_ j)) (r_data (tr (t0 + j)%nat)).
  Proof.
    intros Hj. pose proof (nratio_eq c Hwf) as HR.
    destruct (xfer_progress j ltac:(lia)) as (Ec & Ea). rewrite S_succ.
    assert (Hact : act (tr (t0 + j)%nat) = true) by (apply (req_held_act tr t0 (nratio c)); auto; lia).
    destruct (Nat.eq_dec j (nratio c)) as [E|Hne].
    - rewrite next_default; auto; [|lia]. simpl. f_equal. lia.
    - rewrite next_case; auto; [|lia]. simpl. rewrite Ec.
      destruct (Z.ltb_spec 0 (Z.of_nat j)); [reflexivity|lia].
  Qed.

  Lemma xfer_lanes j : (j <= nratio c + 1)%nat -> forall i, (i + 2 <= j)%nat ->
    lane c (Z.of_nat i) (dat_r (S_ j)) = trunc (c_g c) (r_data (tr (t0 + i + 1)%nat)).
  Proof.
    induction j as [|j IH]; intros Hj i Hi; [lia|].
    rewrite xfer_dat_r_step by lia.
    destruct (Nat.eq_dec (i + 1) j) as [E|Hne].
    - replace (Z.of_nat j - 1) with (Z.of_nat i) by lia.
      rewrite lane_set_same by (auto; lia). subst j. rewrite Nat.add_assoc. reflexivity.
    - rewrite lane_set_other by (auto; lia). apply IH; lia.
  Qed.

  (* CSR side while granule i is presented *)
  Lemma xfer_granule i : (i < nratio c)%nat ->
    let o := out c (S_ i) (tr (t0 + i)%nat) in
    o_addr o = trunc (c_caw c) (adr (tr t0) * ratio c + Z.of_nat i) /\
    o_r_stb o = Z.testbit (sel (tr t0)) (Z.of_nat i) && negb (we (tr t0)) /\
    o_w_stb o = Z.testbit (sel (tr t0)) (Z.of_nat i) && we (tr t0) /\
    o_w_data o = lane c (Z.of_nat i) (dat_w (tr t0)).
  Proof.
    intros Hi o. subst o. pose proof (nratio_eq c Hwf) as HR.
    destruct (xfer_progress i ltac:(lia)) as (Ec & Ea).
    assert (Hact : act (tr (t0 + i)%nat) = true) by (apply (req_held_act tr t0 (nratio c)); auto; lia).
    destruct Hreq as (_ & _ & Hh). destruct (Hh i ltac:(lia)) as (_ & _ & Ew & Ead & Es & Ed).
    rewrite out_spec by auto. cbn [o_addr o_r_stb o_w_stb o_w_data].
    unfold in_case. rewrite Hact, Ec, Ew, Ead, Es, Ed.
    destruct (Z.leb_spec 0 (Z.of_nat i)); [|lia]. destruct (Z.ltb_spec (Z.of_nat i) (ratio c)); [|lia].
    cbn [andb]. repeat split; auto.
    f_equal. rewrite trunc_small; [lia|]. unfold ratio in *. lia.
  Qed.

  Lemma xfer_no_strobe_at_R :
    let o := out c (S_ (nratio c)) (tr (t0 + nratio c)%nat) in o_r_stb o = false /\ o_w_stb o = false.
  Proof.
    intros o; subst o. destruct xfer_state_R as (E & _).
    rewrite out_spec by auto. cbn [o_r_stb o_w_stb]. unfold in_case. rewrite E.
    destruct (Z.ltb_spec (ratio c) (ratio c)); [lia|]. rewrite !andb_false_r. auto.
  Qed.
End Transfer.

(* the whole transfer, at the ports *)
Theorem transfer c tr t0 : wf c -> idle (state_at c tr t0) -> req_held tr t0 (nratio c) ->
  let x := tr t0 in
  let R := nratio c in
  (forall i, (i < R)%nat ->
     let o := out_at c tr (t0 + i) in
     o_addr o = trunc (c_caw c) (adr x * ratio c + Z.of_nat i) /\
     o_r_stb o = Z.testbit (sel x) (Z.of_nat i) && negb (we x) /\
     o_w_stb o = Z.testbit (sel x) (Z.of_nat i) && we x /\
     o_w_data o = lane c (Z.of_nat i) (dat_w x)) /\
  (o_r_stb (out_at c tr (t0 + R)) = false /\ o_w_stb (out_at c tr (t0 + R)) = false) /\
  (forall j, (j <= R)%nat -> o_ack (out_at c tr (t0 + j)) = false) /\
  o_ack (out_at c tr (t0 + R + 1)) = true /\
  o_ack (out_at c tr (t0 + R + 2)) = false /\
  (forall i, (i < R)%nat ->
     lane c (Z.of_nat i) (o_dat_r (out_at c tr (t0 + R + 1))) = trunc (c_g c) (r_data (tr (t0 + i + 1)%nat))) /\
  idle (state_at c tr (t0 + R + 2)).
Proof.
  intros Hwf Hidle Hreq x R. subst x R. unfold out_at.
  pose proof (xfer_state_R1 c tr t0 Hwf Hidle Hreq) as (_ & HR1).
  pose proof (xfer_state_R2 c tr t0 Hwf Hidle Hreq) as HR2.
  rewrite <- !Nat.add_assoc.
  split; [intros i Hi; exact (xfer_granule c tr t0 Hwf Hidle Hreq i Hi)|].
  split; [exact (xfer_no_strobe_at_R c tr t0 Hwf Hidle Hreq)|].
  split; [intros j Hj; rewrite out_spec by auto; cbn [o_ack];
          exact (proj2 (xfer_progress c tr t0 Hwf Hidle Hreq j Hj))|].
  split; [rewrite out_spec by auto; exact HR1|].
  split; [rewrite out_spec by auto; exact (proj2 HR2)|].
  split; [|exact HR2].
  intros i Hi. rewrite out_spec by auto. cbn [o_dat_r].
  apply (xfer_lanes c tr t0 Hwf Hidle Hreq (nratio c + 1)); lia.
Qed.

(* ---------- finite runs (what the engine executes) are prefixes of the trace semantics ---------- *)
Lemma state_after_app c l1 : forall s l2, state_after c s (l1 ++ l2) = state_after c (state_after c s l1) l2.
Proof. induction l1 as [|i l1 IH]; intros s l2; simpl; auto. Qed.

Lemma state_after_firstn c is d t : (t <= length is)%nat ->
  state_after c init (firstn t is) = state_at c (fun n => nth n is d) t.
Proof.
  induction t as [|t IH]; intros Ht; [reflexivity|].
  cbn [state_at]. rewrite <- IH by lia.
  assert (E : firstn (S t) is = firstn t is ++ [nth t is d]).
  { clear IH. revert t Ht. induction is as [|a is IHis]; intros t Ht; simpl in *; [lia|].
    destruct t as [|t]; [reflexivity|]. simpl. f_equal. apply IHis. lia. }
  rewrite E, state_after_app. reflexivity.
Qed.

Lemma run_nth_gen c is : forall s t d, (t < length is)%nat ->
  nth_error (run c s is) t = Some (out c (state_after c s (firstn t is)) (nth t is d)).
Proof.
  induction is as [|i is IH]; intros s t d Ht; simpl in *; [lia|].
  destruct t as [|t]; [reflexivity|]. simpl. apply IH. lia.
Qed.

Theorem run_is_out_at c is d t : (t < length is)%nat ->
  nth_error (run c init is) t = Some (out_at c (fun n => nth n is d) t).
Proof.
  intros Ht. rewrite (run_nth_gen c is init t d Ht). unfold out_at.
  rewrite (state_after_firstn c is d t) by lia. reflexivity.
Qed.

(* ------------------------------------------------------------------------------------------ *)
(* the constructor                                                                            *)
(* ------------------------------------------------------------------------------------------ *)

Lemma legal_w_cases w : legal_w w = true -> w = 8 \/ w = 16 \/ w = 32 \/ w = 64.
Proof. unfold legal_w. lia. Qed.

Lemma pow2_le_8 r : 0 <= r -> 2 ^ r <= 8 -> r <= 3.
Proof.
  intros Hr H. destruct (Z.le_gt_cases r 3) as [|Hgt]; [auto|exfalso].
  pose proof (Z.pow_le_mono_r 2 4 r ltac:(lia) ltac:(lia)) as Hm. change (2 ^ 4) with 16 in Hm. lia.
Qed.

(* legal widths: the quotient is a power of two 1, 2, 4 or 8 and the division is exact *)
Lemma legal_quotient cdw dw r : legal_w cdw = true -> legal_w dw = true -> cdw <= dw ->
  dw / cdw = 2 ^ r -> 0 <= r -> dw = cdw * 2 ^ r /\ r <= 3.
Proof.
  intros Hc Hd Hle Hq Hr.
  apply legal_w_cases in Hc. apply legal_w_cases in Hd.
  destruct Hc as [-> | [-> | [-> | ->]]]; destruct Hd as [-> | [-> | [-> | ->]]]; try lia;
    match type of Hq with ?a / ?b = _ => let v := eval vm_compute in (a / b) in change (a / b) with v in Hq end;
    (split; [lia | apply pow2_le_8; lia]).
Qed.

(* Every accepted argument triple has the geometry the property quantifies over. *)
Theorem construct_ok k g : 1 <= k_caw k -> construct k = Ok g ->
  let dw := match k_dw k with None => k_cdw k | Some d => d end in
  legal_w (k_cdw k) = true /\ legal_w dw = true /\
  0 <= g_r g <= 3 /\ dw = k_cdw k * 2 ^ g_r g /\ g_r g <= k_caw k /\
  g = {| g_r := g_r g; g_wb_aw := k_caw k - g_r g; g_wb_dw := dw; g_gran := k_cdw k;
         g_mm_aw := k_caw k; g_mm_dw := k_cdw k;
         g_win_start := 0; g_win_stop := 2 ^ k_caw k; g_win_ratio := 1 |} /\
  wf (cfg_of k g).
Proof.
  intros Hcaw H dw. unfold construct in H. fold dw in H.
  destruct (legal_w (k_cdw k)) eqn:Elc; cbn [negb] in H; [|discriminate].
  destruct (exact_log2 (dw / k_cdw k)) as [r|] eqn:El; [|discriminate].
  destruct (Z.max 0 (k_caw k - r) <? 0) eqn:E0; [discriminate|].
  destruct (legal_w dw) eqn:Eld; cbn [negb] in H; [|discriminate].
  destruct (k_cdw k >? dw) eqn:Egt; [discriminate|].
  destruct (k_cdw k =? k_cdw k) eqn:Eeq; cbn [negb] in H; [|discriminate].
  destruct (k_caw k =? Z.max 1 (Z.max 0 (k_caw k - r) + r)) eqn:Eaw; cbn [negb] in H; [|discriminate].
  injection H as <-. cbn [g_r].
  apply exact_log2_some in El. destruct El as (Hr & Hq).
  destruct (legal_quotient (k_cdw k) dw r Elc Eld ltac:(lia) Hq Hr) as (Hdw & Hr3).
  assert (Hle : r <= k_caw k) by lia.
  assert (Hwf : wf (cfg_of k {| g_r := r; g_wb_aw := Z.max 0 (k_caw k - r); g_wb_dw := dw;
                                 g_gran := k_cdw k; g_mm_aw := k_caw k; g_mm_dw := k_cdw k;
                                 g_win_start := 0; g_win_stop := 2 ^ k_caw k; g_win_ratio := 1 |})).
  { unfold wf, cfg_of; cbn [c_r c_caw c_g g_r g_gran]. apply legal_w_cases in Elc. lia. }
  split; [reflexivity|]. split; [reflexivity|]. split; [lia|]. split; [exact Hdw|]. split; [exact Hle|].
  split; [|exact Hwf]. f_equal. lia.
Qed.

(* Conversely every geometry in the property's domain is accepted. *)
Theorem construct_complete caw cdw r : legal_w cdw = true -> legal_w (cdw * 2 ^ r) = true ->
  0 <= r <= caw -> 1 <= caw ->
  construct {| k_caw := caw; k_cdw := cdw; k_dw := Some (cdw * 2 ^ r) |} =
    Ok {| g_r := r; g_wb_aw := caw - r; g_wb_dw := cdw * 2 ^ r; g_gran := cdw;
          g_mm_aw := caw; g_mm_dw := cdw; g_win_start := 0; g_win_stop := 2 ^ caw; g_win_ratio := 1 |}.
Proof.
  intros Hc Hd Hr Hcaw. unfold construct. cbn [k_caw k_cdw k_dw].
  rewrite Hc, Hd. cbn [negb].
  assert (Hpos : 0 < cdw) by (apply legal_w_cases in Hc; lia).
  pose proof (pow2_pos r ltac:(lia)) as Hp.
  replace (cdw * 2 ^ r / cdw) with (2 ^ r) by (rewrite Z.mul_comm, Z.div_mul; lia).
  rewrite exact_log2_pow2 by lia.
  destruct (Z.ltb_spec (Z.max 0 (caw - r)) 0); [lia|].
  destruct (Z.gtb_spec cdw (cdw * 2 ^ r));
    [assert (cdw * 1 <= cdw * 2 ^ r) by (apply Z.mul_le_mono_nonneg_l; lia); lia|].
  rewrite Z.eqb_refl. cbn [negb].
  destruct (Z.eqb_spec caw (Z.max 1 (Z.max 0 (caw - r) + r))); [|lia]. cbn [negb].
  f_equal. f_equal. lia.
Qed.

(* default data_width: the ratio is 1 *)
Theorem construct_default caw cdw : legal_w cdw = true -> 1 <= caw ->
  construct {| k_caw := caw; k_cdw := cdw; k_dw := None |} =
    Ok {| g_r := 0; g_wb_aw := caw; g_wb_dw := cdw; g_gran := cdw;
          g_mm_aw := caw; g_mm_dw := cdw; g_win_start := 0; g_win_stop := 2 ^ caw; g_win_ratio := 1 |}.
Proof.
  intros Hc Hcaw. unfold construct. cbn [k_caw k_cdw k_dw]. rewrite Hc. cbn [negb].
  assert (Hpos : 0 < cdw) by (apply legal_w_cases in Hc; lia).
  rewrite Z.div_same by lia. change 1 with (2 ^ 0). rewrite exact_log2_pow2 by lia. change (2 ^ 0) with 1.
  destruct (Z.ltb_spec (Z.max 0 (caw - 0)) 0); [lia|].
  destruct (Z.gtb_spec cdw cdw); [lia|].
  rewrite Z.eqb_refl. cbn [negb].
  destruct (Z.eqb_spec caw (Z.max 1 (Z.max 0 (caw - 0) + 0))); [|lia]. cbn [negb].
  f_equal. f_equal. lia.
Qed.

(* every refusal is a ValueError *)
Theorem construct_err_value k e : construct k = Err e -> e = ValueError.
Proof.
  unfold construct. intros H.
  destruct (negb (legal_w (k_cdw k))); [injection H as <-; reflexivity|].
  destruct (exact_log2 _) as [r|]; [|injection H as <-; reflexivity].
  destruct (Z.ltb_spec (Z.max 0 (k_caw k - r)) 0) as [Hlt|_]; [lia|].
  repeat match type of H with
         | (if ?b then _ else _) = _ => destruct b
         end; try discriminate; injection H as <-; reflexivity.
Qed.

(* inside a constructed bridge the CSR address needs no truncation *)
Lemma addr_no_wrap caw r a i : 0 <= r <= caw -> 0 <= a < 2 ^ (caw - r) -> 0 <= i < 2 ^ r ->
  trunc caw (a * 2 ^ r + i) = a * 2 ^ r + i.
Proof.
  intros Hr Ha Hi. apply trunc_small.
  assert (E : 2 ^ caw = 2 ^ (caw - r) * 2 ^ r) by (rewrite <- Z.pow_add_r by lia; f_equal; lia).
  rewrite E. pose proof (pow2_pos r ltac:(lia)) as Hp.
  assert (H0 : 0 <= a * 2 ^ r) by (apply Z.mul_nonneg_nonneg; lia).
  assert (H1 : (a + 1) * 2 ^ r <= 2 ^ (caw - r) * 2 ^ r) by (apply Z.mul_le_mono_nonneg_r; lia).
  lia.
Qed.
