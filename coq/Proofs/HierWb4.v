(* C01, rung 2: reach_iff_decode for Wishbone hierarchies.  The routing read off the hardware (`wreach`:
   root decoder's Switch, the address a subordinate sees, SRAM row/lane, bridge address Cat(lane, adr),
   then rung 1 below the bridge) selects exactly the resource, and the granule / chunk of it, that the
   root memory map reports for the address. *)
From Coq Require Import ZArith List Bool Lia ZifyBool Arith Permutation.
From Soc Require Import Lib.Res Lib.PyList Lib.Bits Model.MemoryMap Model.MemSpec Model.Hierarchy
  Proofs.RangeMap Proofs.LookupArith Proofs.LookupWf Proofs.Lookup Proofs.MemArith Proofs.HierMap
  Proofs.HierCsr Proofs.HierInert Proofs.HierWf Proofs.HierWb Proofs.HierWb2 Proofs.HierWb3.
From Soc Require Model.Sram Model.WbCsrBridge Model.WbDecoder Proofs.Sram Proofs.WbCsrBridge
  Proofs.WbDecoder.
Import ListNotations.
Open Scope Z_scope.

Local Opaque Z.pow.

(* ------------------------------------------------------------------ reports, one level down *)

(* a map that holds only ratio-1 windows reports, at a, what the window containing a reports at the
   offset of a inside it *)
Lemma reports_down m l : wf_tree m -> all_resources m = Ok l -> m_ress m = [] ->
  (forall wn c, In (wn, c) (m_wins m) -> w_step wn = 1) ->
  forall a id off, reports l a id off <->
    exists wn c lc, In (wn, c) (m_wins m) /\ all_resources c = Ok lc /\
                    reports lc (a - w_start wn) id off.
Proof.
  intros Hwt Hl Hress Hstep a id off. pose proof (wf_tree_node _ Hwt) as Hwf. split.
  - intros (i & Hi & Hid & Hr & Ho).
    destruct (in_inv _ _ _ Hwf Hl Hi) as [(rr & Hrr & _)|(wn & c & lc & i' & Hwc & Hc & Hi' & Ht)];
      [rewrite Hress in Hrr; contradiction|].
    destruct (in_window _ _ _ _ _ _ Hwt Hwc Hc Hi' Ht) as (_ & _ & -> & _).
    rewrite (Hstep _ _ Hwc) in *. cbn [translated i_res i_start i_end] in *. rewrite !Z.div_1_r in *.
    exists wn, c, lc. split; [exact Hwc|]. split; [exact Hc|].
    exists i'. split; [exact Hi'|]. split; [exact Hid|]. split; lia.
  - intros (wn & c & lc & Hwc & Hc & i' & Hi' & Hid & Hr & Ho).
    destruct (win_contrib _ _ _ _ Hwf Hl Hwc) as (lc0 & lx & Hc0 & HF & _ & Hincl).
    rewrite Hc in Hc0. injection Hc0 as <-.
    destruct (Forall2_in_l _ _ _ _ HF Hi') as (i & Hi & Ht).
    destruct (in_window _ _ _ _ _ _ Hwt Hwc Hc Hi' Ht) as (_ & _ & -> & _).
    exists (translated i' (w_name wn) (w_start wn) (w_step wn)). split; [apply Hincl; exact Hi|].
    rewrite (Hstep _ _ Hwc). cbn [translated i_res i_start i_end]. rewrite !Z.div_1_r.
    split; [exact Hid|]. split; lia.
Qed.

(* what a report says about the address: it lies inside the map *)
Lemma reports_range m l a id off : wf_tree m -> all_resources m = Ok l -> reports l a id off ->
  0 <= a < 2 ^ m_aw m.
Proof.
  intros Hwt Hl (i & Hi & _ & Hr & _). destruct (sorted_wf _ Hwt _ Hl) as [Hasc Hend].
  pose proof (Hend _ Hi). destruct (ascending_in _ _ _ _ Hasc (in_spans _ _ Hi)). lia.
Qed.

(* a WishboneSRAM's map reports the SRAM at every address, granule by granule *)
Lemma sram_reports id size dw gran wr init w lc :
  wb_map (SramLeaf id size dw gran wr init) = Ok w -> all_resources w = Ok lc -> 1 <= size ->
  forall a id' off, reports lc a id' off <-> id' = id /\ 0 <= a < size /\ off = a.
Proof.
  intros Hm Hl Hsz a id' off.
  destruct (sram_map_spec _ _ _ _ _ _ _ Hm) as (Hwt & _ & _ & Hw & x & Hr & Hx & Hs & He).
  pose proof (wf_tree_node _ Hwt) as Hwf. rewrite Z.max_l in He by lia. split.
  - intros (i & Hi & Hid & Hra & Ho).
    destruct (in_inv _ _ _ Hwf Hl Hi) as [(rr & Hrr & Hmk)|(wn & c & _ & _ & Hwc & _)];
      [|rewrite Hw in Hwc; contradiction].
    rewrite Hr in Hrr. destruct Hrr as [<-|[]]. apply mk_info_ok in Hmk as (-> & _).
    cbn [i_res i_start i_end] in *. lia.
  - intros (-> & Ha & ->).
    assert (Hin : In x (m_ress w)) by (rewrite Hr; left; reflexivity).
    destruct (res_contrib _ _ _ Hwf Hl Hin) as (i & Hmk & Hi & _).
    apply mk_info_ok in Hmk as (-> & _). eexists. split; [exact Hi|].
    cbn [i_res i_start i_end]. lia.
Qed.

(* ------------------------------------------------------------------ one subordinate *)

(* what a subordinate does with the offset of the address inside its window *)
Definition node_reach (hh : whw) (a : Z) : option (Z * Z) :=
  match hh with HSram id _ _ => Some (id, a) | HBridge _ ch => creach ch a end.

Lemma node_reach_good r o sp n w g hh lc :
  wsub_dom r (o, sp, n) -> wb_map n = Ok w -> wb_hw n = Ok (g, hh) -> all_resources w = Ok lc ->
  forall a, 0 <= a < 2 ^ wb_maw n ->
  forall id off, node_reach hh a = Some (id, off) <-> reports lc a id off.
Proof.
  intros (_ & _ & Hc) Hm Hh Hl a Ha id off. cbn [snd] in Hc.
  destruct n as [id0 size dw gran wr init|dw nm c]; cbn [wb_maw] in Ha.
  - destruct (sram_hw_spec _ _ _ _ _ _ _ _ Hh) as (ge & rows0 & gb & -> & _ & _ & _ & Hp & Es & _).
    assert (Hsz : 1 <= size) by (rewrite Es; pose proof (pow2_pos (Z.log2 size)); lia).
    rewrite (sram_reports _ _ _ _ _ _ _ _ Hm Hl Hsz). cbn [node_reach]. rewrite Es. split.
    + intros [= <- <-]. auto.
    + intros (-> & _ & ->). reflexivity.
  - destruct (bridge_map_spec _ _ _ _ Hc Hm)
      as (wc & wnb & Hmc & Hwwc & Hawc & _ & Hpos & Hwt & _ & _ & Hress & Hwins & Hstep & Hstart).
    destruct (bridge_hw_spec _ _ _ _ _ Hpos Hh) as (bc & ch & gb & -> & Hch & _).
    cbn [node_reach].
    assert (Hin : In (wnb, set_frozen wc) (m_wins w)) by (rewrite Hwins; left; reflexivity).
    destruct (win_contrib _ _ _ _ (wf_tree_node _ Hwt) Hl Hin) as (lcc & _ & Hlcc & _).
    assert (Hst1 : forall wn c0, In (wn, c0) (m_wins w) -> w_step wn = 1).
    { intros wn c0 H0. rewrite Hwins in H0. destruct H0 as [H0|[]]. injection H0 as <- _. exact Hstep. }
    rewrite (reports_down w lc Hwt Hl Hress Hst1).
    rewrite frozen_all_resources in Hlcc.
    rewrite (creach_good c Hc wc ch lcc Hmc Hch Hlcc a Ha id off). split.
    + intros H. exists wnb, (set_frozen wc), lcc. split; [exact Hin|].
      rewrite frozen_all_resources. split; [exact Hlcc|]. rewrite Hstart, Z.sub_0_r. exact H.
    + intros (wn & c0 & lc0 & H0 & Hc0 & H). rewrite Hwins in H0. destruct H0 as [H0|[]].
      injection H0 as <- <-. rewrite frozen_all_resources, Hlcc in Hc0. injection Hc0 as <-.
      rewrite Hstart, Z.sub_0_r in H. exact H.
Qed.

(* ------------------------------------------------------------------ address arithmetic *)

(* inside a window [ws, ws + 2^W) aligned to its size: word address truncated to the subordinate's
   W - gb bits, times the lanes per word, plus the lane = the offset inside the window *)
Lemma win_offset ga ws gb W : 0 <= gb <= W -> ws mod 2 ^ W = 0 -> ws <= ga < ws + 2 ^ W ->
  trunc (W - gb) (ga / 2 ^ gb) * 2 ^ gb + ga mod 2 ^ gb = ga - ws.
Proof.
  intros Hgb Hal Hr. unfold trunc.
  assert (HG : 0 < 2 ^ gb) by (apply Z.pow_pos_nonneg; lia).
  assert (HK : 0 < 2 ^ (W - gb)) by (apply Z.pow_pos_nonneg; lia).
  assert (HWs : 2 ^ W = 2 ^ (W - gb) * 2 ^ gb) by (rewrite <- Z.pow_add_r by lia; f_equal; lia).
  set (q := ws / 2 ^ W).
  assert (Hws : ws = q * 2 ^ (W - gb) * 2 ^ gb).
  { unfold q. pose proof (Z.div_mod ws (2 ^ W)). rewrite <- Z.mul_assoc, <- HWs. lia. }
  set (d := ga - ws). assert (Hd : 0 <= d < 2 ^ (W - gb) * 2 ^ gb) by (unfold d; lia).
  replace ga with (q * 2 ^ (W - gb) * 2 ^ gb + d) by (unfold d; lia).
  rewrite Z.div_add_l by lia.
  assert (Hdq : 0 <= d / 2 ^ gb < 2 ^ (W - gb)).
  { split; [apply Z.div_pos; lia|]. apply Z.div_lt_upper_bound; lia. }
  rewrite (Z.add_comm (q * 2 ^ (W - gb))), Z.mod_add by lia. rewrite (Z.mod_small (d / 2 ^ gb)) by lia.
  rewrite (Z.add_comm (q * 2 ^ (W - gb) * 2 ^ gb)), Z.mod_add by lia.
  pose proof (Z.div_mod d (2 ^ gb)). lia.
Qed.

(* a range between two multiples of p contains a iff it contains the multiple of p below a *)
Lemma floor_interval x y p a : 0 < p -> x mod p = 0 -> y mod p = 0 ->
  (x <= a / p * p < y <-> x <= a < y).
Proof.
  intros Hp Hx Hy.
  pose proof (Z.div_mod a p) as Da. pose proof (Z.mod_pos_bound a p Hp) as Ba.
  pose proof (Z.div_mod x p) as Dx. pose proof (Z.div_mod y p) as Dy.
  set (t := a / p) in *. set (x' := x / p) in *. set (y' := y / p) in *.
  assert (Ex : x = p * x') by lia. assert (Ey : y = p * y') by lia. rewrite Ex, Ey.
  pose proof (Z.mul_lt_mono_pos_l p t y' Hp) as M1.
  pose proof (Z.mul_lt_mono_pos_l p x' (t + 1) Hp) as M2.
  pose proof (Z.mul_le_mono_pos_l x' t p Hp) as M3.
  pose proof (Z.mul_le_mono_pos_l (t + 1) y' p Hp) as M4.
  split; intros [H1 H2]; split.
  - lia.
  - assert (t < y') by (apply M1; lia). assert (p * (t + 1) <= p * y') by (apply M4; lia). lia.
  - assert (x' < t + 1) by (apply M2; lia). assert (p * x' <= p * t) by (apply M3; lia). lia.
  - lia.
Qed.

(* ------------------------------------------------------------------ the root decoder *)

Lemma cfg_geom r m h : wbroot_map r = Ok m -> wbroot_hw r = Ok h ->
  WbDecoder.c_geom (wh_cfg h) =
    {| WbDecoder.g_aw := wr_aw r; WbDecoder.g_dw := wr_dw r;
       WbDecoder.g_g := wr_gran r; WbDecoder.g_feat := nofeat |}.
Proof.
  intros Hm Hh. destruct (wbroot_hw_unfold r m h Hm Hh) as (l & _ & -> & _). reflexivity.
Qed.

Lemma cfg_gbits r m h : wbroot_map r = Ok m -> wbroot_hw r = Ok h ->
  WbDecoder.gbits (WbDecoder.c_geom (wh_cfg h)) = wbroot_gbits r.
Proof. intros Hm Hh. rewrite (cfg_geom r m h Hm Hh). reflexivity. Qed.

(* the Switch selects subordinate j exactly on the granule addresses of window j *)
Lemma sel_iff_range r m h j o sp n wn w g hh : wb_dom r -> wbroot_map r = Ok m -> wbroot_hw r = Ok h ->
  sub_is r m h j o sp n wn w g hh ->
  forall ga, 0 <= ga < 2 ^ (wr_aw r + wbroot_gbits r) ->
  (WbDecoder.selected (wh_cfg h) (ga / 2 ^ wbroot_gbits r) = Some j <->
   w_start wn <= ga < w_start wn + 2 ^ wb_maw n).
Proof.
  intros Hdom Hm Hh S ga Hga.
  pose proof (wbroot_cfg_dom r m h Hdom Hm Hh) as D.
  pose proof (cfg_geom r m h Hm Hh) as Egeom.
  destruct (sub_window _ _ _ _ _ _ _ _ _ _ _ Hdom Hm S) as (Hin & Hww & Haw & Hs0 & Hlen & Hst).
  destruct (sub_geom r o sp n w g hh (si_dom _ _ _ _ _ _ _ _ _ _ _ S) (si_map _ _ _ _ _ _ _ _ _ _ _ S)
              (si_hw _ _ _ _ _ _ _ _ _ _ _ S)) as (Hgb & Hpos & _).
  pose proof (si_cfg _ _ _ _ _ _ _ _ _ _ _ S) as Hj.
  pose proof (si_al _ _ _ _ _ _ _ _ _ _ _ S) as Hal. rewrite Haw in Hal.
  set (gb := wbroot_gbits r) in *.
  assert (HG : 0 < 2 ^ gb) by (apply Z.pow_pos_nonneg; lia).
  assert (Hadr : 0 <= ga / 2 ^ gb < 2 ^ WbDecoder.c_aw (wh_cfg h)).
  { unfold WbDecoder.c_aw. rewrite Egeom. cbn [WbDecoder.g_aw].
    split; [apply Z.div_pos; lia|]. apply Z.div_lt_upper_bound; [lia|].
    rewrite <- Z.pow_add_r by (destruct Hdom; lia). rewrite Z.add_comm. lia. }
  rewrite (Proofs.WbDecoder.selected_iff_window _ _ _ _ D Hadr Hj).
  rewrite (in_span_iff _ _ _ (proj1 (proj2 D) _ (nth_error_In _ _ Hj))).
  cbn [WbDecoder.s_win WbDecoder.w_start WbDecoder.w_aw]. rewrite Egeom.
  unfold WbDecoder.gbits. cbn [WbDecoder.g_dw WbDecoder.g_g]. fold (wbroot_gbits r). fold gb. rewrite Haw.
  assert (HWs : 2 ^ wb_maw n = 2 ^ (wb_maw n - gb) * 2 ^ gb) by (rewrite <- Z.pow_add_r by lia; f_equal; lia).
  apply floor_interval; [exact HG| |].
  - apply (mod_pow2_le _ (wb_maw n)); [lia|exact Hal].
  - apply add_mod0; [exact HG|apply (mod_pow2_le _ (wb_maw n)); [lia|exact Hal]|].
    rewrite HWs. apply Z.mod_mul. lia.
Qed.

(* what wreach computes once the Switch has selected subordinate j *)
Lemma wreach_sub r m h j o sp n wn w g hh : wb_dom r -> wbroot_map r = Ok m -> wbroot_hw r = Ok h ->
  sub_is r m h j o sp n wn w g hh ->
  forall ga, WbDecoder.selected (wh_cfg h) (ga / 2 ^ wbroot_gbits r) = Some j ->
  w_start wn <= ga < w_start wn + 2 ^ wb_maw n ->
  wreach h ga = node_reach hh (ga - w_start wn).
Proof.
  intros Hdom Hm Hh S ga Hsel Hr.
  destruct (sub_window _ _ _ _ _ _ _ _ _ _ _ Hdom Hm S) as (Hin & Hww & Haw & Hs0 & Hlen & Hst).
  pose proof (si_dom _ _ _ _ _ _ _ _ _ _ _ S) as Hd. pose proof (si_map _ _ _ _ _ _ _ _ _ _ _ S) as Hmw.
  pose proof (si_hw _ _ _ _ _ _ _ _ _ _ _ S) as Hhw.
  destruct (sub_geom r o sp n w g hh Hd Hmw Hhw) as (Hgb & Hpos & Hq & Ga & Gdg).
  pose proof (si_al _ _ _ _ _ _ _ _ _ _ _ S) as Hal. rewrite Haw in Hal.
  unfold wreach. cbv zeta. rewrite (cfg_gbits r m h Hm Hh), Hsel.
  rewrite (si_cfg _ _ _ _ _ _ _ _ _ _ _ S), (si_hh _ _ _ _ _ _ _ _ _ _ _ S).
  unfold WbDecoder.s_aw, WbDecoder.s_dw, WbDecoder.s_g.
  cbn [WbDecoder.s_geom WbDecoder.s_win WbDecoder.w_ratio].
  rewrite (si_step _ _ _ _ _ _ _ _ _ _ _ S). change (Z.log2 1) with 0. rewrite Z.shiftl_0_r.
  rewrite Ga, Gdg.
  set (gb := wbroot_gbits r) in *.
  assert (HG : 0 < 2 ^ gb) by (apply Z.pow_pos_nonneg; lia).
  pose proof (Z.mod_pos_bound ga (2 ^ gb) HG) as Hlane.
  destruct (Z.ltb_spec (ga mod 2 ^ gb) (2 ^ gb)) as [_|]; [|lia].
  pose proof (win_offset ga (w_start wn) gb (wb_maw n) Hgb Hal Hr) as Hoff.
  destruct Hd as (_ & _ & Hc). cbn [fst snd] in *.
  destruct n as [id0 size dw gran wr init|dw nm c]; cbn [wb_maw wb_ndw wb_ngran] in *.
  - destruct (sram_hw_spec _ _ _ _ _ _ _ _ Hhw) as (ge & rows0 & gb' & -> & G0 & Gq & _ & _ & _ & _ & _ & _ & Gaw & Gn).
    assert (gb' = gb).
    { apply (Z.pow_inj_r 2); [lia|lia|lia|]. rewrite <- Gq, <- Hq. reflexivity. }
    subst gb'. cbn [node_reach]. rewrite Gaw, Gn.
    rewrite trunc_idem by lia. rewrite Hoff. reflexivity.
  - destruct (bridge_map_spec _ _ _ _ Hc Hmw) as (wc & wnb & _ & _ & _ & _ & Hcpos & _).
    destruct (bridge_hw_spec _ _ _ _ _ Hcpos Hhw) as (bc & ch & gb' & -> & _ & G0 & Gq & _ & _ & _ & _ & Gr & Gcaw).
    assert (Egb : gb' = gb).
    { apply (Z.pow_inj_r 2); [lia|lia|lia|]. rewrite <- Gq, <- Hq. reflexivity. }
    rewrite Egb in Gr. cbn [node_reach]. rewrite Gr, Gcaw.
    rewrite (trunc_small gb (ga mod 2 ^ gb)) by lia.
    rewrite Z.add_comm, Hoff. rewrite trunc_small by lia. reflexivity.
Qed.

(* ------------------------------------------------------------------ the theorem *)

Theorem wreach_good r m h l : wb_dom r ->
  wbroot_map r = Ok m -> wbroot_hw r = Ok h -> all_resources m = Ok l ->
  forall ga, 0 <= ga < 2 ^ (wr_aw r + wbroot_gbits r) ->
  forall id off, wreach h ga = Some (id, off) <-> reports l ga id off.
Proof.
  intros Hdom Hm Hh Hl ga Hga id off.
  pose proof (wbroot_map_facts r m Hdom Hm) as [Hwt _ _ Fress _ _].
  pose proof (wf_tree_node _ Hwt) as Hwf.
  destruct (sub_view r m h Hdom Hm Hh) as (Hlc & Hlw & Hsub).
  (* every window of the root map is some subordinate's *)
  assert (Hwin : forall wn c, In (wn, c) (m_wins m) ->
            exists j o sp n w g hh, c = set_frozen w /\ sub_is r m h j o sp n wn w g hh).
  { intros wn c Hwc. destruct (In_nth_error _ _ Hwc) as [j Hj].
    assert (Hlt : (j < length (wr_subs r))%nat). { rewrite <- Hlw. apply nth_error_Some. congruence. }
    destruct (Hsub j Hlt) as (o & sp & n & wn' & w & g & hh & S).
    pose proof (si_win _ _ _ _ _ _ _ _ _ _ _ S) as Hj'. rewrite Hj in Hj'. injection Hj' as <- ->.
    exists j, o, sp, n, w, g, hh. auto. }
  assert (Hst1 : forall wn c, In (wn, c) (m_wins m) -> w_step wn = 1).
  { intros wn c Hwc. destruct (Hwin _ _ Hwc) as (j & o & sp & n & w & g & hh & _ & S).
    exact (si_step _ _ _ _ _ _ _ _ _ _ _ S). }
  rewrite (reports_down m l Hwt Hl Fress Hst1). split.
  - (* hardware -> map *)
    intros Hreach.
    destruct (WbDecoder.selected (wh_cfg h) (ga / 2 ^ wbroot_gbits r)) as [j|] eqn:Hsel.
    2:{ unfold wreach in Hreach. cbv zeta in Hreach. rewrite (cfg_gbits r m h Hm Hh), Hsel in Hreach. discriminate. }
    assert (Hlt : (j < length (wr_subs r))%nat).
    { rewrite <- Hlc. exact (Proofs.WbDecoder.matches_idx_lt _ _ _ (Proofs.WbDecoder.selected_some _ _ _ Hsel)). }
    destruct (Hsub j Hlt) as (o & sp & n & wn & w & g & hh & S).
    pose proof (proj1 (sel_iff_range _ _ _ _ _ _ _ _ _ _ _ Hdom Hm Hh S ga Hga) Hsel) as Hr.
    rewrite (wreach_sub _ _ _ _ _ _ _ _ _ _ _ Hdom Hm Hh S ga Hsel Hr) in Hreach.
    destruct (sub_window _ _ _ _ _ _ _ _ _ _ _ Hdom Hm S) as (Hin & _).
    destruct (win_contrib _ _ _ _ Hwf Hl Hin) as (lc & _ & Hlc' & _).
    exists wn, (set_frozen w), lc. split; [exact Hin|]. split; [exact Hlc'|].
    rewrite frozen_all_resources in Hlc'.
    apply (node_reach_good r o sp n w g hh lc (si_dom _ _ _ _ _ _ _ _ _ _ _ S)
             (si_map _ _ _ _ _ _ _ _ _ _ _ S) (si_hw _ _ _ _ _ _ _ _ _ _ _ S) Hlc'); [lia|exact Hreach].
  - (* map -> hardware *)
    intros (wn & c & lc & Hwc & Hc & Hrep).
    destruct (Hwin _ _ Hwc) as (j & o & sp & n & w & g & hh & -> & S).
    destruct (sub_window _ _ _ _ _ _ _ _ _ _ _ Hdom Hm S) as (Hin & Hww & Haw & _).
    rewrite frozen_all_resources in Hc.
    pose proof (reports_range w lc _ _ _ Hww Hc Hrep) as Hr. rewrite Haw in Hr.
    assert (Hr' : w_start wn <= ga < w_start wn + 2 ^ wb_maw n) by lia.
    pose proof (proj2 (sel_iff_range _ _ _ _ _ _ _ _ _ _ _ Hdom Hm Hh S ga Hga) Hr') as Hsel.
    rewrite (wreach_sub _ _ _ _ _ _ _ _ _ _ _ Hdom Hm Hh S ga Hsel Hr').
    apply (node_reach_good r o sp n w g hh lc (si_dom _ _ _ _ _ _ _ _ _ _ _ S)
             (si_map _ _ _ _ _ _ _ _ _ _ _ S) (si_hw _ _ _ _ _ _ _ _ _ _ _ S) Hc); [exact Hr|exact Hrep].
Qed.

(* ------------------------------------------------------------------ in the memory map's own words *)

(* reach_iff_decode for Wishbone hierarchies *)
Theorem wb_reach_iff_decode r m h l : wb_dom r ->
  wbroot_map r = Ok m -> wbroot_hw r = Ok h -> all_resources m = Ok l ->
  forall ga, 0 <= ga < 2 ^ (wr_aw r + wbroot_gbits r) ->
  forall id off, wreach h ga = Some (id, off) <->
    decode_address m ga = Some id /\
    exists i, In i l /\ i_res i = id /\ i_start i <= ga < i_end i /\ off = ga - i_start i.
Proof.
  intros Hdom Hm Hh Hl ga Hga id off.
  pose proof (wf_wt _ _ (wbroot_map_facts r m Hdom Hm)) as Hwt.
  rewrite (wreach_good r m h l Hdom Hm Hh Hl ga Hga id off). split.
  - intros (i & Hi & Hid & Hr & Ho). split; [|exists i; auto].
    apply (decode_wf m Hwt l Hl). exists i. auto.
  - intros (_ & H). exact H.
Qed.

(* ... with find_resource(), every resource object occurring once in the hierarchy *)
Theorem wb_reach_iff_find r m h l : wb_dom r ->
  wbroot_map r = Ok m -> wbroot_hw r = Ok h -> all_resources m = Ok l -> NoDup (map i_res l) ->
  forall ga, 0 <= ga < 2 ^ (wr_aw r + wbroot_gbits r) ->
  forall id off, wreach h ga = Some (id, off) <->
    decode_address m ga = Some id /\
    exists i, find_resource m id = Ok i /\ off = ga - i_start i.
Proof.
  intros Hdom Hm Hh Hl Hnd ga Hga id off.
  pose proof (wf_wt _ _ (wbroot_map_facts r m Hdom Hm)) as Hwt.
  assert (Huniq : forall i1 i2, In i1 l -> In i2 l -> i_res i1 = i_res i2 -> i1 = i2).
  { clear - Hnd. induction l as [|x l IH]; intros i1 i2 H1 H2 He; [contradiction|].
    cbn [map] in Hnd. inversion Hnd as [|? ? Hni Hnd']; subst.
    destruct H1 as [<-|H1]; destruct H2 as [<-|H2]; auto.
    - exfalso. apply Hni. rewrite He. apply in_map. exact H2.
    - exfalso. apply Hni. rewrite <- He. apply in_map. exact H1. }
  destruct (find_wf m Hwt l Hl id) as (F1 & F2 & F3).
  rewrite (wb_reach_iff_decode r m h l Hdom Hm Hh Hl ga Hga id off). split.
  - intros (Hd & i & Hi & Hid & Hr & Ho). split; [exact Hd|].
    destruct F3 as [[i0 Hf]|Hk].
    + destruct (F1 _ Hf) as [Hi0 Hid0]. assert (i0 = i) by (apply Huniq; auto; congruence). subst i0. eauto.
    + exfalso. exact (proj1 F2 Hk i Hi Hid).
  - intros (Hd & i & Hf & Ho). split; [exact Hd|]. destruct (F1 _ Hf) as [Hi Hid].
    apply (decode_wf m Hwt l Hl) in Hd as (i1 & Hi1 & Hid1 & Hr1).
    assert (i1 = i) by (apply Huniq; auto; congruence). subst i1. exists i. auto.
Qed.

(* an address the root map leaves unassigned reaches nothing, and conversely *)
Theorem wb_unassigned_iff_unreached r m h l : wb_dom r ->
  wbroot_map r = Ok m -> wbroot_hw r = Ok h -> all_resources m = Ok l ->
  forall ga, 0 <= ga < 2 ^ (wr_aw r + wbroot_gbits r) -> (decode_address m ga = None <-> wreach h ga = None).
Proof.
  intros Hdom Hm Hh Hl ga Hga.
  pose proof (wf_wt _ _ (wbroot_map_facts r m Hdom Hm)) as Hwt. split.
  - intros Hd. destruct (wreach h ga) as [[id off]|] eqn:E; [|reflexivity].
    apply (wb_reach_iff_decode r m h l Hdom Hm Hh Hl ga Hga) in E as [E _]. congruence.
  - intros Hc. destruct (decode_address m ga) as [id|] eqn:E; [|reflexivity].
    apply (decode_wf m Hwt l Hl) in E as (i & Hi & Hid & Hr).
    assert (wreach h ga = Some (id, ga - i_start i)).
    { apply (wreach_good r m h l Hdom Hm Hh Hl ga Hga). exists i. auto. }
    congruence.
Qed.
