(* Proofs about the Wishbone decoder model (C07). *)
From Coq Require Import ZArith List Bool Lia Arith ZifyBool.
From Soc Require Import Lib.Bits Lib.Pattern Model.WbDecoder.
Import ListNotations.
Open Scope Z_scope.

(* ---------- lists: the elaboration order is a permutation of the positions ---------- *)

Lemma In_ins_idx key k l x : In x (ins_idx key k l) <-> x = k \/ In x l.
Proof.
  induction l as [|y l IH]; simpl.
  - intuition.
  - destruct (key k <? key y); simpl; rewrite ?IH; intuition.
Qed.

Lemma In_fold_ins key l : forall acc x,
  In x (fold_left (fun acc k => ins_idx key k acc) l acc) <-> In x l \/ In x acc.
Proof.
  induction l as [|k l IH]; intros acc x; simpl.
  - intuition.
  - rewrite IH, In_ins_idx. intuition.
Qed.

Lemma In_order c x : In x (order c) <-> (x < length (c_subs c))%nat.
Proof.
  unfold order. rewrite In_fold_ins, in_seq. simpl. intuition lia.
Qed.

Lemma matches_idx_lt c a j : matches_idx c a j = true -> (j < length (c_subs c))%nat.
Proof.
  unfold matches_idx. destruct (nth_error (c_subs c) j) eqn:E; [|discriminate].
  intros _. apply nth_error_Some. congruence.
Qed.

Lemma selected_some c a j : selected c a = Some j -> matches_idx c a j = true.
Proof. unfold selected. intros H. apply find_some in H. tauto. Qed.

Lemma selected_none c a j : selected c a = None -> matches_idx c a j = false.
Proof.
  unfold selected. intros H. destruct (matches_idx c a j) eqn:E; auto.
  pose proof (find_none _ _ H j) as N. rewrite N in E; [discriminate|].
  apply In_order, (matches_idx_lt c a j E).
Qed.

(* when at most one pattern matches, Switch picks it whatever the order of the Cases *)
Lemma selected_unique c a j :
  (forall k, matches_idx c a k = true -> k = j) ->
  matches_idx c a j = true -> selected c a = Some j.
Proof.
  intros U M. destruct (selected c a) as [k|] eqn:E.
  - f_equal. apply U, (selected_some c a k E).
  - rewrite (selected_none c a j E) in M. discriminate.
Qed.

Lemma is_sel_true sl j : is_sel sl j = true <-> sl = Some j.
Proof.
  unfold is_sel. destruct sl as [x|]; [|intuition discriminate].
  rewrite Nat.eqb_eq. intuition congruence.
Qed.

Lemma sub_outs_nth c q sl : forall l j0 k s,
  nth_error l k = Some s ->
  nth_error (sub_outs c q sl j0 l) k = Some (sub_out c q sl (j0 + k) s).
Proof.
  induction l as [|x l IH]; intros j0 k s H; destruct k; simpl in *; try discriminate.
  - injection H as <-. do 2 f_equal. lia.
  - rewrite (IH (S j0) k s H). do 2 f_equal. lia.
Qed.

Lemma sub_outs_length c q sl : forall l j0, length (sub_outs c q sl j0 l) = length l.
Proof. induction l; simpl; auto. Qed.

Lemma out_s_nth c i j s : nth_error (c_subs c) j = Some s ->
  nth_error (out_s (out c i)) j = Some (sub_out c (in_b i) (selected c (adr (in_b i))) j s).
Proof. intros H. unfold out. cbn [out_s]. apply (sub_outs_nth c _ _ _ 0%nat j s H). Qed.

(* ---------- response fan-in ---------- *)

Lemma fanin_none f : forall ss rs,
  (forall k s r, nth_error ss k = Some s -> nth_error rs k = Some r -> f s r = false) ->
  fanin f ss rs = false.
Proof.
  induction ss as [|s ss IH]; intros rs H; destruct rs as [|r rs]; simpl; auto.
  rewrite (H 0%nat s r eq_refl eq_refl). simpl.
  apply IH. intros k s' r' H1 H2. apply (H (S k) s' r' H1 H2).
Qed.

Lemma fanin_only f : forall ss rs j sj rj,
  nth_error ss j = Some sj -> nth_error rs j = Some rj ->
  (forall k s r, k <> j -> nth_error ss k = Some s -> nth_error rs k = Some r -> f s r = false) ->
  fanin f ss rs = f sj rj.
Proof.
  induction ss as [|s ss IH]; intros rs j sj rj Hs Hr H; destruct rs as [|r rs]; destruct j;
    simpl in *; try discriminate.
  - injection Hs as <-. injection Hr as <-.
    rewrite (fanin_none f ss rs); [apply orb_false_r|].
    intros k s' r' H1 H2. apply (H (S k) s' r'); auto.
  - rewrite (H 0%nat s r); auto. simpl.
    apply (IH rs j sj rj Hs Hr). intros k s' r' Hk H1 H2. apply (H (S k) s' r'); auto.
Qed.

(* ---------- add() ---------- *)

Lemma add_rejects_iff d s sparse :
  add_ok d s sparse = false <->
  (g_g d < g_g s \/
   (sparse = false /\ g_dw s <> g_dw d) \/
   (sparse = true /\ g_g s <> g_dw s) \/
   (f_err (g_feat s) = true /\ f_err (g_feat d) = false) \/
   (f_rty (g_feat s) = true /\ f_rty (g_feat d) = false) \/
   (f_stall (g_feat s) = true /\ f_stall (g_feat d) = false)).
Proof.
  unfold add_ok.
  destruct sparse, (f_err (g_feat s)), (f_err (g_feat d)), (f_rty (g_feat s)), (f_rty (g_feat d)),
    (f_stall (g_feat s)), (f_stall (g_feat d)); simpl; lia.
Qed.

Lemma added_ok d : forall l s, In s (added d l) -> add_ok d (s_geom s) (s_sparse s) = true.
Proof.
  unfold added. intros l s H. apply in_flat_map in H. destruct H as ([[g sp] ow] & _ & H).
  destruct (add_ok d g sp) eqn:E; [|destruct H].
  destruct ow; [|destruct H]. destruct H as [<-|[]]. exact E.
Qed.

(* ---------- which addresses a window's pattern matches ---------- *)

Definition start_word (c : cfg) (s : sub) : Z := w_start (s_win s) / 2 ^ gbits (c_geom c).
Definition span_words (c : cfg) (s : sub) : Z := 2 ^ (w_aw (s_win s) - gbits (c_geom c)).
Definition in_span (c : cfg) (s : sub) (a : Z) : Prop :=
  start_word c s <= a < start_word c s + span_words c s.

Definition win_dom (c : cfg) (s : sub) : Prop :=
  let w := s_win s in
  w_ratio w = 1 /\ 1 <= w_aw w /\ gbits (c_geom c) <= w_aw w /\ 0 <= w_start w /\
  w_start w mod 2 ^ w_aw w = 0 /\ w_start w + 2 ^ w_aw w <= w_stop w /\
  w_stop w <= 2 ^ map_aw (c_geom c).

Lemma gbits_nonneg g : 0 <= gbits g.
Proof. apply Z.log2_nonneg. Qed.

Lemma div_interval a d x : 0 < d -> (a / d = x <-> x * d <= a < x * d + d).
Proof.
  intros Hd. split.
  - intros <-. pose proof (Z.div_mod a d). pose proof (Z.mod_pos_bound a d). lia.
  - intros H. symmetry. apply (Z.div_unique a d x (a - x * d)); lia.
Qed.

Lemma pattern_matches_iff c s a :
  0 <= c_aw c -> win_dom c s -> 0 <= a < 2 ^ c_aw c ->
  (matches c s a = true <-> in_span c s a).
Proof.
  intros Haw (Hr & Hw1 & Hgw & Hst & Hal & Hsz & Hstop) Ha.
  unfold matches, sub_pattern, window_pattern, in_span, start_word, span_words.
  set (AW := c_aw c) in *. set (GB := gbits (c_geom c)) in *.
  set (W := w_aw (s_win s)) in *. set (ST := w_start (s_win s)) in *.
  set (MW := map_aw (c_geom c)) in *.
  assert (HGB : 0 <= GB) by apply gbits_nonneg.
  assert (HMW : MW = Z.max 1 (AW + GB)) by reflexivity.
  assert (HpW : 0 < 2 ^ W) by (apply Z.pow_pos_nonneg; lia).
  assert (HWM : W <= MW).
  { apply (Z.pow_le_mono_r_iff 2); lia. }
  rewrite Z.shiftr_div_pow2 by lia.
  set (x := ST / 2 ^ W).
  assert (HST : ST = x * 2 ^ W).
  { unfold x. pose proof (Z.div_mod ST (2 ^ W)). lia. }
  assert (Hx0 : 0 <= x) by (apply Z.div_pos; lia).
  assert (Hxc : x < 2 ^ (MW - W)).
  { assert (HMs : 2 ^ MW = 2 ^ (MW - W) * 2 ^ W) by (rewrite <- Z.pow_add_r by lia; f_equal; lia).
    assert (Hm : (x + 1) * 2 ^ W <= 2 ^ (MW - W) * 2 ^ W) by lia.
    apply Z.mul_le_mono_pos_r in Hm; lia. }
  assert (Hfull : (if 0 <? MW - W then fmt_bin (MW - W) x else []) = bits_msb (Z.to_nat (MW - W)) x).
  { destruct (Z.ltb_spec 0 (MW - W)).
    - apply fmt_bin_fits; lia.
    - replace (MW - W) with 0 by lia. reflexivity. }
  rewrite Hfull, firstn_bits_dashes.
  destruct (Z.le_gt_cases 1 (AW + GB)) as [Hge|Hlt].
  - (* the map is exactly aw + gb wide *)
    assert (MW = AW + GB) by lia.
    replace (Nat.min (Z.to_nat AW) (Z.to_nat (MW - W))) with (Z.to_nat (MW - W)) by lia.
    rewrite Nat.sub_diag. rewrite Z.shiftr_0_r.
    replace (Nat.min (Z.to_nat AW - Z.to_nat (MW - W)) (Z.to_nat W)) with (Z.to_nat (W - GB)) by lia.
    rewrite pmatch_prefix_iff; rewrite ?Z2Nat.id by lia; try lia.
    2:{ replace (MW - W + (W - GB)) with AW by lia. lia. }
    assert (HD : 0 < 2 ^ (W - GB)) by (apply Z.pow_pos_nonneg; lia).
    assert (HG : 0 < 2 ^ GB) by (apply Z.pow_pos_nonneg; lia).
    assert (HWs : 2 ^ W = 2 ^ (W - GB) * 2 ^ GB) by (rewrite <- Z.pow_add_r by lia; f_equal; lia).
    assert (Hsw : ST / 2 ^ GB = x * 2 ^ (W - GB)).
    { rewrite HST, HWs, Z.mul_assoc. apply Z.div_mul. lia. }
    rewrite Hsw. apply div_interval. lia.
  - (* aw = 0 and granularity = data width: one word, the pattern is empty *)
    assert (AW = 0) by lia. assert (GB = 0) by lia. assert (MW = 1) by lia.
    replace (Z.to_nat AW) with 0%nat by lia. cbn [Nat.min Nat.sub bits_msb repeat app pmatch].
    assert (2 ^ 1 <= 2 ^ W) by (apply Z.pow_le_mono_r; lia).
    replace (2 ^ 1) with 2 in * by reflexivity.
    replace (2 ^ AW) with 1 in Ha by (subst AW; rewrite H; reflexivity).
    replace GB with 0 by lia. rewrite Z.pow_0_r, Z.div_1_r, Z.sub_0_r.
    rewrite H1 in Hstop. replace (2 ^ 1) with 2 in Hstop by reflexivity.
    split; [intros _; lia | reflexivity].
Qed.

(* ---------- selection inside the property's domain ---------- *)

(* the decoder's configuration is inside the property's domain *)
Definition dom (c : cfg) : Prop :=
  0 <= c_aw c /\
  (forall s, In s (c_subs c) -> win_dom c s) /\
  (forall j k sj sk, j <> k -> nth_error (c_subs c) j = Some sj -> nth_error (c_subs c) k = Some sk ->
     w_stop (s_win sj) <= w_start (s_win sk) \/ w_stop (s_win sk) <= w_start (s_win sj)).

(* a word of the span lies inside the range the memory map assigned to the window *)
Lemma span_range c s a : win_dom c s -> in_span c s a ->
  w_start (s_win s) <= a * 2 ^ gbits (c_geom c) < w_stop (s_win s).
Proof.
  intros (Hr & Hw1 & Hgw & Hst & Hal & Hsz & Hstop).
  unfold in_span, start_word, span_words.
  set (GB := gbits (c_geom c)) in *. set (W := w_aw (s_win s)) in *. set (ST := w_start (s_win s)) in *.
  assert (HGB : 0 <= GB) by apply gbits_nonneg.
  assert (HD : 0 < 2 ^ (W - GB)) by (apply Z.pow_pos_nonneg; lia).
  assert (HG : 0 < 2 ^ GB) by (apply Z.pow_pos_nonneg; lia).
  assert (HWs : 2 ^ W = 2 ^ (W - GB) * 2 ^ GB) by (rewrite <- Z.pow_add_r by lia; f_equal; lia).
  assert (HST : ST = ST / 2 ^ W * 2 ^ W) by (pose proof (Z.div_mod ST (2 ^ W)); lia).
  assert (Hsw : ST / 2 ^ GB = ST / 2 ^ W * 2 ^ (W - GB)).
  { rewrite HST at 1. rewrite HWs, Z.mul_assoc. apply Z.div_mul. lia. }
  rewrite Hsw. intros [Hlo Hhi]. set (q := ST / 2 ^ W) in *.
  assert (H1 : q * 2 ^ (W - GB) * 2 ^ GB <= a * 2 ^ GB) by (apply Z.mul_le_mono_nonneg_r; lia).
  assert (H2 : (a + 1) * 2 ^ GB <= (q * 2 ^ (W - GB) + 2 ^ (W - GB)) * 2 ^ GB)
    by (apply Z.mul_le_mono_nonneg_r; lia).
  rewrite HWs in HST, Hsz. lia.
Qed.

Lemma span_disjoint c a j k sj sk : dom c ->
  nth_error (c_subs c) j = Some sj -> nth_error (c_subs c) k = Some sk ->
  in_span c sj a -> in_span c sk a -> j = k.
Proof.
  intros (_ & Hw & Hd) Hj Hk Sj Sk.
  destruct (Nat.eq_dec j k) as [|Hne]; auto. exfalso.
  pose proof (span_range c sj a (Hw sj (nth_error_In _ _ Hj)) Sj).
  pose proof (span_range c sk a (Hw sk (nth_error_In _ _ Hk)) Sk).
  destruct (Hd j k sj sk Hne Hj Hk); lia.
Qed.

Lemma matches_idx_span c a j s : dom c -> 0 <= a < 2 ^ c_aw c ->
  nth_error (c_subs c) j = Some s -> (matches_idx c a j = true <-> in_span c s a).
Proof.
  intros (Haw & Hw & _) Ha Hj. unfold matches_idx. rewrite Hj.
  apply pattern_matches_iff; auto. apply Hw, (nth_error_In _ _ Hj).
Qed.

(* the Switch selects exactly the subordinate whose window contains the address *)
Lemma selected_iff_window c a j s : dom c -> 0 <= a < 2 ^ c_aw c ->
  nth_error (c_subs c) j = Some s -> (selected c a = Some j <-> in_span c s a).
Proof.
  intros D Ha Hj. split.
  - intros H. apply (matches_idx_span c a j s D Ha Hj), selected_some, H.
  - intros H. apply selected_unique.
    + intros k Mk. destruct (nth_error (c_subs c) k) as [sk|] eqn:Ek.
      * apply (span_disjoint c a k j sk s D Ek Hj); auto.
        apply (matches_idx_span c a k sk D Ha Ek), Mk.
      * unfold matches_idx in Mk. rewrite Ek in Mk. discriminate.
    + apply (matches_idx_span c a j s D Ha Hj), H.
Qed.

Lemma selected_none_iff c a : dom c -> 0 <= a < 2 ^ c_aw c ->
  (selected c a = None <-> forall j s, nth_error (c_subs c) j = Some s -> ~ in_span c s a).
Proof.
  intros D Ha. split.
  - intros H j s Hj Sp. apply (selected_iff_window c a j s D Ha Hj) in Sp. congruence.
  - intros H. destruct (selected c a) as [j|] eqn:E; auto. exfalso.
    pose proof (selected_some c a j E) as M.
    destruct (nth_error (c_subs c) j) as [s|] eqn:Ej.
    + apply (H j s Ej), (selected_iff_window c a j s D Ha Ej), E.
    + unfold matches_idx in M. rewrite Ej in M. discriminate.
Qed.

(* at most one subordinate sees cyc — for EVERY configuration, inside the domain or not *)
Lemma cyc_at_most_one c i j k oj ok :
  nth_error (out_s (out c i)) j = Some oj -> nth_error (out_s (out c i)) k = Some ok ->
  o_cyc oj = true -> o_cyc ok = true -> j = k.
Proof.
  intros Hj Hk Cj Ck.
  assert (Lj : (j < length (c_subs c))%nat).
  { rewrite <- (sub_outs_length c (in_b i) (selected c (adr (in_b i))) (c_subs c) 0).
    apply nth_error_Some. unfold out in Hj. cbn [out_s] in Hj. congruence. }
  assert (Lk : (k < length (c_subs c))%nat).
  { rewrite <- (sub_outs_length c (in_b i) (selected c (adr (in_b i))) (c_subs c) 0).
    apply nth_error_Some. unfold out in Hk. cbn [out_s] in Hk. congruence. }
  destruct (nth_error (c_subs c) j) as [sj|] eqn:Ej; [|apply nth_error_None in Ej; lia].
  destruct (nth_error (c_subs c) k) as [sk|] eqn:Ek; [|apply nth_error_None in Ek; lia].
  rewrite (out_s_nth c i j sj Ej) in Hj. rewrite (out_s_nth c i k sk Ek) in Hk.
  injection Hj as <-. injection Hk as <-. cbn [o_cyc sub_out] in Cj, Ck.
  apply andb_prop in Cj. apply andb_prop in Ck. destruct Cj as [Cj _]. destruct Ck as [Ck _].
  apply is_sel_true in Cj. apply is_sel_true in Ck. congruence.
Qed.

Lemma cyc_iff_window c i j s o : dom c -> 0 <= adr (in_b i) < 2 ^ c_aw c ->
  nth_error (c_subs c) j = Some s -> nth_error (out_s (out c i)) j = Some o ->
  (o_cyc o = true <-> cyc (in_b i) = true /\ in_span c s (adr (in_b i))).
Proof.
  intros D Ha Hj Ho. rewrite (out_s_nth c i j s Hj) in Ho. injection Ho as <-.
  cbn [o_cyc sub_out]. rewrite andb_true_iff, is_sel_true.
  rewrite (selected_iff_window c _ j s D Ha Hj). tauto.
Qed.

(* ---------- request side ---------- *)

(* a dense window between equal geometries: the subordinate's memory map is as wide as the
   Interface.memory_map setter demands *)
Definition dense_equal (c : cfg) (s : sub) : Prop :=
  s_sparse s = false /\ s_dw s = c_dw c /\ s_g s = c_g c /\ 0 <= s_aw s /\
  w_aw (s_win s) = Z.max 1 (s_aw s + gbits (s_geom s)).

Lemma dense_equal_gbits c s : dense_equal c s -> gbits (s_geom s) = gbits (c_geom c).
Proof.
  intros (_ & Hd & Hg & _). unfold gbits. unfold s_dw, s_g, c_dw, c_g in *. rewrite Hd, Hg. reflexivity.
Qed.

(* the address a dense in-domain subordinate receives is the offset within its window, on its
   own address width *)
Lemma dense_offset_mod c s a : win_dom c s -> dense_equal c s -> 0 <= a ->
  trunc (s_aw s) (Z.shiftl a (Z.log2 (w_ratio (s_win s)))) = (a - start_word c s) mod 2 ^ s_aw s.
Proof.
  intros (Hr & Hw1 & Hgw & Hst & Hal & Hsz & Hstop) DE Ha.
  pose proof (dense_equal_gbits c s DE) as HG. destruct DE as (_ & _ & _ & Hsaw & Hmw).
  rewrite Hr. replace (Z.log2 1) with 0 by reflexivity. rewrite Z.shiftl_0_r.
  unfold trunc, start_word. rewrite HG in Hmw.
  set (GB := gbits (c_geom c)) in *. set (W := w_aw (s_win s)) in *. set (ST := w_start (s_win s)) in *.
  assert (HGB : 0 <= GB) by apply gbits_nonneg.
  assert (HST : ST = ST / 2 ^ W * 2 ^ W) by (pose proof (Z.div_mod ST (2 ^ W)); lia).
  assert (HWs : 2 ^ W = 2 ^ (W - GB - s_aw s) * 2 ^ s_aw s * 2 ^ GB).
  { rewrite <- !Z.pow_add_r by lia. f_equal. lia. }
  assert (Hsw : ST / 2 ^ GB = ST / 2 ^ W * 2 ^ (W - GB - s_aw s) * 2 ^ s_aw s).
  { rewrite HST at 1. rewrite HWs, !Z.mul_assoc. apply Z.div_mul.
    assert (0 < 2 ^ GB) by (apply Z.pow_pos_nonneg; lia). lia. }
  rewrite Hsw.
  replace (a - ST / 2 ^ W * 2 ^ (W - GB - s_aw s) * 2 ^ s_aw s)
    with (a + (- (ST / 2 ^ W * 2 ^ (W - GB - s_aw s))) * 2 ^ s_aw s) by ring.
  rewrite Z.mod_add; [reflexivity|]. assert (0 < 2 ^ s_aw s) by (apply Z.pow_pos_nonneg; lia). lia.
Qed.

(* ... and when the subordinate has at least one map address bit of its own (always, except the
   corner addr_width = 0 with granularity = data_width, whose map is one bit wider than the bus),
   that offset fits: the subordinate gets exactly adr - start_word *)
Lemma dense_offset c s a : win_dom c s -> dense_equal c s -> 1 <= s_aw s + gbits (c_geom c) ->
  in_span c s a ->
  trunc (s_aw s) (Z.shiftl a (Z.log2 (w_ratio (s_win s)))) = a - start_word c s.
Proof.
  intros WD DE H1 Sp.
  assert (Ha : 0 <= a).
  { destruct WD as (_ & _ & _ & Hst & _). unfold in_span, start_word in Sp.
    assert (0 <= w_start (s_win s) / 2 ^ gbits (c_geom c)).
    { apply Z.div_pos; auto. apply Z.pow_pos_nonneg; [lia|apply gbits_nonneg]. }
    lia. }
  rewrite (dense_offset_mod c s a WD DE Ha).
  pose proof (dense_equal_gbits c s DE) as HG. destruct DE as (_ & _ & _ & Hsaw & Hmw).
  rewrite HG in Hmw. unfold in_span, span_words in Sp.
  replace (w_aw (s_win s) - gbits (c_geom c)) with (s_aw s) in Sp by lia.
  apply Z.mod_small. lia.
Qed.

(* fan-out with ratio 1 is the identity on the decoder's select lines *)
Lemma mod_pow2_succ x n : 0 <= n ->
  x mod 2 ^ (n + 1) = x mod 2 ^ n + (if Z.testbit x n then 2 ^ n else 0).
Proof.
  intros Hn. rewrite Z.pow_add_r by lia. change (2 ^ 1) with 2.
  assert (0 < 2 ^ n) by (apply Z.pow_pos_nonneg; lia).
  rewrite Z.rem_mul_r by lia. rewrite <- Z.testbit_spec' by lia.
  destruct (Z.testbit x n); simpl; lia.
Qed.

Lemma fanout_nat_1 sel : forall n, fanout_nat n 1 sel = sel mod 2 ^ Z.of_nat n.
Proof.
  induction n as [|n IH].
  - simpl. rewrite Z.mod_1_r. reflexivity.
  - cbn [fanout_nat]. rewrite IH. rewrite Nat2Z.inj_succ, <- Z.add_1_r.
    rewrite mod_pow2_succ by lia. unfold ones. rewrite Z.mul_1_r. change (2 ^ 1 - 1) with 1.
    destruct (Z.testbit sel (Z.of_nat n)); lia.
Qed.

Lemma fanout_1 n sel : 0 <= n -> fanout n 1 sel = trunc n sel.
Proof. intros Hn. unfold fanout, trunc. rewrite fanout_nat_1, Z2Nat.id by lia. reflexivity. Qed.

(* ---------- response side ---------- *)

(* a subordinate keeps the response lines it has low *)
Definition quiet (s : sub) (r : sresp) : Prop :=
  ack r = false /\ f_err (s_feat s) && err r = false /\ f_rty (s_feat s) && rty r = false /\
  f_stall (s_feat s) && stall r = false.

Lemma response_relay c i j sj rj : dom c -> 0 <= adr (in_b i) < 2 ^ c_aw c ->
  nth_error (c_subs c) j = Some sj -> nth_error (in_s i) j = Some rj ->
  in_span c sj (adr (in_b i)) ->
  (forall k s r, k <> j -> nth_error (c_subs c) k = Some s -> nth_error (in_s i) k = Some r -> quiet s r) ->
  out_b (out c i) =
    {| r_ack := ack rj;
       r_err := f_err (c_feat c) && (f_err (s_feat sj) && err rj);
       r_rty := f_rty (c_feat c) && (f_rty (s_feat sj) && rty rj);
       r_stall := f_stall (c_feat c) && (f_stall (s_feat sj) && stall rj);
       r_dat_r := trunc (c_dw c) (dat_r rj) |}.
Proof.
  intros D Ha Hj Hr Sp Q. unfold out. cbn [out_b]. unfold bus_out.
  rewrite (proj2 (selected_iff_window c _ j sj D Ha Hj) Sp). rewrite Hr.
  rewrite (fanin_only (fun _ r => ack r) _ _ j sj rj Hj Hr) by (intros k s r Hk H1 H2; apply (Q k s r Hk H1 H2)).
  rewrite (fanin_only (fun s r => f_err (s_feat s) && err r) _ _ j sj rj Hj Hr)
    by (intros k s r Hk H1 H2; apply (Q k s r Hk H1 H2)).
  rewrite (fanin_only (fun s r => f_rty (s_feat s) && rty r) _ _ j sj rj Hj Hr)
    by (intros k s r Hk H1 H2; apply (Q k s r Hk H1 H2)).
  rewrite (fanin_only (fun s r => f_stall (s_feat s) && stall r) _ _ j sj rj Hj Hr)
    by (intros k s r Hk H1 H2; apply (Q k s r Hk H1 H2)).
  reflexivity.
Qed.

Lemma nobody_selected_dat_r c i : dom c -> 0 <= adr (in_b i) < 2 ^ c_aw c ->
  (forall j s, nth_error (c_subs c) j = Some s -> ~ in_span c s (adr (in_b i))) ->
  r_dat_r (out_b (out c i)) = 0 /\
  forall o, In o (out_s (out c i)) -> o_cyc o = false.
Proof.
  intros D Ha N. apply (selected_none_iff c _ D Ha) in N. unfold out. cbn [out_b out_s]. unfold bus_out.
  rewrite N. cbn [r_dat_r]. split; [reflexivity|].
  intros o Ho. apply In_nth_error in Ho. destruct Ho as (k & Hk).
  destruct (nth_error (c_subs c) k) as [s|] eqn:Ek.
  - rewrite (sub_outs_nth c _ _ _ 0%nat k s Ek) in Hk. injection Hk as <-. reflexivity.
  - apply nth_error_None in Ek. rewrite <- (sub_outs_length c (in_b i) None (c_subs c) 0) in Ek.
    apply nth_error_None in Ek. congruence.
Qed.

(* no subordinate responds => no response upstream (in particular when nobody is selected and the
   subordinates respect the Wishbone rule) *)
Lemma all_quiet_no_response c i :
  (forall k s r, nth_error (c_subs c) k = Some s -> nth_error (in_s i) k = Some r -> quiet s r) ->
  let b := out_b (out c i) in
  r_ack b = false /\ r_err b = false /\ r_rty b = false /\ r_stall b = false.
Proof.
  intros Q. unfold out. cbn [out_b]. unfold bus_out. cbn [r_ack r_err r_rty r_stall].
  rewrite (fanin_none (fun _ r => ack r)) by (intros k s r H1 H2; apply (Q k s r H1 H2)).
  rewrite (fanin_none (fun s r => f_err (s_feat s) && err r)) by (intros k s r H1 H2; apply (Q k s r H1 H2)).
  rewrite (fanin_none (fun s r => f_rty (s_feat s) && rty r)) by (intros k s r H1 H2; apply (Q k s r H1 H2)).
  rewrite (fanin_none (fun s r => f_stall (s_feat s) && stall r)) by (intros k s r H1 H2; apply (Q k s r H1 H2)).
  rewrite !andb_false_r. auto.
Qed.

(* a dense window between equal geometries relays address offset, write data and select unchanged *)
Lemma request_relay_dense c i j s o : dom c ->
  nth_error (c_subs c) j = Some s -> nth_error (out_s (out c i)) j = Some o ->
  dense_equal c s -> 1 <= s_aw s + gbits (c_geom c) ->
  in_span c s (adr (in_b i)) ->
  0 <= dat_w (in_b i) < 2 ^ c_dw c -> 0 <= sel (in_b i) < 2 ^ (c_dw c / c_g c) ->
  o_adr o = adr (in_b i) - start_word c s /\ o_dat_w o = dat_w (in_b i) /\ o_sel o = sel (in_b i).
Proof.
  intros (Haw & Hw & _) Hj Ho DE H1 Sp Hd Hs.
  rewrite (out_s_nth c i j s Hj) in Ho. injection Ho as <-. cbn [o_adr o_dat_w o_sel sub_out].
  pose proof (Hw s (nth_error_In _ _ Hj)) as WD.
  split; [apply (dense_offset c s _ WD DE H1 Sp)|].
  destruct DE as (_ & Hdw & Hg & _). destruct WD as (Hr & _). rewrite Hdw, Hg, Hr.
  assert (0 <= c_dw c / c_g c).
  { destruct (Z.le_gt_cases 0 (c_dw c / c_g c)); auto. rewrite Z.pow_neg_r in Hs by lia. lia. }
  split; [apply trunc_small; lia|].
  rewrite fanout_1 by lia. rewrite trunc_idem by lia. apply trunc_small. lia.
Qed.

(* outside the domain of the selection theorems, for the record: a (sparse) window narrower than one
   word is matched at exactly the word that contains it — two such windows inside the same word get
   the same pattern, and the first in address order wins *)
Lemma pattern_matches_subword c s a :
  0 <= c_aw c -> 0 <= w_aw (s_win s) < gbits (c_geom c) -> 0 <= w_start (s_win s) ->
  w_start (s_win s) mod 2 ^ w_aw (s_win s) = 0 ->
  w_start (s_win s) + 2 ^ w_aw (s_win s) <= 2 ^ map_aw (c_geom c) ->
  0 <= a < 2 ^ c_aw c ->
  (matches c s a = true <-> a = w_start (s_win s) / 2 ^ gbits (c_geom c)).
Proof.
  intros Haw Hw Hst Hal Hsz Ha.
  unfold matches, sub_pattern, window_pattern.
  set (AW := c_aw c) in *. set (GB := gbits (c_geom c)) in *.
  set (W := w_aw (s_win s)) in *. set (ST := w_start (s_win s)) in *.
  set (MW := map_aw (c_geom c)) in *.
  assert (HMW0 : MW = Z.max 1 (AW + GB)) by reflexivity.
  assert (HMW : MW = AW + GB) by lia.
  assert (HpW : 0 < 2 ^ W) by (apply Z.pow_pos_nonneg; lia).
  assert (HpG : 0 < 2 ^ GB) by (apply Z.pow_pos_nonneg; lia).
  rewrite Z.shiftr_div_pow2 by lia.
  set (x := ST / 2 ^ W).
  assert (HST : ST = x * 2 ^ W) by (unfold x; pose proof (Z.div_mod ST (2 ^ W)); lia).
  assert (Hx0 : 0 <= x) by (apply Z.div_pos; lia).
  assert (Hxc : x < 2 ^ (MW - W)).
  { assert (HMs : 2 ^ MW = 2 ^ (MW - W) * 2 ^ W) by (rewrite <- Z.pow_add_r by lia; f_equal; lia).
    assert (Hm : (x + 1) * 2 ^ W <= 2 ^ (MW - W) * 2 ^ W) by lia.
    apply Z.mul_le_mono_pos_r in Hm; lia. }
  replace (0 <? MW - W) with true by lia.
  rewrite fmt_bin_fits by lia. rewrite firstn_bits_dashes.
  replace (Nat.min (Z.to_nat AW) (Z.to_nat (MW - W))) with (Z.to_nat AW) by lia.
  replace (Nat.min (Z.to_nat AW - Z.to_nat (MW - W)) (Z.to_nat W)) with 0%nat by lia.
  replace (Z.of_nat (Z.to_nat (MW - W) - Z.to_nat AW)) with (GB - W) by lia.
  rewrite Z.shiftr_div_pow2 by lia.
  assert (Hy : x / 2 ^ (GB - W) = ST / 2 ^ GB).
  { unfold x. rewrite Z.div_div by (try apply Z.pow_pos_nonneg; lia).
    rewrite <- Z.pow_add_r by lia. do 2 f_equal. lia. }
  rewrite Hy.
  assert (Hyr : 0 <= ST / 2 ^ GB < 2 ^ AW).
  { split; [apply Z.div_pos; lia|]. apply Z.div_lt_upper_bound; [lia|].
    rewrite <- Z.pow_add_r by lia. replace (GB + AW) with MW by lia. lia. }
  rewrite pmatch_prefix_iff; rewrite ?Z2Nat.id by lia; try lia.
  - change (Z.of_nat 0) with 0. rewrite Z.pow_0_r, Z.div_1_r. reflexivity.
  - change (Z.of_nat 0) with 0. rewrite Z.add_0_r. lia.
Qed.
