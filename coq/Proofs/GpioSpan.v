(* C16: closed form of the address span of the four GPIO registers, hence of "fits". *)
From Coq Require Import ZArith List Bool Lia ZifyBool.
From Soc Require Import Lib.Bits Lib.Res.
From Soc Require Import Model.Mux Model.MuxSpec Model.Gpio Model.GpioSpec Proofs.ShadowHash Proofs.GpioCtor.
From Soc Require Model.MemSpec.
Import ListNotations.
Open Scope Z_scope.

Lemma ceil_log2_log2_up n : ceil_log2 n = Z.log2_up n.
Proof.
  unfold ceil_log2. destruct (Z.leb_spec n 1); [|reflexivity].
  symmetry. apply Z.log2_up_eqn0. lia.
Qed.

Lemma ceil_log2_mono a b : a <= b -> ceil_log2 a <= ceil_log2 b.
Proof. intros. rewrite !ceil_log2_log2_up. apply Z.log2_up_le_mono. exact H. Qed.

Lemma ceil_log2_double a : 0 < a -> ceil_log2 (2 * a) = ceil_log2 a + 1.
Proof. intros. rewrite !ceil_log2_log2_up. rewrite Z.log2_up_double by exact H. lia. Qed.

(* the 2n-bit registers need the same power-of-two size as the n-bit ones, or twice that *)
Lemma nsize_double dw n : 0 < dw -> 0 < n ->
  nsize dw (2 * n) = nsize dw n \/ nsize dw (2 * n) = 2 * nsize dw n.
Proof.
  intros Hdw Hn. unfold nsize.
  set (a := (n + dw - 1) / dw). set (b := (2 * n + dw - 1) / dw).
  assert (Ha : 1 <= a) by (unfold a; apply Z.div_le_lower_bound; lia).
  assert (Hab : a <= b) by (unfold a, b; apply Z.div_le_mono; lia).
  assert (Hb2 : b <= 2 * a).
  { unfold a, b. pose proof (Z.div_mod (n + dw - 1) dw ltac:(lia)) as E.
    pose proof (Z.mod_pos_bound (n + dw - 1) dw Hdw) as Hm.
    assert ((2 * n + dw - 1) / dw < 2 * ((n + dw - 1) / dw) + 1); [|lia].
    apply Z.div_lt_upper_bound; [lia|]. nia. }
  pose proof (ceil_log2_mono a b Hab) as H1.
  pose proof (ceil_log2_mono b (2 * a) Hb2) as H2.
  rewrite ceil_log2_double in H2 by lia.
  pose proof (ceil_log2_nonneg a) as H0.
  assert (E : ceil_log2 b = ceil_log2 a \/ ceil_log2 b = ceil_log2 a + 1) by lia.
  destruct E as [-> | ->]; [left; reflexivity|right].
  rewrite Z.pow_add_r by lia. lia.
Qed.

Lemma round_up_id x p : 0 < p -> x mod p = 0 -> round_up x p = x.
Proof.
  intros Hp Hx. apply (least_unique p x); [apply round_up_least, Hp|].
  split; [exact Hx|]. split; [lia|]. intros; lia.
Qed.

Lemma mod_mul_l k p : 0 < p -> (k * p) mod p = 0.
Proof. intros. apply Z.mod_mul. lia. Qed.

(* the documented layout in closed form: Mode [0,P), Input [P,P+Q), Output [P+Q,P+2Q), SetClr [S,S+P) with
   S = P+2Q rounded up to a multiple of P, i.e. 3Q when P = Q and 2P when P = 2Q *)
Lemma layout_closed_form dw n : 0 < dw -> 0 < n ->
  let Q := nsize dw n in let P := nsize dw (2 * n) in
  map (fun r => (r_start r, r_stop r)) (natural dw 0 (reg_specs n)) =
  [(0, P); (P, P + Q); (P + Q, P + 2 * Q); (span dw n - P, span dw n)].
Proof.
  intros Hdw Hn. cbv zeta. unfold reg_specs. cbn [natural map r_start r_stop].
  pose proof (nsize_pos dw n) as HQ. pose proof (nsize_pos dw (2 * n)) as HP.
  set (Q := nsize dw n) in *. set (P := nsize dw (2 * n)) in *.
  assert (E0 : round_up 0 P = 0) by (apply round_up_id; [lia|apply Z.mod_0_l; lia]).
  rewrite E0. rewrite Z.add_0_l.
  assert (HPQ : P = Q \/ P = 2 * Q) by (apply nsize_double; assumption).
  assert (E1 : round_up P Q = P).
  { apply round_up_id; [lia|]. destruct HPQ as [-> | ->]; [apply Z.mod_same; lia|apply mod_mul_l; lia]. }
  rewrite E1.
  assert (E2 : round_up (P + Q) Q = P + Q).
  { apply round_up_id; [lia|]. destruct HPQ as [-> | ->].
    - replace (Q + Q) with (2 * Q) by lia. apply mod_mul_l; lia.
    - replace (2 * Q + Q) with (3 * Q) by lia. apply mod_mul_l; lia. }
  rewrite E2.
  replace (P + Q + Q) with (P + 2 * Q) by lia.
  unfold span. fold Q P.
  destruct HPQ as [E | E].
  - rewrite E. rewrite Z.eqb_refl.
    assert (E3 : round_up (Q + 2 * Q) Q = 3 * Q).
    { replace (Q + 2 * Q) with (3 * Q) by lia. apply round_up_id; [lia|apply mod_mul_l; lia]. }
    rewrite E3. replace (4 * Q - Q) with (3 * Q) by lia. replace (3 * Q + Q) with (4 * Q) by lia. reflexivity.
  - replace (P =? Q) with false by lia.
    assert (E3 : round_up (P + 2 * Q) P = 2 * P).
    { replace (P + 2 * Q) with (2 * P) by lia. apply round_up_id; [lia|apply mod_mul_l; lia]. }
    rewrite E3. replace (3 * P - P) with (2 * P) by lia. replace (2 * P + P) with (3 * P) by lia. reflexivity.
Qed.

Lemma forallb_map {A B} (f : A -> B) (g : B -> bool) l : forallb g (map f l) = forallb (fun x => g (f x)) l.
Proof. induction l as [|x l IH]; simpl; [reflexivity|]. rewrite IH. reflexivity. Qed.

(* the peripheral fits iff its closed-form span does: addr_width >= log2 of 4Q resp. 3P rounded up *)
Theorem fits_closed_form p : types_ok p = true ->
  fits p = (span (zof (p_dw p)) (zof (p_pins p)) <=? 2 ^ zof (p_aw p)).
Proof.
  intros Ht. unfold types_ok in Ht.
  assert (Hdw : 0 < zof (p_dw p)) by (destruct (p_dw p); cbn in *; try (rewrite ?andb_false_r in Ht; discriminate); lia).
  assert (Hn : 0 < zof (p_pins p)) by (destruct (p_pins p); cbn in *; try discriminate; lia).
  unfold fits, layout_of.
  pose proof (layout_closed_form (zof (p_dw p)) (zof (p_pins p)) Hdw Hn) as E. cbv zeta in E.
  set (L := natural (zof (p_dw p)) 0 (reg_specs (zof (p_pins p)))) in *.
  transitivity (forallb (fun se : Z * Z => snd se <=? 2 ^ zof (p_aw p)) (map (fun r => (r_start r, r_stop r)) L)).
  { rewrite forallb_map. reflexivity. }
  rewrite E. cbn [forallb snd].
  pose proof (nsize_pos (zof (p_dw p)) (zof (p_pins p))) as HQ.
  pose proof (nsize_pos (zof (p_dw p)) (2 * zof (p_pins p))) as HP.
  destruct (nsize_double (zof (p_dw p)) (zof (p_pins p)) Hdw Hn) as [E2|E2]; unfold span; rewrite E2.
  - rewrite Z.eqb_refl. lia.
  - replace (2 * nsize (zof (p_dw p)) (zof (p_pins p)) =? nsize (zof (p_dw p)) (zof (p_pins p))) with false by lia. lia.
Qed.
